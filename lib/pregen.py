#!/venv/bin/python
"""Regenerates the Coq inputs that are derived from /repo's current working tree (run at the start
of every build): theories/ctrl/PoolSurface.v."""
import os, sys
HERE = os.path.dirname(os.path.abspath(__file__))
sys.path.insert(0, HERE)
import core, gensurface
gensurface.generate(os.path.join(core.COQ, "theories", "ctrl", "PoolSurface.v"), os.path.join(core.REPO, "src"))
