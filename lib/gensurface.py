"""Surface of a pool class as the control parser sees it, by introspection of /repo's code:
members in `inspect.getmembers` order; per parameter its name, kind, default presence and the
*conversion class* its annotation calls for (decided here by the documented rule, independently of
the code; `conv_disagreements` cross-checks it against the code's own `_get_type_from_annotation`).  Rendered (a) as text for the extracted driver, (b) as Coq
(`PoolSurface.v`, regenerated on every run) so that the instantiated obligations are re-checked
against what the code says now."""
from __future__ import annotations

import inspect
import os
import sys

KINDS = {inspect.Parameter.POSITIONAL_OR_KEYWORD: "pos", inspect.Parameter.POSITIONAL_ONLY: "pos",
         inspect.Parameter.VAR_POSITIONAL: "var", inspect.Parameter.KEYWORD_ONLY: "kw",
         inspect.Parameter.VAR_KEYWORD: "varkw"}
COQ_KIND = {"pos": "PPos", "var": "PVarPos", "kw": "PKwOnly", "varkw": "PVarKw"}
COQ_ANN = {"bool": "ABool", "int": "AInt", "float": "AFloat", "str": "AStr",
           "literal": "ALiteral", "path": "APath", "unknown": "AUnknown"}


def code_conv_class(annotation):
    """How the code under test would convert an argument with this annotation (asked of the code
    itself; used only for the cross-check `conv_disagreements`)."""
    from asyncio_taskpool.control import parser as P
    if annotation is bool or annotation == "bool":
        return "bool"
    try:
        w = P._get_type_from_annotation(annotation)
        name = getattr(w, "__name__", "")
    except Exception:
        return "unknown"
    return {"int": "int", "float": "float", "str": "str", "literal_eval": "literal",
            "resolve_dotted_path": "path", "bool": "bool"}.get(name, "unknown")


def conv_class(annotation):
    """The conversion class of a parameter BY ITS ANNOTATION, decided here - independently of the
    code under test - by the documented rule: bool -> flag; int / float / str -> themselves;
    callable annotations (Callable[...], AnyCoroutineFunc, EndCB, CancelCB) -> dotted path;
    argument containers (Iterable[...], Mapping[...], ArgsT, KwArgsT, *.args / *.kwargs) -> Python
    literal; `Optional[X]` / `X | None` like X.  Works on postponed (string) annotations and on
    annotation objects."""
    import re
    if annotation is bool:
        return "bool"
    if isinstance(annotation, type):
        return {int: "int", float: "float", str: "str"}.get(annotation, "unknown")
    if not isinstance(annotation, str):
        from asyncio_taskpool.internals import types as T
        from typing import Iterable, Union, get_args, get_origin
        import types as _types
        if get_origin(annotation) in (Union, getattr(_types, "UnionType", Union)):
            rest = [a for a in get_args(annotation) if a is not type(None)]
            if len(rest) == 1:            # Optional[X] / X | None: like X
                return conv_class(rest[0])
            return "unknown"
        if any(annotation is t for t in (T.AnyCoroutineFunc, T.EndCB, T.CancelCB)):
            return "path"
        if any(annotation is t for t in (T.ArgsT, T.KwArgsT)) or \
                annotation == Iterable[T.ArgsT] or annotation == Iterable[T.KwArgsT]:
            return "literal"
        return "unknown"
    t = annotation.replace(" ", "")
    t = t.replace("|None", "").replace("None|", "")
    m = re.fullmatch(r"Optional\[(.*)\]", t)
    if m:
        t = m.group(1)
    head = t.split("[", 1)[0]
    if head == "Callable" or t in ("AnyCoroutineFunc", "EndCB", "CancelCB"):
        return "path"
    if head in ("Iterable", "Mapping", "ArgsT", "KwArgsT") or t.endswith((".args", ".kwargs")):
        return "literal"
    return {"bool": "bool", "int": "int", "float": "float", "str": "str"}.get(t, "unknown")


def conv_disagreements(cls):
    """Parameters whose conversion class according to the code under test differs from the class
    their annotation calls for: [(member, parameter, by_annotation, by_code)]."""
    out = []
    for name, member in inspect.getmembers(cls):
        if name.startswith("_"):
            continue
        fn = member if inspect.isfunction(member) else (
            member.fset if isinstance(member, property) and member.fset is not None else None)
        if fn is None:
            continue
        for p in inspect.signature(fn).parameters.values():
            if p.name == "self" or p.annotation is p.empty:
                continue
            a, b = conv_class(p.annotation), code_conv_class(p.annotation)
            if a != b:
                out.append((name, p.name, a, b))
    return out


def property_like(cls, name, member):
    """Is the public member a property in the user's sense?  Decided here, independently of the
    code under test (seed G09): `property` objects and any other non-callable descriptor found
    on the class (functools.cached_property, ...)."""
    if isinstance(member, property):
        return True
    raw = inspect.getattr_static(cls, name, None)
    return (raw is not None and not callable(raw) and not isinstance(raw, (staticmethod, classmethod))
            and hasattr(type(raw), "__get__"))


def surface(cls):
    """[(kind, name, params)] with kind in F/P/O; params = [(name, kind, has_default, conv)]"""
    out = []
    for name, member in inspect.getmembers(cls):
        if inspect.isfunction(member):
            ps = []
            for p in inspect.signature(member).parameters.values():
                if p.name == "self":
                    continue
                ps.append((p.name, KINDS[p.kind], p.default is not p.empty, conv_class(p.annotation)))
            out.append(("F", name, ps))
        elif not name.startswith("_") and not isinstance(member, property) and property_like(cls, name, member):
            out.append(("P", name, []))       # read-only as far as the command surface goes
        elif isinstance(member, property):
            if member.fset is not None:
                vals = list(inspect.signature(member.fset).parameters.values())
                p = vals[1]
                out.append(("P", name, [(p.name, KINDS[p.kind], p.default is not p.empty,
                                         conv_class(p.annotation))]))
            else:
                out.append(("P", name, []))
        else:
            out.append(("O", name, []))
    return out


def to_text(surf):
    lines = []
    for kind, name, ps in surf:
        args = " ".join(f"{n}:{k}:{int(d)}:{c}" for n, k, d, c in ps)
        lines.append(f"{kind} {name} {args}".rstrip())
    return lines


def coq_str(s):
    return '"' + s.replace('"', '""') + '"'


def to_coq(ident, surf):
    ms = []
    for kind, name, ps in surf:
        cps = ["{| pa_name := %s; pa_kind := %s; pa_default := %s; pa_ann := %s |}"
               % (coq_str(n), COQ_KIND[k], "true" if d else "false", COQ_ANN[c]) for n, k, d, c in ps]
        if kind == "F":
            ms.append("MFun %s [%s]" % (coq_str(name), "; ".join(cps)))
        elif kind == "P":
            ms.append("MProp %s %s" % (coq_str(name), ("(Some %s)" % cps[0]) if cps else "None"))
        else:
            ms.append("MOther %s" % coq_str(name))
    return "Definition %s : list member :=\n  [ %s ].\n" % (ident, ";\n    ".join(ms))


def expected_public(surf):
    return [name.replace("_", "-") for kind, name, _ in surf if kind in "FP" and not name.startswith("_")]


def generate(path, repo_src):
    if repo_src not in sys.path:
        sys.path.insert(0, repo_src)
    from asyncio_taskpool.pool import SimpleTaskPool, TaskPool
    parts = ["(** GENERATED on every run by lib/gensurface.py from /repo's pool classes (introspection).\n"
             "    The Examples below are the instantiated obligations of C16/C17 for the real classes. *)\n"
             "From TP Require Import CModel CProofs CRound.\nOpen Scope string_scope.\n"]
    for ident, cls in (("taskpool_members", TaskPool), ("simplepool_members", SimpleTaskPool)):
        s = surface(cls)
        parts.append(to_coq(ident, s))
        names = "; ".join(coq_str(n) for n in expected_public(s))
        parts.append(
            f"Example {ident}_wf : wf_surface {ident} = true.\nProof. vm_compute. reflexivity. Qed.\n"
            f"Example {ident}_handshake : handshake_ok {ident} = true.\n"
            f"Proof. apply wf_surface_handshake_ok. exact {ident}_wf. Qed.\n"
            f"Example {ident}_commands : map c_name (build_commands {ident}) = [{names}].\n"
            f"Proof. vm_compute. reflexivity. Qed.\n"
            f"Example {ident}_parse_wf : forallb cmd_parse_wf (build_commands {ident}) = true.\n"
            f"Proof. vm_compute. reflexivity. Qed.\n")
    text = "\n".join(parts)
    old = open(path).read() if os.path.exists(path) else None
    if old != text:
        with open(path, "w") as f:
            f.write(text)
    return text


if __name__ == "__main__":
    print(generate(sys.argv[1], sys.argv[2] if len(sys.argv) > 2 else "/repo/src"))
