"""Lockstep correspondence engine: the same label sequences are run on the implementation (Python
harness, real asyncio objects) and on the extracted Coq model (OCaml driver); observation lines are
compared label by label; the extracted monitor is evaluated on both streams."""
from __future__ import annotations

import multiprocessing as mp
import os
import sys
import traceback

from core import VERIF, REPO, NCPU, run_driver, split_traces


def _init_worker():
    sys.path.insert(0, os.path.join(VERIF, "harness"))
    src = os.path.join(REPO, "src")
    if src in sys.path:
        sys.path.remove(src)
    sys.path.insert(0, src)
    import logging
    logging.getLogger("asyncio_taskpool").addHandler(logging.NullHandler())
    logging.getLogger("asyncio").addHandler(logging.NullHandler())
    logging.getLogger("asyncio_taskpool").propagate = False
    logging.getLogger("asyncio").propagate = False


def _work(job):
    """job = (module, function, kwargs) -> list of trace dicts {id, lines, meta}"""
    mod, fn, kw = job
    try:
        m = __import__(mod)
        return getattr(m, fn)(**kw)
    except Exception:
        return [{"id": f"harness-error-{kw.get('seed', 0)}", "lines": [],
                 "error": traceback.format_exc()}]


def run_jobs(jobs, timeout=3000):
    """Run harness jobs in worker processes (fresh interpreter state per process).  A hard limit
    on the whole batch: a hung worker must not hang the check."""
    if not jobs:
        return []
    ctx = mp.get_context("fork")
    with ctx.Pool(min(NCPU, len(jobs)), initializer=_init_worker) as pool:
        try:
            res = pool.map_async(_work, jobs, chunksize=1).get(timeout=timeout)
        except mp.TimeoutError:
            pool.terminate()
            return [{"id": "harness-timeout", "lines": [], "fails": [],
                     "error": f"harness jobs did not finish within {timeout}s"}]
    out = []
    for r in res:
        out.extend(r)
    return out


def compare(model_name, pid, traces, chunk=400):
    """traces: list of {id, lines:[ 'label ; obs' ]}.  Returns per-trace verdict dicts:
       {id, n, diverge: None | (index, impl_obs, model_obs), impl_mon: None | (index, clause),
        model_mon: None | (index, clause), error}"""
    results = []
    ids = [t["id"] for t in traces]
    if len(set(ids)) != len(ids):
        dup = sorted({i for i in ids if ids.count(i) > 1})[:3]
        raise RuntimeError(f"harness bug: duplicate trace ids {dup} (traces are keyed by id)")
    for k in range(0, len(traces), chunk):
        part = traces[k:k + chunk]
        text = "\n".join("#" + t["id"] + "\n" + "\n".join(t["lines"]) for t in part) + "\n"
        model_out = split_traces(run_driver([model_name, "model"], text))
        mon_impl = split_traces(run_driver([model_name, "monitor", pid], text))
        # monitor on the model's own stream (must always pass: that is the theorem)
        mtext = []
        for t in part:
            mo = [x for x in model_out.get("#" + t["id"], []) if not x.startswith("@")]
            hdr = [ln for ln in t["lines"] if ";" not in ln]
            labs = [ln.split(";", 1)[0].strip() for ln in t["lines"] if ";" in ln]
            mtext.append("#" + t["id"] + "\n" + "\n".join(hdr + [f"{l} ; {o}" for l, o in zip(labs, mo)]))
        mon_model = split_traces(run_driver([model_name, "monitor", pid], "\n".join(mtext) + "\n"))
        for t in part:
            h = "#" + t["id"]
            r = {"id": t["id"], "n": len(t["lines"]), "diverge": None, "impl_mon": None,
                 "model_mon": None, "error": t.get("error")}
            mo_all = model_out.get(h, [])
            r["model_info"] = [x for x in mo_all if x.startswith("@")]
            mo = [x for x in mo_all if not x.startswith("@")]
            if mo and mo[-1].startswith("ERROR"):
                r["error"] = "model driver: " + mo[-1]
            else:
                for i, ln in enumerate([ln for ln in t["lines"] if ";" in ln]):
                    io = ln.split(";", 1)[1].strip()
                    if i >= len(mo) or mo[i].strip() != io:
                        r["diverge"] = (i, io, mo[i].strip() if i < len(mo) else "<none>")
                        break
            for key, src in (("impl_mon", mon_impl), ("model_mon", mon_model)):
                v = src.get(h, ["OK"])
                v = v[-1] if v else "OK"
                if v.startswith("FAIL"):
                    w = v.split()
                    r[key] = (int(w[1]), " ".join(w[2:]))
                elif v.startswith("ERROR"):
                    r["error"] = (r["error"] or "") + f" {key}: {v}"
            results.append(r)
    return results
