"""C19 (M3): control server lifecycle over real sockets."""
from __future__ import annotations

import collections
import contextlib
import json
import os
import random
import time

import core
import lockstep

SOURCES = ["src/asyncio_taskpool/control/server.py", "src/asyncio_taskpool/control/session.py",
           "src/asyncio_taskpool/control/client.py", "src/asyncio_taskpool/control/__main__.py"]
PROOF = {"C19": {"module": "Thm_C19",
                 "theorems": ["C19_serving_until_stop", "C19_clients_served", "C19_disconnect_is_local",
                              "C19_stop", "C19_socket_file", "C19_restart",
                              "C19_pending_handshake_is_local", "C19_stop_completes",
                              "C19_stop_waits_for_waiting_session", "C19_stop_no_overlap",
                              "C19_stop_completes_when_pool_closed", "C19_every_run_completes",
                              "C19_close_pool_releases", "C19_overlapping_restart",
                              "C19_tcp_overlap_harmless", "C19_unix_overlap_loses_socket"],
                 "files": ["srv/SModel.v", "srv/SProofs.v", "srv/SStop.v", "srv/Thm_C19.v"]}}
TRUSTED = [
    "Coq 8.16.1 kernel (coqc; coqchk in the thorough tier); no native_compute",
    "extraction to OCaml (ExtrOcamlBasic, ExtrOcamlString for the control model; no Extract Constant); ocaml/sdriver.ml",
    "harness/srvrun.py: real TCP/Unix servers and clients under the default selector loop, the CLI "
    "client as a subprocess; bounded waits (VERIF_SRV_TIMEOUT, default 2 s per label)",
    "hand-written model theories/srv/SModel.v of the lifecycle logic on top of asyncio's stream-server "
    "contract (close stops listening; wait_closed waits for all accepted connections, CPython 3.12.1)",
]
ASSUMPTIONS = [
    "kernel sockets, the selector event loop and real time are not modelled: a hang shows as a bounded-wait "
    "timeout where the model predicts completion",
    "each label is followed by the system settling (the model is not a model of in-flight bytes)",
]


def gen_churn(rng, max_len):
    """A population of clients that come and go (seed G16: bookkeeping per connection must not
    confuse a later client with an earlier one): the oldest live client leaves, a new one connects,
    every live client keeps being served."""
    labels = ["start"]
    live, nconn = [], 0
    for _ in range(rng.randint(2, 3)):
        labels.append("connect"); live.append(nconn); nconn += 1
    while len(labels) < max_len:
        x = rng.random()
        if x < 0.3 and live:
            labels.append(f"leave {live.pop(0 if rng.random() < 0.7 else rng.randrange(len(live)))}")
        elif x < 0.55:
            labels.append("connect"); live.append(nconn); nconn += 1
        elif live:
            labels.append(f"send {rng.choice(live)}")
    for c in live:
        labels.append(f"send {c}")
    labels.append("stop")
    rng.shuffle(live)
    for c in live:
        labels.append(f"leave {c}")
    return labels


def gen_overlap(rng, max_len):
    """Runs that overlap: the server is started again while the cancelled task of the previous run
    still waits for lingering clients (some of them inside a waiting command); old and new
    clients are served side by side; the pool may get closed on the way."""
    labels = ["start"]
    live, nconn, closed = [], 0, False
    for _ in range(rng.randint(1, 2)):
        labels.append("connect"); live.append(nconn); nconn += 1
    if rng.random() < 0.4:
        labels.append(f"sendwait {rng.choice(live)}")
    labels += ["stop", "start"]
    stopped = False
    while len(labels) < max_len:
        x = rng.random()
        if x < 0.2:
            labels.append("connect"); live.append(nconn); nconn += 1
        elif x < 0.5 and live:
            labels.append(f"send {rng.choice(live)}")
        elif x < 0.7 and live:
            labels.append(f"{rng.choice(['leave', 'leave', 'abort'])} {live.pop(rng.randrange(len(live)))}")
        elif x < 0.78 and not closed:
            labels.append("closepool"); closed = True
        elif x < 0.9:
            labels.append("start" if stopped else "stop"); stopped = not stopped
        elif live:
            labels.append(f"sendwait {rng.choice(live)}")
    if not stopped:
        labels.append("stop")
    for c in live:
        labels.append(rng.choice([f"leave {c}", f"send {c}"]))
    if not closed and rng.random() < 0.5:
        labels.append("closepool")
    return labels


def gen_labels(rng, max_len):
    x = rng.random()
    if x < 0.25:
        return gen_churn(rng, max_len + 4)
    if x < 0.4:
        return gen_overlap(rng, max_len + 4)
    labels = ["start"] if rng.random() < 0.9 else []
    nconn, stopped = 0, False
    pending = []      # connections opened whose handshake line was not sent yet
    n = rng.randint(3, max_len)
    while len(labels) < n:
        x = rng.random()
        if x < 0.06:
            labels.append("connectbad"); nconn += 1
        elif x < 0.14:
            labels.append("open"); nconn += 1; pending.append(nconn - 1)
        elif x < 0.22 and pending:
            labels.append(f"hello {pending.pop(rng.randrange(len(pending)))}")
        elif x < 0.3:
            labels.append("connect"); nconn += 1
        elif x < 0.50 and nconn:
            labels.append(f"send {rng.randrange(nconn)}")
        elif x < 0.58 and nconn:
            # a command whose method waits (until-closed): the session stays inside it (open
            # finding D12: a stop then cannot complete even after that client has left)
            labels.append(f"sendwait {rng.randrange(nconn)}")
        elif x < 0.70 and nconn:
            labels.append(f"leave {rng.randrange(nconn)}")
        elif x < 0.75 and nconn:
            labels.append(f"abort {rng.randrange(nconn)}")
        elif x < 0.78 and nconn and "closepool" not in labels:
            # the pool is closed from outside: waiting commands return (and a stop that was held
            # up by a session inside one can complete)
            labels.append("closepool")
        elif x < 0.9 and not stopped:
            labels.append("stop"); stopped = True
        elif x < 0.93:
            # a start while the server runs is a no-op for the harness; after a stop it is a
            # new run of the same server object - also while the cancelled task of the previous
            # run still waits for lingering clients (overlap)
            labels.append("start")
            if stopped:
                stopped = False
        else:
            labels.append("connect"); nconn += 1
    if not stopped and rng.random() < 0.8:
        labels.append("stop")
        for c in range(nconn):
            if rng.random() < 0.8:
                labels.append(rng.choice([f"leave {c}", f"send {c}"]))
    return labels


def model(kind, labels):
    out = core.run_driver(["srv", "model"], "#t\nkind " + kind + "\n" + "\n".join(labels) + "\n")
    return [ln for ln in out.split("\n") if ln and not ln.startswith("#")]


def mask_cli(line, clients_kind):
    head, conns = line.rsplit("conns=", 1)
    if conns == "-":
        return line
    out = []
    for j, c in enumerate(conns.split(",")):
        o, s, r = c.split(":")
        if j < len(clients_kind) and clients_kind[j] == "cli":
            s = "?"
        out.append(f"{o}:{s}:{r}")
    return head + "conns=" + ",".join(out)


def job_scn(kind, labels, clients_kind, name):
    import srvrun
    exp = model(kind, labels)
    if exp and exp[-1].startswith("ERROR"):
        return [{"id": name, "error": "model driver: " + exp[-1], "fails": []}]
    exp = [mask_cli(e, clients_kind) for e in exp]
    lines, notes = srvrun.run_scenario(kind, labels, exp, clients_kind, os.path.join(core.REPO, "src"))
    fails = []
    observations = []
    for i, (ln, want) in enumerate(zip(lines, exp)):
        got = ln.split(";", 1)[1].strip()
        if got != want:
            d = {"what": "observation differs from the verified lifecycle model", "index": i,
                 "label": labels[i], "implementation": got, "model": want}
            if kind == "unix" and "overlap=1" in want:
                # a Unix server started again while its previous run still drains: every run's
                # final callback removes the same socket path.  The model mirrors what the code
                # does there (DESIGN I.4), but C19 does not say what should happen: a difference
                # is recorded as an observation, not judged
                d["what"] = "(not judged) behaviour after an overlapping restart of a Unix server differs from the model"
                observations.append(d)
            else:
                fails.append(d)
            break
    for n in notes:
        fails.append({"what": n})
    return [{"id": name, "kind": kind, "labels": labels, "clients": clients_kind, "lines": lines,
             "fails": fails, "checks": len(lines), "observations": observations}]


def job_random(seed, count, max_len, cli_every):
    rng = random.Random(seed)
    res = []
    for i in range(count):
        kind = rng.choice(["unix", "tcp"])
        labels = gen_labels(rng, max_len)
        # the kinds are indexed by *accepted* connection (a refused attempt creates none): which
        # attempts are accepted is read off the model's own run
        exp = model(kind, labels)
        conns, prev = [], 0
        for l, e in zip(labels, exp):
            c = e.rsplit("conns=", 1)[1]
            n = 0 if c == "-" else len(c.split(","))
            if n > prev:
                conns.append("raw-only" if l == "open" else l)
            prev = n
        first = next((j for j, l in enumerate(conns) if l == "connect"), None)
        if cli_every and (i % cli_every == 0) and first is not None:
            # waiting commands are sent through raw clients only (the CLI would block on its reply
            # and could not be told to leave)
            labels = [l for l in labels if l not in (f"sendwait {first}", f"abort {first}")]
        ck = ["cli" if (cli_every and (i % cli_every == 0) and j == first) else "raw"
              for j in range(len(conns))]
        res.extend(job_scn(kind, labels, ck, f"rand-{seed}-{i}"))
    return res


def job_cli_slow(kind, wait_s):
    """The bundled CLI client and a command the server takes long to answer (seed G17): every
    command typed at the prompt is answered under that prompt with its own reply, however long the
    pool method waits - `gather-and-close` while a task still needs `wait_s` seconds.  A direct
    check on the implementation with real time; the model has no clock (what it says is only that
    each line gets exactly its own reply: C18_one_reply_per_line / C19_clients_served)."""
    import asyncio
    import re
    import shutil
    import sys
    import tempfile
    import srvrun
    from asyncio_taskpool.control.server import TCPControlServer, UnixControlServer
    from asyncio_taskpool.pool import TaskPool
    fails, seen = [], []
    # ... and a reply may be empty (a spawn request on a closed pool: PoolIsClosed carries no
    # message): it is a reply like any other, the client goes on (seed H19)
    want = [("is-locked", "False"), ("num-running", "1"), ("gather-and-close", "ok"), ("is-locked", "True"),
            ("apply asyncio.sleep -a (0,)", ""), ("num-running", "0"), ("map asyncio.sleep [0]", ""),
            ("is-full", "False"),
            # what the user types reaches the server as typed (apart from case): a non-ASCII
            # lower-case letter in an argument (seed J08); "~x" = the reply contains x
            ("cancel-group stra\u00dfe", "~stra\u00dfe"), ("num-running", "0")]

    async def work():
        await asyncio.sleep(wait_s)

    async def go():
        pool = TaskPool(name="slowpool")
        tmp = tempfile.mkdtemp(prefix="verif-c19s-")
        env = dict(os.environ)
        env["PYTHONPATH"] = os.path.join(core.REPO, "src")
        env["PYTHONUTF8"] = "1"          # the terminal of the CLI user speaks UTF-8
        env["PYTHONIOENCODING"] = "utf-8"
        if kind == "unix":
            path = os.path.join(tmp, "s.sock")
            server, args = UnixControlServer(pool, socket_path=path), ["unix", path]
        else:
            port = srvrun.free_port()
            server, args = TCPControlServer(pool, host="127.0.0.1", port=port), ["tcp", "127.0.0.1", str(port)]
        task = await server.serve_forever()
        pool.apply(work)
        proc = await asyncio.create_subprocess_exec(
            sys.executable, "-m", "asyncio_taskpool.control", *args, stdin=asyncio.subprocess.PIPE,
            stdout=asyncio.subprocess.PIPE, stderr=asyncio.subprocess.DEVNULL, env=env)
        out = ""

        def replies():
            # the client prints each reply (and a newline) and then the next prompt at the start
            # of a line: reply i is what stands between prompt i and prompt i+1
            segs = re.split(r"(?m)^> ", out)[1:]
            return [x.strip("\n") for x in segs[:-1]]
        try:
            for i, (cmd, exp) in enumerate(want):
                proc.stdin.write(cmd.encode() + b"\n")
                await proc.stdin.drain()
                deadline = asyncio.get_running_loop().time() + wait_s + 6
                while len(replies()) <= i and asyncio.get_running_loop().time() < deadline:
                    try:
                        data = await asyncio.wait_for(proc.stdout.read(65536), 0.2)
                    except asyncio.TimeoutError:
                        continue
                    if not data:
                        break
                    out += data.decode(errors="replace")
                got = replies()
                seen.append((cmd, got[i] if len(got) > i else None))
                if len(got) <= i:
                    fails.append({"what": f"the CLI client showed no reply to '{cmd}' within {wait_s + 6:.0f}s "
                                          f"(the pool method needs {wait_s:.0f}s)", "transcript": out[-400:]})
                    break
                if (exp[1:] not in got[i]) if exp.startswith("~") else (got[i].strip() != exp):
                    fails.append({"what": f"the CLI client showed '{got[i]}' under '{cmd}', its reply is '{exp}'",
                                  "transcript": out[-400:]})
                    break
        finally:
            with contextlib.suppress(Exception):
                proc.kill()
            task.cancel()
            with contextlib.suppress(BaseException):
                await asyncio.wait_for(task, 2)
            shutil.rmtree(tmp, ignore_errors=True)

    loop = asyncio.new_event_loop()
    asyncio.set_event_loop(loop)
    try:
        loop.run_until_complete(asyncio.wait_for(go(), wait_s * 2 + 40))
    except Exception as e:
        fails.append({"what": "slow-reply scenario did not finish: " + repr(e)})
    finally:
        for t in asyncio.all_tasks(loop):
            t.cancel()
        with contextlib.suppress(BaseException):
            loop.run_until_complete(asyncio.wait_for(asyncio.sleep(0.05), 1))
        asyncio.set_event_loop(None)
        with contextlib.suppress(BaseException):
            loop.close()
    return [{"id": f"cli-slow-{kind}-{wait_s}", "kind": kind, "labels": [f"cli-slow {wait_s}"], "clients": ["cli"],
             "lines": [f"{c} -> {r}" for c, r in seen], "fails": fails, "checks": len(seen), "slow": wait_s}]


CORPUS = [
    ("unix", ["start", "connect", "send 0", "leave 0", "stop"], ["raw"]),
    ("tcp", ["start", "connect", "send 0", "leave 0", "stop"], ["raw"]),
    # D9: the stop arrives while a client is connected; it completes once the client has gone
    ("unix", ["start", "connect", "stop", "connect", "leave 0"], ["raw"]),
    ("tcp", ["start", "connect", "connect", "stop", "send 0", "leave 1", "connect"], ["raw", "raw"]),
    # the client left *before* the stop (D9's second half)
    ("unix", ["start", "connect", "send 0", "send 0", "leave 0", "stop", "connect"], ["raw"]),
    ("unix", ["start", "stop", "connect"], []),
    # a client that never completes the handshake harms nobody
    ("unix", ["start", "connectbad", "connect", "connectbad", "send 1", "stop", "leave 1"], ["raw", "raw", "raw"]),
    ("tcp", ["start", "connect", "connectbad", "send 0", "stop", "connectbad", "leave 0"], ["raw", "raw", "raw"]),
    # the bundled CLI client, leaving by 'exit' and by EOF
    ("unix", ["start", "connect", "send 0", "leave 0", "stop"], ["cli"]),
    ("tcp", ["start", "connect", "send 0", "send 0", "stop", "leave 0"], ["cli"]),
    ("unix", ["start", "connect", "connect", "send 1", "stop", "leave 0", "send 1"], ["cli", "raw"]),
    # overlapping handshakes: a second client connects (and is served) while the first one's
    # session still waits for its handshake line
    ("unix", ["start", "open", "connect", "send 1", "hello 0", "send 0", "send 1", "stop", "leave 0", "leave 1"],
     ["raw", "raw"]),
    ("tcp", ["start", "open", "open", "connect", "hello 1", "send 1", "send 2", "hello 0", "send 0", "stop",
             "send 2", "leave 0", "leave 1"], ["raw", "raw", "raw"]),
    ("tcp", ["start", "open", "stop", "connect", "hello 0", "send 0"], ["raw"]),
    # open finding D12: a client sends a waiting command and leaves; the stop then never completes
    ("tcp", ["start", "connect", "sendwait 0", "leave 0", "stop", "connect"], ["raw"]),
    ("unix", ["start", "connect", "connect", "sendwait 1", "send 0", "leave 1", "stop", "leave 0", "send 1"],
     ["raw", "raw"]),
    # ... whereas a connection reset takes the transport with it
    ("tcp", ["start", "connect", "sendwait 0", "abort 0", "stop", "connect"], ["raw"]),
    ("unix", ["start", "connect", "connect", "send 0", "abort 0", "send 1", "stop", "abort 1"], ["raw", "raw"]),
    # clients come and go: a later client must not be mistaken for an earlier one (seed G16)
    ("unix", ["start", "connect", "connect", "leave 0", "connect", "leave 1", "send 2", "send 2", "stop", "leave 2"],
     ["raw", "raw", "raw"]),
    ("tcp", ["start", "connect", "connect", "connect", "leave 1", "connect", "leave 0", "send 3", "leave 2", "send 3",
             "connect", "send 4", "stop", "leave 3", "leave 4"], ["raw", "raw", "raw", "raw", "raw"]),
    # D12 continued: once the pool is closed the waiting command returns, the session whose client
    # has gone ends, and the stop completes
    ("tcp", ["start", "connect", "sendwait 0", "leave 0", "stop", "closepool", "connect"], ["raw"]),
    ("unix", ["start", "connect", "connect", "sendwait 0", "sendwait 1", "leave 0", "stop", "closepool", "send 1",
              "leave 1"], ["raw", "raw"]),
    ("unix", ["start", "connect", "closepool", "sendwait 0", "send 0", "stop", "leave 0"], ["raw"]),
    # a new run while the cancelled task of the previous one still waits for a lingering client:
    # the old client keeps being served (is_serving() speaks about the latest run), both tasks
    # complete when their clients have gone
    ("tcp", ["start", "connect", "stop", "start", "connect", "send 0", "send 0", "send 1", "leave 0", "connect",
             "stop", "send 1", "send 2"], ["raw", "raw", "raw"]),
    ("tcp", ["start", "connect", "sendwait 0", "stop", "start", "connect", "stop", "leave 1", "start", "closepool",
             "send 0", "stop", "leave 0"], ["raw", "raw"]),
    # ... on a Unix socket the old run's final callback then removes the new run's socket file
    # (mirrored by the model, not judged)
    ("unix", ["start", "connect", "stop", "start", "connect", "send 0", "leave 0", "connect", "send 1", "stop",
              "leave 1"], ["raw", "raw"]),
    # a second serve_forever() while serving (TCP: the port is taken) changes nothing
    ("tcp", ["start", "connect", "start", "send 0", "connect", "send 1", "send 0", "stop", "leave 0", "leave 1"],
     ["raw", "raw"]),
    # restart of the same server object after a completed stop
    ("unix", ["start", "connect", "stop", "leave 0", "start", "connect", "send 1", "stop", "send 1", "connect"],
     ["raw", "raw"]),
    ("tcp", ["start", "stop", "start", "connect", "send 0", "stop", "leave 0", "start", "connect", "send 1"],
     ["raw", "raw"]),
]


def jobs(tier, seed):
    js = [("prop_srv", "job_scn", {"kind": k, "labels": l, "clients_kind": c, "name": f"corpus-{i}"})
          for i, (k, l, c) in enumerate(CORPUS)]
    # the CLI client under a slow server (first, so that the wait overlaps everything else)
    js.insert(0, ("prop_srv", "job_cli_slow", {"kind": "unix" if seed % 2 else "tcp",
                                               "wait_s": 6.0 if tier == "quick" else 33.0}))
    n, cnt = (12, 3) if tier == "quick" else (48, 8)
    for k in range(n):
        js.append(("prop_srv", "job_random", {"seed": seed * 31 + k, "count": cnt, "max_len": 12,
                                              "cli_every": 4 if tier == "quick" else 3}))
    return js


def main(pid, tier, seed, replay):
    t0 = time.time()
    problems, pinfo = core.proof_status(PROOF.get(pid), tier)
    recs = []
    if os.path.exists(core.DRIVER):
        if replay:
            j = json.load(open(replay))
            js = [("prop_srv", j.get("job", "job_scn"), j["kwargs"])]
        else:
            js = jobs(tier, seed)
        recs = lockstep.run_jobs(js, timeout=900)
    else:
        problems.append("extracted driver missing: correspondence could not run")
    errors = [r for r in recs if r.get("error")]
    failing = [r for r in recs if r.get("fails")]
    exit_code = 0
    if failing:
        # confirm (real time is involved): a failing scenario must fail again on its own
        confirmed = []
        lockstep._init_worker()
        for r in failing[:4]:
            if r.get("slow"):
                again = job_cli_slow(r["kind"], r["slow"])[0]
            else:
                again = job_scn(r["kind"], r["labels"], r["clients"], r["id"] + "-again")[0]
            if again.get("fails"):
                confirmed.append(again)
        failing = confirmed
    if failing:
        r = min(failing, key=lambda r: len(r["labels"]))
        path = core.write_replay(pid, "violation.json", {
            "property": pid, "kind": "implementation-differs-from-verified-model", "failure": r["fails"][0],
            "trace": r["lines"], "found_in": r["id"],
            "job": "job_cli_slow" if r.get("slow") else "job_scn",
            "kwargs": ({"kind": r["kind"], "wait_s": r["slow"]} if r.get("slow") else
                       {"kind": r["kind"], "labels": r["labels"], "clients_kind": r["clients"], "name": "replay"}),
            "how_to_replay": f"./check {pid} --replay <this file>"})
        print(f"VIOLATION property={pid} replay={path}")
        exit_code = 1
    elif problems or errors:
        path = core.write_replay(pid, "unproved.json", {
            "property": pid, "kind": "proof-or-correspondence-broken", "proof_problems": problems,
            "harness_errors": [e.get("error", "")[-1500:] for e in errors[:3]]})
        print(f"VIOLATION property={pid} replay={path} no-failing-input-found")
        exit_code = 1
    # open known findings: the verified model mirrors the behaviour (theorem
    # C19_stop_waits_for_waiting_session), so such scenarios pass the comparison; they are counted
    # and reported on every run
    def shows_d12(r):
        ls = r.get("lines") or []
        if r.get("fails") or not ls or "stop" not in r.get("labels", []):
            return False
        labs = r["labels"]
        waited = {l.split()[1] for l in labs if l.startswith("sendwait ")}
        if not waited:
            return False
        last = ls[-1].split(";", 1)[1]
        conns = last.rsplit("conns=", 1)[1].strip()
        gone = conns != "-" and all(c.split(":")[0] == "0" for c in conns.split(","))
        return "done=0" in last and gone
    for f in core.load_known_findings()["findings"]:
        if f["property"] == pid and f["status"] == "open":
            n = sum(1 for r in recs if shows_d12(r))
            print(f"KNOWN-FINDING: property={pid} {f['what_fails']}" + (f" (reproduced {n}x in this run)" if n else ""))
    hist = collections.Counter()
    for r in recs:
        for l in r.get("labels", []):
            hist[l.split()[0]] += 1
        for c in r.get("clients", []):
            hist["client:" + c] += 1
        hist["transport:" + r.get("kind", "?")] += 1
    distinct = len({(r.get("kind"), tuple(r.get("labels", [])), tuple(r.get("clients", []))) for r in recs
                    if "stop" in r.get("labels", []) and "connect" in r.get("labels", [])})
    cov = {
        "obligations": max(pinfo["obligations"], 1), "discharged": pinfo["discharged"] if not problems else 0,
        "checker_cmd": "coq_makefile -f _CoqProject -o Makefile && make (coqc 8.16.1, full .vo build)"
                       + ("; coqchk -o" if tier == "thorough" else "") + "; Print Assumptions <theorem>",
        "trusted_base": TRUSTED, "theorems": pinfo["theorems"], "proof_problems": problems,
        "coqchk": pinfo.get("coqchk", "not run in the quick tier"),
        "evaluations": len(recs), "distinct_nontrivial": distinct,
        "rule": "one evaluation = one label sequence (start/connect/connectbad/open/hello/send/sendwait/leave/abort/stop/closepool, "
                "restarts also while the previous run still drains) against a real TCP or "
                "Unix server with raw and CLI clients; non-trivial = contains a connect and a stop; distinct = "
                "distinct (transport, labels, client kinds)",
        "traces_validated_against_impl": len([r for r in recs if not r.get("error")]),
        "labels_executed": sum(r.get("checks", 0) for r in recs), "label_histogram": dict(hist),
        "failing_scenarios": len(failing), "harness_errors": len(errors),
        "scenarios_with_overlapping_runs": len([r for r in recs if any("overlap=1" in ln for ln in r.get("lines") or [])]),
        "not_judged_differences_after_unix_overlap": len([r for r in recs if r.get("observations")]),
        "samples": [r.get("lines") for r in recs[:2]] + [r.get("lines") for r in recs[-1:]],
    }
    core.write_evidence(pid, tier, seed, cov, ASSUMPTIONS, time.time() - t0,
                        len(failing) + (1 if exit_code and not failing else 0))
    return exit_code
