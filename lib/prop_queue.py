"""C20 (M4): queue context manager."""
from __future__ import annotations

import glob
import json
import os
import random

from core import VERIF

MODEL = "queue"
PROOF = {
    "C20": {"module": "Thm_C20", "theorems": ["C20", "C20_join_eventually_returns"],
            "files": ["base/Base.v", "queue/QModel.v", "queue/Mon_C20.v", "queue/QProofs.v",
                      "queue/QLive.v", "queue/QLiveMeasure.v", "queue/QLiveInv.v", "queue/QLiveThm.v",
                      "queue/Thm_C20.v"]},
}
SOURCES = ["src/asyncio_taskpool/queue_context.py"]


def corpus(pid):
    out = []
    for p in sorted(glob.glob(os.path.join(VERIF, "corpus", pid, "*.json"))):
        d = json.load(open(p))
        out.append((os.path.basename(p)[:-5], d["labels"]))
    return out


def job_corpus(pid, seed=0):
    import queuerun
    res = []
    for name, labels in corpus(pid):
        res.append({"id": f"corpus-{name}", "lines": queuerun.run_trace(labels), "kind": "corpus"})
    return res


def job_random(pid, seed, count, max_len):
    import queuerun
    rng = random.Random(seed)
    res = []
    for i in range(count):
        labels, lines = queuerun.gen_trace(rng, max_len)
        res.append({"id": f"rand-{seed}-{i}", "lines": lines, "kind": "random"})
    return res


def job_replay(pid, labels, seed=0):
    import queuerun
    return [{"id": "replay", "lines": queuerun.run_trace(labels), "kind": "replay"}]


def jobs(pid, tier, seed):
    n_jobs, per_job, max_len = (16, 40, 60) if tier == "quick" else (64, 400, 120)
    js = [("prop_queue", "job_corpus", {"pid": pid})]
    for k in range(n_jobs):
        js.append(("prop_queue", "job_random",
                   {"pid": pid, "seed": seed * 100003 + k, "count": per_job, "max_len": max_len}))
    return js


def label_kind(label):
    return label.split()[0]


def nontrivial(lines):
    """A trace is non-trivial if at least one block was entered and left."""
    return any("exit:" in ln for ln in lines)


def extra_checks(pid, tier, seed):
    """C20 outside the model's label domain (there a consumer holds at most one item at a time):
    one task holding several items of the same queue at once - nested `async with queue` blocks
    and an AsyncExitStack - must mark each of them exactly once, whatever way the blocks are left;
    join() then returns."""
    import asyncio
    import contextlib
    import lockstep
    lockstep._init_worker()
    from asyncio_taskpool.queue_context import Queue
    fails = []

    class Boom(BaseException):
        pass

    async def scenario(name, body, n_items, maxsize=0):
        q = Queue(maxsize=maxsize)
        for i in range(n_items):
            q.put_nowait(i)
        joiners = [asyncio.ensure_future(q.join()) for _ in range(2)]
        t = asyncio.ensure_future(body(q))
        await asyncio.wait({t}, timeout=2)
        for _ in range(20):
            await asyncio.sleep(0)
        done = [j.done() for j in joiners]
        if not all(done) or q.qsize() != 0:
            fails.append({"what": "join() did not return although every item was taken and every "
                                  "block exited", "scenario": name, "joiners_done": done,
                          "qsize": q.qsize()})
        extra = None
        try:
            q.task_done()
        except ValueError:
            pass
        else:
            extra = "an item was left unmarked (task_done() still accepted)"
        if extra and all(done):
            fails.append({"what": extra, "scenario": name})
        for j in joiners:
            j.cancel()
        t.cancel()

    async def nested(q):
        async with q as a:
            async with q as b:
                async with q as c:
                    await asyncio.sleep(0)
        return a, b, c

    async def nested_raise(q):
        with contextlib.suppress(Boom, ValueError):
            async with q as a:
                with contextlib.suppress(ValueError):
                    async with q as b:
                        raise ValueError(b)
                raise Boom(a)

    async def stack(q):
        async with contextlib.AsyncExitStack() as st:
            for _ in range(3):
                await st.enter_async_context(q)
            await asyncio.sleep(0)

    async def loop_and_nest(q):
        for _ in range(2):
            async with q as a:
                async with q as b:
                    await asyncio.sleep(0)

    async def go():
        await scenario("nested x3", nested, 3)
        await scenario("nested, inner ValueError, outer BaseException", nested_raise, 2)
        await scenario("AsyncExitStack x3", stack, 3, maxsize=3)
        await scenario("two rounds of nested x2", loop_and_nest, 4)

    asyncio.run(go())
    return fails
