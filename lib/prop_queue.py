"""C20 (M4): queue context manager."""
from __future__ import annotations

import glob
import json
import os
import random

from core import VERIF

MODEL = "queue"
PROOF = {
    "C20": {"module": "Thm_C20", "theorems": ["C20", "C20_join_eventually_returns"],
            "files": ["base/Base.v", "queue/QModel.v", "queue/Mon_C20.v", "queue/QProofs.v",
                      "queue/QLive.v", "queue/QLiveMeasure.v", "queue/QLiveInv.v", "queue/QLiveThm.v",
                      "queue/Thm_C20.v"]},
}
SOURCES = ["src/asyncio_taskpool/queue_context.py"]


def corpus(pid):
    out = []
    for p in sorted(glob.glob(os.path.join(VERIF, "corpus", pid, "*.json"))):
        d = json.load(open(p))
        out.append((os.path.basename(p)[:-5], d["labels"]))
    return out


def job_corpus(pid, seed=0):
    import queuerun
    res = []
    for name, labels in corpus(pid):
        res.append({"id": f"corpus-{name}", "lines": queuerun.run_trace(labels), "kind": "corpus"})
    return res


def job_random(pid, seed, count, max_len):
    import queuerun
    rng = random.Random(seed)
    res = []
    for i in range(count):
        labels, lines = queuerun.gen_trace(rng, max_len)
        res.append({"id": f"rand-{seed}-{i}", "lines": lines, "kind": "random"})
    return res


def job_replay(pid, labels, seed=0):
    import queuerun
    return [{"id": "replay", "lines": queuerun.run_trace(labels), "kind": "replay"}]


def jobs(pid, tier, seed):
    n_jobs, per_job, max_len = (16, 40, 60) if tier == "quick" else (64, 400, 120)
    js = [("prop_queue", "job_corpus", {"pid": pid})]
    for k in range(n_jobs):
        js.append(("prop_queue", "job_random",
                   {"pid": pid, "seed": seed * 100003 + k, "count": per_job, "max_len": max_len}))
    return js


def label_kind(label):
    return label.split()[0]


def nontrivial(lines):
    """A trace is non-trivial if at least one block was entered and left."""
    return any("exit:" in ln for ln in lines)
