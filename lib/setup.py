#!/venv/bin/python
"""MANIFEST.setup_cmd: build the Coq development (full .vo build), extract, compile the driver."""
import os, sys
sys.path.insert(0, os.path.dirname(os.path.abspath(__file__)))
import core
try:
    t = core.build(clean=True)
except core.BuildError as e:
    print("BUILD FAILED:", e.what); print(e.log[-4000:]); sys.exit(1)
if core.MAKE_LOG:
    print(core.MAKE_LOG[-4000:]); print("make reported errors"); sys.exit(1)
print(f"build ok in {t:.1f}s; driver: {core.DRIVER}")
