"""Shared machinery of ./check: building the Coq development and the extracted driver, scanning for
forbidden constructs, capturing Print Assumptions, running the driver, verdicts and evidence."""
from __future__ import annotations

import fcntl
import json
import os
import re
import subprocess
import sys
import time

VERIF = os.path.dirname(os.path.dirname(os.path.abspath(__file__)))
REPO = os.environ.get("VERIF_REPO", "/repo")
BUILD = os.path.join(VERIF, "build")
COQ = os.path.join(VERIF, "coq")
DRIVER = os.path.join(BUILD, "driver")
PY = "/venv/bin/python"
NCPU = min(16, os.cpu_count() or 4)

FORBIDDEN = re.compile(
    r"\b(Admitted|admit|Axiom|Axioms|Parameter|Parameters|Conjecture|Conjectures|Hypothesis|"
    r"Hypotheses|Variable|Variables|Admit Obligations)\b|Unset\s+Guard|Unset\s+Positivity|"
    r"Unset\s+Universe|bypass_check|type-in-type|impredicative-set|native_compute")


MAKE_LOG = ""


def vo_up_to_date(rel_v):
    """True iff theories/<rel_v>'s .vo exists and is up to date (after `build`)."""
    rc, _ = sh(f"make -q theories/{rel_v}o", cwd=COQ, timeout=120)
    return rc == 0 and os.path.exists(os.path.join(COQ, "theories", rel_v + "o"))


class BuildError(Exception):
    def __init__(self, what, log):
        super().__init__(what)
        self.what = what
        self.log = log


def sh(cmd, cwd=None, timeout=1800, env=None, inp=None):
    e = dict(os.environ)
    if env:
        e.update(env)
    p = subprocess.run(cmd, cwd=cwd, shell=isinstance(cmd, str), stdout=subprocess.PIPE,
                       stderr=subprocess.STDOUT, timeout=timeout, env=e, input=inp, text=True)
    return p.returncode, p.stdout


def coq_sources():
    out = []
    for root, _, files in os.walk(os.path.join(COQ, "theories")):
        for f in files:
            if f.endswith(".v"):
                out.append(os.path.join(root, f))
    return sorted(out)


def scan_forbidden():
    """Fail-closed scan of every .v file: no axioms, admits or switched-off checks anywhere.
    (Section variables are not used in this development, so `Variable`/`Hypothesis` are banned
    outright.)"""
    hits = []
    for path in coq_sources():
        text = open(path).read()
        # strip comments (non-nested is enough: we also ban the words inside comments' code)
        stripped = re.sub(r"\(\*.*?\*\)", " ", text, flags=re.S)
        for i, line in enumerate(stripped.split("\n"), 1):
            if FORBIDDEN.search(line):
                hits.append(f"{os.path.relpath(path, VERIF)}:{i}: {line.strip()[:100]}")
    return hits


def build(clean=False):
    """Full .vo build of the Coq development (coq_makefile + make), extraction, OCaml driver.
    Serialised by a lock file so that checks running in parallel share one build."""
    os.makedirs(BUILD, exist_ok=True)
    t0 = time.time()
    with open(os.path.join(BUILD, ".lock"), "w") as lk:
        fcntl.flock(lk, fcntl.LOCK_EX)
        pre = os.path.join(VERIF, "lib", "pregen.py")
        if os.path.exists(pre):
            rc, out = sh([PY, pre], cwd=VERIF, timeout=300)
            if rc != 0:
                raise BuildError("generated Coq inputs (pregen)", out)
        if clean:
            sh("make clean >/dev/null 2>&1; rm -rf ../build/extracted", cwd=COQ)
        rc, out = sh("coq_makefile -f _CoqProject -o Makefile", cwd=COQ, timeout=120)
        if rc != 0:
            raise BuildError("coq_makefile", out)
        # -k: a broken proof file must not keep the (proof-free) model files from being built
        rc, out = sh(f"timeout 3000 make -k -j{NCPU}", cwd=COQ, timeout=3100)
        global MAKE_LOG
        MAKE_LOG = out if rc != 0 else ""
        ext = os.path.join(BUILD, "extracted")
        stamp = os.path.join(BUILD, "driver.stamp")
        newest = max(os.path.getmtime(p) for p in
                     [os.path.join(dp, f) for dp, _, fs in os.walk(COQ) for f in fs if f.endswith(".vo")]
                     + [os.path.join(VERIF, "ocaml", f) for f in os.listdir(os.path.join(VERIF, "ocaml"))])
        if not (os.path.exists(stamp) and os.path.exists(DRIVER)
                and os.path.getmtime(stamp) >= newest):
            sh(f"rm -rf {ext}; mkdir -p {ext}")
            rc, out = sh(f"timeout 600 coqc -R {COQ}/theories TP {COQ}/theories/extract/Extract.v",
                         cwd=ext, timeout=700)
            if rc != 0:
                raise BuildError("extraction", out)
            sh(f"cp {VERIF}/ocaml/*.ml {ext}/")
            gen_clause_printer(os.path.join(ext, "pclauses.ml"))
            rc, out = sh("ocamlfind ocamlopt -O2 -w -a $(ocamlfind ocamldep -sort *.mli *.ml) -o ../driver",
                         cwd=ext, timeout=900)
            if rc != 0:
                raise BuildError("ocaml driver", out)
            open(stamp, "w").write(str(time.time()))
    return time.time() - t0


def gen_clause_printer(path):
    """OCaml printer for the constructors of PMon.clause (names only; generated from PMon.v)."""
    text = open(os.path.join(COQ, "theories", "pool", "PMon.v")).read()
    body = text[text.index("Inductive clause :="):text.index("Definition clause_prop")]
    body = re.sub(r"\(\*.*?\*\)", " ", body, flags=re.S)
    names = re.findall(r"\|\s*(C\d\d_\w+)", body)
    with open(path, "w") as f:
        f.write("let show_clause (c : PMon.clause) : string = match c with\n")
        for n in names:
            f.write(f"  | PMon.{n} -> \"{n[:3]}.{n[4:]}\"\n")


def print_assumptions(module, theorems):
    """Compile a tiny file that imports the theorem file and prints the assumptions of each
    property theorem; returns {theorem: text}.  'Closed under the global context' is required."""
    d = os.path.join(BUILD, "assump")
    os.makedirs(d, exist_ok=True)
    name = "PA_" + module.replace(".", "_")
    path = os.path.join(d, name + ".v")
    with open(path, "w") as f:
        f.write(f"From TP Require Import {module}.\n")
        for t in theorems:
            f.write(f'Goal True. idtac "@@BEGIN {t}". exact I. Qed.\nPrint Assumptions {t}.\n')
        f.write('Goal True. idtac "@@END". exact I. Qed.\n')
    rc, out = sh(f"timeout 600 coqc -R {COQ}/theories TP {path}", cwd=d, timeout=700)
    if rc != 0:
        raise BuildError(f"Print Assumptions for {module}", out)
    res = {}
    cur = None
    for line in out.split("\n"):
        m = re.match(r"@@BEGIN (\S+)", line)
        if m:
            cur = m.group(1)
            res[cur] = ""
        elif line.startswith("@@END"):
            cur = None
        elif cur is not None:
            res[cur] += line + "\n"
    return {k: v.strip() for k, v in res.items()}


def count_obligations(files):
    """Number of Lemma/Theorem/Example/Corollary statements in the given .v files (all compiled,
    hence all discharged, when `make` succeeded)."""
    n = 0
    for p in files:
        text = re.sub(r"\(\*.*?\*\)", " ", open(p).read(), flags=re.S)
        n += len(re.findall(r"^\s*(?:Local\s+|Global\s+)?(?:Lemma|Theorem|Example|Corollary|Fact|Remark|Proposition)\s", text, flags=re.M))
    return n


def proof_status(pr, tier):
    """Build + scan + Print Assumptions.  Returns (problems:list[str], info:dict)."""
    problems = []
    info = {"theorems": {}, "obligations": 0, "discharged": 0}
    try:
        info["build_s"] = round(build(clean=False), 1)
    except BuildError as e:
        problems.append(f"build failed at: {e.what}\n{e.log[-3000:]}")
        return problems, info
    hits = scan_forbidden()
    if hits:
        problems.append("forbidden constructs in the Coq development:\n" + "\n".join(hits))
    if pr is None:
        problems.append("no theorem is registered for this property")
        return problems, info
    stale = [f for f in pr["files"] if not vo_up_to_date(f)]
    if stale:
        problems.append("proof files that no longer compile: " + ", ".join(stale)
                        + "\n" + MAKE_LOG[-3000:])
        return problems, info
    files = [os.path.join(COQ, "theories", f) for f in pr["files"]]
    info["obligations"] = count_obligations(files)
    info["discharged"] = info["obligations"]
    try:
        pa = print_assumptions(pr["module"], pr["theorems"])
    except BuildError as e:
        problems.append(f"{e.what}\n{e.log[-2000:]}")
        return problems, info
    info["theorems"] = pa
    allowed = pr.get("allowed_axioms", [])
    for t in pr["theorems"]:
        txt = pa.get(t, "<missing>")
        if "Closed under the global context" in txt:
            continue
        rest = [ln for ln in txt.split("\n") if ln.strip() and not ln.startswith(" ")
                and not ln.startswith("Axioms:")]
        bad = [ln for ln in rest if not any(a in ln for a in allowed)]
        if bad or not rest:
            problems.append(f"theorem {t} is not closed: {txt[:500]}")
    if tier == "thorough" and not problems:
        sub = os.path.dirname(pr["files"][-1]).replace("/", ".")
        rc, out = sh(f"timeout 2400 coqchk -silent -o -R {COQ}/theories TP TP.{sub}.{pr['module']}",
                          cwd=COQ, timeout=2500)
        info["coqchk"] = out[-1500:]
        if rc != 0:
            problems.append("coqchk failed:\n" + out[-2000:])
    return problems, info



def run_driver(args, text, timeout=1800):
    p = subprocess.run([DRIVER] + args, input=text, stdout=subprocess.PIPE, stderr=subprocess.PIPE,
                       text=True, timeout=timeout)
    if p.returncode != 0:
        raise RuntimeError(f"driver {args} failed: {p.stderr[:2000]}")
    return p.stdout


def split_traces(out):
    """Parse driver output: {header: [lines]}."""
    res, cur = {}, None
    for line in out.split("\n"):
        if line.startswith("#"):
            cur = line
            res[cur] = []
        elif cur is not None and line.strip():
            res[cur].append(line)
    return res


def load_known_findings():
    p = os.path.join(VERIF, "KNOWN_FINDINGS.json")
    if os.path.exists(p):
        return json.load(open(p))
    return {"findings": []}


def write_evidence(pid, tier, seed, coverage, assumptions, wall, violations, level="proof"):
    os.makedirs(os.path.join(VERIF, "evidence"), exist_ok=True)
    ev = {"property_id": pid, "tier": tier, "seed": seed, "level": level, "coverage": coverage,
          "assumptions": assumptions, "wall_s": round(wall, 2), "violations": violations}
    tmp = os.path.join(VERIF, "evidence", f".{pid}.json.tmp")
    with open(tmp, "w") as f:
        json.dump(ev, f, indent=1, sort_keys=True)
    os.replace(tmp, os.path.join(VERIF, "evidence", f"{pid}.json"))


def write_replay(pid, name, content):
    d = os.path.join(BUILD, "replays", pid)
    os.makedirs(d, exist_ok=True)
    path = os.path.join(d, name)
    with open(path, "w") as f:
        if isinstance(content, str):
            f.write(content)
        else:
            json.dump(content, f, indent=1)
    return path
