"""C01..C15 (M1): the task pool."""
from __future__ import annotations

import glob
import json
import os
import random

from core import VERIF

MODEL = "pool"
PROOF = {}
SOURCES = ["src/asyncio_taskpool/pool.py"]


def corpus(pid):
    out = []
    for d in ("common", pid):
        for p in sorted(glob.glob(os.path.join(VERIF, "corpus", d, "*.json"))):
            j = json.load(open(p))
            out.append((d + "-" + os.path.basename(p)[:-5], j["cfg"], j["labels"]))
    return out


def job_corpus(pid, seed=0):
    import poolrun
    res = []
    for name, cfg, labels in corpus(pid):
        res.append({"id": f"corpus-{name}", "lines": poolrun.run_trace(cfg, labels), "kind": "corpus"})
    return res


def job_random(pid, seed, count, max_len, profile=None):
    import poolrun, poolgen
    rng = random.Random(seed)
    res = []
    prof = poolgen.mk_profile(**(profile or {}))
    for i in range(count):
        src = poolgen.RandomSource(random.Random(rng.getrandbits(64)), prof, rng.randint(10, max_len))
        cfg = src.cfg()
        r = poolrun.PoolRun(cfg, src)
        lines = [poolrun.cfg_line(cfg)] + r.main()
        res.append({"id": f"rand-{seed}-{i}", "lines": lines, "kind": "random"})
    return res


def job_replay(pid, labels, cfg=None, seed=0):
    import poolrun
    if cfg is None:   # labels[0] is the cfg line
        cfg, labels = poolrun.parse_cfg_line(labels[0]), labels[1:]
    return [{"id": "replay", "lines": poolrun.run_trace(cfg, labels), "kind": "replay"}]
