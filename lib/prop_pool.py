"""C01..C15 (M1): the task pool.  Per-property generator profiles, corpus, sweeps, known-finding
explanation."""
from __future__ import annotations

import glob
import json
import os
import random

from core import VERIF

MODEL = "pool"
SOURCES = ["src/asyncio_taskpool/pool.py", "src/asyncio_taskpool/internals/group_register.py",
           "src/asyncio_taskpool/internals/helpers.py"]

_COMMON_FILES = ["base/Base.v", "pool/PTypes.v", "pool/PRecords.v", "pool/PModel.v", "pool/PObs.v",
                 "pool/PMon.v", "pool/PInv.v"]


def _proof(pid, extra_files=(), theorems=None):
    return {"module": f"Thm_{pid}", "theorems": theorems or [pid],
            "files": _COMMON_FILES + list(extra_files) + [f"pool/Thm_{pid}.v"]}


def _thm_files():
    import os as _os
    from core import COQ
    out = {}
    d = _os.path.join(COQ, "theories", "pool")
    for i in range(1, 16):
        pid = f"C{i:02d}"
        f = _os.path.join(d, f"Thm_{pid}.v")
        if _os.path.exists(f):
            import re as _re
            text = _re.sub(r"\(\*.*?\*\)", " ", open(f).read(), flags=_re.S)
            thms = _re.findall(r"^\s*Theorem\s+(\w+)", text, flags=_re.M)
            # every .v file of the pool development is part of the property's dependency cone
            files = ["base/Base.v"] + sorted("pool/" + x for x in _os.listdir(d)
                                             if x.endswith(".v") and not x.startswith("Thm_")) + [f"pool/Thm_{pid}.v"]
            out[pid] = {"module": f"Thm_{pid}", "theorems": thms, "files": files}
    return out


PROOF = _thm_files()

TRUSTED = [
    "Coq 8.16.1 kernel (coqc; coqchk in the thorough tier); no native_compute",
    "extraction to OCaml with ExtrOcamlBasic only (nat Peano, no Extract Constant); ocaml/pdriver.ml "
    "(parsing / printing of labels and observations)",
    "Python harness: harness/steploop.py (replaces only the event loop's outer iteration; Tasks, "
    "Futures, Semaphore, gather are CPython 3.12.1's), harness/poolrun.py (harness-owned workers, "
    "callbacks, argument iterables; observations through the public API only), harness/poolgen.py",
    "hand-written model theories/pool/PModel.v of pool.py + the asyncio slice it uses: fidelity is "
    "checked by lockstep correspondence on the traces explored in this run, not proved",
]
ASSUMPTIONS = [
    "CPython 3.12.1 asyncio semantics (Task.cancel/_must_cancel, Semaphore hand-off, gather eager path)",
    "preconditions of the theorems: no unlock() once gather_and_close() was requested (P-unlock); no "
    "self-cancellation from a worker's final segment (P-self, open finding D11); no cancel of a group "
    "from its own argument iterator (P-iter, excluded by C07's text); pool_size not reassigned "
    "(except C15)",
    "driver tasks (flush/gather_and_close/until_closed callers) are never cancelled; exceptions raised "
    "by the argument iterator itself are not modelled",
]
RULE = ("corpus scenarios first, then random walks generated online against the implementation "
        "(per-property operation profile, one PRNG per trace derived from VERIF_SEED), injection "
        "sweeps (the property's critical operation placed before every label of a base run; a few "
        "in the quick tier, many in the thorough one); a trace is non-trivial if at least one pool task started and ended; "
        "distinct = distinct label sequences")

PROFILES = {
    "C01": {},
    "C02": {"cancel": 5, "cancelgroup": 3, "flush": 3, "stop": 3},
    "C03": {"cancel": 5, "cancelgroup": 2, "flush": 2, "user_op": 0.3},
    "C04": {"lock": 2, "unlock": 1, "gac": 1.0, "cancel": 2, "cancelgroup": 1,
            "kinds": ["task", "task", "simple"]},
    "C05": {"kinds": ["task"], "cancel": 2, "cancelgroup": 1, "map_bias": 0.85},
    "C06": {"cancel": 9, "valid_bias": 0.55, "stop": 1},
    "C07": {"cancelgroup": 6, "cancelall": 2, "user_op": 0.4, "gac": 0.2},
    "C08": {"gac": 3, "until": 1.5, "cancelgroup": 3, "lock": 0.5},
    "C09": {"malformed": 0.12, "lock": 3, "unlock": 3, "gac": 1},
    "C10": {"getids": 4, "cancelgroup": 3, "named": 0.7},
    "C11": {"flush": 3},
    "C12": {"flush": 3, "gac": 1, "raise_bias": 2.0},
    "C13": {"flush": 6, "cancel": 4},
    "C14": {"kinds": ["simple"], "stop": 8, "cancel": 3},
    "C15": {"setsize": 4, "sizes": ["0", "1", "2", "3", "4", "inf"]},
}

# critical operations injected at every decision point of base runs (thorough tier)
SWEEPS = {
    "C01": ["apply num=2 bad=0 nonco=0 w=sp ecb=n ccb=n g=-", "start num=2"],
    "C02": ["cancelall", "driver k=flush1", "stopall"],
    "C03": ["cancelall", "driver k=flush0"],
    "C04": ["lock", "driver k=gac1"],
    "C05": ["cancelall", "driver k=flush1"],
    "C06": ["cancel ids=0", "cancel ids=1,0", "cancel ids=0,9"],
    "C07": ["cancelgroup g=A0.0", "cancelgroup g=A1.0", "cancelall", "cancelgroup g=S0"],
    "C08": ["driver k=gac0", "driver k=gac1"],
    "C09": ["lock", "unlock", "setsize v=neg"],
    "C10": ["cancelgroup g=A0.0", "getids gs=A0.0,A1.0"],
    "C11": ["driver k=flush1"],
    "C12": ["driver k=flush0", "driver k=gac0"],
    "C13": ["driver k=flush0", "driver k=flush1"],
    "C14": ["stop n=1", "stop n=2", "stopall"],
    "C15": ["setsize v=0", "setsize v=1", "setsize v=3", "setsize v=inf"],
}


def corpus(pid):
    out = []
    for d in ("common", pid):
        for p in sorted(glob.glob(os.path.join(VERIF, "corpus", d, "*.json"))):
            j = json.load(open(p))
            out.append((d + "-" + os.path.basename(p)[:-5], j["cfg"], j["labels"]))
    return out


def job_corpus(pid, seed=0):
    import poolrun
    res = []
    for name, cfg, labels in corpus(pid):
        res.append({"id": f"corpus-{name}", "lines": poolrun.run_trace(cfg, labels),
                    "kind": "corpus"})
    return res


def job_random(pid, seed, count, max_len, profile=None):
    import poolrun, poolgen
    rng = random.Random(seed)
    res = []
    prof = poolgen.mk_profile(**(profile if profile is not None else PROFILES.get(pid, {})))
    for i in range(count):
        src = poolgen.RandomSource(random.Random(rng.getrandbits(64)), prof, rng.randint(10, max_len))
        cfg = src.cfg()
        r = poolrun.PoolRun(cfg, src)
        lines = [poolrun.cfg_line(cfg)] + r.main()
        res.append({"id": f"rand-{seed}-{i}", "lines": lines, "kind": "random"})
    return res


def job_sweep(pid, seed, count, max_len):
    """Exhaustive over placements: for each base run, inject each critical operation of the
    property before every label of the run (one injection per replay)."""
    import poolrun, poolgen
    rng = random.Random(seed)
    res = []
    prof = poolgen.mk_profile(**PROFILES.get(pid, {}))
    for i in range(count):
        src = poolgen.RandomSource(random.Random(rng.getrandbits(64)), prof, rng.randint(10, max_len))
        cfg = src.cfg()
        r = poolrun.PoolRun(cfg, src)
        r.main()
        base = list(r.labels)
        for k_inj, inj in enumerate(SWEEPS.get(pid, [])):
            w = inj.split()[0]
            if (w in ("apply", "map") and cfg["kind"] != "task") or \
               (w in ("start", "stop", "stopall") and cfg["kind"] != "simple"):
                continue
            for pos in range(len(base) + 1):
                if inj == "unlock" and any(l.startswith("driver k=gac") for l in base[:pos]):
                    # unlock() behind a gather_and_close() is outside every property's
                    # precondition (P-unlock), and there what flush() raises depends on CPython's
                    # set iteration order (audit finding F1), which no model can reproduce
                    continue
                labels = base[:pos] + [inj] + base[pos:]
                if inj.startswith("driver") and rng.random() < 0.5:
                    # inline start of the driver (await from the caller's own coroutine)
                    nd = sum(1 for l in base[:pos] if l.startswith("driver"))
                    labels = base[:pos] + [inj, f"run D{nd}"] + base[pos:]
                res.append({"id": f"sweep-{seed}-{i}-{w}{k_inj}-{pos}",
                            "lines": poolrun.run_trace(cfg, labels), "kind": "sweep"})
    return res


def job_replay(pid, labels, cfg=None, seed=0):
    import poolrun
    if cfg is None:   # labels[0] is the cfg line
        cfg, labels = poolrun.parse_cfg_line(labels[0]), labels[1:]
    return [{"id": "replay", "lines": poolrun.run_trace(cfg, labels), "kind": "replay"}]


def jobs(pid, tier, seed):
    js = [("prop_pool", "job_corpus", {"pid": pid})]
    if tier == "quick":
        n_jobs, per_job, max_len = 16, 50, 80
        n_sweep = 8
    else:
        n_jobs, per_job, max_len = 64, 320, 120
        n_sweep = 32
    base = seed * 100003 + int(pid[1:]) * 1009
    for k in range(n_jobs):
        js.append(("prop_pool", "job_random",
                   {"pid": pid, "seed": base + k, "count": per_job, "max_len": max_len}))
    # a few long runs with large numbers (see poolgen.LONG_PROFILE), merged with the property's profile
    import poolgen as _pg
    long_prof = dict(PROFILES.get(pid, {}))
    long_prof.update({k: v for k, v in _pg.LONG_PROFILE.items() if k not in ("flush", "cancel") or k not in long_prof})
    if pid == "C14":
        long_prof["kinds"] = ["simple"]
    for k in range(4 if tier == "quick" else 32):
        js.append(("prop_pool", "job_random",
                   {"pid": pid, "seed": base + 9000 + k, "count": 4 if tier == "quick" else 8,
                    "max_len": 700, "profile": long_prof}))
    for k in range(n_sweep):
        js.append(("prop_pool", "job_sweep",
                   {"pid": pid, "seed": base + 7000 + k, "count": 1 if tier == "quick" else 3,
                    "max_len": 35 if tier == "quick" else 50}))
    return js


def extra_checks(pid, tier, seed):
    """Checks outside the lockstep machinery.  C11: several pools of both classes in one loop
    number their tasks independently and unnamed pools get distinct names (the model has a single
    pool; this clause is exercised directly on the implementation)."""
    if pid in ("C04", "C12"):
        return _percall_failures(pid, tier, seed)
    if pid == "C09":
        return _constructor_rejections()
    if pid in ("C06", "C07", "C14"):
        fails = _absorbing_workers(pid)
        if pid == "C06" and not fails:
            # "exactly the named tasks" also means: of *this* pool (another pool in the same loop
            # has tasks with the same ids) - the solo/duo differential of C11
            fails = _noninterference(tier, seed + 1)
        return fails
    if pid == "C15":
        return _negative_sizes()
    if pid != "C11":
        return []
    import asyncio
    import re
    import lockstep
    lockstep._init_worker()
    from asyncio_taskpool.pool import SimpleTaskPool, TaskPool
    fails = []
    rng = random.Random(seed)

    async def go():
        seen = {}

        async def work(tag):
            name = asyncio.current_task().get_name()
            seen.setdefault(tag, []).append(name)
            await asyncio.sleep(0)

        pools, names, counts, closed = [], [], [], []

        class EqPool(TaskPool):
            """A user subclass with value-based equality: all its instances compare equal."""

            def __eq__(self, other):
                return isinstance(other, EqPool)

            def __hash__(self):
                return 7

        def new_pool():
            i = len(pools)
            k = rng.randrange(6)
            if k == 5:
                p = EqPool(pool_size=2)
                pools.append(p)
                names.append(str(p))
                counts.append(0)
                closed.append(False)
                return
            if k == 0:
                p = TaskPool()
            elif k == 1:
                p = TaskPool(pool_size=rng.randint(1, 3))
            elif k == 2:
                p = SimpleTaskPool(work, args=(f"p{i}",))
            elif k == 3:
                p = TaskPool(name=f"named{i}")
            else:
                p = SimpleTaskPool(work, args=(f"p{i}",), pool_size=3)
            pools.append(p)
            names.append(str(p))
            counts.append(0)
            closed.append(False)

        for _ in range(5):
            new_pool()
        # pools are created, used, flushed and closed in random order: a pool created after
        # another one was closed must still get a name no other unnamed pool ever had
        for _ in range(60):
            r = rng.random()
            if r < 0.2:
                new_pool()
                continue
            live = [j for j in range(len(pools)) if not closed[j]]
            if not live:
                new_pool()
                continue
            i = rng.choice(live)
            p = pools[i]
            if r < 0.4:
                await p.gather_and_close()
                closed[i] = True
                continue
            n = rng.randint(1, 3)
            if isinstance(p, SimpleTaskPool):
                p.start(n)
            else:
                p.apply(work, args=(f"p{i}",), num=n)
            counts[i] += n
            for _ in range(rng.randint(0, 4)):
                await asyncio.sleep(0)
            if rng.random() < 0.3:
                await p.flush()
        for i, p in enumerate(pools):
            if not closed[i]:
                await p.gather_and_close()
        unnamed = [n for n in names if not n.startswith("named")]
        if len(set(unnamed)) != len(unnamed):
            fails.append({"what": "unnamed pools share a name", "names": names})
        for i, p in enumerate(pools):
            tag = f"p{i}"
            got = []
            for nm in seen.get(tag, []):
                m = re.fullmatch(re.escape(names[i]) + r"_Task-(\d+)", nm)
                if not m:
                    fails.append({"what": "task name does not carry the pool's name and an id",
                                  "pool": names[i], "task": nm})
                else:
                    got.append(int(m.group(1)))
            if sorted(got) != list(range(counts[i])):
                fails.append({"what": "ids of one pool are not 0..n-1 (pools must number independently)",
                              "pool": names[i], "ids": sorted(got), "created": counts[i]})

    for _ in range(12 if tier == "quick" else 100):
        asyncio.run(go())
        if fails:
            break
    if not fails:
        fails = _noninterference(tier, seed)
    return fails


def _noninterference(tier, seed):
    """C11 "separate pools are independent" as the theorem states it (PMulti.wrun_proj: a pool's
    state depends only on the operations addressed to it), checked on the implementation as a
    differential: one script of operations is run on pool A alone, then again on a fresh pool A
    while a second pool B of either class - with equal task ids, group names and timing - is
    driven through a script of its own in the same loop, between A's operations.  Everything A
    lets one see (events inside workers and callbacks with their ids, counters, group registers,
    results and errors of every operation) must be identical in the two runs.  B's operations are
    synchronous or started as tasks, so the number of loop iterations A's script takes is the same
    in both runs."""
    import asyncio
    import lockstep
    lockstep._init_worker()
    from asyncio_taskpool.pool import SimpleTaskPool, TaskPool
    fails = []

    def script(rng, n):
        ops = []
        for _ in range(n):
            x = rng.random()
            if x < 0.3:
                ops.append(("spawn", rng.randint(1, 3), rng.choice([0, 1, 2, 3]), rng.random() < 0.3))
            elif x < 0.5:
                ops.append(("cancel", [rng.randrange(0, 8) for _ in range(rng.randint(1, 2))]))
            elif x < 0.58:
                ops.append(("cancel_group", rng.randrange(0, 4)))
            elif x < 0.62:
                ops.append(("cancel_all",))
            elif x < 0.72:
                ops.append(("flush",))
            elif x < 0.78:
                ops.append(("lock",) if rng.random() < 0.5 else ("unlock",))
            else:
                ops.append(("obs",))
            ops.append(("yield", rng.choice([0, 0, 1, 1, 2, 3])))
        return ops

    async def run(simple_a, ops_a, other):
        """other = None (solo) or (simple_b, ops_b)"""
        log = {"A": [], "B": []}

        def mk(tag):
            async def work(susp):
                me = asyncio.current_task().get_name().rsplit("-", 1)[1]
                log[tag].append(("start", me))
                try:
                    for _ in range(susp):
                        await asyncio.sleep(0)
                except asyncio.CancelledError:
                    log[tag].append(("cancelled", me))
                    raise
                log[tag].append(("end", me))

            def ecb(i):
                log[tag].append(("ecb", i))

            async def ccb(i):
                log[tag].append(("ccb", i))
                await asyncio.sleep(0)
                log[tag].append(("ccb-done", i))
            return work, ecb, ccb

        def new(tag, simple):
            work, ecb, ccb = mk(tag)
            if simple:
                return SimpleTaskPool(work, args=(2,), end_callback=ecb, cancel_callback=ccb, pool_size=3), work, ecb, ccb
            return TaskPool(pool_size=3), work, ecb, ccb

        def obs(p):
            groups = {}
            for g in list(getattr(p, "_task_groups", {})):
                try:
                    groups[g] = sorted(p.get_group_ids(g))
                except Exception as e:
                    groups[g] = type(e).__name__
            return (p.num_running, p.num_cancelled, p.num_ended, p.is_full, p.is_locked, sorted(groups.items()))

        bg = []

        async def do(tag, pool_t, op, awaited):
            p, work, ecb, ccb = pool_t
            simple = isinstance(p, SimpleTaskPool)
            try:
                if op[0] == "spawn":
                    if simple:
                        r = p.start(op[1])
                    elif op[3]:
                        r = p.map(work, [op[2]] * op[1], num_concurrent=2, end_callback=ecb, cancel_callback=ccb)
                    else:
                        r = p.apply(work, args=(op[2],), num=op[1], end_callback=ecb, cancel_callback=ccb)
                elif op[0] == "cancel":
                    r = p.cancel(*op[1])
                elif op[0] == "cancel_group":
                    names = sorted(getattr(p, "_task_groups", {}))
                    r = p.cancel_group(names[op[1] % len(names)] if names else "nope")
                elif op[0] == "cancel_all":
                    r = p.cancel_all()
                elif op[0] == "flush":
                    if awaited:
                        r = await p.flush(return_exceptions=True)
                    else:
                        bg.append(asyncio.ensure_future(p.flush(return_exceptions=True)))
                        r = None
                elif op[0] == "lock":
                    r = p.lock()
                elif op[0] == "unlock":
                    r = p.unlock()
                else:
                    r = None
                res = repr(r)
            except Exception as e:
                res = type(e).__name__
            log[tag].append(("op", op[0], res, obs(p)))

        A = new("A", simple_a)
        B = new("B", other[0]) if other else None
        ops_b = list(other[1]) if other else []
        for op in ops_a:
            if op[0] == "yield":
                for _ in range(op[1]):
                    await asyncio.sleep(0)
                continue
            await do("A", A, op, True)
            # B's operations between A's: synchronous, no extra loop iteration for A's script
            while ops_b and ops_b[0][0] != "yield":
                await do("B", B, ops_b.pop(0), False)
            if ops_b:
                ops_b.pop(0)
        await A[0].gather_and_close(return_exceptions=True)
        log["A"].append(("final", obs(A[0])))
        if B:
            for t in bg:
                t.cancel()
            await B[0].gather_and_close(return_exceptions=True)
        return log["A"]

    rounds = 250 if tier == "quick" else 1500
    for k in range(rounds):
        rng = random.Random(seed * 977 + k)
        simple_a, simple_b = rng.random() < 0.3, rng.random() < 0.3
        ops_a = script(rng, rng.randint(4, 14))
        # B mirrors A's script in half of the rounds (equal ids / names at equal times), else its own
        ops_b = list(ops_a) if rng.random() < 0.5 else script(rng, rng.randint(4, 14))
        solo = asyncio.run(run(simple_a, ops_a, None))
        duo = asyncio.run(run(simple_a, ops_a, (simple_b, ops_b)))
        if solo != duo:
            i = next((j for j, (x, y) in enumerate(zip(solo, duo)) if x != y), min(len(solo), len(duo)))
            fails.append({"what": "a pool behaves differently when a second pool is used in the same loop "
                                  "(separate pools must be independent)",
                          "round": k, "simple_a": simple_a, "simple_b": simple_b, "ops_a": ops_a, "ops_b": ops_b,
                          "first_difference": {"index": i, "alone": repr(solo[i:i + 2]), "with_other_pool": repr(duo[i:i + 2])}})
            break
    return fails


def _absorbing_workers(pid):
    """C06 / C07 / C14 for a kind of worker the label domain does not contain (the model's workers
    end when a cancellation reaches them): a worker that *absorbs* its first cancellations - a
    graceful-shutdown loop: the first request means "finish the batch", the next one "stop" - is
    still running in the pool, so every later cancel(id) / cancel_group / stop naming it must
    reach it again.  Checked directly on the implementation: each request is delivered as one
    CancelledError, in order, until the worker gives in; the bookkeeping follows."""
    import asyncio
    import lockstep
    lockstep._init_worker()
    from asyncio_taskpool.pool import SimpleTaskPool, TaskPool
    fails = []

    async def go(absorb, how):
        seen, cbs = [], []

        async def worker(n):
            k = 0
            while True:
                try:
                    await asyncio.sleep(3600)
                except asyncio.CancelledError:
                    k += 1
                    seen.append(k)
                    if k > n:
                        raise

        def ccb(i):
            cbs.append(("c", i))

        def ecb(i):
            cbs.append(("e", i))
        simple = how in ("stop", "stop_all")
        if simple:
            pool = SimpleTaskPool(worker, args=(absorb,), cancel_callback=ccb, end_callback=ecb, pool_size=2)
            g = pool.start(1)
        else:
            pool = TaskPool(pool_size=2)
            g = pool.apply(worker, args=(absorb,), cancel_callback=ccb, end_callback=ecb)
        for _ in range(4):
            await asyncio.sleep(0)
        for r in range(absorb + 1):
            if pool.num_running != 1:
                fails.append({"what": "a worker that absorbed a cancellation and goes on is no longer counted "
                                      "as running", "how": how, "round": r, "num_running": pool.num_running})
                return
            try:
                if how == "cancel":
                    pool.cancel(0)
                elif how == "cancel_group":
                    # the group is forgotten by the first cancel_group; afterwards the task is
                    # reachable by its id only
                    pool.cancel_group(g) if r == 0 else pool.cancel(0)
                elif how == "cancel_all":
                    pool.cancel_all() if r == 0 else pool.cancel(0)
                elif how == "stop":
                    ids = pool.stop(1)
                    if ids != [0]:
                        fails.append({"what": "stop(1) did not return the running task", "round": r, "ids": ids})
                        return
                else:
                    ids = pool.stop_all()
                    if ids != [0]:
                        fails.append({"what": "stop_all() did not return the running task", "round": r, "ids": ids})
                        return
            except Exception as e:  # noqa: BLE001
                fails.append({"what": "cancelling a running (absorbing) worker again raised", "how": how,
                              "round": r, "error": repr(e)})
                return
            for _ in range(4):
                await asyncio.sleep(0)
            if seen != list(range(1, r + 2)):
                fails.append({"what": "a cancellation request for a running task was not delivered to it "
                                      "(the worker had absorbed an earlier one and kept running)",
                              "how": how, "request_no": r + 1, "delivered": list(seen)})
                return
        if cbs != [("c", 0), ("e", 0)] or pool.num_running != 0 or pool.num_ended != 1:
            fails.append({"what": "after its last cancellation the absorbing worker must end cancelled: cancel "
                                  "callback, end callback, counted as ended", "how": how, "callbacks": cbs,
                          "num_running": pool.num_running, "num_ended": pool.num_ended})
        await pool.flush(return_exceptions=True)

    hows = {"C06": ["cancel"], "C07": ["cancel_group", "cancel_all"], "C14": ["stop", "stop_all"]}[pid]
    for how in hows:
        for absorb in (1, 2):
            asyncio.run(go(absorb, how))
            if fails:
                return fails
    return fails


def _negative_sizes():
    """C15, values the label domain does not contain (the model's sizes are naturals or inf): every
    negative number - also a fraction between -1 and 0, and -inf - is rejected with ValueError and
    changes nothing."""
    import math
    import lockstep
    lockstep._init_worker()
    from asyncio_taskpool.pool import SimpleTaskPool, TaskPool
    fails = []

    async def co():
        return None
    for mk in (lambda: TaskPool(pool_size=3), lambda: SimpleTaskPool(co, pool_size=3), lambda: TaskPool()):
        pool = mk()
        before = (pool.pool_size, pool.is_full, pool.is_locked, pool.num_running)
        for v in (-1, -3, -0.5, -0.25, -1e-9, -1.0, -2.5, -math.inf):
            try:
                pool.pool_size = v
                fails.append({"what": f"pool_size = {v!r} was accepted", "pool": str(pool),
                              "pool_size_now": repr(pool.pool_size)})
            except ValueError:
                pass
            except Exception as e:     # noqa: BLE001
                fails.append({"what": f"pool_size = {v!r} raised {type(e).__name__}, not ValueError"})
            after = (pool.pool_size, pool.is_full, pool.is_locked, pool.num_running)
            if after != before:
                fails.append({"what": f"a rejected pool_size = {v!r} changed the pool",
                              "before": repr(before), "after": repr(after)})
                break
    return fails


def _constructor_rejections():
    """C09 at construction time (the model starts from an already constructed pool): a negative
    pool size and, for SimpleTaskPool, a function that is not a coroutine function are rejected
    with the documented errors."""
    import lockstep
    lockstep._init_worker()
    from asyncio_taskpool import exceptions
    from asyncio_taskpool.pool import SimpleTaskPool, TaskPool
    fails = []

    async def co():
        return None

    def plain():
        return None

    for what, make, exc in (
            ("TaskPool(pool_size=-1)", lambda: TaskPool(pool_size=-1), ValueError),
            ("SimpleTaskPool(func, pool_size=-3)", lambda: SimpleTaskPool(co, pool_size=-3), ValueError),
            ("SimpleTaskPool(<plain function>)", lambda: SimpleTaskPool(plain),
             exceptions.NotCoroutineFunction),
            ("SimpleTaskPool(<lambda>)", lambda: SimpleTaskPool(lambda: 1),
             exceptions.NotCoroutineFunction)):
        try:
            make()
            fails.append({"what": f"{what} was accepted", "expected": exc.__name__})
        except exc:
            pass
        except Exception as e:     # noqa: BLE001
            fails.append({"what": f"{what} raised {type(e).__name__}", "expected": exc.__name__})
    # a rejected SimpleTaskPool(<not a coroutine function>) leaves no trace: no pool is registered,
    # so the next unnamed pool gets the very next index; and the function is judged before the size
    import re
    a = TaskPool()
    for bad in (lambda: SimpleTaskPool(plain), lambda: SimpleTaskPool(plain, pool_size=2)):
        try:
            bad()
        except Exception:     # noqa: BLE001
            pass
    b = TaskPool()
    ia, ib = (int(re.search(r"-(\d+)$", str(x)).group(1)) for x in (a, b))
    if ib != ia + 1:
        fails.append({"what": "a rejected SimpleTaskPool(<plain function>) left a trace: the next unnamed "
                              "pool's index was burnt", "before": str(a), "after": str(b)})
    try:
        SimpleTaskPool(plain, pool_size=-1)
        fails.append({"what": "SimpleTaskPool(<plain function>, pool_size=-1) was accepted"})
    except exceptions.NotCoroutineFunction:
        pass
    except Exception as e:     # noqa: BLE001
        fails.append({"what": "SimpleTaskPool(<plain function>, pool_size=-1) raised "
                              f"{type(e).__name__}; the function is checked first",
                      "expected": "NotCoroutineFunction"})
    for what, make in (("TaskPool(pool_size=0)", lambda: TaskPool(pool_size=0)),
                       ("SimpleTaskPool(coroutine function)", lambda: SimpleTaskPool(co))):
        try:
            make()
        except Exception as e:     # noqa: BLE001
            fails.append({"what": f"{what} raised {type(e).__name__}", "expected": "accepted"})
    return fails


def _percall_failures(pid, tier, seed):
    """C04 / C12: the call of `func` fails for an arbitrary subset of the invocation indices of one
    apply()/start() request.  (The model and the lockstep harness cover this too - failure
    patterns `bad=p0101...`, theorem C04_skips_exactly_failing; this direct check is kept as an
    independent second look.)  Direct check on the implementation: every
    invocation whose call does not raise becomes exactly one task (in the returned group), the
    failing ones are skipped, whatever the pool size."""
    import asyncio
    import inspect
    import lockstep
    lockstep._init_worker()
    from asyncio_taskpool.pool import SimpleTaskPool, TaskPool
    fails = []
    rng = random.Random(seed * 31 + int(pid[1:]))

    async def one(round_no):
        num = rng.randint(1, 6)
        pattern = [rng.random() < 0.4 for _ in range(num)]
        if round_no % 3 == 0:
            pattern[0] = True           # the very first call of the request fails
        size = rng.choice([1, 2, 3, None])
        simple = rng.random() < 0.5
        calls, ran = [], []

        async def body(i):
            ran.append(i)
            await asyncio.sleep(0)

        def func(*a, **kw):
            i = len(calls)
            calls.append(i)
            if i < len(pattern) and pattern[i]:
                raise RuntimeError(f"call {i} fails")
            return body(i)
        inspect.markcoroutinefunction(func)
        func.__name__ = "func"
        kw = {} if size is None else {"pool_size": size}
        if simple:
            pool = SimpleTaskPool(func, **kw)
            g = pool.start(num)
        else:
            pool = TaskPool(**kw)
            g = pool.apply(func, num=num)
        for _ in range(4 * num + 8):
            await asyncio.sleep(0)
        want = [i for i in range(num) if not pattern[i]]
        try:
            ids = sorted(pool.get_group_ids(g))
        except Exception as e:     # noqa: BLE001
            ids = repr(e)
        await pool.gather_and_close()
        if calls != list(range(num)) or sorted(ran) != want or ids != list(range(len(want))):
            fails.append({"what": "apply/start with a call that raises for some invocations only: "
                                  "the other invocations must each become exactly one task",
                          "pool": "SimpleTaskPool.start" if simple else "TaskPool.apply",
                          "num": num, "failing_calls": [i for i in range(num) if pattern[i]],
                          "pool_size": size, "calls_made": calls, "invocations_run": sorted(ran),
                          "expected_run": want, "group_ids": ids})

    async def go():
        for r in range(60 if tier == "quick" else 600):
            await one(r)
            if fails:
                break
    asyncio.run(go())
    return fails


def label_kind(label):
    w = label.split()
    if w[0] == "run":
        return "run:" + w[1][0]
    if w[0] in ("apply", "cfg"):
        # which failure pattern the request / the SimpleTaskPool's function carries: none, every
        # call fails, or a genuine mix of failing and non-failing invocations
        kv = dict(x.split("=", 1) for x in w[1:] if "=" in x)
        pat = kv.get("bad", "0")
        if w[0] == "cfg" and kv.get("kind") != "simple":
            return "cfg"
        if pat == "1":
            return w[0] + ":bad=all"
        if pat.startswith("p") and "1" in pat:
            bits = pat[1:]
            if w[0] == "apply":
                n = int(kv.get("num", "0"))
                bits = (bits + "0" * n)[:n]
            if "1" in bits:
                return w[0] + (":bad=mixed" if "0" in bits else ":bad=all")
    return w[0]


def nontrivial(lines):
    return any("exit:" in ln for ln in lines) and any("start:" in ln for ln in lines)


# taint flags (model ghosts) that put a trace outside a property's quantifier
PRECOND = {f"C{i:02d}": ("self", "iter", "size", "unlock") for i in range(1, 16)}
PRECOND["C15"] = ("self", "iter", "unlock")
# D11 (self-cancellation from a final segment) is an open finding of C03 and C12: such traces are
# judged, and the failing clause is explained by KNOWN_FINDINGS.json
PRECOND["C03"] = ("iter", "size", "unlock")
PRECOND["C12"] = ("iter", "size", "unlock")


def taints(r):
    out = set()
    for ln in r.get("model_info", []):
        if ln.startswith("@taint"):
            for kv in ln.split()[1:]:
                k, v = kv.split("=")
                if v == "1":
                    out.add(k)
    return out


def out_of_scope(pid, r):
    """The trace violates a stated precondition of the property (decided by the model's ghost
    flags; only meaningful when the implementation's stream equals the model's)."""
    return r["diverge"] is None and bool(taints(r) & set(PRECOND[pid]))


def explained(pid, known, r, t):
    """Known-finding criterion (DESIGN §9.2): failing clause listed + signature holds +
    implementation stream equals the model's."""
    if r["diverge"] is not None or r["impl_mon"] is None:
        return None
    clause = r["impl_mon"][1]
    tn = taints(r)
    for f in known:
        if clause not in f.get("clauses", []):
            continue
        sig = f.get("signature", {})
        need = set(sig.get("taint", []))
        if need and not (need & tn):
            continue
        if sig.get("model_agrees", True) and r["model_mon"] is None:
            # the model must exhibit the same (refuted) behaviour
            continue
        return f["id"]
    return None


def extra_coverage(pid, traces, results):
    import collections
    ev = collections.Counter()
    ctl = collections.Counter()
    err = collections.Counter()
    kinds = collections.Counter(t.get("kind", "?") for t in traces)
    for t in traces:
        for ln in t["lines"]:
            if ";" not in ln:
                continue
            o = ln.split(";", 1)[1]
            for tok in o.split():
                if tok.startswith("ev=") and tok != "ev=-":
                    for e in tok[3:].split(","):
                        ev[e.split(":")[0]] += 1
                elif tok.startswith("ctl="):
                    ctl[tok[4:].rsplit(":", 1)[0]] += 1
                elif tok.startswith("res=err:"):
                    err[tok[8:]] += 1
    tainted = sum(1 for r in results if out_of_scope(pid, r))
    return {"event_histogram": dict(ev), "control_point_histogram": dict(ctl),
            "error_kind_histogram": dict(err), "trace_kinds": dict(kinds),
            "traces_outside_preconditions": tainted}
