"""C16, C17, C18 (M2): the control plane.  The model side is the extracted Coq model
(theories/ctrl/CModel.v) run by the driver; the implementation side is a real ControlSession over
in-memory streams on real pools (harness/ctrlrun.py)."""
from __future__ import annotations

import asyncio
import collections
import json
import os
import random
import time

import core
import lockstep

SOURCES = ["src/asyncio_taskpool/control/parser.py", "src/asyncio_taskpool/control/session.py",
           "src/asyncio_taskpool/internals/helpers.py", "src/asyncio_taskpool/pool.py"]

_FILES = ["ctrl/CModel.v", "ctrl/CProofs.v", "ctrl/CRound.v", "ctrl/PoolSurface.v"]
PROOF = {
    "C16": {"module": "Thm_C16", "theorems": ["C16_names", "C16_private_hidden", "C16_constructible",
                                              "C16_taskpool", "C16_simplepool"],
            "files": _FILES + ["ctrl/Thm_C16.v"]},
    "C17": {"module": "Thm_C17", "theorems": ["C17_roundtrip", "C17_given_value", "C17_omitted_default",
                                              "C17_real_tables", "C17_taskpool_examples"],
            "files": _FILES + ["ctrl/CRound.v", "ctrl/Thm_C17.v"]},
    "C18": {"module": "Thm_C18", "theorems": ["C18_one_reply_per_line", "C18_reply_is_own_output",
                                              "C18_buffer_empty", "C18_no_call_on_error",
                                              "C18_sessions_isolated"],
            "files": _FILES + ["ctrl/CSess.v", "ctrl/Thm_C18.v"]},
}

TRUSTED = [
    "Coq 8.16.1 kernel (coqc; coqchk in the thorough tier); no native_compute",
    "extraction to OCaml with ExtrOcamlBasic + ExtrOcamlString (no Extract Constant); ocaml/cdriver.ml",
    "lib/gensurface.py: introspection of the pool classes (inspect.getmembers / signature) and of the "
    "parser's own annotation classifier; regenerates theories/ctrl/PoolSurface.v on every run",
    "harness/ctrlrun.py: real ControlSession over in-memory streams; help-text parsing (argparse's "
    "layout at width 10000); conversions re-done by the harness for the twin pool",
    "argparse itself is not modelled beyond the canonical command grammar (CModel.parse_args); its "
    "agreement with the model is checked on the generated command lines only",
]
ASSUMPTIONS = [
    "CPython 3.12.1 argparse / inspect behaviour",
    "canonical command lines: '<command> positional... var-positional... options...', tokens without "
    "spaces; values do not start with '-' unless they are negative integers",
]
WIDTHS = [1, 2, 10, 20, 80, 200, 10000]


# ---------------------------------------------------------------------------------- helpers
def _classes():
    import ctrlrun
    from asyncio_taskpool.pool import SimpleTaskPool, TaskPool
    SubA, SubB, SubC, SubD, SubE = ctrlrun.make_subclasses()
    return {"TaskPool": TaskPool, "SimpleTaskPool": SimpleTaskPool, "SubA": SubA, "SubB": SubB,
            "SubC": SubC, "SubD": SubD, "SubE": SubE}


def model_table(surf_lines):
    """{cmd: {"member", "isprop", "args":[(dest, flags, action, nargs, conv)]}}, ok, wf"""
    out = core.run_driver(["ctrl", "table"], "#t\n" + "\n".join(surf_lines) + "\n")
    table, ok, wf = collections.OrderedDict(), None, None
    for ln in out.split("\n"):
        w = ln.split()
        if not w:
            continue
        if w[0] == "cmd":
            args = []
            for a in w[4:]:
                if a == "-":
                    continue
                dest, flags, action, nargs, conv = a.split("|")
                args.append((dest, [f for f in flags.split(",") if f], action, nargs, conv))
            table[w[1]] = {"member": w[2], "isprop": w[3] == "1", "args": args}
        elif w[0] == "ok":
            ok, wf = w[1] == "1", w[3] == "1"
        elif w[0] == "ERROR":
            raise RuntimeError(ln)
    return table, ok, wf


# ---------------------------------------------------------------------------------- C16
def job_c16(clsname, width, seed=0):
    import ctrlrun
    import gensurface
    cls = _classes()[clsname]
    surf = gensurface.surface(cls)
    lines = gensurface.to_text(surf)
    table, ok, wf = model_table(lines)
    fails, n_checks = [], 0
    rec = {"id": f"c16-{clsname}-w{width}", "class": clsname, "width": width, "commands": len(table),
           "model_ok": ok, "model_wf": wf}

    async def go():
        nonlocal n_checks
        pool = ctrlrun.new_pool(cls)
        s = ctrlrun.Sess(pool, width)
        try:
            hello = await s.start()
        except BaseException as e:   # noqa: BLE001
            hello = b""
        if s.error is not None or (s.task is not None and s.task.done()):
            fails.append({"what": "handshake failed", "error": repr(s.error)})
            return
        n_checks += 1
        if hello != (str(pool) + "\n").encode():
            fails.append({"what": "handshake reply is not the pool's name", "got": repr(hello),
                          "want": str(pool)})
        if not ok:
            fails.append({"what": "model predicts the parser cannot be built for this surface, "
                                  "yet the handshake succeeded (model/code disagree)"})
        # every public member is a command with help
        for cmd, spec in table.items():
            chunks = await s.send(f"{cmd} -h")
            n_checks += 1
            if len(chunks) != 1:
                fails.append({"what": "not exactly one reply", "line": f"{cmd} -h", "n": len(chunks)})
                continue
            text = chunks[0].decode()
            if not text.startswith(f"usage: {cmd}"):
                fails.append({"what": "help reply does not describe the command", "line": f"{cmd} -h",
                              "got": text[:120]})
                continue
            if width == 10000:
                # "with -h/--help describing it": the help carries the member's own description
                # (first line of its docstring; for a settable property: of getter and setter)
                import inspect as _i
                mem = _i.getattr_static(cls, spec["member"], None)
                for obj in ([mem.fget, mem.fset] if isinstance(mem, property) else [getattr(cls, spec["member"], None)]):
                    doc = (_i.getdoc(obj) or "").strip() if obj is not None else ""
                    first = doc.split("\n", 1)[0].strip()
                    if first and first not in text:
                        fails.append({"what": "the command's help does not carry the member's description",
                                      "cmd": cmd, "description": first, "got": text[:300]})
                h = ctrlrun.parse_help(text)
                want_pos = [(a[0], a[3]) for a in spec["args"] if not a[1]]
                got_pos = [(n, ctrlrun.usage_nargs(h["usage"], n)) for n in h["positionals"]]
                want_opt = sorted((sorted(a[1]), a[2] == "store") for a in spec["args"] if a[1])
                got_opt = sorted((sorted(f), t) for f, t in h["options"] if "-h" not in f)
                if not any("-h" in f and "--help" in f for f, _ in h["options"]):
                    fails.append({"what": "-h/--help missing from the command's help", "cmd": cmd})
                if want_pos != got_pos or want_opt != got_opt:
                    fails.append({"what": "command arguments differ from the model's table", "cmd": cmd,
                                  "model": [want_pos, want_opt], "impl": [got_pos, got_opt]})
        # the set of commands: top-level help lists exactly them
        chunks = await s.send("-h")
        n_checks += 1
        top = chunks[0].decode() if chunks else ""
        if width == 10000:
            listed = []
            for ln in top.split("\n"):
                # whatever is listed as a command, also names that start with a dash (a non-public
                # member's name turned into a command name)
                m = __import__("re").match(r"^    (\S+)(\s|$)", ln)
                if m:
                    listed.append(m.group(1))
            # argparse leaves a sub-command without help text out of the *listing* (it is still a
            # command, and `<command> -h` above has shown that): required in the listing are the
            # members with a non-blank docstring; nothing else may be listed
            import inspect
            documented = sorted(c for c, sp in table.items()
                                if (inspect.getdoc(getattr(cls, sp["member"], None)) or "").strip())
            if sorted(set(listed) - set(table)) or sorted(set(documented) - set(listed)):
                fails.append({"what": "set of commands differs", "model": sorted(table),
                              "documented": documented, "impl": sorted(listed)})
        # non-public members are not commands
        for kind, name, _ in surf:
            if name.startswith("_") and kind in "FP" and not name.startswith("__"):
                chunks = await s.send(name.replace("_", "-") + " -h")
                n_checks += 1
                text = chunks[0].decode() if chunks else ""
                if text.startswith("usage: " + name.replace("_", "-")):
                    fails.append({"what": "non-public member exposed", "member": name})
                break
        await s.stop()

    with ctrlrun.captured_std() as (so, se):
        ctrlrun.run(go())
    if so.getvalue() or se.getvalue():
        fails.append({"what": "server printed", "stdout": so.getvalue()[:200], "stderr": se.getvalue()[:200]})
    rec.update({"fails": fails, "checks": n_checks})
    return [rec]


# ---------------------------------------------------------------------------------- C17
LIT = {"args": ["(1,2)", "()", "([1,2],)", "([1,2],)", "(1,)"], "kwargs": ["{'a':1}", "{}", "{'a':[1]}", "{'a':[1]}"],
       "arg_iter": ["[1,2,3]", "[]", "['x']", "[[1,2],[3]]", "[[1,2],[3]]", "[{'k':1}]"],
       "args_iter": ["[(1,2),(3,4)]", "[]", "[(5,)]", "[([1],2)]", "[([1],2)]"],
       "kwargs_iter": ["[{'a':1},{'a':2}]", "[]", "[{'a':[1,2]}]", "[{'a':[1,2]}]"]}
PATHS = ["ctrlrun.work", "ctrlrun.work2", "ctrlrun.notcoro", "ctrlrun.slow", "ctrlrun.boom",
         "vpkg.sub.mod.work3", "ctrlrun.registry.work4"]


def draw_value(rng, dest, conv):
    if conv == "int":
        if rng.random() < 0.12:      # unusual but valid spellings of an int
            return rng.choice(["+3", "1_0", "-0", "007", "+0"])
        return str(rng.choice([0, 1, 2, 3, 5, -1, 7, 10]))
    if conv == "float":
        return rng.choice(["0.5", "2", "1e3", "3.25"])
    if conv == "str":
        return rng.choice(["g1", "g2", "user", "x_y", "apply-work-group-0", "map-work-group-0", "A",
                           "\tg1", "g\t2", "x=y", "\u00e9t\u00e9"])
    if conv == "literal":
        return rng.choice(LIT.get(dest, ["[1,2]", "(1,)", "{'a':1}", "7"]))
    if conv == "path":
        if "callback" in dest:
            return rng.choice(["ctrlrun.cb", "ctrlrun.cb", "ctrlrun.work"])
        return rng.choice(PATHS[:3] + PATHS[:2] + PATHS[4:])
    return "x"


def draw_call(rng, cmd, spec):
    import ctrlrun
    q = ctrlrun.q
    pos, var, opts = [], [], []
    for dest, flags, action, nargs, conv in spec["args"]:
        if not flags:
            if nargs == "one":
                pos.append(q(draw_value(rng, dest, conv)))
            elif nargs == "*":
                var = [q(draw_value(rng, dest, conv)) for _ in range(rng.choice([0, 1, 2, 3]))]
                if var and rng.random() < 0.4:
                    # a repeated value is passed on twice, like every other (cancel 0 0 = two requests)
                    var.insert(rng.randrange(len(var) + 1), rng.choice(var))
            elif nargs == "?":
                if rng.random() < 0.6:
                    pos.append(q(draw_value(rng, dest, conv)))
        elif rng.random() < 0.5:
            has_short = any(not f.startswith("--") for f in flags)
            form = rng.choice(["s", "l", "e"] if has_short else ["l", "e"])
            val = "" if action == "store_true" else draw_value(rng, dest, conv)
            opts.append(f"{dest}:{form}:{q(val)}")
    rng.shuffle(opts)
    return (f"call {cmd} pos={','.join(pos) or '-'} var={','.join(var) or '-'} "
            f"opts={';'.join(opts) or '-'}")


def job_c17(clsname, seed, count, replay_calls=None):
    import ctrlrun
    import gensurface
    rng = random.Random(seed)
    cls = _classes()[clsname]
    surf = gensurface.surface(cls)
    lines = gensurface.to_text(surf)
    table, ok, wf = model_table(lines)
    cmds = [c for c in table if c != "until-closed"]
    conv_fails = [{"what": "a parameter's conversion differs from what its annotation calls for "
                           "(callables by dotted path, argument containers as Python literals)",
                   "member": m, "parameter": pn, "by_annotation": a, "by_code": b}
                  for m, pn, a, b in gensurface.conv_disagreements(cls)]
    if replay_calls is not None:
        calls = replay_calls
    else:
        weights = [3 if c in ("apply", "map", "starmap", "doublestarmap", "start", "cancel", "stop",
                              "pool-size", "hello", "many", "label", "halt", "ratio", "runJob", "maxLoad",
                              "info", "INFO", "scale", "collect", "call-me", "level", "limit", "tagged") else 1 for c in cmds]
        calls = []
        for _ in range(count):
            c = rng.choices(cmds, weights)[0]
            if c == "gather-and-close" and rng.random() < 0.7:
                c = "flush"
            calls.append(draw_call(rng, c, table[c]))
        if "until-closed" in table and rng.random() < 0.5:
            # a command whose method waits: sent last (it blocks the session until the pool is
            # closed); if an earlier gather-and-close closed the pool it answers True at once
            calls.append(draw_call(rng, "until-closed", table["until-closed"]))
    out = core.run_driver(["ctrl", "interp"], "#t\n" + "\n".join(lines) + "\n--\n" + "\n".join(calls) + "\n")
    mo = [ln for ln in out.split("\n") if ln and not ln.startswith("#")]
    if any(ln.startswith("ERROR") for ln in mo):
        return [{"id": f"c17-{clsname}-{seed}", "error": "model driver: " + mo[-1], "fails": [], "checks": 0}]
    pairs = list(zip(mo[0::2], mo[1::2]))
    fails, n_checks, hist = [], 0, collections.Counter()
    samples = []

    async def go():
        nonlocal n_checks
        A, B = ctrlrun.new_pool(cls), ctrlrun.new_pool(cls)
        s = ctrlrun.Sess(A)
        await s.start()
        groups = ["g1", "g2", "user", "x_y", "apply-work-group-0", "map-work-group-0", "A", "start-group-0"]
        for call, (line, py) in zip(calls, pairs):
            toks = [ctrlrun.unq(t) for t in line.split()[1:]] if line != "line -" else []
            text = " ".join(toks)
            hist[toks[0] if toks else "?"] += 1
            if py == "none":
                fails.append({"what": "model cannot interpret its own rendering (machinery)", "call": call})
                continue
            ctrlrun.LOG.clear()
            s.writer.take()
            s.reader.feed_data(text.encode() + b"\n")
            fut = asyncio.ensure_future(ctrlrun.apply_pycall(B, surf, py))
            await ctrlrun.settle(30)
            # the command and the direct call start one loop iteration apart; long workloads (many
            # tasks on a small pool) are allowed to run out before anything is compared
            await ctrlrun.settle_pools([A, B], groups,
                                       extra=lambda: (fut.done(), len(s.writer.chunks)))
            chunks = s.writer.take()
            n_checks += 1
            got = b"".join(chunks).decode()
            if not fut.done():
                # the method itself waits (e.g. gather-and-close while a spawner waits for room on a
                # pool of size 0): the command must be waiting too - no reply yet - and the session
                # is blocked behind it, so the scenario ends here
                fut.cancel()
                if chunks:
                    fails.append({"what": "the command replied although the direct call is still waiting",
                                  "call": call, "line": text, "reply": got, "index": n_checks - 1})
                break
            want = fut.result()
            logA = sorted(x[1:] for x in ctrlrun.LOG if x[0] == "A")
            logB = sorted(x[1:] for x in ctrlrun.LOG if x[0] == "B")
            oa, ob = ctrlrun.pool_obs(A, groups), ctrlrun.pool_obs(B, groups)
            if len(samples) < 4:
                samples.append({"line": text, "predicted_call": py, "reply": got})
            if len(chunks) != 1 or got != want + "\n" or oa != ob or logA != logB:
                fails.append({"what": "command and direct call differ", "call": call, "line": text,
                              "predicted_call": py, "reply": got, "expected_reply": want + "\n",
                              "pool_after_command": oa, "pool_after_direct_call": ob,
                              "worker_calls": [logA[:6], logB[:6]], "index": n_checks - 1})
                break
        await s.stop()

    with ctrlrun.captured_std() as (so, se):
        ctrlrun.run(go())
    return [{"id": f"c17-{clsname}-{seed}", "class": clsname, "fails": conv_fails[:1] + fails,
             "checks": n_checks + 1, "calls": calls, "hist": dict(hist), "samples": samples}]


# ---------------------------------------------------------------------------------- C18
VOCAB_EXTRA = ["-h", "--help", "--", "-", "-x", "--nope", "=", "--msg=", "1", "-1", "0", "999999999999999999999",
               "\ufeff", "\ufeffpool-size", "\u200f", "e\u0301",
               "1.5", "abc", "None", "True", "[1,2]", "(", "'", '"', "ctrlrun.work", "no.such.path", "é", "日本",
               "\t", "a" * 300, "--return-exceptions", "-r", "--group-name", "-g", "--num", "-n"]


def draw_line(rng, table):
    cmds = list(table)
    x = rng.random()
    if x < 0.25:     # token soup over the vocabulary
        n = rng.randint(1, 5)
        return " ".join(rng.choice(cmds + VOCAB_EXTRA) for _ in range(n))
    if x < 0.5:      # a command with wrong / missing / extra arguments
        c = rng.choice(cmds)
        return " ".join([c] + [rng.choice(VOCAB_EXTRA) for _ in range(rng.randint(0, 3))])
    if x < 0.58:     # a well-formed command line in which one value cannot be converted
        bad_lit = ["[1,", "[1,2", "(01,)", "{'x':1", "'abc", "", "1 +", "f(1)", "abc", "[1,2]]", "{1:}", "@"]
        bad_path = ["no.such.path", "ctrlrun.nothing", "ctrlrun", ".", "os.path.", "1.2", ""]
        shape = rng.choice([
            ["apply", "ctrlrun.work", "-a", rng.choice(bad_lit)],
            ["apply", "ctrlrun.work", "-k", rng.choice(bad_lit)],
            ["apply", "ctrlrun.work", "-n", rng.choice(["x", "1.5", "", "--"])],
            ["apply", rng.choice(bad_path)],
            ["map", "ctrlrun.work", rng.choice(bad_lit)],
            ["starmap", "ctrlrun.work", rng.choice(bad_lit), "-n", rng.choice(["2", "x"])],
            ["doublestarmap", "ctrlrun.work", rng.choice(bad_lit)],
            ["map", rng.choice(bad_path), "[1,2]"],
            ["apply", "ctrlrun.work", "--end-callback", rng.choice(bad_path)],
            ["cancel", rng.choice(["x", "1.0", "[1]", "", "==SUPPRESS=="])],
            ["pool-size", rng.choice(["x", "1.5", "", "None", "inf", "1e999", "0x10", "+inf", "nan", "Infinity",
                                      "==SUPPRESS==", "==PARSER=="])],
            ["stop", rng.choice(["x", "2.5", "", "==SUPPRESS=="])],
            ["start", rng.choice(["x", "1e3", "", "inf", "0b1", "==SUPPRESS==", "A...", "..."])],
        ])
        return " ".join(shape)
    if x < 0.66:     # help requests
        if rng.random() < 0.3:      # the top-level help lists every command with its description
            return rng.choice(["-h", "--help"])
        return rng.choice(cmds + [""]) + " " + rng.choice(["-h", "--help"])
    if x < 0.675:    # a reply far longer than one network read of the client (SESSION_MSG_BYTES)
        return rng.choice(["\\" * 51300, "cancel " + " ".join(["7"] * 30000) + " x"])
    if x < 0.74:     # arbitrary printable text
        n = rng.randint(1, 40)
        return "".join(rng.choice("abcXYZ019 -_=.,;:'\"()[]{}<>!?@#$%^&*+/\\|~`") for _ in range(n)).strip() or "x"
    if x < 0.82:     # unknown command
        return rng.choice(["nope", "Cancel", "pool_size", "poolsize 3", "exit", "quit", "help"])
    # harmless valid commands
    return rng.choice(["num-running", "is-locked", "pool-size", "num-ended", "lock", "unlock", "is-full",
                       "num-cancelled", "flush", "cancel-all", "lock", "start 1", "apply ctrlrun.work",
                       "map ctrlrun.work [1]"])


def must_reject(line):
    """An oracle that does not go through the code under test: a command line whose int argument
    is not an int for Python itself must be answered with an error (never executed)."""
    t = line.split(" ")
    if len(t) == 2 and not t[1].startswith("-") \
            and t[0] in ("pool-size", "start", "stop", "limit", "level"):
        try:
            int(t[1])
        except ValueError:
            return True
    return False


def job_c18(clsname, seed, count, two_sessions=False, replay_lines=None):
    import ctrlrun
    import gensurface
    from argparse import ArgumentError
    from asyncio_taskpool.exceptions import HelpRequested, ParserError
    rng = random.Random(seed)
    cls = _classes()[clsname]
    surf = gensurface.surface(cls)
    table, ok, wf = model_table(gensurface.to_text(surf))
    lines = replay_lines if replay_lines is not None else [draw_line(rng, table) for _ in range(count)]
    lines = [" ".join(ln.split(" ")).strip() or "x" for ln in lines]
    fails, n_checks, kinds = [], 0, collections.Counter()
    samples = []

    async def go():
        nonlocal n_checks
        A, T = ctrlrun.new_pool(cls), ctrlrun.new_pool(cls)
        sess = [ctrlrun.Sess(A)]
        if two_sessions:
            # same pool class; the same terminal width in half of the scenarios
            sess.append(ctrlrun.Sess(A, width=60 if seed % 2 else 10000))
        oracle = [ctrlrun.Sess(T, width=x.width) for x in sess]     # twin sessions: parser oracle
        for x in sess + oracle:
            await x.start()
        if seed % 2 == 0 and not clsname.startswith("Simple") and clsname not in ("SubB", "SubD"):
            # tasks that failed (started through the API, not through a session): a `flush` line
            # then has an exception to report - as its one reply, the session stays usable
            A.apply(ctrlrun.boom, args=(seed,), num=2)
            await ctrlrun.settle(12)
        model_in = [[] for _ in sess]
        real_replies = [[] for _ in sess]
        late = []
        for i, line in enumerate(lines):
            k = rng.randrange(len(sess)) if replay_lines is None else i % len(sess)
            s, o = sess[k], oracle[k]
            # classify with the twin session's parser (same class, same width, fresh buffer)
            buf = o.session._response_buffer
            buf.seek(0); buf.truncate()
            try:
                o.session._parser.parse_args(line.split(" "))
                kind, out = "ok", ""
            except ArgumentError as e:
                kind, out = "argerr", str(e)
            except ParserError:
                kind, out = "perr", buf.getvalue()
            except HelpRequested:
                kind, out = "help", buf.getvalue()
            except BaseException as e:    # noqa: BLE001
                kind, out = "escape", repr(e)
            buf.seek(0); buf.truncate()
            if kind == "ok" and must_reject(line) and line.split(" ")[0] in table:
                fails.append({"what": "a value that is not an int was accepted for an int parameter "
                                      "(the command would be executed)", "line": line, "index": i})
                break
            if kind == "ok" and line.split(" ")[0] in ("until-closed", "gather-and-close"):
                # a command that waits (legitimately answered only when the pool is closed) would
                # block this session's remaining input: not sent
                kinds["skipped-waiting"] += 1
                continue
            if kind == "ok" and line.split(" ")[0] in ("apply", "map", "starmap", "doublestarmap", "start") \
                    and not A.is_locked:
                # a well-formed spawning command starts background activity, after which "this
                # line did not alter the pool" can no longer be judged from outside (C17 covers
                # what valid commands do): not sent by this fuzzer - unless the pool is locked:
                # the request is then refused, and the reply is the *empty* message of
                # PoolIsLocked, still exactly one reply (seed G15)
                kinds["skipped-spawning"] += 1
                continue
            kinds[kind] += 1
            before = ctrlrun.pool_obs(A)
            # framing: CRLF line ends, leading / trailing tabs and blanks are not part of the line
            pre, suf = [("", ""), ("", "\r"), ("", ""), ("\t", " \t"), (" ", "\r")][i % 5]
            chunks = await s.send(pre + line + suf, rounds=20)
            after = ctrlrun.pool_obs(A)
            n_checks += 1
            got = b"".join(chunks).decode()
            real_replies[k].append(got)
            if len(samples) < 5:
                samples.append({"line": line[:80], "kind": kind, "reply": got[:80]})
            if kind == "escape":
                fails.append({"what": "parser lets an exception escape", "line": line, "exc": out, "index": i})
                break
            if len(chunks) != 1 or not got.endswith("\n"):
                fails.append({"what": "not exactly one reply for the line", "line": line,
                              "chunks": [c.decode()[:80] for c in chunks], "index": i})
                break
            if s.error is not None or s.task.done():
                fails.append({"what": "session died", "line": line, "error": repr(s.error), "index": i})
                break
            if kind == "ok":
                model_in[k].append("ok val " + ctrlrun.q(got[:-1]))   # call outcome: taken as given
            else:
                model_in[k].append(f"{kind} {ctrlrun.q(out)}")
                late.append((k, line, got))
                if before != after:
                    fails.append({"what": "an error/help line altered the pool", "line": line,
                                  "before": before, "after": after, "index": i})
                    break
        # the session model on the same parse outcomes: same replies, in order
        if not fails:
            for k, (mi, rr) in enumerate(zip(model_in, real_replies)):
                if not mi:
                    continue
                out = core.run_driver(["ctrl", "session"], "#s\n" + "\n".join(mi) + "\n")
                mr = [ctrlrun.unq(ln.split()[1]) for ln in out.split("\n") if ln.startswith("reply ")]
                if mr != rr:
                    j = next((j for j, (a, b) in enumerate(zip(mr, rr)) if a != b), min(len(mr), len(rr)))
                    fails.append({"what": "reply differs from the session model (own output only)",
                                  "session": k, "reply_index": j,
                                  "model": mr[j][:200] if j < len(mr) else None,
                                  "impl": rr[j][:200] if j < len(rr) else None})
                    break
        # isolation: an error/help line answered late in a long session = answered in a fresh one
        if not fails and late:
            for k, line, got in late[-3:]:
                f = ctrlrun.Sess(ctrlrun.new_pool(cls), width=sess[k].width)
                await f.start()
                fresh = b"".join(await f.send(line, rounds=20)).decode()
                await f.stop()
                n_checks += 1
                if fresh != got:
                    fails.append({"what": "reply depends on the session's history", "line": line,
                                  "late": got[:200], "fresh": fresh[:200]})
                    break
        for x in sess + oracle:
            await x.stop()

    with ctrlrun.captured_std() as (so, se):
        ctrlrun.run(go())
    if so.getvalue() or se.getvalue():
        fails.append({"what": "server printed on stdout/stderr", "stdout": so.getvalue()[:300],
                      "stderr": se.getvalue()[:300]})
    return [{"id": f"c18-{clsname}-{seed}", "class": clsname, "fails": fails, "checks": n_checks,
             "lines": lines, "kinds": dict(kinds), "samples": samples, "two": two_sessions}]


def job_c18_wait(clsname, seed, count=0):
    """C18, waiting commands and concurrency: session A sends a command whose method waits
    (until-closed): no reply yet, and A's later lines queue behind it; meanwhile session B on the
    same pool is answered line by line (help, errors, getters); when B's gather-and-close has
    closed the pool, A's pending command is answered - exactly once, with its own result - and
    then A's queued lines, in order."""
    import ctrlrun
    rng = random.Random(seed)
    cls = _classes()[clsname]
    fails, n_checks = [], 0
    b_lines = [rng.choice(["num-running", "is-locked", "-h", "nope", "pool-size x", "num-ended", "is-full",
                           "cancel 99", "flush", "lock", "unlock"]) for _ in range(rng.randint(2, 6))]

    async def go():
        nonlocal n_checks
        A = ctrlrun.new_pool(cls)
        sa, sb = ctrlrun.Sess(A), ctrlrun.Sess(A, width=70)
        await sa.start()
        await sb.start()
        got = await sa.send("until-closed", rounds=20)
        n_checks += 1
        if got:
            fails.append({"what": "until-closed was answered although the pool is not closed",
                          "reply": b"".join(got).decode()[:120]})
            return
        queued = ["num-running", "is-locked"]
        for q in queued:                      # they wait behind the pending command
            got = await sa.send(q, rounds=10)
            n_checks += 1
            if got:
                fails.append({"what": "a line sent behind a waiting command was answered before it",
                              "line": q, "reply": b"".join(got).decode()[:120]})
                return
        for ln in b_lines:
            got = await sb.send(ln, rounds=20)
            n_checks += 1
            if len(got) != 1 or not got[0].endswith(b"\n"):
                fails.append({"what": "the other session is not answered once per line while a "
                                      "command waits in the first", "line": ln,
                              "chunks": [c.decode()[:80] for c in got]})
                return
            if sa.writer.chunks:
                fails.append({"what": "the waiting session received output of the other session",
                              "line": ln, "got": b"".join(sa.writer.take()).decode()[:120]})
                return
        # the process the server lives in goes on printing while a command waits: that output
        # belongs to the process (stdout / stderr), never to a session's reply
        import sys as _sys
        stdout_before = _sys.stdout
        print(token)
        print(token, file=_sys.stderr)
        got = await sb.send("gather-and-close", rounds=40)
        n_checks += 1
        if [c.decode() for c in got] != ["ok\n"]:
            fails.append({"what": "gather-and-close not answered with ok", "chunks": [c.decode()[:80] for c in got]})
            return
        await ctrlrun.settle(30)
        ra = [c.decode() for c in sa.writer.take()]
        n_checks += 1
        want = ["True\n", "0\n", "True\n"]
        if ra != want:
            fails.append({"what": "after the pool closed the waiting session must receive the reply of "
                                  "until-closed and then those of its queued lines, once each, in order",
                          "got": ra, "expected": want})
        await sa.stop()
        await sb.stop()
        if _sys.stdout is not stdout_before:
            fails.append({"what": "a session left sys.stdout of the server process replaced"})

    token = f"process-output-{seed}"
    with ctrlrun.captured_std() as (so, se):
        ctrlrun.run(go())
    if not fails and (so.getvalue() != token + "\n" or se.getvalue() != token + "\n"):
        fails.append({"what": "what the server process printed while a command was waiting did not reach its "
                              "stdout/stderr unchanged (or the server printed something itself)",
                      "stdout": so.getvalue()[:300], "stderr": se.getvalue()[:300], "expected": token})
    return [{"id": f"c18wait-{clsname}-{seed}", "class": clsname, "fails": fails, "checks": n_checks,
             "lines": ["until-closed"] + b_lines, "kinds": {"waiting-scenario": 1}, "samples": [], "two": True}]


# ---------------------------------------------------------------------------------- driver
def jobs(pid, tier, seed):
    js = []
    base = seed * 7919 + int(pid[1:]) * 101
    if pid == "C16":
        for c in ("TaskPool", "SimpleTaskPool", "SubA", "SubB", "SubC", "SubD", "SubE"):
            for w in WIDTHS:
                js.append(("prop_ctrl", "job_c16", {"clsname": c, "width": w}))
    elif pid == "C17":
        n, cnt = (16, 40) if tier == "quick" else (96, 120)
        for k in range(n):
            c = ["TaskPool", "SimpleTaskPool", "SubA", "SubB", "TaskPool", "SubC", "SubE", "SubD"][k % 8]
            js.append(("prop_ctrl", "job_c17", {"clsname": c, "seed": base + k, "count": cnt}))
    elif pid == "C18":
        n, cnt = (16, 60) if tier == "quick" else (96, 200)
        for k in range(n):
            c = ["TaskPool", "SimpleTaskPool", "SubA", "SubB", "SubE", "TaskPool", "SimpleTaskPool", "SubD"][k % 8]
            js.append(("prop_ctrl", "job_c18", {"clsname": c, "seed": base + k, "count": cnt,
                                                "two_sessions": k % 3 == 0}))
        for k in range(4 if tier == "quick" else 24):
            js.append(("prop_ctrl", "job_c18_wait", {"clsname": ["TaskPool", "SimpleTaskPool", "SubA", "SubB"][k % 4],
                                                     "seed": base + 500 + k}))
    return js


def corpus_jobs(pid):
    js = []
    d = os.path.join(core.VERIF, "corpus", pid)
    if os.path.isdir(d):
        for f in sorted(os.listdir(d)):
            j = json.load(open(os.path.join(d, f)))
            js.append(("prop_ctrl", j["job"], j["kwargs"]))
    return js


def main(pid, tier, seed, replay):
    t0 = time.time()
    problems, pinfo = core.proof_status(PROOF.get(pid), tier)
    recs = []
    if os.path.exists(core.DRIVER):
        if replay:
            j = json.load(open(replay))
            js = [("prop_ctrl", j["job"], j["kwargs"])]
        else:
            js = corpus_jobs(pid) + jobs(pid, tier, seed)
        recs = lockstep.run_jobs(js)
    else:
        problems.append("extracted driver missing: correspondence could not run")
    errors = [r for r in recs if r.get("error")]
    failing = [r for r in recs if r.get("fails")]
    exit_code = 0
    if failing:
        r = failing[0]
        f = r["fails"][0]
        kw = {"clsname": r.get("class")}
        job = {"C16": "job_c16", "C17": "job_c17", "C18": "job_c18"}[pid]
        if r["id"].startswith("c18wait-"):
            job = "job_c18_wait"
            kw["seed"] = int(r["id"].rsplit("-", 1)[1])
        elif pid == "C16":
            kw["width"] = r["width"]
        elif pid == "C17":
            kw.update({"seed": 0, "count": 0, "replay_calls": r["calls"][: f.get("index", len(r["calls"])) + 1]})
        else:
            kw.update({"seed": 0, "count": 0, "two_sessions": r.get("two", False),
                       "replay_lines": r["lines"][: f.get("index", len(r["lines"])) + 1]})
        path = core.write_replay(pid, "violation.json", {
            "property": pid, "kind": "implementation-differs-from-verified-model", "failure": f,
            "found_in": r["id"], "job": job, "kwargs": kw,
            "how_to_replay": f"./check {pid} --replay <this file>"})
        print(f"VIOLATION property={pid} replay={path}")
        exit_code = 1
    elif problems or errors:
        path = core.write_replay(pid, "unproved.json", {
            "property": pid, "kind": "proof-or-correspondence-broken", "proof_problems": problems,
            "harness_errors": [e.get("error", "")[-1500:] for e in errors[:3]]})
        print(f"VIOLATION property={pid} replay={path} no-failing-input-found")
        exit_code = 1
    checks = sum(r.get("checks", 0) for r in recs)
    hist = collections.Counter()
    for r in recs:
        for k, v in (r.get("hist") or r.get("kinds") or {}).items():
            hist[k] += v
    distinct = len({json.dumps(r.get("calls") or r.get("lines") or [r.get("class"), r.get("width")])
                    for r in recs if r.get("checks", 0) > 0})
    samples = []
    for r in recs[:3] + recs[-2:]:
        samples.extend(r.get("samples", [])[:2] or [{"class": r.get("class"), "width": r.get("width"),
                                                     "commands": r.get("commands")}])
    cov = {
        "obligations": max(pinfo["obligations"], 1), "discharged": pinfo["discharged"] if not problems else 0,
        "checker_cmd": "coq_makefile -f _CoqProject -o Makefile && make (coqc 8.16.1, full .vo build)"
                       + ("; coqchk -o" if tier == "thorough" else "") + "; Print Assumptions <theorem>",
        "trusted_base": TRUSTED, "theorems": pinfo["theorems"], "proof_problems": problems,
        "coqchk": pinfo.get("coqchk", "not run in the quick tier"),
        "evaluations": len(recs), "distinct_nontrivial": distinct,
        "rule": "one evaluation = one scenario (class x width for C16; a command sequence through a real "
                "session and a twin pool for C17; a line sequence through one or two real sessions for C18); "
                "non-trivial = at least one command/line was actually exchanged; distinct = distinct inputs",
        "traces_validated_against_impl": len([r for r in recs if not r.get("error")]),
        "individual_comparisons": checks, "input_histogram": dict(hist),
        "failing_scenarios": len(failing), "harness_errors": len(errors), "samples": samples[:8],
    }
    core.write_evidence(pid, tier, seed, cov, ASSUMPTIONS, time.time() - t0, len(failing) + (1 if exit_code and not failing else 0))
    return exit_code
