#!/usr/bin/env python3
"""Regenerates MANIFEST.json from the table below (kept in one place so it stays valid)."""
import json, os
HERE = os.path.dirname(os.path.dirname(os.path.abspath(__file__)))
props = [json.loads(l) for l in open(os.path.join(HERE, "properties.jsonl"))]
ids = [p["id"] for p in props]

CLAIMED = {
 "C20": dict(
   text="Theorem C20 (Coq, unbounded): the monitor mon_C20 (exactly-once item_processed per item handed to a block, whatever the exit; a consumer cancelled while waiting marks nothing; no ValueError; a join() waiter is released exactly when everything put so far has been processed) accepts the observation stream of every label sequence of the queue model. The model is tied to /repo by a lockstep correspondence check against the real Queue (StepLoop, real Tasks), and the same extracted monitor is evaluated on the implementation's stream.",
   note="Trusted: Coq 8.16.1 kernel; extraction (ExtrOcamlBasic only); OCaml driver; Python StepLoop harness; hand-written model of asyncio.Queue/Event/Task.cancel (CPython 3.12.1), validated only on explored traces. Theorem closed under the global context (no axioms).",
   technique="Coq proof (simulation invariant, induction over label sequences) + lockstep model/implementation correspondence",
   design="6 C20, 3, 8"),
}
TB_CTRL = ("Trusted: Coq 8.16.1 kernel; extraction (ExtrOcamlBasic + ExtrOcamlString, no Extract Constant); OCaml driver; "
           "lib/gensurface.py (introspection of the pool classes; PoolSurface.v regenerated from /repo on every run); "
           "harness/ctrlrun.py (real ControlSession over in-memory streams, help-text parsing, twin pool). argparse is "
           "modelled only for the canonical command grammar and its agreement with the model is checked on generated "
           "lines, not proved. All theorems closed under the global context (no axioms).")
CLAIMED["C16"] = dict(
   text="Theorems C16_names / C16_private_hidden / C16_constructible (Coq, for every class surface, unbounded): the command table built from a class consists of exactly its public functions and properties, named with dashes, in order; non-public members are never exposed; and for every well-formed surface (any subclass adding public members) the parser construction cannot fail - no two option strings of a command coincide, none collides with -h/--help, every annotation is classified. C16_taskpool / C16_simplepool instantiate this on the surfaces of the real classes, regenerated from /repo by introspection on every run (so a changed signature or annotation re-opens the obligation). Correspondence: real handshakes (both classes, two subclasses, seven terminal widths) - reply = pool name, the set of commands and every command's arguments as shown by '<command> -h' equal the model's table.",
   note=TB_CTRL, technique="Coq proof over a regenerated model of the class surface (translator: introspection -> PoolSurface.v) + model/implementation correspondence on real sessions", design="6 C16, 7")
CLAIMED["C17"] = dict(
   text="Theorem C17_roundtrip (Coq, for every class surface, command and call, unbounded): rendering a call as a canonical command line and parsing it with the model of the parser yields exactly the expected namespace, and the session's dispatch turns it into the call with positional-or-keyword parameters in signature order, var-positionals unpacked, keyword-only by keyword; C17_given_value / C17_omitted_default: every given option holds its value, every omitted one the method's own default; C17_real_tables: the real classes' tables (regenerated from /repo each run) satisfy the hypotheses. Conversions of argument text are an oracle (the harness converts independently). Correspondence: generated calls go as text through a real session into pool A while the call predicted by the model is applied directly to a twin pool B; replies, pool observables and worker invocations are compared.",
   note=TB_CTRL, technique="Coq proof (round trip render/parse/dispatch) over a regenerated surface + twin-pool model/implementation correspondence", design="6 C17, 7")
CLAIMED["C18"] = dict(
   text="PARTIAL. Theorems C18_one_reply_per_line / C18_reply_is_own_output / C18_buffer_empty / C18_no_call_on_error (Coq, every line sequence, every parser/pool behaviour within the contract ArgumentError | ParserError | HelpRequested | namespace): the session loop writes exactly one reply per non-blank line, in order; each reply is the output of its own command only (buffer empty when a command starts); lines that do not parse make no pool call. What the theorems cannot carry - that real argparse stays inside that contract for arbitrary text, never prints, never exits - is exercised, not proved: token soup / arbitrary printable lines through one or two real sessions on a real pool, checking one reply per line, replies equal to the session model fed with the parser's outcomes, unchanged pool on error/help lines, empty stdout/stderr, session still alive, and history-independence of error/help replies. Commands whose method waits (until-closed) are not sent by the fuzzer.",
   note=TB_CTRL, technique="Coq proof of the session state machine (parser and pool as oracles) + fuzzing correspondence against real sessions (the latter is a test, not a proof)", design="6 C18, 7")
CLAIMED["C19"] = dict(
   text="PARTIAL. Theorems C19_serving_until_stop / C19_clients_served / C19_disconnect_is_local / C19_stop / C19_socket_file (Coq, every sequence of start / connect / send / disconnect / stop labels, any number of clients, both transports): serve_forever returns a task and the server listens until that task is cancelled; every client is answered, a disconnect changes no other session; after the cancellation the address accepts nothing, is_serving is false, and the task completes exactly when every connected client has gone (not earlier), whereupon a Unix server's socket file is gone. The theorems are about a model of the lifecycle logic on top of asyncio's stream-server contract; kernel sockets, the selector loop and time cannot be carried by a theorem: they are exercised by the correspondence, which runs the same label sequences against real TCP and Unix servers with raw clients and the bundled CLI client (subprocess) and compares listening / task completion / socket file / per-client replies and server-side close after every label (bounded waits; a hang shows as a timeout where the model predicts completion).",
   note="Trusted: Coq 8.16.1 kernel; extraction; ocaml/sdriver.ml; harness/srvrun.py (real sockets, subprocess CLI client, bounded waits of VERIF_SRV_TIMEOUT seconds per label); the hand-written lifecycle model theories/srv/SModel.v incl. its rendering of asyncio's Server.close/wait_closed contract (CPython 3.12.1), validated only on explored sequences. Theorems closed under the global context.",
   technique="Coq proof (inductive invariant of the lifecycle state machine) + model/implementation correspondence over real sockets", design="6 C19, 7")

TB_POOL = ("Trusted: Coq 8.16.1 kernel; extraction (ExtrOcamlBasic, ExtrOcamlString); OCaml driver (parsing/printing); "
           "Python harness: steploop.py (replaces only the event loop's outer iteration; Tasks, Futures, Semaphore, gather are "
           "CPython 3.12.1's), poolrun.py (harness-owned workers, callbacks, argument iterables), poolgen.py. The hand-written "
           "model theories/pool/PModel.v of pool.py + the asyncio slice it uses is tied to /repo by lockstep correspondence "
           "(checked on explored traces, not proved). Preconditions are explicit in the theorems: P-unlock (no unlock() once "
           "gather_and_close() was requested), and where stated P-size / P-self (open finding D11) / P-iter. Driver tasks are "
           "never cancelled; exceptions raised by the argument iterator itself are not modelled. All theorems closed under the "
           "global context.")
TECH_POOL = "Coq proof (inductive invariant WF + auxiliary invariants over all label sequences; per-instant / per-step specifications) + lockstep model/implementation correspondence at single-handle granularity + extracted monitor as search oracle"
def pool(pid, text, design=None):
    CLAIMED[pid] = dict(text=text, note=TB_POOL, technique=TECH_POOL, design=design or f"I.6 {pid}, I.7, I.3")
pool("C01", "Theorem C01 (Coq, unbounded: every pool size incl. 0 and unbounded, every label sequence = every schedule and every placement of spawn/cancel/finish/flush/close operations at handle boundaries or inside workers, callbacks, argument iterators): at every instant num_running <= size, the started-and-unfinished workers <= size, an unbounded pool is never full, and at a quiet idle point is_full <=> num_running = size. Obtained from the inductive invariant WF (slot conservation capacity = free + in_use, no-lost-wake-up, ready-handle layer) proved preserved by every step of the model. The extracted model is compared with the real pool after every event-loop handle; the monitor clauses C01.* are evaluated on the implementation's stream.")
pool("C02", "Theorem C02: at every quiet idle point every task filed as running is a started worker waiting on its own pending future, nothing is filed as cancelled and free = capacity - running; every task's slot is released at most once and exactly once when it is done, its end callback ran exactly once, a done task is not filed running/cancelled - including tasks cancelled before their first step (they go through the cancel path in the model as in the repaired code); when nothing is in flight the free count is the pool size. From WF layers I2, I3, I5, IH.")
pool("C03", "Theorems C03 (registries partition the tasks; nr+nc+ne+forgotten = created; per-task callback counters as a function of the program counter: cancel callback at most once and strictly before the end callback, end callback exactly once, slot released before it; the task counts as cancelled / ended while the respective callback runs; callbacks run to completion under P-self), C03_transitions (per step: running->cancelled->ended, running->ended, ended->forgotten only), C03_cancel_cb_iff (cancel callback iff the worker ended by a propagated CancelledError or was cancelled before starting), C03_end_cb_class. Open finding D11 (self-cancellation from a worker's final segment) is excluded by P-self and reported as KNOWN-FINDING.")
pool("C04", "Theorem C04: per apply/start request - never more tasks than requested; every task carries the request's function behaviour, callbacks and a distinct invocation index; a spawner that ended normally with its group not cancelled made exactly num invocations (0 if the call raises); a spawner never ends with an exception (in particular not PoolIsLocked/PoolIsClosed after lock()/gather_and_close()) and is cancelled only with its group; at a quiet idle point an unfinished request is blocked for room (is_full); its tasks are in the returned group. From WF layers IR, IM, IG, I4, I5, IGr + Extra_B.")
pool("C05", "Theorem C05: per map/starmap/doublestarmap request - each task was made from one non-bad element with that element's behaviour, at most one per element; the consumed prefix equals created + skipped (order, nothing skipped or repeated); pulled <= created + skipped + 1; live tasks of the call <= num_concurrent; at a quiet idle point a call with elements left that is not held up by a full pool has exactly num_concurrent tasks running. From WF layer IR (incl. the per-call semaphore conservation) + Extra_map' (the first formulation of that auxiliary invariant was refuted by a reachable 9-label run, kept as a theorem).")
pool("C06", "Theorems C06 (the operation, every state: some id not running => the error class of the FIRST such id by its classification and the pool unchanged; all running => exactly the named task records get a cancellation request, repeated ids idempotent, every other record/registry unchanged), C06_delivered (a started task with a request pending has a ready handle and observes exactly one CancelledError at its next step), C06_no_spurious / C06_only_by_cancel / C06_mark_consumed (a worker logs CancelledError only if a request was outstanding; a request becomes outstanding only through a cancellation operation that names the task; it is consumed when delivered).")
pool("C07", "Theorems C07_group (cancel_group on every reachable state: unknown name => InvalidGroupName and the pool unchanged; known => the group is forgotten and its name free, other groups' registers untouched, every request of that name dead, every unfinished task of the group gets exactly one cancellation request, other tasks and other groups' spawners untouched, registries and free count unchanged), C07_all (the same for cancel_all over all groups), C07_no_late (in every later step a request whose group was cancelled creates no task and never advances its iterator again; P-iter as in the property's own text).")
pool("C09", "Theorem C09 (holds for EVERY state, no invariant needed): a rejected apply/map/starmap/doublestarmap/start leaves every field of the pool unchanged (no group, no spawner, no call, no pull); the checks are ordered type -> closed -> locked -> value -> duplicate name; a negative pool size raises ValueError and changes nothing; lock/unlock are idempotent and unlock restores acceptance.")
pool("C10", "Theorem C10: live group names are unique, their registers pairwise disjoint, every id in a register was created for that group, and every task is in the register of the group it was created for unless that group was cancelled since (requests are keyed by request, not by name, so name re-use is covered). Name freshness: a request under a live name is rejected (C09) and generated names are re-checked the same way; get_group_ids is compared by the correspondence at every label.")
pool("C11", "Theorems C11 (the tasks created so far are exactly the ids 0..num_started-1 in creation order; every id known to a registry or group is below num_started) and C11_never_reused (ids issued = tasks filed + tasks forgotten, so flushing never lowers the next id). Task names and the ids passed to callbacks are compared by the correspondence; independence across several pools in one loop and distinct names of unnamed pools are exercised directly on the implementation (the model has one pool) - that clause is tested, not proved.")
pool("C13", "Theorems C13_step (in every step of every clean run a task that leaves the registries had finished; when a flush completes, the running and cancelled registries are untouched and its whole snapshot is forgotten) and C13_trace (once flush() has returned normally, no task that had finished before the call is still remembered, whatever happened while it waited, including overlapping flushes). 'flush(return_exceptions=True) never raises' is part of C12.")
pool("C14", "Theorems C14 (stop(n) returns firstn n (rev running) = min(n, num_running) ids, its effect is that of cancel() on exactly those, n <= 0 cancels nothing, stop_all returns all) and C14_newest_first (the running registry is kept in start order along every clean run, so the result is strictly descending and every running id not returned is older than every returned one).")
pool("C15", "REFUTED + PARTIAL (two open known findings, D5/D6, not repaired - see DESIGN I.9). Theorems C15_getter_refuted and C15_setter_refuted give concrete witness runs (by vm_compute) on which the full statement fails - the getter returns the free count; an increase does not wake waiting spawners - and the check replays them on the implementation and prints KNOWN-FINDING lines; C15_partial proves what does hold: a negative value raises ValueError and changes nothing, the value read while no slot is in use is the configured one, an assignment makes v the number of free slots and disturbs no task. Any other failing clause, or one of these outside its signature, is still reported as a violation.")

NOT_YET = "not claimed in this revision: the check for this property is not registered yet (see DESIGN.md 11 staging)"

checks = []
for i in ids:
    if i in CLAIMED:
        c = CLAIMED[i]
        checks.append({
          "property_id": i,
          "quick_cmd": f"./check {i} --tier quick",
          "thorough_cmd": f"./check {i} --tier thorough",
          "evidence_file": f"/verif/evidence/{i}.json",
          "replay_cmd_template": f"./check {i} --replay {{path}}",
          "engine": "coq-lockstep",
          "level_claimed": {"category": "proof", "text": c["text"], "design_ref": c["design"]},
          "level_note": c["note"],
          "technique": c["technique"],
        })
m = {
 "version": 1,
 "setup_cmd": "cd /verif && /venv/bin/python lib/setup.py",
 "hooks": {"guard": "ASYNCIO_TASKPOOL_VERIF", "enable": "no source hooks are needed: every observation is taken through the public API and harness-owned coroutines/callbacks; the guard variable is unused",
           "baseline_off_cmd": "cd /repo && /venv/bin/python -m pytest -ra -q -p no:cacheprovider --timeout=900 --continue-on-collection-errors",
           "source_commits": [], "add_only": True},
 "engines": [{"name": "coq-lockstep", "path": "/verif/check",
              "serves_properties": sorted(CLAIMED),
              "kind_free_text": "Coq 8.16.1 theorems over hand-written executable models + lockstep correspondence of the extracted model with the implementation under a single-step event loop"}],
 "checks": checks,
 "not_applicable": [{"property_id": i, "reason": NOT_YET} for i in ids if i not in CLAIMED],
 "notes": "See DESIGN.md. fix: commits in /repo are recorded in KNOWN_FINDINGS.json.",
}
json.dump(m, open(os.path.join(HERE, "MANIFEST.json"), "w"), indent=1)
print("claimed:", sorted(CLAIMED))
