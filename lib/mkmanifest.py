#!/usr/bin/env python3
"""Regenerates MANIFEST.json from the table below (kept in one place so it stays valid)."""
import json, os
HERE = os.path.dirname(os.path.dirname(os.path.abspath(__file__)))
props = [json.loads(l) for l in open(os.path.join(HERE, "properties.jsonl"))]
ids = [p["id"] for p in props]

CLAIMED = {
 "C20": dict(
   text="Theorem C20 (Coq, unbounded): the monitor mon_C20 (exactly-once item_processed per item handed to a block, whatever the exit; a consumer cancelled while waiting marks nothing; no ValueError; a join() waiter is released exactly when everything put so far has been processed) accepts the observation stream of every label sequence of the queue model. The model is tied to /repo by a lockstep correspondence check against the real Queue (StepLoop, real Tasks), and the same extracted monitor is evaluated on the implementation's stream.",
   note="Trusted: Coq 8.16.1 kernel; extraction (ExtrOcamlBasic only); OCaml driver; Python StepLoop harness; hand-written model of asyncio.Queue/Event/Task.cancel (CPython 3.12.1), validated only on explored traces. Theorem closed under the global context (no axioms).",
   technique="Coq proof (simulation invariant, induction over label sequences) + lockstep model/implementation correspondence",
   design="6 C20, 3, 8"),
}
NOT_YET = "not claimed in this revision: model/proof for this property is not built yet (see DESIGN.md 11 staging)"

checks = []
for i in ids:
    if i in CLAIMED:
        c = CLAIMED[i]
        checks.append({
          "property_id": i,
          "quick_cmd": f"./check {i} --tier quick",
          "thorough_cmd": f"./check {i} --tier thorough",
          "evidence_file": f"/verif/evidence/{i}.json",
          "replay_cmd_template": f"./check {i} --replay {{path}}",
          "engine": "coq-lockstep",
          "level_claimed": {"category": "proof", "text": c["text"], "design_ref": c["design"]},
          "level_note": c["note"],
          "technique": c["technique"],
        })
m = {
 "version": 1,
 "setup_cmd": "cd /verif && /venv/bin/python lib/setup.py",
 "hooks": {"guard": "ASYNCIO_TASKPOOL_VERIF", "enable": "no source hooks are needed: every observation is taken through the public API and harness-owned coroutines/callbacks; the guard variable is unused",
           "baseline_off_cmd": "cd /repo && /venv/bin/python -m pytest -ra -q -p no:cacheprovider --timeout=900 --continue-on-collection-errors",
           "source_commits": [], "add_only": True},
 "engines": [{"name": "coq-lockstep", "path": "/verif/check",
              "serves_properties": sorted(CLAIMED),
              "kind_free_text": "Coq 8.16.1 theorems over hand-written executable models + lockstep correspondence of the extracted model with the implementation under a single-step event loop"}],
 "checks": checks,
 "not_applicable": [{"property_id": i, "reason": NOT_YET} for i in ids if i not in CLAIMED],
 "notes": "See DESIGN.md. fix: commits in /repo are recorded in KNOWN_FINDINGS.json.",
}
json.dump(m, open(os.path.join(HERE, "MANIFEST.json"), "w"), indent=1)
print("claimed:", sorted(CLAIMED))
