#!/usr/bin/env python3
"""Regenerates MANIFEST.json from the table below (kept in one place so it stays valid)."""
import json, os
HERE = os.path.dirname(os.path.dirname(os.path.abspath(__file__)))
props = [json.loads(l) for l in open(os.path.join(HERE, "properties.jsonl"))]
ids = [p["id"] for p in props]

CLAIMED = {
 "C20": dict(
   text="Theorem C20 (Coq, unbounded): the monitor mon_C20 (exactly-once item_processed per item handed to a block, whatever the exit; a consumer cancelled while waiting marks nothing; no ValueError; a join() waiter is released exactly when everything put so far has been processed) accepts the observation stream of every label sequence of the queue model. The model is tied to /repo by a lockstep correspondence check against the real Queue (StepLoop, real Tasks), and the same extracted monitor is evaluated on the implementation's stream.",
   note="Trusted: Coq 8.16.1 kernel; extraction (ExtrOcamlBasic only); OCaml driver; Python StepLoop harness; hand-written model of asyncio.Queue/Event/Task.cancel (CPython 3.12.1), validated only on explored traces. Theorem closed under the global context (no axioms).",
   technique="Coq proof (simulation invariant, induction over label sequences) + lockstep model/implementation correspondence",
   design="6 C20, 3, 8"),
}
TB_CTRL = ("Trusted: Coq 8.16.1 kernel; extraction (ExtrOcamlBasic + ExtrOcamlString, no Extract Constant); OCaml driver; "
           "lib/gensurface.py (introspection of the pool classes; PoolSurface.v regenerated from /repo on every run); "
           "harness/ctrlrun.py (real ControlSession over in-memory streams, help-text parsing, twin pool). argparse is "
           "modelled only for the canonical command grammar and its agreement with the model is checked on generated "
           "lines, not proved. All theorems closed under the global context (no axioms).")
CLAIMED["C16"] = dict(
   text="Theorems C16_names / C16_private_hidden / C16_constructible (Coq, for every class surface, unbounded): the command table built from a class consists of exactly its public functions and properties, named with dashes, in order; non-public members are never exposed; and for every well-formed surface (any subclass adding public members) the parser construction cannot fail - no two option strings of a command coincide, none collides with -h/--help, every annotation is classified. C16_taskpool / C16_simplepool instantiate this on the surfaces of the real classes, regenerated from /repo by introspection on every run (so a changed signature or annotation re-opens the obligation). Correspondence: real handshakes (both classes, two subclasses, seven terminal widths) - reply = pool name, the set of commands and every command's arguments as shown by '<command> -h' equal the model's table.",
   note=TB_CTRL, technique="Coq proof over a regenerated model of the class surface (translator: introspection -> PoolSurface.v) + model/implementation correspondence on real sessions", design="6 C16, 7")
CLAIMED["C17"] = dict(
   text="Theorem C17_roundtrip (Coq, for every class surface, command and call, unbounded): rendering a call as a canonical command line and parsing it with the model of the parser yields exactly the expected namespace, and the session's dispatch turns it into the call with positional-or-keyword parameters in signature order, var-positionals unpacked, keyword-only by keyword; C17_given_value / C17_omitted_default: every given option holds its value, every omitted one the method's own default; C17_real_tables: the real classes' tables (regenerated from /repo each run) satisfy the hypotheses. Conversions of argument text are an oracle (the harness converts independently). Correspondence: generated calls go as text through a real session into pool A while the call predicted by the model is applied directly to a twin pool B; replies, pool observables and worker invocations are compared.",
   note=TB_CTRL, technique="Coq proof (round trip render/parse/dispatch) over a regenerated surface + twin-pool model/implementation correspondence", design="6 C17, 7")
CLAIMED["C18"] = dict(
   text="PARTIAL. Theorems C18_one_reply_per_line / C18_reply_is_own_output / C18_buffer_empty / C18_no_call_on_error (Coq, every line sequence, every parser/pool behaviour within the contract ArgumentError | ParserError | HelpRequested | namespace): the session loop writes exactly one reply per non-blank line, in order; each reply is the output of its own command only (buffer empty when a command starts); lines that do not parse make no pool call. What the theorems cannot carry - that real argparse stays inside that contract for arbitrary text, never prints, never exits - is exercised, not proved: token soup / arbitrary printable lines through one or two real sessions on a real pool, checking one reply per line, replies equal to the session model fed with the parser's outcomes, unchanged pool on error/help lines, empty stdout/stderr, session still alive, and history-independence of error/help replies. Commands whose method waits (until-closed) are not sent by the fuzzer.",
   note=TB_CTRL, technique="Coq proof of the session state machine (parser and pool as oracles) + fuzzing correspondence against real sessions (the latter is a test, not a proof)", design="6 C18, 7")
CLAIMED["C19"] = dict(
   text="PARTIAL. Theorems C19_serving_until_stop / C19_clients_served / C19_disconnect_is_local / C19_stop / C19_socket_file (Coq, every sequence of start / connect / send / disconnect / stop labels, any number of clients, both transports): serve_forever returns a task and the server listens until that task is cancelled; every client is answered, a disconnect changes no other session; after the cancellation the address accepts nothing, is_serving is false, and the task completes exactly when every connected client has gone (not earlier), whereupon a Unix server's socket file is gone. The theorems are about a model of the lifecycle logic on top of asyncio's stream-server contract; kernel sockets, the selector loop and time cannot be carried by a theorem: they are exercised by the correspondence, which runs the same label sequences against real TCP and Unix servers with raw clients and the bundled CLI client (subprocess) and compares listening / task completion / socket file / per-client replies and server-side close after every label (bounded waits; a hang shows as a timeout where the model predicts completion).",
   note="Trusted: Coq 8.16.1 kernel; extraction; ocaml/sdriver.ml; harness/srvrun.py (real sockets, subprocess CLI client, bounded waits of VERIF_SRV_TIMEOUT seconds per label); the hand-written lifecycle model theories/srv/SModel.v incl. its rendering of asyncio's Server.close/wait_closed contract (CPython 3.12.1), validated only on explored sequences. Theorems closed under the global context.",
   technique="Coq proof (inductive invariant of the lifecycle state machine) + model/implementation correspondence over real sockets", design="6 C19, 7")
NOT_YET = "not claimed in this revision: the check for this property is not registered yet (see DESIGN.md 11 staging)"

checks = []
for i in ids:
    if i in CLAIMED:
        c = CLAIMED[i]
        checks.append({
          "property_id": i,
          "quick_cmd": f"./check {i} --tier quick",
          "thorough_cmd": f"./check {i} --tier thorough",
          "evidence_file": f"/verif/evidence/{i}.json",
          "replay_cmd_template": f"./check {i} --replay {{path}}",
          "engine": "coq-lockstep",
          "level_claimed": {"category": "proof", "text": c["text"], "design_ref": c["design"]},
          "level_note": c["note"],
          "technique": c["technique"],
        })
m = {
 "version": 1,
 "setup_cmd": "cd /verif && /venv/bin/python lib/setup.py",
 "hooks": {"guard": "ASYNCIO_TASKPOOL_VERIF", "enable": "no source hooks are needed: every observation is taken through the public API and harness-owned coroutines/callbacks; the guard variable is unused",
           "baseline_off_cmd": "cd /repo && /venv/bin/python -m pytest -ra -q -p no:cacheprovider --timeout=900 --continue-on-collection-errors",
           "source_commits": [], "add_only": True},
 "engines": [{"name": "coq-lockstep", "path": "/verif/check",
              "serves_properties": sorted(CLAIMED),
              "kind_free_text": "Coq 8.16.1 theorems over hand-written executable models + lockstep correspondence of the extracted model with the implementation under a single-step event loop"}],
 "checks": checks,
 "not_applicable": [{"property_id": i, "reason": NOT_YET} for i in ids if i not in CLAIMED],
 "notes": "See DESIGN.md. fix: commits in /repo are recorded in KNOWN_FINDINGS.json.",
}
json.dump(m, open(os.path.join(HERE, "MANIFEST.json"), "w"), indent=1)
print("claimed:", sorted(CLAIMED))
