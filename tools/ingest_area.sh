#!/bin/bash
# tools/ingest_area.sh <scratch-worktree> <seed-name> "<summary>" "<needs>": like ingest_seed.sh for a seed
# written for a code area; the property is read from the first line of NOTES.md (PROPERTY: Cxx); all
# twenty checks are run against it (tools/seedall.py)
set -e
src=$1; name=$2; summary=$3; needs=$4; shift 4
pid=$(head -3 $src/NOTES.md | grep -o "C[0-9][0-9]" | head -1)
d=/verif/seeded/$name
mkdir -p $d
git -C $src diff -- src > $d/patch.diff
cp $src/demo.py $d/demo.py
cp $src/NOTES.md $d/NOTES.md
/venv/bin/python - "$d" "$pid" "$summary" "$needs" <<'PY'
import json,sys
d,pid,summary,needs=sys.argv[1:5]
json.dump({"property":pid,"origin":"fresh sub-agent (round 5, assigned a code area and given all twenty property texts) with a scratch worktree",
 "summary":summary,"needs":needs,
 "confirmed":"re-run by tools/seedall.py in a fresh worktree: see last_run.json (suite result, demo exit codes with / without the change, what every check reported)"},
 open(d+"/meta.json","w"),indent=1)
PY
/venv/bin/python /verif/tools/seedall.py $d -j 4 "$@"
