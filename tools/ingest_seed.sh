#!/bin/bash
# tools/ingest_seed.sh <scratch-worktree> <seed-name> <pid> "<summary>" "<needs>"  [<other pids to run>...]
# copies patch.diff / demo.py / NOTES.md of a sub-agent's scratch worktree into seeded/<seed-name>/,
# writes meta.json, then confirms and runs the checks through tools/seedtest.py
set -e
src=$1; name=$2; pid=$3; summary=$4; needs=$5; shift 5
d=/verif/seeded/$name
mkdir -p $d
git -C $src diff -- src > $d/patch.diff
cp $src/demo.py $d/demo.py
[ -f $src/NOTES.md ] && cp $src/NOTES.md $d/NOTES.md
/venv/bin/python - "$d" "$pid" "$summary" "$needs" <<'PY'
import json,sys
d,pid,summary,needs=sys.argv[1:5]
json.dump({"property":pid,"origin":"fresh sub-agent (round 3) given only the text of the property and a scratch worktree",
 "summary":summary,"needs":needs,
 "confirmed":"re-run by tools/seedtest.py in a fresh worktree: see last_run.json (suite result, demo exit codes with / without the change, what each check reported)"},
 open(d+"/meta.json","w"),indent=1)
PY
/venv/bin/python /verif/tools/seedtest.py $d $pid "$@"
