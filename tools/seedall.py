#!/venv/bin/python
"""tools/seedall.py <seed-dir> [-j N] [pid ...]: like seedtest.py, but runs many checks (default: all
twenty) against the seeded change, N at a time, and records which of them raise an alarm.  The
checks' evidence files are restored afterwards (they must describe the unchanged tree)."""
import concurrent.futures as cf
import json
import os
import shutil
import subprocess
import sys
import tempfile

args = sys.argv[1:]
jobs = 5
if "-j" in args:
    i = args.index("-j")
    jobs = int(args[i + 1])
    del args[i:i + 2]
seed = os.path.abspath(args[0])
pids = args[1:] or [f"C{i:02d}" for i in range(1, 21)]
meta = json.load(open(os.path.join(seed, "meta.json")))


def sh(cmd, **kw):
    return subprocess.run(cmd, shell=True, stdout=subprocess.PIPE, stderr=subprocess.STDOUT, text=True, **kw)


assert sh("git -C /repo status --porcelain").stdout.strip() == "", "/repo is not clean"
wt = tempfile.mkdtemp(prefix="seedwt-")
os.rmdir(wt)
sh(f"git -C /repo worktree add --detach {wt} HEAD")
try:
    env = f"PYTHONPATH={wt}/src"
    base_rc = sh(f"cd {wt} && {env} timeout 120 /venv/bin/python {seed}/demo.py").returncode
    ap = sh(f"git -C {wt} apply {seed}/patch.diff")
    assert ap.returncode == 0, ap.stdout
    t = sh(f"cd {wt} && {env} /venv/bin/python -m pytest -q -p no:cacheprovider --timeout=900 2>&1 | tail -1")
    mut_rc = sh(f"cd {wt} && {env} timeout 120 /venv/bin/python {seed}/demo.py").returncode
    print(f"demo: original rc={base_rc}  changed rc={mut_rc}   suite with change: {t.stdout.strip()}")
finally:
    sh(f"git -C /repo worktree remove --force {wt}")

evdir = "/verif/evidence"
bak = tempfile.mkdtemp(prefix="evbak-")
for f in os.listdir(evdir):
    shutil.copy2(os.path.join(evdir, f), bak)
res = {}
ap = sh(f"git -C /repo apply {seed}/patch.diff")
assert ap.returncode == 0, ap.stdout
try:
    def one(pid):
        r = sh(f"cd /verif && timeout 3000 ./check {pid} --tier quick")
        lines = [l for l in r.stdout.split("\n") if l.startswith("VIOLATION")]
        detail = ""
        rp = [w.split("=", 1)[1] for l in lines for w in l.split() if w.startswith("replay=")]
        if rp and os.path.exists(rp[0]):
            try:
                j = json.load(open(rp[0]))
                detail = j.get("clause") or (j.get("failure") or {}).get("what") or j.get("kind") or ""
            except Exception:
                pass
        return pid, {"exit": r.returncode, "lines": [l[:160] for l in lines], "detail": detail}
    # build once (serial) so that parallel checks do not race for the build lock for long
    one(pids[0]) if False else None
    with cf.ThreadPoolExecutor(jobs) as ex:
        for pid, r in ex.map(one, pids):
            res[pid] = r
            if r["exit"]:
                print(pid, "ALARM", r["detail"], "(no-failing-input-found)" if any("no-failing" in l for l in r["lines"]) else "")
finally:
    print(sh("git -C /repo checkout -- . && git -C /repo status --porcelain").stdout)
    for f in os.listdir(bak):
        shutil.copy2(os.path.join(bak, f), evdir)
    shutil.rmtree(bak)
caught = sorted(p for p, r in res.items() if r["exit"])
print("caught by:", caught or "NOTHING")
json.dump({"suite": t.stdout.strip(), "demo_original_rc": base_rc, "demo_changed_rc": mut_rc, "checks": res,
           "caught_by": caught},
          open(os.path.join(seed, "last_run.json"), "w"), indent=1)
