#!/bin/bash
# tools/integrate_proof.sh <workspace-coq-dir> <pid> <final-module> <final-theorem> "<preconds as Coq text after 'clean (run c tr)' or empty>" "<comment>" <files in dependency order...>
# copies a sub-agent's new proof files into the development, appends them to _CoqProject and
# re-exports the final theorem as `mon_sound` in Thm_<pid>.v
set -e
ws=$1; pid=$2; mod=$3; thm=$4; pre=$5; comment=$6; shift 6
cd /verif/coq
for f in "$@"; do
  cp $ws/theories/pool/$f theories/pool/$f
  grep -q "theories/pool/$f" _CoqProject || echo "theories/pool/$f" >> _CoqProject
done
if grep -nE "Admitted|admit|Axiom|Parameter|Conjecture|Hypothesis|Variable" $(for f in "$@"; do echo theories/pool/$f; done); then echo "FORBIDDEN construct"; exit 1; fi
/venv/bin/python - "$pid" "$mod" "$thm" "$pre" "$comment" <<'PY'
import sys,re
pid,mod,thm,pre,comment=sys.argv[1:6]
p=f'theories/pool/Thm_{pid}.v'
s=open(p).read()
n=int(pid[1:])
if 'Theorem mon_sound' in s:
    # replace the existing (partial) statement
    s=re.sub(r"\(\*\* Monitor soundness.*?Qed\.\n", "", s, flags=re.S)
    s=s.replace("Print Assumptions mon_sound.\n","")
block=f"""(** Monitor soundness: {comment} *)
From TP Require {mod} PObs PMon.
Theorem mon_sound : forall c tr, clean (run c tr) -> {pre}PMon.ok_{pid} c (PObs.observe c tr) = true.
Proof. exact {mod}.{thm}. Qed.

"""
i=s.index("Print Assumptions")
s=s[:i]+block+s[i:]
if not s.endswith("\n"): s+="\n"
s+="Print Assumptions mon_sound.\n"
open(p,'w').write(s)
PY
tail -12 theories/pool/Thm_$pid.v
