#!/venv/bin/python
"""tools/mutate.py — systematic (operator-based) mutation audit of the checks.

The seeded changes under seeded/ were written by people-like agents; this tool complements them
with *every* single-token mutant a fixed operator set produces on the modelled source files.  It is
a measurement of the tie between the models and the code, not a check: a mutant that the pinned
test suite accepts and no check notices is either equivalent (same behaviour) or a blind spot, and
every such survivor is listed for triage (seeded/MUTATION.md is written from the result).

  mutate.py gen                 enumerate mutants             -> build/mutants/all.json
  mutate.py suite [-j N]        run the pinned suite on each  -> build/mutants/suite.json
  mutate.py check [-j N] [ids]  run the checks (private copies of /verif, VERIF_REPO=<copy>) on the
                                suite survivors               -> build/mutants/check.json
  mutate.py report              table of survivors

Scratch copies live under /root/mw and are removed afterwards; /repo itself is never touched."""
import ast
import concurrent.futures as cf
import json
import os
import shutil
import subprocess
import sys

VERIF = os.path.dirname(os.path.dirname(os.path.abspath(__file__)))
REPO = "/repo"
OUT = os.path.join(VERIF, "build", "mutants")
SCR = "/root/mw"
PKG = "src/asyncio_taskpool"
FILES = {  # file -> checks that look at it (first one is tried first)
    "pool.py": ["C04", "C03", "C08", "C13", "C09", "C11", "C15", "C14", "C06"],
    "internals/group_register.py": ["C10", "C07", "C04"],
    "internals/helpers.py": ["C03", "C17", "C12", "C16"],
    "queue_context.py": ["C20"],
    "control/parser.py": ["C16", "C17", "C18"],
    "control/session.py": ["C17", "C18", "C16", "C19"],
    "control/server.py": ["C19", "C16"],
    "control/client.py": ["C19"],
}

CMP = {ast.Lt: "<", ast.LtE: "<=", ast.Gt: ">", ast.GtE: ">=", ast.Eq: "==", ast.NotEq: "!=",
       ast.Is: "is", ast.IsNot: "is not", ast.In: "in", ast.NotIn: "not in"}
CMP_SWAP = {ast.Lt: ["<=", ">"], ast.LtE: ["<", ">"], ast.Gt: [">=", "<"], ast.GtE: [">", "<"],
            ast.Eq: ["!="], ast.NotEq: ["=="], ast.Is: ["is not"], ast.IsNot: ["is"],
            ast.In: ["not in"], ast.NotIn: ["in"]}


def seg(src_lines, node):
    """(start, end) absolute offsets of a node in the text."""
    offs = [0]
    for ln in src_lines:
        offs.append(offs[-1] + len(ln))

    def pos(line, col):
        # col is a utf8 byte offset; the sources are ascii apart from docstrings, handle anyway
        text = src_lines[line - 1]
        return offs[line - 1] + len(text.encode()[:col].decode())
    return pos(node.lineno, node.col_offset), pos(node.end_lineno, node.end_col_offset)


def mutants_of(path, rel):
    text = open(path).read()
    lines = text.splitlines(keepends=True)
    tree = ast.parse(text)
    out = []

    def add(node, s, e, new, op):
        old = text[s:e]
        if old == new:
            return
        out.append({"file": rel, "line": node.lineno, "op": op, "start": s, "end": e, "old": old, "new": new})

    docstrings = set()
    for n in ast.walk(tree):
        if isinstance(n, (ast.FunctionDef, ast.AsyncFunctionDef, ast.ClassDef, ast.Module)):
            if n.body and isinstance(n.body[0], ast.Expr) and isinstance(getattr(n.body[0], "value", None), ast.Constant) \
                    and isinstance(n.body[0].value.value, str):
                docstrings.add(id(n.body[0]))
                docstrings.add(id(n.body[0].value))
    # parents, to skip log calls and annotations
    parent = {}
    for n in ast.walk(tree):
        for c in ast.iter_child_nodes(n):
            parent[id(c)] = n

    def in_log_call(n):
        if isinstance(n, ast.Expr):
            n = n.value
        while n is not None:
            if isinstance(n, ast.Call) and isinstance(n.func, ast.Attribute) and isinstance(n.func.value, ast.Name) \
                    and n.func.value.id == "log":
                return True
            n = parent.get(id(n))
        return False

    def type_checking_only(n):
        # `if TYPE_CHECKING:` blocks and the Python < 3.9 shim: no run-time behaviour on this interpreter
        while n is not None:
            if isinstance(n, ast.If) and ("TYPE_CHECKING" in ast.unparse(n.test) or "version_info" in ast.unparse(n.test)):
                return True
            n = parent.get(id(n))
        return False

    def in_annotation(n):
        c = n
        while id(c) in parent:
            p = parent[id(c)]
            if isinstance(p, ast.arg) and p.annotation is c:
                return True
            if isinstance(p, (ast.FunctionDef, ast.AsyncFunctionDef)) and p.returns is c:
                return True
            if isinstance(p, ast.AnnAssign) and p.annotation is c:
                return True
            c = p
        return False

    for n in ast.walk(tree):
        if id(n) in docstrings or in_log_call(n) or in_annotation(n) or type_checking_only(n):
            continue
        if isinstance(n, ast.Compare) and len(n.ops) == 1:
            ls, le = seg(lines, n.left)
            rs, re_ = seg(lines, n.comparators[0])
            mid = text[le:rs]
            cur = CMP[type(n.ops[0])]
            if cur in mid:
                i = le + mid.index(cur)
                for new in CMP_SWAP[type(n.ops[0])]:
                    add(n, i, i + len(cur), new, "cmp")
        elif isinstance(n, ast.BoolOp):
            cur = "and" if isinstance(n.op, ast.And) else "or"
            for a, b in zip(n.values, n.values[1:]):
                _, ae = seg(lines, a)
                bs, _ = seg(lines, b)
                mid = text[ae:bs]
                if f" {cur} " in mid or f"\n{cur} " in mid or cur in mid.split():
                    i = ae + mid.index(cur)
                    add(n, i, i + len(cur), "or" if cur == "and" else "and", "bool")
        elif isinstance(n, ast.UnaryOp) and isinstance(n.op, ast.Not):
            s, e = seg(lines, n)
            os_, oe = seg(lines, n.operand)
            add(n, s, e, "(" + text[os_:oe] + ")", "not-del")
        elif isinstance(n, ast.BinOp) and isinstance(n.op, (ast.Add, ast.Sub)):
            _, le = seg(lines, n.left)
            rs, _ = seg(lines, n.right)
            mid = text[le:rs]
            cur = "+" if isinstance(n.op, ast.Add) else "-"
            if cur in mid:
                i = le + mid.index(cur)
                add(n, i, i + 1, "-" if cur == "+" else "+", "arith")
        elif isinstance(n, ast.AugAssign) and isinstance(n.op, (ast.Add, ast.Sub)):
            _, le = seg(lines, n.target)
            rs, _ = seg(lines, n.value)
            mid = text[le:rs]
            cur = "+=" if isinstance(n.op, ast.Add) else "-="
            if cur in mid:
                i = le + mid.index(cur)
                add(n, i, i + 2, "-=" if cur == "+=" else "+=", "aug")
        elif isinstance(n, ast.Constant) and not isinstance(n.value, (str, bytes)) and n.value is not Ellipsis:
            s, e = seg(lines, n)
            if n.value is True:
                add(n, s, e, "False", "const")
            elif n.value is False:
                add(n, s, e, "True", "const")
            elif n.value is None:
                pass
            elif isinstance(n.value, int):
                add(n, s, e, str(n.value + 1), "const")
                if n.value != 0:
                    add(n, s, e, str(n.value - 1), "const")
        elif isinstance(n, (ast.If, ast.While)) :
            s, e = seg(lines, n.test)
            if not (isinstance(n.test, ast.Constant)):
                add(n, s, e, "True", "cond-true")
                add(n, s, e, "False", "cond-false")
        elif isinstance(n, ast.IfExp):
            s, e = seg(lines, n.test)
            add(n, s, e, "True", "cond-true")
            add(n, s, e, "False", "cond-false")
        elif isinstance(n, ast.Break):
            s, e = seg(lines, n)
            add(n, s, e, "continue", "break")
        elif isinstance(n, ast.Continue):
            s, e = seg(lines, n)
            add(n, s, e, "break", "continue")
        elif isinstance(n, ast.Expr) and id(n) not in docstrings:
            # statement deletion: calls and awaits whose value is discarded
            v = n.value
            if isinstance(v, (ast.Call, ast.Await)):
                s, e = seg(lines, n)
                add(n, s, e, "pass", "stmt-del")
                if isinstance(v, ast.Await) and isinstance(v.value, ast.Call):
                    pass
        elif isinstance(n, ast.Raise) and n.exc is not None:
            s, e = seg(lines, n)
            add(n, s, e, "pass", "raise-del")
        elif isinstance(n, ast.Return) and n.value is not None and not (isinstance(n.value, ast.Constant) and n.value.value is None):
            s, e = seg(lines, n.value)
            add(n, s, e, "None", "return-none")
        elif isinstance(n, ast.Assign) and len(n.targets) == 1 and isinstance(n.targets[0], (ast.Attribute, ast.Subscript)):
            s, e = seg(lines, n)
            add(n, s, e, "pass", "assign-del")
        elif isinstance(n, ast.Call):
            # drop one keyword argument / swap two positional arguments
            if len(n.args) == 2 and not n.keywords and not any(isinstance(a, ast.Starred) for a in n.args):
                a0s, a0e = seg(lines, n.args[0])
                a1s, a1e = seg(lines, n.args[1])
                if text[a0s:a0e] != text[a1s:a1e]:
                    add(n, a0s, a1e, text[a1s:a1e] + text[a0e:a1s] + text[a0s:a0e], "arg-swap")
        elif isinstance(n, ast.Slice):
            pass
    # deterministic order, ids
    out.sort(key=lambda m: (m["start"], m["op"], m["new"]))
    return out


def cmd_gen():
    os.makedirs(OUT, exist_ok=True)
    allm = []
    for rel in FILES:
        p = os.path.join(REPO, PKG, rel)
        ms = mutants_of(p, rel)
        for i, m in enumerate(ms):
            m["id"] = f"{rel.replace('/', '_').replace('.py', '')}-{i:04d}"
        allm += ms
        print(rel, len(ms))
    json.dump(allm, open(os.path.join(OUT, "all.json"), "w"), indent=0)
    print("total", len(allm))


def make_copy(dst, m):
    # from the committed tree (HEAD), not the working tree: a seed may be applied there meanwhile
    shutil.rmtree(dst, ignore_errors=True)
    os.makedirs(dst)
    subprocess.run(f"git -C {REPO} archive HEAD src tests pyproject.toml | tar -x -C {dst}", shell=True, check=True)
    if m is not None:
        p = os.path.join(dst, PKG, m["file"])
        text = open(p).read()
        assert text[m["start"]:m["end"]] == m["old"], m["id"]
        open(p, "w").write(text[:m["start"]] + m["new"] + text[m["end"]:])


def sh(cmd, **kw):
    return subprocess.run(cmd, shell=True, stdout=subprocess.PIPE, stderr=subprocess.STDOUT, text=True, **kw)


def suite_one(m):
    dst = os.path.join(SCR, "s-" + m["id"])
    try:
        make_copy(dst, m)
        try:
            compile(open(os.path.join(dst, PKG, m["file"])).read(), m["file"], "exec")
        except SyntaxError:
            return m["id"], "syntax"
        try:
            r = sh(f"cd {dst} && PYTHONPATH={dst}/src PYTHONDONTWRITEBYTECODE=1 timeout 120 /venv/bin/python -m pytest -q -x "
                   f"-p no:cacheprovider --timeout=60 2>&1 | tail -1", timeout=200)
            last = r.stdout.strip().split("\n")[-1]
        except subprocess.TimeoutExpired:
            last = "timeout"
        return m["id"], ("survived" if " passed" in last and "failed" not in last and "error" not in last else "killed")
    finally:
        shutil.rmtree(dst, ignore_errors=True)


def cmd_suite(jobs):
    allm = json.load(open(os.path.join(OUT, "all.json")))
    res = {}
    with cf.ThreadPoolExecutor(jobs) as ex:
        for i, (mid, st) in enumerate(ex.map(suite_one, allm)):
            res[mid] = st
            if i % 100 == 0:
                print(i, len(allm), flush=True)
    json.dump(res, open(os.path.join(OUT, "suite.json"), "w"), indent=0)
    import collections
    print(collections.Counter(res.values()))


def check_worker(args):
    k, m = args
    vcopy = os.path.join(SCR, f"verif{k}")
    dst = os.path.join(SCR, f"c{k}-repo")
    make_copy(dst, m)
    caught, detail = [], {}
    pids = FILES[m["file"]]
    for pid in pids:
        try:
            r = sh(f"cd {vcopy} && VERIF_NOSHRINK=1 VERIF_REPO={dst} timeout 900 ./check {pid} --tier quick", timeout=1000)
            rc, out = r.returncode, r.stdout
        except subprocess.TimeoutExpired:
            rc, out = 124, "timeout"
        if rc != 0:
            caught.append(pid)
            v = [l for l in out.split("\n") if l.startswith("VIOLATION")]
            detail[pid] = (v[0][-60:] if v else out[-200:])
            break     # first alarm is enough for the audit
    shutil.rmtree(dst, ignore_errors=True)
    return m["id"], caught, detail


def cmd_check(jobs, ids):
    allm = {m["id"]: m for m in json.load(open(os.path.join(OUT, "all.json")))}
    suite = json.load(open(os.path.join(OUT, "suite.json")))
    path = os.path.join(OUT, "check.json")
    res = json.load(open(path)) if os.path.exists(path) else {}
    todo = [allm[i] for i in (ids or [i for i, s in suite.items() if s == "survived"]) if i not in res or ids]
    print("to check:", len(todo), flush=True)
    os.makedirs(SCR, exist_ok=True)
    for k in range(jobs):
        v = os.path.join(SCR, f"verif{k}")
        shutil.rmtree(v, ignore_errors=True)
        sh(f"cp -a {VERIF} {v} && rm -rf {v}/.git {v}/seeded {v}/build/mutants")
    import queue
    import threading
    q = queue.Queue()
    for m in todo:
        q.put(m)
    lock = threading.Lock()

    def run(k):
        while True:
            try:
                m = q.get_nowait()
            except queue.Empty:
                return
            mid, caught, detail = check_worker((k, m))
            with lock:
                res[mid] = {"caught": caught, "detail": detail}
                json.dump(res, open(path, "w"), indent=0)
                print(mid, m["line"], m["op"], repr(m["old"])[:30], "->", repr(m["new"])[:30], "CAUGHT " + caught[0] if caught else "SURVIVED", flush=True)
    ts = [threading.Thread(target=run, args=(k,)) for k in range(jobs)]
    [t.start() for t in ts]
    [t.join() for t in ts]
    for k in range(jobs):
        shutil.rmtree(os.path.join(SCR, f"verif{k}"), ignore_errors=True)


def cmd_report():
    allm = json.load(open(os.path.join(OUT, "all.json")))
    suite = json.load(open(os.path.join(OUT, "suite.json")))
    chk = json.load(open(os.path.join(OUT, "check.json"))) if os.path.exists(os.path.join(OUT, "check.json")) else {}
    import collections
    per = collections.defaultdict(collections.Counter)
    for m in allm:
        s = suite.get(m["id"], "?")
        if s == "survived":
            c = chk.get(m["id"])
            s = "unchecked" if c is None else ("caught" if c["caught"] else "SURVIVOR")
        per[m["file"]][s] += 1
    for f, c in per.items():
        print(f, dict(c))
    print()
    for m in allm:
        c = chk.get(m["id"])
        if suite.get(m["id"]) == "survived" and c is not None and not c["caught"]:
            print(f"{m['id']:28s} {m['file']}:{m['line']:<5d} {m['op']:11s} {m['old']!r:.40} -> {m['new']!r:.40}")


# ---- triage of the survivors (why a mutant that no check notices is not a property violation).
# Keyed by (file, source text of the mutated segment or a part of its line); anything not matched
# is listed as UNEXPLAINED and needs a look.
TRIAGE = [
    ("pool.py", "not self._locked", "lock(): the condition only guards a log message (logging is not modelled)"),
    ("pool.py", "self._locked", "unlock(): the condition only guards a log message"),
    ("pool.py", "iscoroutine(awaitable)", "cancelled-before-start path: closing the never-awaited coroutine only avoids a RuntimeWarning"),
    ("pool.py", "awaitable.close()", "same: only a 'never awaited' RuntimeWarning differs"),
    ("pool.py", "task_id, self", "argument order of an exception's *message* (TaskNotFound); classes are compared, message texts are not"),
    ("pool.py", "stacklevel", "stacklevel of the Python < 3.9 warning"),
    ("pool.py", "3", "stacklevel of the Python < 3.9 warning"),
    ("pool.py", "not return_exceptions", "gather_and_close: re-raising a *spawner's* exception - spawners never fail inside the modelled domain (theorem C12: spawners never fail; C04: never end with an exception), so the branch is dead there"),
    ("pool.py", "isinstance(result, Exception)", "same dead branch (a spawner's result is never an exception in the domain)"),
    ("pool.py", "raise result", "same dead branch"),
    ("pool.py", "1", "default `num=1` of the internal coroutine _apply_spawner: apply() always passes num explicitly"),
    ("control/parser.py", "subparser_kwargs.setdefault(\"description\"", "settable property: only the generic sentence 'Get/set the ... property' disappears from `<prop> -h`; the getter's and the setter's own descriptions are still shown (that is what the C16 check requires)"),
    ("control/parser.py", "len(args) == 1", "union of several non-None types (`int | str | None`): not classifiable, outside `wf_surface`"),
    ("pool.py", "break", "stop(): `continue` instead of `break` only keeps iterating without appending (i >= num stays true): equivalent"),
    ("internals/helpers.py", "0", "default of star_function(arg_stars=0): every caller passes it explicitly"),
    ("internals/helpers.py", "1", "get_first_doc_line: split(maxsplit=2)[0] equals split(maxsplit=1)[0]: equivalent"),
    ("control/parser.py", "terminal_width is not None", "ControlParser without a terminal width: the session always passes the client's width"),
    ("control/parser.py", "0", "default status of the overridden exit(): unused"),
    ("control/parser.py", "isinstance(builtin, type)", "annotation text naming a builtin that is not a type (e.g. 'print'): not an annotation"),
    ("control/client.py", "print()", "CLI: newline after Ctrl+C at the prompt (terminal I/O is not modelled)"),
    ("control/client.py", "or", "CLI: `reader is None or writer is None` - both are None together when the connection fails: equivalent"),
]


def cmd_md():
    allm = json.load(open(os.path.join(OUT, "all.json")))
    suite = json.load(open(os.path.join(OUT, "suite.json")))
    chk = json.load(open(os.path.join(OUT, "check.json")))
    import collections
    per = collections.defaultdict(collections.Counter)
    surv = []
    for m in allm:
        st = suite.get(m["id"], "?")
        if st == "survived":
            c = chk.get(m["id"])
            st = "unchecked" if c is None else ("caught" if c["caught"] else "survivor")
            if st == "survivor":
                surv.append(m)
        per[m["file"]][st] += 1
    lines = ["# Systematic mutation audit (`tools/mutate.py`)", "",
             "Every single-token mutant of a fixed operator set (comparison / boolean / arithmetic swaps, "
             "constants +-1, condition forced true / false, deletion of call statements, attribute assignments "
             "and `raise`, `return None`, `break`<->`continue`, swap of two positional arguments) on the eight "
             "modelled source files; logging calls, annotations, docstrings and `TYPE_CHECKING` / Python < 3.9 "
             "blocks are not mutated. Each mutant is applied to a copy of the committed tree; the pinned suite "
             "is run on it; the checks of the file's properties (quick tier, first alarm wins) are run on the "
             "suite's survivors through `VERIF_REPO`. This is a measurement, not a check.", "",
             "| file | mutants | killed by the pinned suite | caught by a check | survive both |", "|---|---|---|---|---|"]
    tot = collections.Counter()
    for f, c in per.items():
        n = sum(c.values())
        lines.append(f"| {f} | {n} | {c['killed'] + c['syntax']} | {c['caught']} | {c['survivor']} |")
        tot.update(c)
    n = sum(tot.values())
    lines.append(f"| **total** | {n} | {tot['killed'] + tot['syntax']} | {tot['caught']} | {tot['survivor']} |")
    lines += ["", "## Mutants that pass the suite and are caught", "",
              "| mutant | change | first check to report it |", "|---|---|---|"]
    for m in allm:
        c = chk.get(m["id"])
        if suite.get(m["id"]) == "survived" and c and c["caught"]:
            lines.append(f"| {m['file']}:{m['line']} | `{m['old'][:50]}` -> `{m['new'][:40]}` ({m['op']}) | {c['caught'][0]} |")
    lines += ["", "## Survivors of suite and checks, with the reason each is not a property violation", "",
              "| mutant | change | why no check can (or should) see it |", "|---|---|---|"]
    src = {}
    for m in surv:
        if m["file"] not in src:
            src[m["file"]] = open(os.path.join(REPO, PKG, m["file"])).read().split("\n")
        line = src[m["file"]][m["line"] - 1]
        why = next((w for f, key, w in TRIAGE if f == m["file"] and (key == m["old"] or (key in line and key in ("stacklevel",)))), None)
        if why is None:
            why = next((w for f, key, w in TRIAGE if f == m["file"] and key in m["old"]), "**UNEXPLAINED**")
        lines.append(f"| {m['file']}:{m['line']} | `{m['old'][:50]}` -> `{m['new'][:40]}` ({m['op']}) | {why} |")
    open(os.path.join(VERIF, "seeded", "MUTATION.md"), "w").write("\n".join(lines) + "\n")
    print("\n".join(lines[-(len(surv) + 3):]))


if __name__ == "__main__":
    a = sys.argv[1:]
    jobs = 8
    if "-j" in a:
        i = a.index("-j")
        jobs = int(a[i + 1])
        del a[i:i + 2]
    if a[0] == "gen":
        cmd_gen()
    elif a[0] == "suite":
        cmd_suite(jobs)
    elif a[0] == "check":
        cmd_check(jobs, a[1:])
    elif a[0] == "report":
        cmd_report()
    elif a[0] == "md":
        cmd_md()
