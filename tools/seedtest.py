#!/venv/bin/python
"""tools/seedtest.py <seed-dir> [<pid>...]: confirm a seeded change (suite green, demo fails with /
passes without), then apply it to /repo, run the given checks (default: the property it targets),
undo it, and report which checks caught it.  The seed dir holds patch.diff, demo.py, meta.json."""
import json, os, subprocess, sys, shutil, tempfile
seed = os.path.abspath(sys.argv[1])
meta = json.load(open(os.path.join(seed, "meta.json"))) if os.path.exists(os.path.join(seed, "meta.json")) else {}
pids = sys.argv[2:] or [meta.get("property")]
def sh(cmd, **kw):
    return subprocess.run(cmd, shell=True, stdout=subprocess.PIPE, stderr=subprocess.STDOUT, text=True, **kw)
assert sh("git -C /repo status --porcelain").stdout.strip() == "", "/repo is not clean"
wt = tempfile.mkdtemp(prefix="seedwt-")
os.rmdir(wt)
print(sh(f"git -C /repo worktree add --detach {wt} HEAD").stdout[-200:])
try:
    env = f"PYTHONPATH={wt}/src"
    r0 = sh(f"cd {wt} && {env} timeout 120 /venv/bin/python {seed}/demo.py"); base_rc = r0.returncode
    ap = sh(f"git -C {wt} apply {seed}/patch.diff"); assert ap.returncode == 0, ap.stdout
    t = sh(f"cd {wt} && {env} /venv/bin/python -m pytest -q -p no:cacheprovider --timeout=900 2>&1 | tail -1")
    r1 = sh(f"cd {wt} && {env} timeout 120 /venv/bin/python {seed}/demo.py"); mut_rc = r1.returncode
    print(f"demo: original rc={base_rc}  changed rc={mut_rc}   suite with change: {t.stdout.strip()}")
finally:
    sh(f"git -C /repo worktree remove --force {wt}")
res = {}
# evidence files must describe the unchanged tree: keep them aside while checks run on the seeded one
bak = tempfile.mkdtemp(prefix="evbak-")
for f in os.listdir("/verif/evidence"):
    shutil.copy2(os.path.join("/verif/evidence", f), bak)
ap = sh(f"git -C /repo apply {seed}/patch.diff"); assert ap.returncode == 0, ap.stdout
try:
    for pid in pids:
        r = sh(f"cd /verif && timeout 3000 ./check {pid} --tier quick")
        lines = [l for l in r.stdout.split("\n") if l.startswith("VIOLATION") or l.startswith("KNOWN")]
        res[pid] = {"exit": r.returncode, "lines": lines}
        print(pid, "exit", r.returncode, lines)
        if r.returncode != 0:
            rp = [w.split("=",1)[1] for l in lines for w in l.split() if w.startswith("replay=")]
            if rp and os.path.exists(rp[0]):
                j = json.load(open(rp[0]))
                print("   ", json.dumps({k: j[k] for k in j if k in ("kind","clause","failure","first_divergence","proof_problems")})[:700])
finally:
    print(sh("git -C /repo checkout -- . && git -C /repo status --porcelain").stdout)
    for f in os.listdir(bak):
        shutil.copy2(os.path.join(bak, f), "/verif/evidence")
    shutil.rmtree(bak)
json.dump({"suite": t.stdout.strip(), "demo_original_rc": base_rc, "demo_changed_rc": mut_rc, "checks": res},
          open(os.path.join(seed, "last_run.json"), "w"), indent=1)
