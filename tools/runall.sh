#!/bin/bash
# tools/runall.sh [quick|thorough]: every claimed check on the unchanged tree; regenerates evidence/*.json
tier=${1:-quick}
cd "$(dirname "$0")/.."
R=${VERIF_REPO:-/repo}; test -z "$(git -C $R status --porcelain)" || { echo "$R is not clean"; exit 2; }
rc=0
for p in $(/venv/bin/python -c "import json;print(' '.join(c['property_id'] for c in json.load(open('MANIFEST.json'))['checks']))"); do
  s=$(date +%s); out=$(./check $p --tier $tier 2>&1); e=$?
  echo "$p exit=$e $(( $(date +%s) - s ))s $(echo "$out" | grep -E '^VIOLATION|^INTERNAL' | head -2)"
  [ $e -ne 0 ] && rc=1
done
exit $rc
