#!/venv/bin/python
"""tools/seedregress.py [minutes] [name-prefixes...]: regression over the seeded changes - apply each
patch to /repo in turn, run the check of the property it was written for (quick tier, no shrinking),
restore /repo, and record whether the check still reports it (build/seedregress.json).  Evidence
files are set aside and restored.  Stops when the time budget is used up."""
import json, os, shutil, subprocess, sys, tempfile, time
def sh(cmd, **kw):
    return subprocess.run(cmd, shell=True, stdout=subprocess.PIPE, stderr=subprocess.STDOUT, text=True, **kw)
budget = float(sys.argv[1]) * 60 if len(sys.argv) > 1 else 3600
prefixes = tuple(sys.argv[2:])
S = "/verif/seeded"
assert sh("git -C /repo status --porcelain").stdout.strip() == "", "/repo is not clean"
out_path = "/verif/build/seedregress.json"
res = json.load(open(out_path)) if os.path.exists(out_path) else {}
bak = tempfile.mkdtemp(prefix="evbak-")
for f in os.listdir("/verif/evidence"):
    shutil.copy2(os.path.join("/verif/evidence", f), bak)
t0 = time.time()
try:
    for d in sorted(os.listdir(S)):
        p = os.path.join(S, d)
        if not os.path.exists(os.path.join(p, "meta.json")) or d in res:
            continue
        if prefixes and not d.startswith(prefixes):
            continue
        if time.time() - t0 > budget:
            break
        meta = json.load(open(os.path.join(p, "meta.json")))
        lr = json.load(open(os.path.join(p, "last_run.json"))) if os.path.exists(os.path.join(p, "last_run.json")) else {}
        caught_before = lr.get("caught_by")
        if caught_before is None:
            caught_before = sorted(k for k, x in (lr.get("checks") or {}).items() if x.get("exit"))
        pid = meta["property"] if meta["property"] in caught_before or not caught_before else caught_before[0]
        a = sh(f"git -C /repo apply {p}/patch.diff")
        if a.returncode != 0:
            res[d] = {"pid": pid, "status": "patch does not apply to the current tree", "detail": a.stdout[-200:]}
            sh("git -C /repo checkout -- .")
            continue
        try:
            c = sh(f"cd /verif && VERIF_NOSHRINK=1 timeout 1500 ./check {pid} --tier quick")
            v = [l for l in c.stdout.split("\n") if l.startswith("VIOLATION")]
            res[d] = {"pid": pid, "status": "caught" if c.returncode else "NOT CAUGHT", "was": caught_before,
                      "line": (v[0][-80:] if v else "")}
        finally:
            sh("git -C /repo checkout -- .")
        print(d, pid, res[d]["status"], flush=True)
        json.dump(res, open(out_path, "w"), indent=1)
finally:
    sh("git -C /repo checkout -- .")
    for f in os.listdir(bak):
        shutil.copy2(os.path.join(bak, f), "/verif/evidence")
    shutil.rmtree(bak)
print("done:", sum(1 for r in res.values() if r["status"] == "caught"), "caught of", len(res))
