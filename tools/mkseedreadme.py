#!/venv/bin/python
"""tools/mkseedreadme.py: regenerate seeded/README.md (one line per seeded change) from the
meta.json / last_run.json files."""
import json
import os

D = os.path.join(os.path.dirname(os.path.dirname(os.path.abspath(__file__))), "seeded")
rows = []
for d in sorted(os.listdir(D)):
    m = os.path.join(D, d, "meta.json")
    if not os.path.exists(m):
        continue
    meta = json.load(open(m))
    lr = os.path.join(D, d, "last_run.json")
    caught = "?"
    if os.path.exists(lr):
        r = json.load(open(lr))
        c = r.get("caught_by")
        if c is None:
            c = sorted(p for p, x in (r.get("checks") or {}).items() if x.get("exit"))
        caught = ", ".join(c) if c else "— (see DESIGN.md I.10)"
    rows.append(f"| {d} | {meta.get('property', '?')} | {meta.get('summary', '')[:150]} | {caught} |")
head = ("# Seeded changes\n\nIndependently written property-breaking changes (see DESIGN.md I.10). Each directory holds "
        "`patch.diff`, `demo.py`, `NOTES.md`, `meta.json` and `last_run.json` (the last confirmation run: suite result "
        "with the change, demo exit codes with / without it, what the checks that were run reported). "
        "`MUTATION.md` is the systematic mutation audit. None of these changes is ever committed to /repo.\n\n"
        f"{len(rows)} seeds.\n\n| seed | property | change | caught by (last run) |\n|---|---|---|---|\n")
open(os.path.join(D, "README.md"), "w").write(head + "\n".join(rows) + "\n")
print(len(rows), "seeds")
