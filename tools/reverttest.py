#!/venv/bin/python
"""tools/reverttest.py: the repairs double as realistic regressions.  For each `fix:` commit in
/repo: revert it in the working tree (no commit), run the checks of the properties it repaired,
restore the tree, and report which checks raise a VIOLATION."""
import json, os, shutil, subprocess, sys, tempfile
def sh(cmd):
    return subprocess.run(cmd, shell=True, stdout=subprocess.PIPE, stderr=subprocess.STDOUT, text=True)
FIXES = [("4892530", "D1", ["C02", "C03", "C07", "C06", "C14"]), ("4a57934", "D2", ["C02", "C13", "C01"]),
         ("e2d3bbd", "D3", ["C08"]), ("3c8b6aa", "D4", ["C04", "C08"]), ("189f121", "D7", ["C16", "C17"]),
         ("685599a", "D8", ["C17"]), ("9ae43e2", "D9", ["C19"]), ("cbc39a5", "D10", ["C16"]),
         ("f53a9be", "D13", ["C16", "C18"]), ("0052937", "D14", ["C16", "C17"])]
only = sys.argv[1:]
assert sh("git -C /repo status --porcelain").stdout.strip() == "", "/repo is not clean"
out = {}
# evidence files must describe the unchanged tree: set them aside while checks run on reverted ones
bak = tempfile.mkdtemp(prefix="evbak-")
for f in os.listdir("/verif/evidence"):
    shutil.copy2(os.path.join("/verif/evidence", f), bak)
for commit, d, pids in FIXES:
    if only and d not in only:
        continue
    if d == "D13":
        # D14's commit touches neighbouring lines: "without D13" = the parser as of D10 plus D14's change
        r = sh("git -C /repo checkout cbc39a5 -- src/asyncio_taskpool/control/parser.py && "
               "git -C /repo apply /verif/tools/d14_on_d10.diff && git -C /repo reset -q")
    else:
        r = sh(f"git -C /repo revert --no-commit {commit}")
    if r.returncode != 0:
        print(d, "cannot revert cleanly:", r.stdout[-200:]); sh("git -C /repo revert --abort; git -C /repo checkout -- ."); continue
    try:
        for pid in pids:
            c = sh(f"cd /verif && timeout 3000 ./check {pid} --tier quick")
            v = [l for l in c.stdout.split("\n") if l.startswith("VIOLATION")]
            out[f"{d}/{pid}"] = v
            print(d, pid, "exit", c.returncode, v[:1])
    finally:
        sh("git -C /repo revert --abort; git -C /repo checkout -- .")
for f in os.listdir(bak):
    shutil.copy2(os.path.join(bak, f), "/verif/evidence")
shutil.rmtree(bak)
assert sh("git -C /repo status --porcelain").stdout.strip() == ""
json.dump(out, open("/verif/build/reverttest.json", "w"), indent=1)
