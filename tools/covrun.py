#!/venv/bin/python
"""tools/covrun.py [quick|thorough] [Cxx ...]: line/branch coverage of /repo/src/asyncio_taskpool
reached by the *harness jobs* of the given properties' checks (default: all).  The jobs are run
in-process, one after the other, under coverage.py; the result (per file: missing lines, partial
branches) goes to build/coverage.json and a summary to stdout.  This is a measurement of the
correspondence generators (a change on a line no trace executes cannot be seen), not a check."""
import json
import os
import sys

HERE = os.path.dirname(os.path.dirname(os.path.abspath(__file__)))
sys.path.insert(0, os.path.join(HERE, "lib"))
sys.path.insert(0, os.path.join(HERE, "harness"))
os.environ.setdefault("PYTHONHASHSEED", "0")
import coverage  # noqa: E402

import core  # noqa: E402
import lockstep  # noqa: E402

tier = "quick"
pids = []
for a in sys.argv[1:]:
    if a in ("quick", "thorough"):
        tier = a
    else:
        pids.append(a)
pids = pids or [f"C{i:02d}" for i in range(1, 21)]
seed = int(os.environ.get("VERIF_SEED", "20260926"))
src = os.path.join(core.REPO, "src", "asyncio_taskpool")
cov = coverage.Coverage(branch=True, source=[src], data_file=None)
lockstep._init_worker()
cov.start()
import prop_pool, prop_ctrl, prop_srv, prop_queue  # noqa: E402

per_pid = {}
for pid in pids:
    if pid == "C20":
        js = prop_queue.jobs(pid, tier, seed)
    elif pid in ("C16", "C17", "C18"):
        js = prop_ctrl.corpus_jobs(pid) + prop_ctrl.jobs(pid, tier, seed)
    elif pid == "C19":
        js = prop_srv.jobs(tier, seed)
    else:
        js = prop_pool.jobs(pid, tier, seed)
    n = 0
    for j in js:
        r = lockstep._work(j)
        n += len(r)
        errs = [x for x in r if x.get("error")]
        if errs:
            print(pid, "harness error:", errs[0]["error"][-300:])
    if pid == "C11":
        prop_pool.extra_checks(pid, tier, seed)
    per_pid[pid] = n
    print(pid, "jobs", len(js), "traces", n, flush=True)
cov.stop()
out = {}
tot_l = tot_m = 0
for f in sorted(cov.get_data().measured_files()):
    _, stmts, excl, missing, _ = cov.analysis2(f)
    an = cov._analyze(f)
    partial = sorted(an.missing_branch_arcs().items()) if hasattr(an, "missing_branch_arcs") else []
    rel = os.path.relpath(f, src)
    out[rel] = {"statements": len(stmts), "missing": missing,
                "partial_branches": [[a, list(b)] for a, b in partial]}
    tot_l += len(stmts)
    tot_m += len(missing)
    print(f"{rel:32s} stmts={len(stmts):4d} missing={len(missing):4d}  {missing}")
    if partial:
        print(f"{'':32s} partial branches: {partial}")
os.makedirs(core.BUILD, exist_ok=True)
json.dump({"tier": tier, "pids": pids, "traces": per_pid, "files": out},
          open(os.path.join(core.BUILD, "coverage.json"), "w"), indent=1)
print(f"total statements {tot_l}, missing {tot_m}")
