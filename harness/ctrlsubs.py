"""A pool subclass whose annotations are real objects (this module deliberately has no
`from __future__ import annotations`), so that the control parser sees types and the library's own
type aliases instead of strings (`_get_type_from_annotation` recognises the aliases by identity)."""
from typing import Iterable, Optional

from asyncio_taskpool.internals.types import AnyCoroutineFunc, ArgsT, EndCB, KwArgsT


def make(TaskPool):
    class SubE(TaskPool):
        def scale(self, amount: int, ratio: float = 1.5, tag: str = "t", loud: bool = False) -> str:
            """Real scalar annotations."""
            return f"scale {amount!r} {ratio!r} {tag!r} {loud!r}"

        def collect(self, args: ArgsT, kwargs: KwArgsT = None, arg_iter: Iterable[ArgsT] = ()) -> str:   # noqa: RUF013
            """The library's aliases for argument containers: converted as Python literals."""
            return f"collect {args!r} {kwargs!r} {arg_iter!r}"

        def call_me(self, func: AnyCoroutineFunc, end_callback: EndCB = None) -> str:   # noqa: RUF013
            """The library's callable aliases: converted as dotted paths."""
            return f"call_me {getattr(func, '__name__', func)!r} {getattr(end_callback, '__name__', end_callback)!r}"

        def maybe(self, n: int | None = None, ratio: Optional[float] = None, tag: "str | None" = None,
                  end_callback: Optional[EndCB] = None, args: Optional[ArgsT] = None) -> str:
            """Evaluated Optional[X] / X | None annotations (defect D14): converted like X."""
            return f"maybe {n!r} {ratio!r} {tag!r} {getattr(end_callback, '__name__', end_callback)!r} {args!r}"

        def grow(self, delta: int, /, step: int = 1) -> str:
            """A positional-only parameter."""
            return f"grow {delta!r} {step!r}"

        def fmt(self, pattern: str = "%d of %d (100%)", width: int = 10) -> str:
            """A default value that contains percent signs."""
            return f"fmt {pattern!r} {width!r}"

        def report(self, verbose: bool = True, quiet: bool = False) -> str:
            """A flag whose default is True."""
            return f"report {verbose!r} {quiet!r}"

        def half(self, n: int = 1) -> str:
            """Runs at 50% of the speed - a percent sign in a docstring (defect D13), also %s and %(x)d."""
            return f"half {n!r}"

        @property
        def load(self) -> int:
            """The load in %."""
            return 7

        @property
        def share(self) -> int:
            """The share in % (getter)."""
            return getattr(self, "_share", 1)

        @share.setter
        def share(self, value: int) -> None:
            """Sets the share in %."""
            self._share = value

        @property
        def level(self) -> int:
            """A property with a real annotation."""
            return getattr(self, "_level", 1)

        @level.setter
        def level(self, value: int) -> None:
            """Sets the level."""
            self._level = value

    return SubE
