"""M4 harness: drive the real `asyncio_taskpool.queue_context.Queue` one handle at a time.

A *trace* is a list of label strings (see ocaml/qdriver.ml).  `run_trace` executes it on the real
queue (real Tasks/Futures, StepLoop) and returns, per label, the canonical observation string.
`gen_trace` draws a random trace online (choices depend on the live state so that most labels are
enabled), from one `random.Random` instance.
"""
from __future__ import annotations

import asyncio
import sys

from steploop import StepLoop, handle_owner, running


class QueueRun:
    def __init__(self):
        from asyncio_taskpool.queue_context import Queue
        self.loop = StepLoop()
        self.ctx = running(self.loop)
        self.ctx.__enter__()
        self.q = Queue()
        self.nput = 0
        self.consumers = []   # dict(task, gate, inblock, done)
        self.joiners = []     # dict(task, started)
        self.events = []

    def close(self):
        # cancel and drain everything so that no "Task was destroyed but it is pending" is emitted
        for c in self.consumers:
            c["task"].cancel()
        for j in self.joiners:
            j["task"].cancel()
        n = 0
        while not self.loop.ready_empty() and n < 10000:
            self.loop.step()
            n += 1
        self.ctx.__exit__()

    # ---- harness-owned coroutines -------------------------------------------------------
    async def _consumer(self, c, loops):
        st = self.consumers[c]
        while True:
            try:
                async with self.q as item:
                    st["inblock"] = item
                    self.events.append(f"enter:{c}:{item}")
                    st["gate"] = self.loop.create_future()
                    try:
                        await st["gate"]
                        self.events.append(f"exit:{c}:{item}:n")
                    except asyncio.CancelledError:
                        self.events.append(f"exit:{c}:{item}:c")
                        raise
                    except RuntimeError:
                        self.events.append(f"exit:{c}:{item}:e")
                        raise
                    finally:
                        st["inblock"] = None
                        st["gate"] = None
            except ValueError:
                self.events.append(f"verr:{c}")
                raise
            if not loops:
                return

    async def _joiner(self, j):
        self.joiners[j]["started"] = True
        self.events.append(f"jstart:{j}")
        await self.q.join()
        self.events.append(f"jdone:{j}")

    # ---- labels ---------------------------------------------------------------------------
    def _find_handle(self, kind, idx):
        task = (self.consumers if kind == "C" else self.joiners)[idx]["task"] \
            if idx < len(self.consumers if kind == "C" else self.joiners) else None
        if task is None:
            return None
        return lambda h: handle_owner(h)[0] == "task" and handle_owner(h)[1] is task

    def head_identity(self):
        hs = self.loop.ready_handles()
        if not hs:
            return None
        o = handle_owner(hs[0])
        if o[0] == "task":
            for i, c in enumerate(self.consumers):
                if c["task"] is o[1]:
                    return f"C {i}"
            for i, j in enumerate(self.joiners):
                if j["task"] is o[1]:
                    return f"J {i}"
        return None

    def enabled(self, w):
        if w[0] in ("put", "spawn", "join"):
            return True
        if w[0] == "run":
            pred = self._find_handle(w[1], int(w[2]))
            return pred is not None and any(pred(h) for h in self.loop.ready_handles())
        if w[0] == "exit":
            c = int(w[1])
            return c < len(self.consumers) and self.consumers[c]["gate"] is not None \
                and not self.consumers[c]["gate"].done()
        if w[0] == "cancel":
            return int(w[1]) < len(self.consumers)
        raise ValueError(w)

    def do_label(self, label: str) -> str:
        w = label.split()
        self.events = []
        en = self.enabled(w)
        if en:
            if w[0] == "put":
                self.q.put_nowait(self.nput)
                self.nput += 1
            elif w[0] == "spawn":
                c = len(self.consumers)
                self.consumers.append({"task": None, "gate": None, "inblock": None})
                self.consumers[c]["task"] = self.loop.create_task(self._consumer(c, w[1] == "1"))
            elif w[0] == "join":
                j = len(self.joiners)
                self.joiners.append({"task": None, "started": False})
                self.joiners[j]["task"] = self.loop.create_task(self._joiner(j))
            elif w[0] == "run":
                h = self.loop.pop_handle(self._find_handle(w[1], int(w[2])))
                h._run()
            elif w[0] == "exit":
                g = self.consumers[int(w[1])]["gate"]
                if w[2] == "1":
                    g.set_result(None)
                else:
                    g.set_exception(RuntimeError("body failed"))
            elif w[0] == "cancel":
                self.consumers[int(w[1])]["task"].cancel()
        return self.obs(en)

    def _released(self, j):
        t = j["task"]
        if not j["started"]:
            return False
        if t.done():
            return True
        return any(handle_owner(h)[0] == "task" and handle_owner(h)[1] is t
                   for h in self.loop.ready_handles())

    def obs(self, en) -> str:
        rel = ",".join("1" if self._released(j) else "0" for j in self.joiners) or "-"
        ev = ",".join(self.events) or "-"
        return (f"en={int(en)} qsize={self.q.qsize()} re={int(self.loop.ready_empty())} "
                f"rel={rel} ev={ev}")


def run_trace(labels):
    """Execute labels on the real queue; returns list of 'label ; obs' lines."""
    r = QueueRun()
    out = []
    try:
        for lab in labels:
            out.append(f"{lab} ; {r.do_label(lab)}")
    finally:
        r.close()
    return out


def gen_trace(rng, max_len):
    """Random walk against the live implementation; returns (labels, lines)."""
    r = QueueRun()
    labels, lines = [], []
    try:
        n = rng.randint(3, max_len)
        for _ in range(n):
            choices = []
            hid = r.head_identity()
            ready = []
            for h in r.loop.ready_handles():
                o = handle_owner(h)
                for i, c in enumerate(r.consumers):
                    if o[0] == "task" and c["task"] is o[1]:
                        ready.append(f"run C {i}")
                for i, j in enumerate(r.joiners):
                    if o[0] == "task" and j["task"] is o[1]:
                        ready.append(f"run J {i}")
            if ready:
                # FIFO head mostly; any ready handle sometimes (the theorems cover any order)
                choices += [ready[0]] * 6 + [rng.choice(ready)] * 2
            choices += ["put"] * 3
            if len(r.consumers) < 5:
                choices += [f"spawn {rng.randint(0, 1)}"] * 2
            if len(r.joiners) < 3:
                choices += ["join"]
            inblock = [i for i, c in enumerate(r.consumers)
                       if c["gate"] is not None and not c["gate"].done()]
            for i in inblock:
                choices += [f"exit {i} 1"] * 2 + [f"exit {i} 0"]
            if r.consumers:
                choices += [f"cancel {rng.randrange(len(r.consumers))}"] * 2
            # a little malformed stream: disabled labels
            if rng.random() < 0.03:
                choices = [f"exit {rng.randint(0, 6)} 1", f"run C {rng.randint(0, 6)}",
                           f"cancel {rng.randint(0, 8)}", f"run J {rng.randint(0, 4)}"]
            lab = rng.choice(choices)
            labels.append(lab)
            lines.append(f"{lab} ; {r.do_label(lab)}")
    finally:
        r.close()
    return labels, lines
