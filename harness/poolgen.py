"""Random label sources for the pool harness (online: choices depend on the live run so that most
labels are enabled and meaningful), plus a small malformed stream.  One `random.Random` per trace.

A *profile* is a dict of weights / switches; per-property profiles restrict the operation mix to
what the property quantifies over."""
from __future__ import annotations

import random

WS = ["sp", "sp", "sp", "sw", "rp", "xp"]
CBS = ["n", "n", "s0", "s1", "a00", "a01", "a10", "a11"]
CBS_NORAISE = ["n", "n", "s0", "a00", "a10"]

DEFAULT_PROFILE = {
    "sizes": ["0", "1", "2", "2", "3", "5", "inf"],
    "kinds": ["task", "task", "task", "simple"],
    "spawn": 5, "finish": 6, "relcb": 6, "cancel": 3, "cancelgroup": 2, "cancelall": 1,
    "stop": 2, "lock": 1, "unlock": 1, "setsize": 0, "getids": 1,
    "flush": 1.5, "gac": 0.5, "until": 0.5, "malformed": 0.03,
    "user_op": 0.25,          # probability of issuing an operation at a user point
    "raises": True,           # raising workers / callbacks / bad calls
    "allow_self_final": False,  # P-self (D11): self-cancellation from a final segment
    "allow_iter_cancel": False,  # P-iter: cancel of g from g's own iterator
    "unlock_after_gac": False,
    "max_requests": 6,
    "nonfifo": 0.25,          # also run a ready handle other than the head of the queue
    "valid_bias": 0.8,        # how often a cancelled id is a live one
    "map_bias": 0.5,          # map family vs. apply (TaskPool)
    "named": 0.4,             # how often a request carries an explicit group name
    "raise_bias": 1.0,        # multiplier on the frequency of raising user code
    "nums": [0, 1, 1, 2, 3, 5, 9],        # num of apply()
    "start_nums": [0, 1, 1, 2, 3, 5],     # num of start()
    "map_lens": [0, 1, 2, 3, 4, 6, 8],    # length of a map's iterable
    "ncs": [1, 1, 2, 3, 7],               # num_concurrent
}

# long runs with many requests, many tasks per request and larger pools: ids, group indices and
# per-group task counts beyond the small numbers of the default profile (thresholds, "the tenth
# request", ids with two digits, re-use of names and slots after many flushes)
LONG_PROFILE = {
    "sizes": ["1", "3", "8", "12", "17", "inf"], "max_requests": 80, "user_op": 0.08, "map_bias": 0.3, "named": 0.15,
    "nums": [1, 2, 4, 9, 10, 11, 16, 17, 20, 33], "start_nums": [1, 3, 8, 9, 10, 16, 17, 21],
    "map_lens": [2, 5, 9, 10, 11, 16, 17, 25], "ncs": [1, 2, 4, 8, 9, 10, 16],
    "flush": 2, "unlock": 5, "lock": 0.5, "finish": 30, "relcb": 20, "spawn": 4, "cancel": 2,
    "cancelgroup": 1, "cancelall": 0.3, "gac": 0.1, "malformed": 0.01,
}


def gen_bad(r: random.Random, num: int, p_bad: float) -> str:
    """Failure pattern of an apply() request / of a SimpleTaskPool's function (label syntax, see
    poolrun.bad_at).  With probability ~p_bad some call fails: every call ("1"), only the first,
    only the last, or an arbitrary mix; explicit patterns may be shorter or longer than num (the
    invocations beyond the pattern do not fail, the surplus entries are never reached)."""
    if r.random() >= p_bad:
        return "0"
    n = max(num, 1)
    x = r.random()
    if x < 0.25:
        return "1"
    if x < 0.40:
        bits = [True] + [False] * (n - 1)                 # the first call fails
    elif x < 0.55:
        bits = [False] * (n - 1) + [True]                 # the last call fails
    elif x < 0.62:
        bits = [True] * n                                 # all, spelled out
    else:
        bits = [r.random() < 0.45 for _ in range(n)]      # arbitrary subset
        if n >= 2 and x < 0.85 and len(set(bits)) == 1:
            k = r.randrange(n)
            bits[k] = not bits[k]                         # make it a genuine mix
    y = r.random()
    if y < 0.1 and len(bits) > 1:
        bits = bits[:-1]
    elif y < 0.2:
        bits = bits + [r.random() < 0.5]
    return "p" + "".join("1" if b else "0" for b in bits)


def mk_profile(**kw):
    p = dict(DEFAULT_PROFILE)
    p.update(kw)
    return p


class RandomSource:
    def __init__(self, rng: random.Random, profile, max_labels):
        self.rng = rng
        self.p = profile
        self.max = max_labels
        self.forced = []          # labels to emit next (e.g. inline driver start)
        self.gac_started = False
        self.nspawn = 0

    # -- helpers --------------------------------------------------------------------------
    def cfg(self):
        r, p = self.rng, self.p
        cbs = CBS if p["raises"] else CBS_NORAISE
        return {"size": r.choice(p["sizes"]), "kind": r.choice(p["kinds"]),
                # SimpleTaskPool: the function fails at these invocation indices of EACH start()
                "bad": gen_bad(r, r.choice([1, 2, 3, 5]), 0.15 * p["raise_bias"]) if p["raises"] else "0",
                "w": r.choice(WS if p["raises"] else ["sp", "sp", "sw", "rp"]),
                "ecb": r.choice(cbs), "ccb": r.choice(cbs)}

    def _w(self):
        return self.rng.choice(WS if self.p["raises"] else ["sp", "sp", "sp", "sw", "rp"])

    def _cb(self):
        return self.rng.choice(CBS if self.p["raises"] else CBS_NORAISE)

    def _gname_opt(self, run):
        r = self.rng
        x = r.random()
        if x < 1 - self.p["named"]:
            return "-"
        x = 0.6 + 0.4 * r.random()
        if x < 0.85:
            return f"U{r.randint(0, 3)}"
        if x < 0.93 and run.known:
            return r.choice(run.known)
        return f"A{r.randint(0, 3)}.{r.randint(0, 2)}"

    def _spawn(self, run):
        r = self.rng
        p_map = self.p["map_bias"]
        rb = self.p["raise_bias"]
        nonco = "1" if r.random() < 0.03 else "0"
        if run.cfg["kind"] == "simple":
            return f"start num={r.choice(self.p['start_nums'])}"
        if r.random() >= p_map:
            num = r.choice(self.p["nums"])
            bad = gen_bad(r, num, 0.2 * rb) if self.p["raises"] else "0"
            return (f"apply num={num} bad={bad} nonco={nonco} "
                    f"w={self._w()} ecb={self._cb()} ccb={self._cb()} g={self._gname_opt(run)}")
        n = r.choice(self.p["map_lens"])
        els = []
        for _ in range(n):
            b = "1" if self.p["raises"] and r.random() < 0.12 * rb else "0"
            els.append(b + self._w())
        nc = r.choice(self.p["ncs"]) if r.random() > 0.04 else 0
        return (f"map stars={r.randint(0, 2)} els={','.join(els) or '-'} nc={nc} nonco={nonco} "
                f"ecb={self._cb()} ccb={self._cb()} g={self._gname_opt(run)}")

    def _ids(self, run):
        r = self.rng
        valid_bias = self.p["valid_bias"]
        live = [t for t, g in run.gates.items() if not g.done()]
        n_created = len([k for k in run.ref_task if k[0] == "P"])
        k = r.choice([1, 1, 1, 2, 3])
        ids = []
        for _ in range(k):
            if live and r.random() < valid_bias:
                ids.append(r.choice(live))
            elif n_created and r.random() < 0.7:
                ids.append(r.randrange(n_created))
            else:
                ids.append(n_created + r.randint(0, 3))
        return ids

    # -- the source -----------------------------------------------------------------------
    def next(self, run):
        if len(run.labels) >= self.max:
            return None
        if self.forced:
            return self.forced.pop(0)
        r, p = self.rng, self.p
        run._refresh_refs()
        at_user = run.ctl.startswith("user")
        ch = []   # (weight, label)

        def add(w, lab):
            if w > 0:
                ch.append((w, lab))

        ready = run.ready_refs()
        if at_user:
            if r.random() >= p["user_op"]:
                return "go"
            add(3, "go")
        else:
            if ready:
                add(30, f"run {ready[0]}")
                if p["nonfifo"] and len(ready) > 1:
                    add(30 * p["nonfifo"], f"run {r.choice(ready)}")
        # which cancellations are allowed here?
        cancel_ok, group_block = True, None
        if at_user:
            _, kind, ident = run.ctl.split(":")
            ident = int(ident)
            if kind in ("wr", "wc") or (kind == "ws" and run.cur_w.get(ident, "s")[0] != "s"):
                cancel_ok = p["allow_self_final"]
            if kind == "it" and not p["allow_iter_cancel"]:
                group_block = run.req_group.get(ident)
        nreq = run.n_req
        if nreq < p["max_requests"]:
            add(p["spawn"] * (2 if nreq == 0 else 1), self._spawn(run))
        for t, g in run.gates.items():
            if not g.done():
                add(p["finish"] / 2, f"finish tid={t} how={'x' if p['raises'] and r.random() < 0.25 * p['raise_bias'] else 'r'}")
        for t, g in run.cbgates.items():
            if not g.done():
                add(p["relcb"], f"relcb tid={t}")
        if cancel_ok:
            add(p["cancel"], "cancel ids=" + ",".join(map(str, self._ids(run))))
            if run.known:
                g = r.choice(run.known)
                if g != group_block:
                    add(p["cancelgroup"], f"cancelgroup g={g}")
            if group_block is None:
                add(p["cancelall"], "cancelall")
                if run.cfg["kind"] == "simple":
                    add(p["stop"], f"stop n={r.choice([0, 1, 1, 2, 3, 10])}")
                    add(p["stop"] / 2, "stopall")
        add(p["lock"], "lock")
        if p["unlock_after_gac"] or not self.gac_started:
            add(p["unlock"], "unlock")
        add(p["setsize"], f"setsize v={r.choice(['0', '1', '2', '3', '4', 'inf'])}")
        if run.known:
            gs = [r.choice(run.known) for _ in range(r.choice([1, 1, 2]))]
            add(p["getids"], "getids gs=" + ",".join(gs))
        add(p["flush"], f"driver k=flush{r.randint(0, 1)}")
        if not self.gac_started or r.random() < 0.2:
            add(p["gac"], f"driver k=gac{r.randint(0, 1)}")
        add(p["until"] if len(run.drivers) < 6 else 0, "driver k=until")
        if r.random() < p["malformed"]:
            ch = [(1, lab) for lab in self._malformed(run)]
        total = sum(w for w, _ in ch)
        x = r.random() * total
        lab = ch[-1][1]
        for w, cand in ch:
            x -= w
            if x <= 0:
                lab = cand
                break
        return self._post(run, lab, at_user)

    def _post(self, run, lab, at_user):
        w = lab.split()
        if w[0] == "driver":
            if w[1].startswith("k=gac"):
                self.gac_started = True
            if not at_user and self.rng.random() < 0.7:
                # `await pool.flush()` from the caller's own coroutine: the body runs at once
                self.forced.append(f"run D{len(run.drivers)}")
        return lab

    def _malformed(self, run):
        r = self.rng
        n_created = len([k for k in run.ref_task if k[0] == "P"])
        out = [
            f"cancel ids={n_created + 5}", f"cancel ids={r.randint(0, max(n_created, 1))},{n_created + 2}",
            f"cancelgroup g=U{r.randint(4, 9)}", f"getids gs=U{r.randint(4, 9)}",
            "setsize v=neg", f"finish tid={r.randint(0, n_created + 2)} how=r",
            f"relcb tid={r.randint(0, n_created + 2)}", f"run P{n_created + 3}", "run M9", "run D9",
            "run G0:P0", "cancel ids=-",
        ]
        if run.cfg["kind"] == "simple":
            out += ["stop n=neg", "stop n=0"]
        else:
            out += ["map stars=0 els=0sp nc=0 nonco=0 ecb=n ccb=n g=-",
                    "apply num=1 bad=0 nonco=1 w=sp ecb=n ccb=n g=-"]
        if not run.ctl.startswith("user"):
            out.append("go")
        return out
