"""A worker function reachable only through a dotted path that needs sub-module imports."""
import asyncio


async def work3(*args, **kwargs):
    import ctrlrun
    ctrlrun.LOG.append((ctrlrun.WHO.get(), "work3", repr(args), repr(sorted(kwargs.items()))))
    ctrlrun._consume(args, kwargs)
    await asyncio.sleep(0)
