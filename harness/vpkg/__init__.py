"""A package whose sub-packages are not imported by its __init__ (dotted paths must import them)."""
