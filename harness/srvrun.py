"""M3 harness: the real TCP / Unix control server under the default event loop, with raw socket
clients and the bundled CLI client (subprocess).  After every label the harness waits (bounded) for
the observation the model predicts; what it then sees is recorded."""
from __future__ import annotations

import asyncio
import contextlib
import json
import os
import re
import shutil
import socket
import sys
import tempfile

STEP_TIMEOUT = float(os.environ.get("VERIF_SRV_TIMEOUT", "2.0"))


def free_port():
    s = socket.socket()
    s.bind(("127.0.0.1", 0))
    p = s.getsockname()[1]
    s.close()
    return p


class RawClient:
    kind = "raw"

    def __init__(self):
        self.reader = self.writer = None
        self.open = False
        self.replies = 0
        self.buf = b""

    async def connect(self, opener, hello=True):
        self.reader, self.writer = await opener()
        self.open = True
        self.hello = False
        if hello:
            await self.say_hello()

    async def say_hello(self):
        self.hello = True
        try:
            self.writer.write(json.dumps({"terminal_width": 80}).encode() + b"\n")
            await self.writer.drain()
        except (ConnectionError, OSError):
            pass

    async def poll(self):
        """Non-blocking: consume whatever arrived; count complete lines."""
        if self.reader is None:
            return
        while True:
            try:
                data = await asyncio.wait_for(self.reader.read(65536), 0.001)
            except asyncio.TimeoutError:
                return
            except (ConnectionError, OSError):
                return
            if not data:
                return
            self.buf += data
            *lines, self.buf = self.buf.split(b"\n")
            self.replies += len(lines)

    def server_closed(self):
        return self.reader is not None and self.reader.at_eof()

    async def send(self, line):
        try:
            self.writer.write(line.encode() + b"\n")
            await self.writer.drain()
        except (ConnectionError, OSError):
            pass

    async def leave(self, how):
        self.open = False
        with contextlib.suppress(Exception):
            if how == "abort" and getattr(self, "hello", True):
                # an abrupt departure: a command is sent and the connection is torn down without
                # reading the reply (TCP: reset; Unix: the server's write hits a closed peer)
                await self.poll()
                self.reader = None          # whatever else arrives is not read any more
                # the reply is left unread in the kernel buffer, then the socket is closed: the
                # server, idle in its next read, sees a connection reset (TCP and Unix alike)
                self.writer.transport.pause_reading()
                self.writer.write(b"num-running\n")
                await asyncio.sleep(0.05)
                sock = self.writer.get_extra_info("socket")
                if sock is not None and sock.family != socket.AF_UNIX:
                    import struct
                    sock.setsockopt(socket.SOL_SOCKET, socket.SO_LINGER, struct.pack("ii", 1, 0))
                self.writer.transport.abort()
                return
            self.writer.close()
            await self.writer.wait_closed()

    async def kill(self):
        if self.open:
            await self.leave("close")


class CliClient:
    """python -m asyncio_taskpool.control (tcp HOST PORT | unix PATH), stdin/stdout piped."""
    kind = "cli"

    def __init__(self, args, env):
        self.args, self.env = args, env
        self.proc = None
        self.open = False
        self.out = ""
        self.exit_code = None
        self.frozen = None

    async def connect(self, opener=None):
        self.proc = await asyncio.create_subprocess_exec(
            sys.executable, "-m", "asyncio_taskpool.control", *self.args,
            stdin=asyncio.subprocess.PIPE, stdout=asyncio.subprocess.PIPE,
            stderr=asyncio.subprocess.DEVNULL, env=self.env)   # its own error messages are not replies
        self.open = True

    async def poll(self):
        if self.proc is None:
            return
        while True:
            try:
                data = await asyncio.wait_for(self.proc.stdout.read(65536), 0.001)
            except asyncio.TimeoutError:
                return
            if not data:
                if self.proc.returncode is None:
                    with contextlib.suppress(asyncio.TimeoutError):
                        await asyncio.wait_for(self.proc.wait(), 0.001)
                self.exit_code = self.proc.returncode
                return
            self.out += data.decode(errors="replace")

    @property
    def replies(self):
        if self.frozen is not None:      # after leaving, the CLI prints its own goodbye text
            return self.frozen
        n = 1 if "Connected to" in self.out else 0
        # 'Disconnected from control server.' is the CLI's own message (printed when it notices
        # that the server has closed the connection), not a reply of the server
        return n + len([m for m in re.findall(r"> ([^\n>][^\n]*)\n", self.out)
                        if m.strip() != "Disconnected from control server."])

    def server_closed(self):
        return self.proc is not None and self.proc.returncode is not None and self.open

    async def send(self, line):
        with contextlib.suppress(Exception):
            self.nsent = getattr(self, "nsent", 0) + 1
            if self.nsent % 2 == 0:
                # the user presses Enter on an empty / blank line first: the CLI sends nothing
                self.proc.stdin.write(b"\n   \n")
            self.proc.stdin.write(line.encode() + b"\n")
            await self.proc.stdin.drain()

    async def leave(self, how):
        await self.poll()
        self.frozen = self.replies
        self.open = False
        with contextlib.suppress(Exception):
            if how == "exit":
                # the CLI's exit command, in one of several spellings
                self.nexit = getattr(CliClient, "_nexit", 0) + 1
                CliClient._nexit = self.nexit
                self.proc.stdin.write([b"exit\n", b"EXIT\n", b"  Exit \n"][self.nexit % 3])
                await self.proc.stdin.drain()
            else:
                self.proc.stdin.close()      # EOF on the prompt
        with contextlib.suppress(asyncio.TimeoutError):
            await asyncio.wait_for(self.proc.wait(), STEP_TIMEOUT)
        self.exit_code = self.proc.returncode

    async def kill(self):
        if self.proc is not None and self.proc.returncode is None:
            with contextlib.suppress(Exception):
                self.proc.kill()
                await self.proc.wait()


async def scenario(kind, labels, expected, clients_kind, repo_src):
    """labels: model syntax; expected[i]: the model's observation after label i;
    clients_kind[j] in raw|cli: kind of the j-th client that connects; leave modes are taken from
    the label ('leave c' = close, for cli: alternating exit / EOF)."""
    from asyncio_taskpool.control.server import TCPControlServer, UnixControlServer
    from asyncio_taskpool.pool import TaskPool
    pool = TaskPool(pool_size=3, name="srvpool")
    tmp = tempfile.mkdtemp(prefix="verif-c19-")
    path = os.path.join(tmp, "s.sock")
    old_cwd = os.getcwd()
    import zlib as _z
    if kind == "unix" and _z.crc32((" ".join(labels) + "|cwd").encode()) % 2 == 0:
        # a *relative* socket path used from a deep working directory: its absolute form is
        # longer than what AF_UNIX accepts (107 bytes), the relative one is fine
        deep = os.path.join(tmp, "d" * 60, "e" * 60)
        os.makedirs(deep)
        os.chdir(deep)
        path = "s.sock"
    env = dict(os.environ)
    env["PYTHONPATH"] = repo_src
    # unusual but legal server kwargs, passed through to asyncio.start_(unix_)server: with
    # start_serving=False the asyncio server starts accepting only inside serve_forever()
    import zlib
    skw = {"start_serving": False} if zlib.crc32(" ".join(labels).encode()) % 3 == 0 else {}
    if kind == "unix":
        server = UnixControlServer(pool, socket_path=path, **skw)
        cli_args = ["unix", path]
        opener = lambda: asyncio.open_unix_connection(path)     # noqa: E731
    else:
        port = free_port()
        server = TCPControlServer(pool, host="127.0.0.1", port=port, **skw)
        cli_args = ["tcp", "127.0.0.1", str(port)]
        opener = lambda: asyncio.open_connection("127.0.0.1", port)   # noqa: E731
    task = None
    old_tasks = []          # serving tasks of earlier runs
    stop_requested = False
    clients, refused, lines, notes = [], 0, [], []
    pool_closed = False
    overlap = False         # some run was started while the previous serving task was unfinished
    start_dt = None

    def observe():
        # whether the server has closed the connection is invisible through the CLI client until
        # its next command: printed as '?' for CLI clients (the model's line is masked likewise)
        conns = ",".join(
            f"{int(c.open)}:{'?' if c.kind == 'cli' else int(c.open and not c.server_closed())}:{c.replies}"
            for c in clients) or "-"
        raised = (task is not None and task.done() and not task.cancelled() and task.exception() is not None)
        return (f"listening={int(server.is_serving())} done={int(task is not None and task.done())} "
                f"drain={sum(1 for t in old_tasks if not t.done())} overlap={int(overlap)} raised={int(raised)} "
                f"sock={int(kind == 'unix' and os.path.exists(path))} refused={refused} conns={conns}")

    def normal(o):
        # the model keeps 'session' of a client that left at 0; so does observe() (open=0)
        return o

    try:
        for i, lab in enumerate(labels):
            w = lab.split()
            if w[0] == "start":
                # first start; restart after a completed stop; or a new run while the cancelled
                # task of the previous one still waits for its lingering clients
                if task is None or task.done() or stop_requested:
                    if task is not None:
                        old_tasks.append(task)
                        overlap = overlap or not task.done()
                    stop_requested = False
                    t0 = asyncio.get_running_loop().time()
                    try:
                        task = await asyncio.wait_for(server.serve_forever(), STEP_TIMEOUT)
                    except asyncio.TimeoutError:
                        notes.append(f"serve_forever() did not return within {STEP_TIMEOUT:.0f}s "
                                     f"(label {i}: {lab})")
                        lines.append(f"{lab} ; {normal(observe())}")
                        break
                    start_dt = asyncio.get_running_loop().time() - t0
                elif kind == "tcp":
                    # a second serve_forever() on a server that is serving (the model: nothing
                    # changes).  On TCP the port is taken, the call fails with OSError; whatever
                    # it does, the running server and its sessions must be unaffected
                    with contextlib.suppress(OSError, asyncio.TimeoutError):
                        await asyncio.wait_for(server.serve_forever(), STEP_TIMEOUT)
            elif w[0] == "connect":
                ck = clients_kind[len(clients)] if len(clients) < len(clients_kind) else "raw"
                c = CliClient(cli_args, env) if ck == "cli" else RawClient()
                if ck == "cli":
                    # the CLI prints a message and exits when it cannot connect
                    await c.connect()
                    deadline = asyncio.get_running_loop().time() + 3 * STEP_TIMEOUT
                    while ("Connected to" not in c.out and c.exit_code is None
                           and asyncio.get_running_loop().time() < deadline):
                        await c.poll()
                        await asyncio.sleep(0.01)
                    if "Connected to" in c.out:
                        clients.append(c)
                    else:
                        c.open = False
                        await c.kill()
                        refused += 1
                else:
                    try:
                        await asyncio.wait_for(c.connect(opener), STEP_TIMEOUT)
                        clients.append(c)
                    except (ConnectionError, FileNotFoundError, OSError, asyncio.TimeoutError):
                        refused += 1
            elif w[0] == "open":
                # connects, but keeps its handshake line for later: its session waits meanwhile
                c = RawClient()
                try:
                    await asyncio.wait_for(c.connect(opener, hello=False), STEP_TIMEOUT)
                    clients.append(c)
                except (ConnectionError, FileNotFoundError, OSError, asyncio.TimeoutError):
                    refused += 1
            elif w[0] == "hello":
                j = int(w[1])
                if j < len(clients) and clients[j].open and clients[j].kind == "raw" \
                        and getattr(clients[j], "hello", True) is False and clients[j].reader is not None:
                    await clients[j].say_hello()
            elif w[0] == "connectbad":
                # garbage instead of the handshake (or, every other time, an immediate hang-up)
                c = RawClient()
                try:
                    c.reader, c.writer = await asyncio.wait_for(opener(), STEP_TIMEOUT)
                    if i % 2 == 0:
                        c.writer.write(b"this is not json\n")
                        await c.writer.drain()
                    await asyncio.sleep(0.02)
                    c.open = False
                    with contextlib.suppress(Exception):
                        c.writer.close()
                        await c.writer.wait_closed()
                    c.reader = None          # whatever the server may have sent is not a reply
                    clients.append(c)
                except (ConnectionError, FileNotFoundError, OSError, asyncio.TimeoutError):
                    refused += 1
            elif w[0] == "send":
                j = int(w[1])
                if j < len(clients) and clients[j].open and getattr(clients[j], "hello", True) \
                        and not getattr(clients[j], "waiting", False):
                    await clients[j].send("num-running")
            elif w[0] == "sendwait":
                # a command whose method waits: until-closed on a pool nobody closes - no reply
                j = int(w[1])
                if j < len(clients) and clients[j].open and getattr(clients[j], "hello", True) \
                        and not getattr(clients[j], "waiting", False) and clients[j].kind == "raw":
                    clients[j].waiting = not pool_closed
                    await clients[j].send("until-closed")
            elif w[0] == "leave":
                j = int(w[1])
                if j < len(clients) and clients[j].open:
                    await clients[j].leave("exit" if (i % 2 == 0) else "eof")
            elif w[0] == "abort":
                # the client vanishes with a connection reset (raw clients; a connection whose
                # handshake was never sent is simply closed)
                j = int(w[1])
                if j < len(clients) and clients[j].open:
                    await clients[j].leave("abort" if clients[j].kind == "raw" else "eof")
            elif w[0] == "closepool":
                # the pool is closed from outside: waiting commands (until-closed) return
                await asyncio.wait_for(pool.gather_and_close(), STEP_TIMEOUT)
                pool_closed = True
                for c in clients:
                    if getattr(c, "waiting", False):
                        c.waiting = False
            elif w[0] == "stop":
                # one cancellation per run of the server (a second cancel() of a task that is
                # already winding down would interrupt its wait for the remaining clients)
                if task is not None and not task.done() and not stop_requested:
                    stop_requested = True
                    task.cancel()
            # wait (bounded) for the predicted observation
            deadline = asyncio.get_running_loop().time() + STEP_TIMEOUT
            want = expected[i] if i < len(expected) else None
            while True:
                for c in clients:
                    await c.poll()
                await asyncio.sleep(0.005)
                got = normal(observe())
                if got == want or asyncio.get_running_loop().time() > deadline:
                    break
            if got == want:
                # stability: nothing more happens shortly afterwards (e.g. a second reply)
                await asyncio.sleep(0.03)
                for c in clients:
                    await c.poll()
                got = normal(observe())
            lines.append(f"{lab} ; {got}")
        if start_dt is not None and start_dt > 1.0:
            notes.append(f"serve_forever() took {start_dt:.2f}s to return")
        for t in old_tasks + ([task] if task is not None else []):
            if t.done() and not t.cancelled():
                t.exception()       # retrieved: what it was is part of the observation (raised=)
    finally:
        for c in clients:
            with contextlib.suppress(Exception):
                await c.kill()
        pending = [t for t in old_tasks + ([task] if task is not None else []) if not t.done()]
        for t in pending:
            t.cancel()
        if pending:
            with contextlib.suppress(BaseException):
                await asyncio.wait(set(pending), timeout=0.5)
        os.chdir(old_cwd)
        shutil.rmtree(tmp, ignore_errors=True)
    return lines, notes


def run_scenario(kind, labels, expected, clients_kind, repo_src):
    """Own loop, no asyncio.run(): its shutdown waits for every leftover task, and a server whose
    connections are never closed (the very failure this check looks for) would make it wait for
    ever.  A hard limit bounds the whole scenario."""
    loop = asyncio.new_event_loop()
    asyncio.set_event_loop(loop)
    limit = STEP_TIMEOUT * (len(labels) + 4) * 3 + 10
    # a session that spins without ever yielding blocks this very loop, so no asyncio timeout can
    # fire: a SIGALRM raises a BaseException inside whatever code is running
    import signal

    class LoopBlocked(BaseException):
        pass

    def on_alarm(signum, frame):
        raise LoopBlocked()
    use_alarm = hasattr(signal, "SIGALRM")
    if use_alarm:
        try:
            old_handler = signal.signal(signal.SIGALRM, on_alarm)
            signal.alarm(int(limit) + 5)
        except ValueError:          # not in the main thread
            use_alarm = False
    cwd0 = os.getcwd()
    try:
        try:
            return loop.run_until_complete(
                asyncio.wait_for(scenario(kind, labels, expected, clients_kind, repo_src), limit))
        except asyncio.TimeoutError:
            return [], [f"scenario did not finish within {limit:.0f}s"]
        except LoopBlocked:
            os.chdir(cwd0)
            return [], [f"the event loop was blocked (a coroutine of the server never yields): "
                        f"scenario did not finish within {limit:.0f}s"]
    finally:
        if use_alarm:
            signal.alarm(0)
            signal.signal(signal.SIGALRM, old_handler)
        for t in asyncio.all_tasks(loop):
            t.cancel()
        with contextlib.suppress(BaseException):
            loop.run_until_complete(asyncio.wait_for(asyncio.sleep(0.05), 1))
        asyncio.set_event_loop(None)
        # deliberately not loop.close()-ing through shutdown_asyncgens/executor waits
        with contextlib.suppress(BaseException):
            loop.close()
