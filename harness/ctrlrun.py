"""M2 harness: real ControlSession objects over in-memory streams on real pools.

Everything is observed through what a client sees (bytes written back) and through the public API
of the pools; the model side is the extracted Coq model (driver modes `ctrl table|interp|session`).
"""
from __future__ import annotations

import ast
import asyncio
import contextlib
import importlib
import io
import json
import re
import sys
import urllib.parse

import contextvars

LOG = []          # calls of harness worker functions: (who, name, args, kwargs-items)
# which side made the call: "A" = tasks started by a session's commands, "B" = tasks started by the
# direct call on the twin pool (tasks inherit the context of the task that created them)
WHO = contextvars.ContextVar("who", default="?")


def _consume(args, kwargs):
    """User code may consume the (mutable) objects it is handed: a conversion result that is shared
    between two commands instead of being made afresh then shows."""
    for a in list(args) + list(kwargs.values()):
        if isinstance(a, list):
            a.clear()
        elif isinstance(a, dict):
            a.clear()


async def work(*args, **kwargs):
    LOG.append((WHO.get(), "work", repr(args), repr(sorted(kwargs.items()))))
    _consume(args, kwargs)
    await asyncio.sleep(0)


async def work2(*args, **kwargs):
    LOG.append((WHO.get(), "work2", repr(args), repr(sorted(kwargs.items()))))
    _consume(args, kwargs)
    await asyncio.sleep(0)
    await asyncio.sleep(0)


async def slow(*args, **kwargs):
    LOG.append((WHO.get(), "slow", repr(args), repr(sorted(kwargs.items()))))
    try:
        await asyncio.sleep(3600)
    except asyncio.CancelledError:
        # how many cancellation requests the task was given (cancel 3 3 asks twice)
        LOG.append((WHO.get(), "slow-cancelled", repr(asyncio.current_task().cancelling()), ""))
        raise


async def boom(*args, **kwargs):
    """A worker that fails: a later flush / gather-and-close without -r then raises its exception."""
    LOG.append((WHO.get(), "boom", repr(args), repr(sorted(kwargs.items()))))
    await asyncio.sleep(0)
    raise RuntimeError("boom " + repr(args) + repr(sorted(kwargs.items())))


class _Registry:
    """A falsy object (len() == 0) on the way of a dotted path: `ctrlrun.registry.work4`."""

    def __len__(self):
        return 0

    @staticmethod
    async def work4(*args, **kwargs):
        LOG.append((WHO.get(), "work4", repr(args), repr(sorted(kwargs.items()))))
        _consume(args, kwargs)
        await asyncio.sleep(0)


registry = _Registry()


def cb(task_id):
    LOG.append((WHO.get(), "cb", repr(task_id), ""))


def notcoro(*a, **k):
    return None


def q(s: str) -> str:
    return "~" + urllib.parse.quote(s, safe="")


def unq(s: str) -> str:
    assert s.startswith("~"), s
    return urllib.parse.unquote(s[1:])


class FakeWriter:
    def __init__(self):
        self.chunks = []
        self.closed = False

    def write(self, data):
        self.chunks.append(bytes(data))

    async def drain(self):
        await asyncio.sleep(0)

    def close(self):
        self.closed = True

    async def wait_closed(self):
        return None

    def take(self):
        out, self.chunks = self.chunks, []
        return out


class FakeServer:
    def __init__(self, pool):
        self.pool = pool
        self.client_class_name = "FakeClient"
        self.serving = True

    def is_serving(self):
        return self.serving


class Sess:
    """One real session: feed lines, collect the chunks written back."""

    def __init__(self, pool, width=10000, tag="A"):
        from asyncio_taskpool.control.session import ControlSession
        self.tag = tag
        self.reader = asyncio.StreamReader()
        self.writer = FakeWriter()
        self.server = FakeServer(pool)
        self.session = ControlSession(self.server, self.reader, self.writer)
        self.width = width
        self.task = None
        self.error = None

    async def start(self):
        async def run():
            WHO.set(self.tag)
            try:
                await self.session.client_handshake()
                await self.session.listen()
            except BaseException as e:     # noqa: BLE001 - recorded, judged by the caller
                self.error = e
                raise
        self.reader.feed_data(json.dumps({"terminal_width": self.width}).encode() + b"\n")
        self.task = asyncio.ensure_future(run())
        await settle()
        return b"".join(self.writer.take())

    async def send(self, line: str, rounds=12):
        """Send one line; return the list of chunks written in response (after settling)."""
        self.reader.feed_data(line.encode() + b"\n")
        await settle(rounds)
        return self.writer.take()

    async def stop(self):
        self.reader.feed_eof()
        await settle()
        if self.task is not None and not self.task.done():
            self.task.cancel()
            with contextlib.suppress(BaseException):
                await self.task


async def settle(rounds=12):
    for _ in range(rounds):
        await asyncio.sleep(0)


async def settle_pools(pools, groups=(), quiet=25, limit=4000, extra=lambda: None):
    """Run the loop until the public observables of all `pools` have not changed for `quiet`
    consecutive iterations (bounded): a command sent through a session and the same call made
    directly start at different moments, so long workloads (many tasks on a small pool) must be
    allowed to run out before the two pools are compared."""
    last, same = None, 0
    for _ in range(limit):
        await asyncio.sleep(0)
        cur = [pool_obs(p, groups) for p in pools] + [extra()]
        if cur == last:
            same += 1
            if same >= quiet:
                return
        else:
            last, same = cur, 0


def pool_obs(pool, groups=()):
    """Public observables of a pool."""
    out = {"nr": pool.num_running, "nc": pool.num_cancelled, "ne": pool.num_ended,
           "locked": pool.is_locked, "full": pool.is_full, "size": repr(pool.pool_size)}
    for g in groups:
        try:
            out["g:" + g] = sorted(pool.get_group_ids(g))
        except Exception as e:   # noqa: BLE001
            out["g:" + g] = type(e).__name__
    return out


# ------------------------------------------------------------------ subclasses (C16)
def make_subclasses():
    """Pool subclasses adding public members of the shapes the parser must cope with."""
    from asyncio_taskpool.pool import SimpleTaskPool, TaskPool

    class SubA(TaskPool):
        def hello(self, who: str, hard: bool = False, height: int = 3, how: str = "x") -> str:
            """Says hello."""
            return f"hello {who} {hard} {height} {how}"

        def many(self, *items: int, flag: bool = False, factor: int = 2, fudge: int = 0,
                 f_three: int = 1) -> str:
            """Multiplies."""
            return repr([i * factor for i in items]) + repr((flag, fudge, f_three))

        @property
        def label(self) -> str:
            """A label."""
            return getattr(self, "_label", "none")

        @label.setter
        def label(self, value: str) -> None:
            """Sets the label."""
            if value == "bad":
                raise ValueError("bad label")   # noqa: TRY003
            self._label = value

        def _private(self, x: int) -> None:
            """Must never be exposed."""

        attr = 5

    class SubB(SimpleTaskPool):
        def halt(self, hurry: bool = False, hold: int = 0, Hmm: int = 0) -> str:
            """Halts."""
            return f"halt {hurry} {hold} {Hmm}"

        @property
        def ratio(self) -> float:
            """A ratio."""
            return getattr(self, "_ratio", 0.5)

        @ratio.setter
        def ratio(self, value: float) -> None:
            """Sets the ratio."""
            self._ratio = value

    class SubC(TaskPool):
        """Member names with upper-case letters, and two members that differ only by case."""

        def runJob(self, count: int = 1) -> str:    # noqa: N802
            """Runs a job."""
            return f"ran {count}"

        @property
        def maxLoad(self) -> int:    # noqa: N802
            """Maximum load."""
            return 7

        def info(self) -> str:
            """Lower-case info."""
            return "info"

        def INFO(self) -> str:    # noqa: N802
            """Upper-case info."""
            return "INFO"

    class Mixin:
        """Public members contributed by a mix-in class (found through the MRO)."""

        def mixedIn(self, times: int = 1) -> str:    # noqa: N802
            """From the mix-in."""
            return "mixed" * times

        @property
        def mixed_prop(self) -> int:
            """A mix-in property."""
            return 11

    class SubD(Mixin, SimpleTaskPool):
        """Members that are not plain instance methods: a public static method (a plain function
        for `inspect.getmembers`, hence a command), a method
        overridden in the subclass, members inherited from a mix-in.  Used for C16 only (whether a
        static method can be *called* through the control interface is not part of C16)."""

        @staticmethod
        def api_version() -> str:
            """A static method."""
            return "v1"

        def lock(self) -> None:
            """Overridden."""
            super().lock()

        def no_doc(self, n: int = 0) -> int:
            return n

        def empty_doc(self) -> str:
            """"""
            return "e"

        def blank_doc(self) -> str:
            """
            """
            return "b"

        def long_doc(self, flag: bool = False) -> str:
            """


            The first non-empty line comes after blank ones.

            And there is more text
            over several lines.
            """
            return str(flag)

        @property
        def undocumented(self) -> int:
            return 3

        @property
        def limit(self) -> int:
            """A settable property whose setter parameter is not called `value`."""
            return getattr(self, "_limit", 10)

        @limit.setter
        def limit(self, new_limit: int) -> None:
            """Sets the limit."""
            self._limit = new_limit

        def opt(self, n: Optional[int] = None, ratio: Optional[float] = None,
                label: Optional[str] = None) -> str:
            """Parameters annotated Optional[...] (the spelling older code bases use)."""
            return f"opt {n!r} {ratio!r} {label!r}"

        def tagged(self, from_: int, type_: str = "t", *, class_: str = "c") -> str:
            """Parameters with a trailing underscore (PEP 8 names for keywords)."""
            return f"tagged {from_!r} {type_!r} {class_!r}"

    import ctrlsubs
    return SubA, SubB, SubC, SubD, ctrlsubs.make(TaskPool)


def new_pool(cls, size=3):
    from asyncio_taskpool.pool import SimpleTaskPool
    if issubclass(cls, SimpleTaskPool):
        return cls(work, args=("s",), pool_size=size, name="P")
    return cls(pool_size=size, name="P")


# ------------------------------------------------------------------ help text -> table
def parse_help(text):
    """usage/positional/options of one sub-command's help text (width 10000: one line per entry).
    Returns {"usage": str, "positionals": [names], "options": [[flag strings], takes_value]}"""
    res = {"usage": "", "positionals": [], "options": []}
    section = None
    for line in text.split("\n"):
        if line.startswith("usage:"):
            res["usage"] = line[len("usage:"):].strip()
            continue
        low = line.strip().lower()
        if low in ("positional arguments:",):
            section = "pos"
            continue
        if low in ("options:", "optional arguments:"):
            section = "opt"
            continue
        if line.startswith("   "):
            continue          # wrapped help text of the previous entry
        if not line.startswith("  ") or not line.strip():
            if line.strip() and not line.startswith(" "):
                section = None
            continue
        entry = re.split(r"\s{2,}", line.strip())[0]
        if section == "pos":
            res["positionals"].append(entry.split()[0])
        elif section == "opt":
            parts = [p.strip() for p in entry.split(",")]
            flags = [p.split()[0] for p in parts]
            takes = any(len(p.split()) > 1 for p in parts)
            res["options"].append((flags, takes))
    return res


def usage_nargs(usage, name):
    """nargs of positional `name` as shown in the usage string."""
    if re.search(r"\[%s \.\.\.\]" % re.escape(name), usage):
        return "*"
    if re.search(r"\[%s\]" % re.escape(name), usage):
        return "?"
    return "one"


# ------------------------------------------------------------------ conversions (C17)
def convert(cls, raw):
    if cls == "int":
        return int(raw)
    if cls == "float":
        return float(raw)
    if cls == "str":
        return raw
    if cls == "literal":
        return ast.literal_eval(raw)
    if cls == "path":
        # independent resolution: the longest importable module prefix, then attributes
        names = raw.split(".")
        for i in range(len(names) - 1, 0, -1):
            try:
                obj = importlib.import_module(".".join(names[:i]))
            except ImportError:
                continue
            for n in names[i:]:
                obj = getattr(obj, n)
            return obj
        raise ImportError(raw)
    if cls == "bool":
        return bool(raw)
    raise ValueError(cls)


def parse_argval(s):
    """driver syntax -> ('conv'|'list'|'bool'|'default', value)"""
    if s == "d":
        return ("default", None)
    k, rest = s.split(":", 1)
    if k == "b":
        return ("bool", rest == "1")
    cls, v = rest.split(":", 1)
    if k == "c":
        return ("conv", (cls, unq(v)))
    if k == "l":
        return ("list", (cls, [unq(x) for x in v.split(",")] if v != "-" else []))
    raise ValueError(s)


async def apply_pycall(pool, surface, py):
    """Perform, directly on `pool`, the call the model predicts ('py <member> <kind> pos= var= kw=')
    and return the reply the session is expected to send."""
    WHO.set("B")
    w = py.split()
    member, kind = w[1], int(w[2])
    kv = dict(x.split("=", 1) for x in w[3:])
    try:
        if kind == 1:
            return str(getattr(pool, member))
        if kind == 2:
            (name, v), = [x.split("=", 1) for x in kv["kw"].split(";")]
            k, (cls, raw) = parse_argval(v)
            setattr(pool, member, convert(cls, raw))
            return "ok"
        params = [p for kd, n, ps in surface if n == member for p in ps]
        pos_names = [p[0] for p in params if p[1] == "pos"]
        kwargs = {}
        posvals = kv["pos"].split(";") if kv["pos"] != "-" else []
        for name, v in zip(pos_names, posvals):
            k, val = parse_argval(v)
            if k == "conv":
                kwargs[name] = convert(*val)
            elif k == "bool":
                kwargs[name] = val
        var = []
        if kv["var"] != "-":
            for v in kv["var"].split(";"):
                k, val = parse_argval(v)
                var.append(convert(*val))
        if kv["kw"] != "-":
            for item in kv["kw"].split(";"):
                name, v = item.split("=", 1)
                k, val = parse_argval(v)
                if k == "conv":
                    kwargs[name] = convert(*val)
                elif k == "bool":
                    kwargs[name] = val
        # positional-or-keyword parameters are bound by name here (defaults apply natively);
        # with a var-positional parameter the leading ones must go positionally
        fn = getattr(pool, member)
        if var:
            lead = [kwargs.pop(n) for n in pos_names if n in kwargs]
            out = fn(*lead, *var, **kwargs)
        else:
            # positional-only parameters can only be given by position
            import inspect as _inspect
            lead = []
            for prm in _inspect.signature(fn).parameters.values():
                if prm.kind is prm.POSITIONAL_ONLY and prm.name in kwargs:
                    lead.append(kwargs.pop(prm.name))
                else:
                    break
            out = fn(*lead, **kwargs)
        if asyncio.iscoroutine(out):
            out = await out
        return "ok" if out is None else str(out)
    except Exception as e:   # noqa: BLE001
        return str(e)


@contextlib.contextmanager
def captured_std():
    old = sys.stdout, sys.stderr
    so, se = io.StringIO(), io.StringIO()
    sys.stdout, sys.stderr = so, se
    try:
        yield so, se
    finally:
        sys.stdout, sys.stderr = old


def run(coro):
    loop = asyncio.new_event_loop()
    try:
        return loop.run_until_complete(coro)
    finally:
        for t in asyncio.all_tasks(loop):
            t.cancel()
        with contextlib.suppress(BaseException):
            loop.run_until_complete(asyncio.sleep(0))
        loop.close()
