"""StepLoop: a minimal asyncio event loop that runs exactly one ready handle per `step()`.

Only the *outer iteration* of the event loop is replaced.  Tasks, Futures, Semaphore, Event,
Queue and gather are CPython's own (C-accelerated) implementations.  Between steps the harness
calls the API under test directly ("control is with the user").

Identity of handles: the owner of each ready handle is recovered so that the harness can tell the
model *which* handle ran (`handle_owner`):
  - a Task step / wakeup: `handle._callback.__self__` is the Task;
  - a gather child callback: `__qualname__ == 'gather.<locals>._done_callback'`, argument = child.
"""
from __future__ import annotations

import asyncio
import collections
from asyncio import events, tasks, futures


class StepLoop(asyncio.AbstractEventLoop):
    def __init__(self):
        self._ready = collections.deque()
        self._exc = []           # contexts passed to call_exception_handler
        self._timers = []        # (when, handle) - never fired automatically
        self._closed = False
        self.created = []        # every Task created through this loop, in order
        self.on_create = None    # optional hook(task, coro)
        self.on_call_soon = None # optional hook(handle)

    # -- required by Task/Future ------------------------------------------------------------
    def get_debug(self):
        return False

    def time(self):
        return 0.0

    def is_running(self):
        return True

    def is_closed(self):
        return self._closed

    def create_future(self):
        return futures.Future(loop=self)

    def create_task(self, coro, *, name=None, context=None):
        task = tasks.Task(coro, loop=self, name=name, context=context)
        self.created.append(task)
        if self.on_create is not None:
            self.on_create(task, coro)
        return task

    def call_soon(self, callback, *args, context=None):
        h = events.Handle(callback, args, self, context)
        self._ready.append(h)
        if self.on_call_soon is not None:
            self.on_call_soon(h)
        return h

    call_soon_threadsafe = call_soon

    def call_later(self, delay, callback, *args, context=None):
        h = events.TimerHandle(delay, callback, args, self, context)
        self._timers.append(h)
        return h

    def call_at(self, when, callback, *args, context=None):
        return self.call_later(when, callback, *args, context=context)

    def _timer_handle_cancelled(self, handle):
        pass

    def call_exception_handler(self, context):
        self._exc.append(context)

    def default_exception_handler(self, context):
        self._exc.append(context)

    # -- stepping ---------------------------------------------------------------------------
    def ready_handles(self):
        return [h for h in self._ready if not h._cancelled]

    def ready_empty(self):
        return not any(not h._cancelled for h in self._ready)

    def step(self, index=0):
        """Run one ready handle: by default the head of the FIFO queue (asyncio's order)."""
        live = [i for i, h in enumerate(self._ready) if not h._cancelled]
        if not live:
            raise RuntimeError("no ready handle")
        pos = live[index]
        h = self._ready[pos]
        del self._ready[pos]
        # drop cancelled handles in front
        while self._ready and self._ready[0]._cancelled:
            self._ready.popleft()
        h._run()
        return h

    def pop_handle(self, pred):
        """Remove and return the first ready handle satisfying pred (or None)."""
        for i, h in enumerate(self._ready):
            if not h._cancelled and pred(h):
                del self._ready[i]
                return h
        return None

    def close(self):
        self._closed = True


def handle_owner(h):
    """('task', Task) | ('gather', callback_function, child_future) | ('other', callback)."""
    cb = h._callback
    owner = getattr(cb, "__self__", None)
    if isinstance(owner, asyncio.Task):
        return ("task", owner)
    qn = getattr(cb, "__qualname__", "")
    if qn == "gather.<locals>._done_callback":
        return ("gather", cb, h._args[0])
    return ("other", cb)


class running:
    """Context manager: make `loop` the running loop for the enclosed synchronous code."""

    def __init__(self, loop):
        self.loop = loop

    def __enter__(self):
        self.prev = events._get_running_loop()
        events._set_running_loop(self.loop)
        return self.loop

    def __exit__(self, *a):
        events._set_running_loop(self.prev)
        return False
