"""M1 harness: drive the real TaskPool / SimpleTaskPool one event-loop handle at a time.

Label and observation formats are those of ocaml/pdriver.ml.  The harness owns all user code the
pool runs (workers, callbacks, argument iterables); each of them reports *events* and stops at
*user points*, where further labels (API calls) are taken from the label source before the code
continues (`go`).  Everything is observed through the public API, harness-owned code, and the
ready queue of the StepLoop.
"""
from __future__ import annotations

import asyncio
import inspect
import re
import warnings
from asyncio import CancelledError

from steploop import StepLoop, handle_owner, running

METHS = ["apply", "map", "starmap", "doublestarmap"]
# a pool name with characters that are special to %-formatting, str.format and regular expressions
POOL_NAME = "po%ol {0} 100%s (x) [y]"


class _OldSeq:
    """Iterable only through __getitem__ (no __iter__, no __len__)."""

    def __init__(self, items):
        self._items = items

    def __getitem__(self, i):
        return self._items[i]


class _Row:
    """Supports `**row` (keys() + __getitem__) without being a Mapping."""

    def __init__(self, d):
        self._d = d

    def keys(self):
        return list(self._d)

    def __getitem__(self, k):
        return self._d[k]


class _Returned:
    """An awaitable handed back by a plain (non-coroutine) callback."""

    def __init__(self, run, kind, tid):
        self.run, self.kind, self.tid = run, kind, tid

    def __await__(self):
        self.run.events.append(f"ret-awaited:{self.kind}:{self.tid}")
        return iter(())


class HarnessError(TypeError, ValueError, LookupError, ArithmeticError, AssertionError):
    """What harness-owned user code raises.  It is an instance of several builtin exception types
    at once, so library code that treats one of them specially (`except TypeError: retry` ...)
    meets it."""

    def __init__(self, tid, site):
        super().__init__(f"user/{tid}/{site}")
        self.tid, self.site = tid, site


import collections.abc


class CoWrap(collections.abc.Coroutine):
    """What a tracing / timing decorator returns: an object implementing the Coroutine protocol
    around a native coroutine (asyncio accepts it wherever it accepts a coroutine)."""

    def __init__(self, co):
        self._co = co

    def send(self, v):
        return self._co.send(v)

    def throw(self, *a):
        return self._co.throw(*a)

    def close(self):
        return self._co.close()

    def __await__(self):
        return self._co.__await__()


class Bad:
    """An element / argument for which the call of the worker function raises."""


def bad_at(pat, i):
    """Failure pattern syntax of the labels (field bad= of apply labels and of the cfg line):
    "0" no call fails, "1" every call fails, "p0101..." the call of invocation index i fails iff
    the i-th digit is 1 (indices beyond the pattern do not fail)."""
    if pat == "0":
        return False
    if pat == "1":
        return True
    if pat[:1] != "p" or set(pat[1:]) - {"0", "1"}:
        raise ValueError(f"bad pattern {pat!r}")
    return i + 1 < len(pat) and pat[i + 1] == "1"


# some user-chosen group names are unusual strings: empty, with a newline, looking like a flag
USER_NAMES = {"3": "", "2": "line one\nline two", "1": "--group-name"}


def gname_to_str(g):
    if g[0] == "A":
        m, i = g[1:].split(".")
        return f"{METHS[int(m)]}-work-group-{i}"
    if g[0] == "S":
        return f"start-group-{g[1:]}"
    if g[0] == "U":
        return USER_NAMES.get(g[1:], f"user-{g[1:]}")
    raise ValueError(g)


def str_to_gname(s):
    m = re.fullmatch(r"(apply|map|starmap|doublestarmap)-work-group-(\d+)", s)
    if m:
        return f"A{METHS.index(m.group(1))}.{m.group(2)}"
    m = re.fullmatch(r"start-group-(\d+)", s)
    if m:
        return f"S{m.group(1)}"
    m = re.fullmatch(r"user-(\d+)", s)
    if m:
        return f"U{m.group(1)}"
    for k, v in USER_NAMES.items():
        if s == v:
            return f"U{k}"
    return "X" + re.sub(r"[^A-Za-z0-9]", "_", s)


def parse_kv(words):
    return dict(w.split("=", 1) for w in words)


class EndOfTrace(Exception):
    pass


class PoolRun:
    def __init__(self, cfg, source):
        """cfg: dict(size, kind, bad, w, ecb, ccb) in label syntax; source.next(run) -> label|None"""
        from asyncio_taskpool import pool as poolmod
        self.poolmod = poolmod
        self.cfg = cfg
        self.source = source
        self.loop = StepLoop()
        self.loop.on_create = self._on_create
        self.ctxm = running(self.loop)
        self.ctxm.__enter__()
        warnings.simplefilter("ignore")
        self.lines = []          # "label ; obs"
        self.labels = []
        self.events = []
        self.pending = None      # label being executed, obs not yet recorded
        self.pending_en = True
        self.res = "none"
        self.ctl = "idle"
        self.draining = False
        self.n_req = 0
        self.calls = {}          # req -> number of calls of the worker function
        self.badpat = {}         # req -> failure pattern of an apply() request (label syntax)
        self.empty_el = None     # identity of the empty map element the iterator just yielded
        self.gates = {}          # tid -> worker gate future
        self.fin = {}            # tid -> 'r' | 'x'
        self.cbgates = {}        # tid -> callback gate future
        self.known = []
        self.task_ref = {}       # Task -> 'P3' | 'M1' | 'D0'
        self.ref_task = {}
        self.n_meta = 0
        self.cur_w = {}
        self.req_group = {}
        self.order = []
        self.classified = 0
        self.drivers = []        # driver Tasks
        self.driver_reported = set()
        self.gcb = {}            # id(callback fn) -> (fn, did)
        self.cur_driver = None
        self.stats = {"user_points": 0}
        size = cfg["size"]
        psize = float("inf") if size == "inf" else int(size)
        if size != "inf":
            # whole numbers that are not of type int are sizes too
            import fractions
            import zlib
            k = zlib.crc32(repr(sorted(cfg.items())).encode()) % 4
            psize = [psize, psize, float(psize), fractions.Fraction(psize)][k]
        self._mk_work()
        if cfg["kind"] == "simple":
            bad_at(cfg["bad"], 0)     # syntax check
            args = ("simple", cfg["w"])
            kw = {"args": args, "kwargs": [None, {"k1": "v1"}][len(cfg["w"] + cfg["ecb"]) % 2],
                  "end_callback": self._make_cb("e", cfg["ecb"]),
                  "cancel_callback": self._make_cb("c", cfg["ccb"]), "pool_size": psize, "name": POOL_NAME}
            if len(cfg["w"] + cfg["ccb"] + str(cfg["size"])) % 2:
                # documented defaults left out (kwargs=None, no callbacks, pool_size=inf)
                kw = {k: v for k, v in kw.items() if not (v is None or (k == "pool_size" and v == float("inf")))}
            self.pool = poolmod.SimpleTaskPool(self.work, **kw)
        elif psize == float("inf") and len(cfg["w"]) % 2:
            self.pool = poolmod.TaskPool(name=POOL_NAME)          # pool_size defaults to inf
        elif len(cfg["ecb"] + cfg["w"]) % 2:
            self.pool = poolmod.TaskPool(psize, POOL_NAME)        # positionally
        else:
            self.pool = poolmod.TaskPool(pool_size=psize, name=POOL_NAME)

    def close(self):
        self.ctxm.__exit__()
        self.loop.close()

    # ------------------------------------------------------------------ identities
    def _on_create(self, task, coro):
        # asyncio.create_task sets the task's name only after the loop created it, so tasks are
        # classified lazily (see _refresh_refs)
        if self.cur_driver is not None and self.cur_driver[1] is None:
            self.cur_driver[1] = task
            self.order.append((task, self.cur_driver[0]))
        else:
            self.order.append((task, None))

    def _refresh_refs(self):
        """Pool tasks are recognised by their documented name '<pool>_Task-<id>'; driver tasks
        are created by the harness; every other task is a spawner ("meta task"), numbered in
        creation order."""
        while self.classified < len(self.order):
            task, d = self.order[self.classified]
            self.classified += 1
            if d is not None:
                ref = f"D{d}"
            else:
                m = re.fullmatch(r"(.*)_Task-(\d+)", task.get_name())
                if m and m.group(1) == str(self.pool):
                    ref = f"P{m.group(2)}"
                else:
                    ref = f"M{self.n_meta}"
                    self.n_meta += 1
            self.task_ref[task] = ref
            self.ref_task[ref] = task

    def _scan_gather_callbacks(self, did):
        """Attribute gather child callbacks registered during driver `did`'s step to it."""
        self._refresh_refs()
        for t in list(self.task_ref):
            if t.done():
                continue
            try:
                cbs = t._callbacks
            except AttributeError:
                cbs = None
            for item in cbs or ():
                cb = item[0] if isinstance(item, tuple) else item
                if getattr(cb, "__qualname__", "") == "gather.<locals>._done_callback":
                    if id(cb) not in self.gcb:
                        self.gcb[id(cb)] = (cb, did)

    def handle_ref(self, h):
        self._refresh_refs()
        o = handle_owner(h)
        if o[0] == "task":
            return self.task_ref.get(o[1], "?")
        if o[0] == "gather":
            did = self.gcb.get(id(o[1]), (None, "?"))[1]
            return f"G{did}:{self.task_ref.get(o[2], '?')}"
        return "?"

    def ready_refs(self):
        return [self.handle_ref(h) for h in self.loop.ready_handles()]

    # ------------------------------------------------------------------ user code
    def _mk_work(self):
        run = self

        def work(*args, **kwargs):
            # called by the pool to create the coroutine: func(*args, **kwargs) / star_function
            if any(isinstance(a, Bad) for a in args) or kwargs.get("bad"):
                raise TypeError("bad call")
            if set(kwargs) == {"k1"}:        # the extra keyword argument of some apply()/start() requests
                if kwargs["k1"] != "v1":
                    raise TypeError("kwargs not passed through")
                kwargs = {}
            if not args and not kwargs:
                # an *empty* element of starmap / doublestarmap: func() - the element's identity
                # was noted by the argument iterator right before it yielded (the pool calls
                # func synchronously after next())
                pend, run.empty_el = run.empty_el, None
                if pend is None:
                    ok, req, k, w = False, -1, 0, "rp"
                else:
                    ok, (req, k, w) = True, pend
            elif kwargs:
                ok = set(kwargs) == {"req", "k", "w", "shape"} and kwargs["shape"] == 2
                req, k, w = kwargs.get("req"), kwargs.get("k"), kwargs.get("w")
            elif len(args) == 1 and isinstance(args[0], tuple):
                ok = len(args[0]) == 4 and args[0][3] == 0
                req, k, w = args[0][0], args[0][1], args[0][2]
            elif len(args) == 4:
                ok = args[3] == 1
                req, k, w = args[0], args[1], args[2]
            elif len(args) == 2 and args[0] == "simple":
                ok = True
                req, k, w = None, None, args[1]
            elif len(args) == 3 and args[0] == "apply":
                ok = True
                req, k, w = args[1], None, args[2]
            elif len(args) == 5 and args[0] == "@":
                ok = True
                req, k, w = int(args[1] + args[2]), None, args[3] + args[4]
            else:
                ok, req, k, w = False, -1, 0, "rp"
            if k is None:   # apply / start: the invocation index is the call count
                if req is None:
                    req = run._cur_simple_req()
                    pat = run.cfg["bad"]
                else:
                    pat = run.badpat.get(req, "0")
                k = run.calls.get(req, 0)
                run.calls[req] = k + 1
                if bad_at(pat, k):
                    # the call func(*args, **kwargs) of exactly this invocation raises
                    raise TypeError(f"bad call {k}")
            co = run._worker(req, k if ok else 999, w)
            if isinstance(req, int) and req % 4 == 3:
                return CoWrap(co)        # a coroutine object that is not a native coroutine
            return co

        inspect.markcoroutinefunction(work)
        work.__name__ = "work"
        self.work = work

        def notcoro(*a, **k):
            return None
        notcoro.__name__ = "work"

        import functools

        async def native(*a, **k):
            return None

        @functools.wraps(native)
        def wrapped_plain(*a, **k):      # a plain function that *wraps* a coroutine function
            return None
        wrapped_plain.__name__ = "work"
        self._notcoros = [notcoro, wrapped_plain]
        self.n_notcoro = 0

    @property
    def notcoro(self):
        self.n_notcoro += 1
        return self._notcoros[self.n_notcoro % 2]

    def _cur_simple_req(self):
        # SimpleTaskPool: which start() request is calling?  the running meta task
        self._refresh_refs()
        t = asyncio.current_task(self.loop)
        ref = self.task_ref.get(t, "M?")
        return int(ref[1:]) if ref[1:].isdigit() else -1

    def _tid(self):
        name = asyncio.current_task(self.loop).get_name()
        m = re.fullmatch(r".*_Task-(\d+)", name)
        return int(m.group(1)) if m else -1

    async def _worker(self, req, el, w):
        tid = self._tid()
        self.cur_w[tid] = w
        self.events.append(f"start:{tid}:{req}:{el}")
        self.user_point("ws", tid)
        if w[0] == "s":
            gate = self.loop.create_future()
            self.gates[tid] = gate
            try:
                await gate
            except CancelledError:
                self.events.append(f"cancelled:{tid}")
                self.user_point("wc", tid)
                self.events.append(f"exit:{tid}")
                if w[1] == "p":
                    raise
                return None
            self.user_point("wr", tid)
            self.events.append(f"exit:{tid}")
            if self.fin.get(tid) == "x":
                raise HarnessError(tid, "w")
            return self._result(tid)
        self.events.append(f"exit:{tid}")
        if w[0] == "x":
            raise HarnessError(tid, "w")
        return self._result(tid)

    @staticmethod
    def _result(tid):
        """What a worker returns: mostly None; now and then an exception *instance* as an ordinary
        value (returned, not raised) or another odd object."""
        return [None, ValueError(f"just a value {tid}"), None, 0, HarnessError(tid, "returned")][tid % 5]

    def classify(self, tid):
        """Public-API probe of the state the pool files `tid` under (side-effect free unless the
        task is wrongly still filed as running)."""
        ex = self.poolmod
        try:
            self.pool.cancel(tid)
        except Exception as e:  # noqa: BLE001
            n = type(e).__name__
            return {"AlreadyCancelled": "c", "AlreadyEnded": "e"}.get(n, "u")
        return "r"

    def _make_cb(self, kind, spec):
        """A callback of the requested behaviour, in one of several *forms* (by turns): a plain
        function / coroutine function, a functools.partial around it, a bound method."""
        f = self._make_cb_fn(kind, spec)
        if f is None:
            return None
        self.n_cbs = getattr(self, "n_cbs", 0) + 1
        form = self.n_cbs % 3
        if form == 1:
            import functools
            return functools.partial(f)
        if form == 0 and not inspect.iscoroutinefunction(f) and self.n_cbs % 2 == 0:
            class CallableList(list):      # an unhashable callable object
                def __call__(self_, tid):
                    return f(tid)
            # ... which, every other time, is *empty*, hence falsy: a callback is a callback
            # whatever its truth value (a recorder that has recorded nothing yet)
            return CallableList([1] if self.n_cbs % 4 else [])
        if form == 0 and inspect.iscoroutinefunction(f) and self.n_cbs % 2 == 0:
            class Falsy:                   # a falsy object with an async __call__ ... is not a
                def __bool__(self_):       # coroutine function for asyncio: use a falsy *partial*
                    return False
            import functools

            class FalsyPartial(functools.partial):
                def __bool__(self_):
                    return False
            return FalsyPartial(f)
        if form == 2:
            if inspect.iscoroutinefunction(f):
                class Holder:
                    async def call(self_, tid):
                        return await f(tid)
            else:
                class Holder:
                    def call(self_, tid):
                        return f(tid)
            return Holder().call
        return f

    def _make_cb_fn(self, kind, spec):
        if spec == "n":
            return None
        up = "ec" if kind == "e" else "cc"
        raises = spec[-1] == "1"
        if spec[0] == "s":
            def cb(tid):
                self.events.append(f"cbb:{kind}:{tid}:{self.classify(tid)}")
                self.user_point(up, tid)
                self.events.append(f"cbe:{kind}:{tid}:{int(raises)}")
                if raises:
                    raise HarnessError(tid, kind)
                if tid % 2:
                    # what a plain callback returns is its own business: the pool must not await it
                    # (an awaitable returned here that were awaited would show as an extra event)
                    return _Returned(self, kind, tid)
            return cb
        slow = spec[1] == "1"

        async def acb(tid):
            self.events.append(f"cbb:{kind}:{tid}:{self.classify(tid)}")
            self.user_point(up, tid)
            if slow:
                gate = self.loop.create_future()
                self.cbgates[tid] = gate
                try:
                    await gate
                except CancelledError:
                    self.events.append(f"cbi:{kind}:{tid}")
                    raise
            self.events.append(f"cbe:{kind}:{tid}:{int(raises)}")
            if raises:
                raise HarnessError(tid, kind)
        return acb

    def _arg_iterable(self, req, stars, els):
        """The argument iterable of a map request: a generator, or (every other request) a sized,
        re-iterable container whose iteration is instrumented in the same way."""
        if req % 2 == 0:
            return self._arg_iter(req, stars, els)
        run = self

        class SizedArgs:
            def __len__(self):
                return len(els)

            def __iter__(self):
                return run._arg_iter(req, stars, els)

            def __getitem__(self, i):      # some "fast paths" index into sequences
                return list(run._arg_iter_plain(req, stars, els))[i]
        return SizedArgs()

    def _arg_iter_plain(self, req, stars, els):
        for k, e in enumerate(els):
            bad, w = e[0] == "1", e[1:]
            yield (5 if stars else Bad()) if bad else (
                (req, k, w, 0) if stars == 0 else (req, k, w, 1) if stars == 1
                else {"req": req, "k": k, "w": w, "shape": 2})

    def _arg_iter(self, req, stars, els):
        k = 0
        while True:
            self.events.append(f"pull:{req}:{k}")
            self.user_point("it", req)
            if k >= len(els):
                return
            bad, w = els[k][0] == "1", els[k][1:]
            if bad:
                yield 5 if stars else Bad()
            elif stars == 0:
                yield (req, k, w, 0)
            elif (req * 7 + k * 3) % 4 == 0:
                # unusual but legal: an element that unpacks to no arguments at all -> func()
                self.empty_el = (req, k, w)
                yield [(), []][k % 2] if stars == 1 else {}
            elif stars == 1:
                # whatever `*` accepts: a tuple, or an object that is iterable only through the
                # old sequence protocol (__getitem__ / IndexError)
                yield (req, k, w, 1) if (req + k) % 3 else _OldSeq((req, k, w, 1))
            else:
                # whatever `**` accepts: a dict, or a record that has keys() and __getitem__
                # without being a registered Mapping (sqlite3.Row and the like)
                d = {"req": req, "k": k, "w": w, "shape": 2}
                yield d if (req + k) % 3 else _Row(d)
            k += 1

    # ------------------------------------------------------------------ control
    def user_point(self, kind, ident):
        """Called by harness-owned user code: record the pending label's observation, then take
        labels from the source until `go`."""
        self.stats["user_points"] += 1
        if self.draining:
            return
        self.ctl = f"user:{kind}:{ident}"
        self._record()
        while True:
            lab = self._next_label()
            if lab is None:
                self.draining = True
                self.ctl = "idle"
                return
            w = lab.split()
            if w[0] == "go":
                self.pending, self.pending_en = lab, True
                self.ctl = "idle"
                return
            if w[0] == "run":
                self.pending, self.pending_en = lab, False
                self._record()
                continue
            self._do_op(lab, w)

    def _next_label(self):
        lab = self.source.next(self)
        if lab is not None:
            self.labels.append(lab)
        return lab

    def _record(self):
        self._collect_driver_events()
        self.lines.append(f"{self.pending} ; {self.obs(self.pending_en)}")
        self.events = []
        self.res = "none"
        self.pending = None

    def _collect_driver_events(self):
        for d, t in enumerate(self.drivers):
            if t is not None and t.done() and d not in self.driver_reported:
                self.driver_reported.add(d)
                self.events.append(f"ddone:{d}:{self._outcome(t)}")

    @staticmethod
    def _outcome(t):
        if t.cancelled():
            return "cancelled"
        e = t.exception()
        if e is None:
            return "ok"
        if isinstance(e, HarnessError):
            return f"exc/user/{e.tid}/{e.site}"
        n = type(e).__name__
        if n in ("KeyError", "PoolIsClosed", "PoolIsLocked"):
            return f"exc/{n}"
        return f"exc/Other.{n}"

    def main(self):
        """Run labels from the source until it is exhausted."""
        try:
            while True:
                lab = self._next_label()
                if lab is None:
                    break
                w = lab.split()
                if w[0] == "go":
                    self.pending, self.pending_en = lab, False
                    self._record()
                elif w[0] == "run":
                    self._do_run(lab, w[1])
                    if self.draining:
                        break
                else:
                    self._do_op(lab, w)
        finally:
            self.close()
        return self.lines

    def _do_run(self, lab, ref):
        self.pending = lab
        h = self.loop.pop_handle(lambda h: self.handle_ref(h) == ref)
        if h is None:
            self.pending_en = False
            self._record()
            return
        self.pending_en = True
        h._run()
        if ref[0] == "D":
            self._scan_gather_callbacks(int(ref[1:]))
        if self.draining:
            return
        self.ctl = "idle"
        self._record()

    # ------------------------------------------------------------------ operations
    def _know(self, g):
        if g not in self.known:
            self.known.append(g)

    def _call(self, f, *a, **k):
        try:
            return ("ok", f(*a, **k))
        except HarnessError:
            raise
        except Exception as e:  # noqa: BLE001
            n = type(e).__name__
            n = {"TaskGroupAlreadyExists": "InvalidGroupName.exists",
                 "TaskGroupNotFound": "InvalidGroupName.notfound",
                 "TaskNotFound": "InvalidTaskID"}.get(n, n)
            return ("err", n)

    def _msg_kw(self):
        """The optional `msg` of cancel / cancel_group / cancel_all is passed by every other
        cancellation (it only decorates the CancelledError; nothing observable depends on it)."""
        self.n_cancel_ops = getattr(self, "n_cancel_ops", 0) + 1
        return {"msg": f"cancelled by op {self.n_cancel_ops}"} if self.n_cancel_ops % 2 else {}

    def _spawn_result(self, r):
        if r[0] == "ok":
            g = str_to_gname(r[1])
            self._know(g)
            self.req_group[self.n_req] = g
            self.n_req += 1
            self.res = f"name:{g}"
        else:
            self.res = f"err:{r[1]}"

    def op_enabled(self, w):
        kind = self.cfg["kind"]
        if w[0] in ("apply", "map"):
            return kind == "task"
        if w[0] in ("start", "stop", "stopall"):
            return kind == "simple"
        if w[0] == "finish":
            g = self.gates.get(int(parse_kv(w[1:])["tid"]))
            return g is not None and not g.done()
        if w[0] == "relcb":
            g = self.cbgates.get(int(parse_kv(w[1:])["tid"]))
            return g is not None and not g.done()
        return True

    def _do_op(self, lab, w):
        self.pending = lab
        self.pending_en = self.op_enabled(w)
        if self.pending_en:
            self._exec_op(w)
        self._record()

    def _exec_op(self, w):
        p = self.pool
        kv = parse_kv(w[1:])
        op = w[0]
        if op == "apply":
            g = None if kv["g"] == "-" else kv["g"]
            if g:
                self._know(g)
            func = self.notcoro if kv["nonco"] == "1" else self.work
            req = self.n_req
            bad_at(kv["bad"], 0)      # syntax check
            self.badpat[req] = kv["bad"]
            # the shape of `args` varies: a tuple, a list, or (requests below 100) a *string* -
            # func(*"@07sp") is func("@", "0", "7", "s", "p"); all of them are legal iterables
            args = [("apply", req, kv["w"]), ["apply", req, kv["w"]],
                    f"@{req:02d}{kv['w']}" if req < 100 and len(kv["w"]) == 2 else ("apply", req, kv["w"])][req % 3]
            kwargs = [None, {}, {"k1": "v1"}][req % 3]
            ecb, ccb = self._make_cb("e", kv["ecb"]), self._make_cb("c", kv["ccb"])
            if g and req % 2 and "1" not in kv["bad"]:
                # with an explicit group name the function need not have a __name__: a
                # functools.partial of a coroutine function is a coroutine function for asyncio
                # (only for requests none of whose calls raises: the library's log line for a
                # raising call uses func.__name__ - a documented limit of the label domain)
                import functools
                func = functools.partial(func)
            if (req // 3) % 2 == 0:
                # the way the documentation writes it: keyword arguments, and whatever equals the
                # documented default (kwargs=None, num=1, group_name=None, no callbacks) left out
                kw = {"args": args, "kwargs": kwargs, "num": int(kv["num"]),
                      "group_name": gname_to_str(g) if g else None,
                      "end_callback": ecb, "cancel_callback": ccb}
                kw = {k: v for k, v in kw.items() if not (v is None or (k == "num" and v == 1))}
                self._spawn_result(self._call(p.apply, func, **kw))
            else:
                self._spawn_result(self._call(
                    p.apply, func, args, kwargs, int(kv["num"]), gname_to_str(g) if g else None, ecb, ccb))
        elif op == "map":
            g = None if kv["g"] == "-" else kv["g"]
            if g:
                self._know(g)
            func = self.notcoro if kv["nonco"] == "1" else self.work
            stars = int(kv["stars"])
            els = [] if kv["els"] == "-" else kv["els"].split(",")
            meth = [p.map, p.starmap, p.doublestarmap][stars]
            ecb, ccb = self._make_cb("e", kv["ecb"]), self._make_cb("c", kv["ccb"])
            it = self._arg_iterable(self.n_req, stars, els)
            if g and self.n_req % 2 and not any(e[0] == "1" for e in els):
                import functools
                func = functools.partial(func)
            if (self.n_req // 2) % 2 == 0:
                # keyword style, documented defaults (num_concurrent=1, group_name=None, no
                # callbacks) left out
                kw = {"num_concurrent": int(kv["nc"]), "group_name": gname_to_str(g) if g else None,
                      "end_callback": ecb, "cancel_callback": ccb}
                kw = {k: v for k, v in kw.items() if not (v is None or (k == "num_concurrent" and v == 1))}
                self._spawn_result(self._call(meth, func, it, **kw))
            else:
                self._spawn_result(self._call(meth, func, it, int(kv["nc"]), gname_to_str(g) if g else None,
                                              ecb, ccb))
        elif op == "start":
            if self.n_req % 2:
                self._spawn_result(self._call(p.start, num=int(kv["num"])))
            else:
                self._spawn_result(self._call(p.start, int(kv["num"])))
        elif op == "cancel":
            ids = [] if kv["ids"] == "-" else [int(x) for x in kv["ids"].split(",")]
            r = self._call(p.cancel, *ids, **self._msg_kw())
            self.res = "none" if r[0] == "ok" else f"err:{r[1]}"
        elif op == "cancelgroup":
            self._know(kv["g"])
            r = self._call(p.cancel_group, gname_to_str(kv["g"]), **self._msg_kw())
            self.res = "none" if r[0] == "ok" else f"err:{r[1]}"
        elif op == "cancelall":
            r = self._call(p.cancel_all, **self._msg_kw())
            self.res = "none" if r[0] == "ok" else f"err:{r[1]}"
        elif op == "stop":
            n = -1 if kv["n"] == "neg" else int(kv["n"])
            r = self._call(p.stop, n) if n % 2 else self._call(p.stop, num=n)
            self.res = "ids:" + ".".join(map(str, r[1])) if r[0] == "ok" else f"err:{r[1]}"
        elif op == "stopall":
            r = self._call(p.stop_all)
            self.res = "ids:" + ".".join(map(str, r[1])) if r[0] == "ok" else f"err:{r[1]}"
        elif op == "lock":
            p.lock()
        elif op == "unlock":
            p.unlock()
        elif op == "setsize":
            v = kv["v"]
            val = -1 if v == "neg" else (float("inf") if v == "inf" else int(v))

            def setter():
                p.pool_size = val
            r = self._call(setter)
            self.res = "none" if r[0] == "ok" else f"err:{r[1]}"
        elif op == "getids":
            gs = [] if kv["gs"] == "-" else kv["gs"].split(",")
            for g in gs:
                self._know(g)
            r = self._call(p.get_group_ids, *[gname_to_str(g) for g in gs])
            self.res = ("ids:" + ".".join(map(str, sorted(r[1])))) if r[0] == "ok" else f"err:{r[1]}"
        elif op == "driver":
            k = kv["k"]
            d = len(self.drivers)
            self.drivers.append(None)
            self.cur_driver = [d, None]
            # return_exceptions: by keyword, positionally, or - the default, False - not at all
            rex = (k[-1] == "1")
            a, kw = [((), {"return_exceptions": rex}), ((rex,), {}), ((), {})][d % 3 if not rex else d % 2]
            if k.startswith("flush"):
                coro = p.flush(*a, **kw)
            elif k.startswith("gac"):
                coro = p.gather_and_close(*a, **kw)
            else:
                coro = p.until_closed()
            t = self.loop.create_task(coro)
            self.drivers[d] = t
            self.cur_driver = None
        elif op == "finish":
            tid = int(kv["tid"])
            self.fin[tid] = kv["how"]
            self.gates[tid].set_result(None)
        elif op == "relcb":
            self.cbgates[int(kv["tid"])].set_result(None)
        else:
            raise ValueError(f"unknown op {w}")

    # ------------------------------------------------------------------ observation
    def obs(self, en):
        p = self.pool
        size = p.pool_size
        size = "inf" if size == float("inf") else str(int(size))
        groups = []
        for g in self.known:
            try:
                ids = p.get_group_ids(gname_to_str(g))
                groups.append(f"{g}=" + ".".join(map(str, sorted(ids))))
            except Exception:  # noqa: BLE001
                groups.append(f"{g}=NF")
        return (f"en={int(en)} ctl={self.ctl} nr={p.num_running} nc={p.num_cancelled} "
                f"ne={p.num_ended} full={int(p.is_full)} locked={int(p.is_locked)} size={size} "
                f"re={int(self.loop.ready_empty())} res={self.res} "
                f"groups={'|'.join(groups) or '-'} ev={','.join(self.events) or '-'}")


class ListSource:
    def __init__(self, labels):
        self.labels = list(labels)
        self.i = 0

    def next(self, run):
        if self.i >= len(self.labels):
            return None
        self.i += 1
        return self.labels[self.i - 1]


def cfg_line(cfg):
    return (f"cfg size={cfg['size']} kind={cfg['kind']} bad={cfg['bad']} w={cfg['w']} "
            f"ecb={cfg['ecb']} ccb={cfg['ccb']}")


def parse_cfg_line(line):
    w = line.split()
    assert w[0] == "cfg"
    return parse_kv(w[1:])


def run_trace(cfg, labels):
    r = PoolRun(cfg, ListSource(labels))
    lines = r.main()
    return [cfg_line(cfg)] + lines
