"""Build corpus scenarios: scripts use the pseudo-labels `step` (run the head of the ready queue)
and `drain` (answer `go` / run the head until the loop is idle and empty); the concrete labels
(with handle identities) are recorded from a run on the current tree and stored as JSON."""
from __future__ import annotations

import json
import os
import sys

HERE = os.path.dirname(os.path.abspath(__file__))
sys.path.insert(0, HERE)
sys.path.insert(0, os.environ.get("VERIF_REPO", "/repo") + "/src")
import logging
logging.getLogger("asyncio_taskpool").addHandler(logging.NullHandler())
logging.getLogger("asyncio_taskpool").propagate = False

import poolrun


class ScriptSource:
    def __init__(self, script):
        self.script = list(script)
        self.n = 0
        self.drain_cap = 6000 if any(int(x.split("num=")[1].split()[0]) >= 50 for x in script
                                     if isinstance(x, str) and "num=" in x) else 400

    def next(self, run):
        while self.script:
            item = self.script[0]
            at_user = run.ctl.startswith("user")
            if item == "step":
                self.script.pop(0)
                if at_user:
                    return "go"
                refs = run.ready_refs()
                if not refs:
                    continue
                return f"run {refs[0]}"
            if item == "drain":
                self.n += 1
                if at_user:
                    return "go"
                refs = run.ready_refs()
                if not refs or self.n > self.drain_cap:
                    self.script.pop(0)
                    self.n = 0
                    continue
                return f"run {refs[0]}"
            self.script.pop(0)
            return item
        return None


def build(name, pid, cfg, script, note):
    r = poolrun.PoolRun(cfg, ScriptSource(script))
    lines = r.main()
    d = os.path.join(os.path.dirname(HERE), "corpus", pid)
    os.makedirs(d, exist_ok=True)
    with open(os.path.join(d, name + ".json"), "w") as f:
        json.dump({"note": note, "cfg": cfg, "labels": r.labels, "script": script}, f, indent=1)
    return lines


CFG2 = dict(size="2", kind="task", bad="0", w="sp", ecb="n", ccb="n")
AP = "apply num={n} bad=0 nonco=0 w={w} ecb={e} ccb={c} g=-"
MP = "map stars={s} els={els} nc={nc} nonco=0 ecb={e} ccb={c} g=-"

SCENARIOS = [
 ("d1_cancel_before_first_step", "common", CFG2,
  [AP.format(n=3, w="sp", e="s0", c="s0"), "step", "cancel ids=0", "drain",
   "finish tid=1 how=r", "drain", "finish tid=2 how=r", "drain",
   AP.format(n=2, w="sp", e="n", c="n"), "drain"],
  "D1: cancel(0) lands before task 0's first step; afterwards capacity probe (2 tasks must start)"),
 ("d1_cancel_group_before_first_step", "common", CFG2,
  [AP.format(n=3, w="sp", e="a00", c="a00"), "step", "cancelgroup g=A0.0", "drain",
   AP.format(n=2, w="sp", e="n", c="n"), "drain"],
  "D1 through cancel_group"),
 ("d1_stop_before_first_step", "common", dict(size="2", kind="simple", bad="0", w="sp", ecb="s0", ccb="s0"),
  ["start num=3", "step", "stop n=1", "drain", "stopall", "drain", "start num=2", "drain"],
  "D1 through stop()"),
 ("d2_flush_clears_task_in_cancel_callback", "common", CFG2,
  [AP.format(n=2, w="sp", e="s0", c="a10"), "drain", "cancel ids=0", "drain",
   "driver k=flush0", "step", "cancel ids=1", "drain", "relcb tid=0", "drain", "relcb tid=1", "drain",
   AP.format(n=2, w="sp", e="n", c="n"), "drain"],
  "D2: flush() waits on task 0's slow cancel callback; task 1 is cancelled meanwhile"),
 ("d3_gac_with_cancelled_unstarted_spawner", "common", CFG2,
  [MP.format(s=0, els="0sp,0sp,0sp", nc=1, e="n", c="n"), "drain",
   AP.format(n=1, w="sp", e="n", c="n"), "cancelgroup g=A0.0",
   "driver k=gac0", "driver k=until", "step", "step", "drain",
   "finish tid=0 how=r", "drain", "finish tid=1 how=r", "drain", "finish tid=2 how=r", "drain"],
  "D3: gather_and_close with a cancelled never-started spawner while a map still has elements"),
 ("d4_lock_after_accept", "common", CFG2,
  [AP.format(n=4, w="sp", e="n", c="n"), "drain", "lock", "finish tid=0 how=r", "drain",
   "finish tid=1 how=r", "drain", "finish tid=2 how=r", "finish tid=3 how=r", "drain"],
  "D4: lock() after the request was accepted; the remaining invocations must still run"),
 ("d4_gac_after_accept", "common", CFG2,
  [AP.format(n=4, w="sp", e="n", c="n"), "drain", "driver k=gac0", "step", "finish tid=0 how=r",
   "drain", "finish tid=1 how=r", "drain", "finish tid=2 how=r", "finish tid=3 how=r", "drain"],
  "D4: gather_and_close() while the spawner still waits for room"),
 ("d4_start_lock", "common", dict(size="1", kind="simple", bad="0", w="sp", ecb="n", ccb="n"),
  ["start num=3", "drain", "lock", "finish tid=0 how=r", "drain", "finish tid=1 how=r", "drain",
   "finish tid=2 how=r", "drain"],
  "D4 for SimpleTaskPool.start"),
 ("map_work_conserving", "common", dict(size="3", kind="task", bad="0", w="sp", ecb="n", ccb="n"),
  [MP.format(s=1, els="0sp,1sp,0sp,0sp,0rp,0sp", nc=2, e="s0", c="n"), "drain",
   "finish tid=0 how=r", "drain", "finish tid=1 how=x", "drain", "cancel ids=2", "drain",
   "finish tid=4 how=r", "drain"],
  "map: bad element skipped, nc=2 bound, ordered, lazy"),
 ("doublestarmap_cancel_group_waiting_map_slot", "common", CFG2,
  [MP.format(s=2, els="0sp,0sp,0sp", nc=1, e="n", c="s0"), "drain", "cancelgroup g=A3.0", "drain",
   AP.format(n=2, w="sp", e="n", c="n"), "drain"],
  "cancel_group while the consumer waits for its own concurrency slot"),
 ("cancel_group_woken_spawner", "common", dict(size="1", kind="task", bad="0", w="sp", ecb="n", ccb="n"),
  [AP.format(n=3, w="sp", e="n", c="n"), "drain", "finish tid=0 how=r", "step", "step",
   "cancelgroup g=A0.0", "drain", AP.format(n=1, w="sp", e="n", c="n"), "drain"],
  "cancel_group just after a slot was handed to the waiting spawner (woken, not yet resumed)"),
 ("flush_overlapping", "common", CFG2,
  [AP.format(n=2, w="rp", e="a10", c="n"), "drain", "driver k=flush1", "step", "driver k=flush0",
   "step", "relcb tid=0", "drain", "relcb tid=1", "drain"],
  "two overlapping flushes over tasks inside slow end callbacks"),
 ("d11_self_cancel_final_segment", "C03", CFG2,
  [AP.format(n=1, w="sp", e="a10", c="n"), "drain", "finish tid=0 how=r", "step", "cancel ids=0",
   "drain", "relcb tid=0", "drain", "driver k=flush0", "drain"],
  "D11 (open finding): a worker cancels itself after its last await"),
 ("size0_nothing_starts", "common", dict(size="0", kind="task", bad="0", w="sp", ecb="n", ccb="n"),
  [AP.format(n=2, w="sp", e="n", c="n"), MP.format(s=0, els="0sp", nc=1, e="n", c="n"), "drain",
   "cancelall", "drain"],
  "pool size 0: nothing may start"),
 ("raising_everything", "common", dict(size="inf", kind="task", bad="0", w="sp", ecb="n", ccb="n"),
  [AP.format(n=2, w="xp", e="s1", c="n"), AP.format(n=1, w="sp", e="a01", c="s1"), "drain",
   "cancel ids=2", "drain", "driver k=flush1", "drain", "driver k=flush0", "drain",
   AP.format(n=1, w="rp", e="n", c="n"), "drain", "driver k=gac1", "drain", "driver k=until", "drain",
   AP.format(n=1, w="rp", e="n", c="n")],
  "raising workers and callbacks; flush with and without return_exceptions; close"),
]

CFGI = dict(size="inf", kind="task", bad="0", w="sp", ecb="n", ccb="n")
SCENARIOS += [
 ("bulk_flush_over_100_tasks", "common", CFGI,
  [AP.format(n=130, w="rp", e="n", c="n"), "drain", "driver k=flush1", "drain",
   "cancel ids=129", "cancel ids=100", "cancel ids=0", AP.format(n=101, w="rp", e="s0", c="n"), "drain",
   "driver k=flush0", "drain", "cancel ids=230", "cancel ids=131", "driver k=gac0", "drain"],
  "more than 100 finished tasks remembered when flush() takes its snapshot (twice: 130 and 101), "
  "then every id must be forgotten; close"),
 ("bulk_gather_and_close_over_128_tasks", "common", CFGI,
  [AP.format(n=135, w="sp", e="a10", c="n"), "drain", "driver k=gac1", "step", "driver k=until", "step"]
  + [x for t in (0, 7, 64, 127, 128, 134) for x in (f"finish tid={t} how=r", "drain")]
  + [x for t in (0, 7, 64, 127, 128, 134) for x in (f"relcb tid={t}", "drain")]
  + ["cancelall", "drain"]
  + [x for t in range(135) if t not in (0, 7, 64, 127, 128, 134) for x in (f"relcb tid={t}",)] + ["drain"],
  "gather_and_close() over more than 128 tasks while tasks change registry (finish, slow end "
  "callbacks, cancel_all) during its wait"),
]

SCENARIOS += [
 ("bulk_cancel_over_64_ids", "common", CFGI,
  [AP.format(n=70, w="sp", e="n", c="s0"), "drain",
   "cancel ids=" + ",".join(str(i) for i in range(70)), "drain",
   AP.format(n=3, w="sp", e="n", c="n"), "drain", "cancelall", "drain"],
  "one cancel() call naming 70 running tasks: every one of them observes its CancelledError"),
 ("bulk_stop_all_over_64", "common", dict(size="inf", kind="simple", bad="0", w="sp", ecb="n", ccb="n"),
  ["start num=70", "drain", "stop n=66", "drain", "start num=2", "drain", "stopall", "drain"],
  "stop(66) / stop_all() over more than 64 running tasks"),
]

if __name__ == "__main__":
    for name, pid, cfg, script, note in SCENARIOS:
        if len(sys.argv) > 1 and sys.argv[1] == "--only-bulk" and not name.startswith("bulk_"):
            continue
        lines = build(name, pid, cfg, script, note)
        print(name, len(lines))
        if len(sys.argv) > 1 and sys.argv[1] == name:
            print("\n".join(lines))
