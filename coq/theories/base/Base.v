(** Base: small list utilities shared by all models (stdlib only). *)
From Coq Require Export List Arith Bool Lia.
Export ListNotations.

Set Implicit Arguments.

(** Functional update of the n-th element of a list (no-op when out of range). *)
Fixpoint upd {A} (l : list A) (n : nat) (x : A) : list A :=
  match l, n with
  | [], _ => []
  | _ :: t, O => x :: t
  | h :: t, S k => h :: upd t k x
  end.

Definition mem (n : nat) (l : list nat) : bool := existsb (Nat.eqb n) l.

Fixpoint remove1 (n : nat) (l : list nat) : list nat :=
  match l with
  | [] => []
  | h :: t => if Nat.eqb n h then t else h :: remove1 n t
  end.

Definition removeall (n : nat) (l : list nat) : list nat :=
  filter (fun m => negb (Nat.eqb n m)) l.

Fixpoint count {A} (p : A -> bool) (l : list A) : nat :=
  match l with
  | [] => 0
  | h :: t => (if p h then 1 else 0) + count p t
  end.

Lemma upd_length {A} (l : list A) n x : length (upd l n x) = length l.
Proof. revert n; induction l as [|h t IH]; intros [|n]; simpl; auto. Qed.

Lemma nth_error_upd_eq {A} (l : list A) n x :
  n < length l -> nth_error (upd l n x) n = Some x.
Proof.
  revert n; induction l as [|h t IH]; intros [|n] H; simpl in *; try lia; auto.
  apply IH; lia.
Qed.

Lemma nth_error_upd_neq {A} (l : list A) n m x :
  n <> m -> nth_error (upd l n x) m = nth_error l m.
Proof.
  revert n m; induction l as [|h t IH]; intros [|n] [|m] H; simpl; auto; try congruence.
Qed.

Lemma nth_error_upd {A} (l : list A) n m x :
  nth_error (upd l n x) m =
  if Nat.eqb n m then (if Nat.ltb n (length l) then Some x else None) else nth_error l m.
Proof.
  destruct (Nat.eqb_spec n m) as [->|Hne].
  - destruct (Nat.ltb_spec m (length l)) as [Hlt|Hge].
    + apply nth_error_upd_eq; auto.
    + apply nth_error_None. rewrite upd_length. lia.
  - apply nth_error_upd_neq; auto.
Qed.

Lemma upd_out {A} (l : list A) n x : length l <= n -> upd l n x = l.
Proof.
  revert n; induction l as [|h t IH]; intros [|n] H; simpl in *; auto; try lia.
  f_equal. apply IH. lia.
Qed.

Lemma mem_In n l : mem n l = true <-> In n l.
Proof.
  unfold mem. rewrite existsb_exists. split.
  - intros [x [Hin Heq]]. apply Nat.eqb_eq in Heq. subst; auto.
  - intros H. exists n. split; auto. apply Nat.eqb_refl.
Qed.

Lemma mem_false_In n l : mem n l = false <-> ~ In n l.
Proof.
  rewrite <- mem_In. destruct (mem n l); split; intros; congruence.
Qed.

Lemma count_app {A} (p : A -> bool) l1 l2 : count p (l1 ++ l2) = count p l1 + count p l2.
Proof. induction l1 as [|h t IH]; simpl; auto. rewrite IH. lia. Qed.

Lemma count_le_length {A} (p : A -> bool) l : count p l <= length l.
Proof. induction l as [|h t IH]; simpl; auto. destruct (p h); lia. Qed.

Lemma In_remove1 n m l : In m (remove1 n l) -> In m l.
Proof.
  induction l as [|h t IH]; simpl; auto.
  destruct (Nat.eqb n h); simpl; intuition.
Qed.

Lemma remove1_length_In n l : In n l -> S (length (remove1 n l)) = length l.
Proof.
  induction l as [|h t IH]; simpl; [tauto|].
  destruct (Nat.eqb_spec n h) as [->|Hne]; auto.
  intros [H|H]; [congruence|]. simpl. rewrite IH; auto.
Qed.

Lemma remove1_notin n l : ~ In n l -> remove1 n l = l.
Proof.
  induction l as [|h t IH]; simpl; auto.
  destruct (Nat.eqb_spec n h) as [->|Hne]; intros H; [tauto|].
  f_equal. apply IH. tauto.
Qed.

Lemma NoDup_remove1 n l : NoDup l -> NoDup (remove1 n l).
Proof.
  induction 1 as [|h t Hnin Hnd IH]; simpl; [constructor|].
  destruct (Nat.eqb n h); auto. constructor; auto.
  intros Hin. apply Hnin. eapply In_remove1; eauto.
Qed.

Lemma In_remove1_neq n m l : m <> n -> In m l -> In m (remove1 n l).
Proof.
  intros Hne. induction l as [|h t IH]; simpl; auto.
  destruct (Nat.eqb_spec n h) as [->|Hne2]; simpl; intuition congruence.
Qed.

Lemma NoDup_remove1_notin n l : NoDup l -> ~ In n (remove1 n l).
Proof.
  induction 1 as [|h t Hnin Hnd IH]; simpl; auto.
  destruct (Nat.eqb_spec n h) as [->|Hne]; auto.
  simpl. intuition.
Qed.
