(** Extraction of the executable models and monitors (OCaml).  [ExtrOcamlBasic] and (for the control model's strings) [ExtrOcamlString] are used:
    bool, option, list, prod, unit, sumbool map to OCaml's own types; [nat] stays Peano; there is
    no [Extract Constant]. *)
From Coq Require Import Extraction ExtrOcamlBasic ExtrOcamlString.
From TP Require QModel Mon_C20 PObs PMon CModel SModel.
Extraction Language OCaml.
Separate Extraction
  QModel.init QModel.observe1 QModel.step QModel.enabled
  Mon_C20.m_init Mon_C20.m_step Mon_C20.ok_C20
  PObs.observe1 PObs.observe PModel.init PModel.step PModel.enabled
  PMon.mon_run PMon.trk_init PMon.ok_prop
  CModel.build_commands CModel.handshake_ok CModel.wf_surface CModel.render CModel.interpret
  CModel.find_command CModel.sess_run
  SModel.init SModel.step.
