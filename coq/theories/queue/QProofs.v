(** Proof of C20: the monitor [ok_C20] accepts the observation stream of every label sequence of
    the queue model.  A simulation: a relation [R] between model states and monitor states that
    holds initially and is preserved by every step, the monitor never rejecting. *)
From TP Require Export Mon_C20.

(** * Generic list facts *)

Lemma upd_upd {A} (l : list A) n x y : upd (upd l n x) n y = upd l n y.
Proof.
  revert n; induction l as [|h t IH]; intros [|n]; simpl; auto.
  f_equal; apply IH.
Qed.

Lemma nth_error_upd_inv {A} (l : list A) n m x y :
  nth_error (upd l n x) m = Some y ->
  (n = m /\ y = x /\ n < length l) \/ (n <> m /\ nth_error l m = Some y).
Proof.
  rewrite nth_error_upd. destruct (Nat.eqb_spec n m) as [->|Hne].
  - destruct (Nat.ltb_spec m (length l)) as [Hlt|Hge]; intros H; [|discriminate].
    left. inversion H; auto.
  - intros H. right. auto.
Qed.

Lemma nth_error_snoc_inv {A} (l : list A) a m y :
  nth_error (l ++ [a]) m = Some y ->
  nth_error l m = Some y \/ (m = length l /\ y = a).
Proof.
  intros H. destruct (Nat.lt_ge_cases m (length l)) as [Hlt|Hge].
  - rewrite nth_error_app1 in H by exact Hlt. auto.
  - rewrite nth_error_app2 in H by exact Hge.
    destruct (m - length l) as [|k] eqn:Hk.
    + simpl in H. inversion H. right. split; [lia|reflexivity].
    + simpl in H. destruct k; discriminate.
Qed.

Lemma nth_error_same_len {A B} (l : list A) (l' : list B) j x :
  length l = length l' -> nth_error l j = Some x -> exists y, nth_error l' j = Some y.
Proof.
  intros Hlen Hx. destruct (nth_error l' j) as [y|] eqn:Hy; [eauto|].
  apply nth_error_None in Hy.
  assert (Hlt : j < length l) by (apply nth_error_Some; congruence).
  lia.
Qed.

(** * Handles *)

Lemma handle_eqb_eq a b : handle_eqb a b = true -> a = b.
Proof.
  destruct a as [x|x], b as [y|y]; simpl; intros H; try discriminate;
    apply Nat.eqb_eq in H; congruence.
Qed.

Lemma handle_eqb_refl a : handle_eqb a a = true.
Proof. destruct a as [x|x]; simpl; apply Nat.eqb_refl. Qed.

Lemma is_ready_In s h : is_ready s h = true -> In h (ready s).
Proof.
  unfold is_ready. rewrite existsb_exists. intros [x [Hin Heq]].
  apply handle_eqb_eq in Heq. subst; auto.
Qed.

Lemma In_HJ_snoc_HC j c r : In (HJ j) (r ++ [HC c]) -> In (HJ j) r.
Proof.
  intros H. apply in_app_or in H. destruct H as [H|H]; auto.
  simpl in H. destruct H as [H|[]]. discriminate.
Qed.

Lemma In_unsched h h' r :
  In h' (filter (fun x => negb (handle_eqb h x)) r) -> In h' r /\ h' <> h.
Proof.
  rewrite filter_In. intros [Hin Hneg]. split; auto.
  intros ->. rewrite handle_eqb_refl in Hneg. discriminate.
Qed.

(** * Monitor facts *)

Lemma m_events_app m es1 es2 :
  m_events m (es1 ++ es2) =
  match m_events m es1 with inl m' => m_events m' es2 | inr c => inr c end.
Proof.
  revert m; induction es1 as [|e t IH]; intros m; simpl; auto.
  destruct (m_event m e); auto.
Qed.

Lemma m_events_cons m e m1 t : m_event m e = inl m1 -> m_events m (e :: t) = m_events m1 t.
Proof. intros H. cbn [m_events]. rewrite H. reflexivity. Qed.

Definition m_enter (m : mstate) (i : nat) : mstate :=
  {| m_put := m_put m; m_entered := i :: m_entered m; m_inblock := i :: m_inblock m;
     m_nexited := m_nexited m; m_should := m_should m |}.

Lemma m_event_enter m c i :
  i < m_put m -> ~ In i (m_entered m) -> m_event m (EvEnter c i) = inl (m_enter m i).
Proof.
  intros Hlt Hnin. unfold m_event.
  apply Nat.ltb_lt in Hlt. rewrite Hlt.
  apply mem_false_In in Hnin. rewrite Hnin. reflexivity.
Qed.

Definition m_exit (m : mstate) (i : nat) (all : bool) : mstate :=
  {| m_put := m_put m; m_entered := m_entered m; m_inblock := remove1 i (m_inblock m);
     m_nexited := S (m_nexited m);
     m_should := if all
                 then map (fun o => match o with Some _ => Some true | None => None end) (m_should m)
                 else m_should m |}.

Lemma m_event_exit m c i h :
  In i (m_inblock m) ->
  m_event m (EvExit c i h) = inl (m_exit m i (Nat.eqb (m_put m) (S (m_nexited m)))).
Proof.
  intros Hin. unfold m_event. apply mem_In in Hin. rewrite Hin.
  unfold all_processed, m_exit. cbn [m_put m_nexited m_entered m_inblock m_should].
  destruct (Nat.eqb (m_put m) (S (m_nexited m))); reflexivity.
Qed.

(** * The simulation relation *)

(** Queue part: items are handed out in put order, each block holds a distinct item that the
    monitor knows to be inside a block, and the counters agree. *)
Record QI (s : qstate) (m : mstate) : Prop := {
  QI_put : m_put m = nput s;
  QI_ent : forall i, In i (m_entered m) <-> i < length (m_entered m);
  QI_items : items s = seq (length (m_entered m)) (length (items s));
  QI_cnt : length (m_entered m) + length (items s) = nput s;
  QI_exit : m_nexited m + unfinished s = nput s;
  QI_unf : unfinished s = length (items s) + length (m_inblock m);
  QI_sub : forall i, In i (m_inblock m) -> In i (m_entered m);
  QI_cin : forall c x i,
      nth_error (consumers s) c = Some x -> c_pc x = CInBlock i -> In i (m_inblock m);
  QI_cinj : forall c1 c2 x1 x2 i,
      nth_error (consumers s) c1 = Some x1 -> nth_error (consumers s) c2 = Some x2 ->
      c_pc x1 = CInBlock i -> c_pc x2 = CInBlock i -> c1 = c2
}.

(** Joiner part: the monitor's expectation is exactly the joiner's released flag, and every
    joiner that is still blocked is registered as a waiter and is not runnable. *)
Record JI (s : qstate) (m : mstate) : Prop := {
  JI_len : length (m_should m) = length (joiners s);
  JI_rel : forall j x o,
      nth_error (joiners s) j = Some x -> nth_error (m_should m) j = Some o ->
      match o with
      | None => j_pc x = JNotStarted
      | Some b => j_pc x <> JNotStarted /\ b = joiner_released x
      end;
  JI_wait : forall j x,
      nth_error (joiners s) j = Some x -> j_pc x = JWait -> j_fw x = Some FPending ->
      In j (jwaiters s) /\ ~ In (HJ j) (ready s)
}.

Definition R (s : qstate) (m : mstate) : Prop := QI s m /\ JI s m.

Lemma QI_frame s s' m m' :
  items s' = items s -> nput s' = nput s -> unfinished s' = unfinished s ->
  (forall c x' i, nth_error (consumers s') c = Some x' -> c_pc x' = CInBlock i ->
                  exists x, nth_error (consumers s) c = Some x /\ c_pc x = CInBlock i) ->
  m_put m' = m_put m -> m_entered m' = m_entered m -> m_inblock m' = m_inblock m ->
  m_nexited m' = m_nexited m ->
  QI s m -> QI s' m'.
Proof.
  intros Hi Hn Hu Hc Hmp Hme Hmi Hmx [H1 H2 H3 H4 H5 H6 H7 H8 H9].
  constructor; rewrite ?Hi, ?Hn, ?Hu, ?Hmp, ?Hme, ?Hmi, ?Hmx; auto.
  - intros c x' i Hx' Hpc. destruct (Hc c x' i Hx' Hpc) as (x & Hx & Hpx). eauto.
  - intros c1 c2 x1 x2 i Hx1 Hx2 Hp1 Hp2.
    destruct (Hc c1 x1 i Hx1 Hp1) as (y1 & Hy1 & Hq1).
    destruct (Hc c2 x2 i Hx2 Hp2) as (y2 & Hy2 & Hq2). eauto.
Qed.

Lemma JI_frame s s' m m' :
  joiners s' = joiners s -> jwaiters s' = jwaiters s ->
  (forall j, In (HJ j) (ready s') -> In (HJ j) (ready s)) ->
  m_should m' = m_should m ->
  JI s m -> JI s' m'.
Proof.
  intros Hj Hw Hr Hms [H1 H2 H3].
  constructor; rewrite ?Hj, ?Hw, ?Hms; auto.
  intros j x Hx Hpc Hfw. destruct (H3 j x Hx Hpc Hfw) as [Ha Hb]. split; auto.
Qed.

(** Frame for [R] with an unchanged monitor state. *)
Lemma R_frame s s' m :
  items s' = items s -> nput s' = nput s -> unfinished s' = unfinished s ->
  joiners s' = joiners s -> jwaiters s' = jwaiters s ->
  (forall j, In (HJ j) (ready s') -> In (HJ j) (ready s)) ->
  (forall c x' i, nth_error (consumers s') c = Some x' -> c_pc x' = CInBlock i ->
                  exists x, nth_error (consumers s) c = Some x /\ c_pc x = CInBlock i) ->
  R s m -> R s' m.
Proof.
  intros Hi Hn Hu Hj Hw Hr Hc [HQ HJ]. split.
  - eapply QI_frame; eauto.
  - eapply JI_frame; eauto.
Qed.

Lemma R_init : R init m_init.
Proof.
  split; constructor; simpl; auto; try tauto.
  - intros i. split; [tauto|lia].
  - intros c x i H. destruct c; discriminate.
  - intros c1 c2 x1 x2 i H. destruct c1; discriminate.
  - intros j x o H. destruct j; discriminate.
  - intros j x H. destruct j; discriminate.
Qed.

(** * Transitions that do not concern the monitor *)

Lemma R_set_evs s m e : R s m -> R (set_evs s e) m.
Proof. apply R_frame; auto; intros c x' i Hx Hp; eauto. Qed.

Lemma R_set_getters s m g : R s m -> R (set_getters s g) m.
Proof. apply R_frame; auto; intros c x' i Hx Hp; eauto. Qed.

Lemma R_sched_HC s m c : R s m -> R (sched s (HC c)) m.
Proof.
  apply R_frame; auto.
  - intros j. unfold sched, set_ready; cbn [ready]. apply In_HJ_snoc_HC.
  - intros c0 x' i Hx Hp; eauto.
Qed.

Lemma R_unsched s m h : R s m -> R (unsched s h) m.
Proof.
  apply R_frame; auto.
  - intros j. unfold unsched, set_ready; cbn [ready]. intros H. apply In_unsched in H. tauto.
  - intros c0 x' i Hx Hp; eauto.
Qed.

(** Overwriting a consumer by one that does not claim a new item. *)
Lemma R_set_c s m c y :
  (forall i, c_pc y = CInBlock i ->
             exists x, nth_error (consumers s) c = Some x /\ c_pc x = CInBlock i) ->
  R s m -> R (set_c s c y) m.
Proof.
  intros Hy. apply R_frame; auto.
  unfold set_c, set_consumers; cbn [consumers].
  intros c0 x' i Hx Hp.
  apply nth_error_upd_inv in Hx. destruct Hx as [(-> & -> & _)|(_ & Hx)]; eauto.
Qed.

Lemma R_set_c_samepc s m c x y :
  nth_error (consumers s) c = Some x -> c_pc y = c_pc x -> R s m -> R (set_c s c y) m.
Proof.
  intros Hx Hpc. apply R_set_c. intros i Hi. exists x. split; congruence.
Qed.

Lemma R_set_c_done s m c y : c_pc y = CDone -> R s m -> R (set_c s c y) m.
Proof. intros Hpc. apply R_set_c. intros i Hi. congruence. Qed.

Lemma dwn_evs s : evs (do_wakeup_next s) = evs s.
Proof.
  unfold do_wakeup_next.
  destruct (wakeup_next_getter (consumers s) (getters s)) as [g [c|]]; [|reflexivity].
  destruct (nth_error (consumers (set_getters s g)) c) as [x|]; reflexivity.
Qed.

Lemma R_dwn s m : R s m -> R (do_wakeup_next s) m.
Proof.
  intros HR. unfold do_wakeup_next.
  destruct (wakeup_next_getter (consumers s) (getters s)) as [g [c|]].
  - destruct (nth_error (consumers (set_getters s g)) c) as [x|] eqn:Hx.
    + apply R_sched_HC. eapply R_set_c_samepc; [exact Hx|reflexivity|].
      apply R_set_getters. exact HR.
    + apply R_set_getters. exact HR.
  - apply R_set_getters. exact HR.
Qed.

(** Shape shared by all event-emitting transitions. *)
Definition sim (s : qstate) (m : mstate) (s' : qstate) : Prop :=
  exists es m', evs s' = evs s ++ es /\ m_events m es = inl m' /\ R s' m'.

Lemma sim_silent s m s' : evs s' = evs s -> R s' m -> sim s m s'.
Proof.
  intros He HR. exists [], m. rewrite app_nil_r. auto.
Qed.

(** * [get()] *)

Lemma do_get_set_c s c y x : do_get (set_c s c y) c x = do_get s c x.
Proof.
  unfold do_get, set_c, set_consumers, set_items, set_getters, emit, set_evs.
  cbn [items nput getters unfinished finished jwaiters consumers joiners ready evs].
  destruct (items s) as [|k rest]; rewrite upd_upd; reflexivity.
Qed.

Lemma R_enter s m c y k rest :
  R s m -> items s = k :: rest -> c_pc y = CInBlock k ->
  k < m_put m /\ ~ In k (m_entered m) /\ R (set_c (set_items s rest) c y) (m_enter m k).
Proof.
  intros [HQ HJ] Hit Hpc.
  destruct HQ as [H1 H2 H3 H4 H5 H6 H7 H8 H9].
  rewrite Hit in H3, H4, H6. cbn [length] in H3, H4, H6. cbn [seq] in H3.
  injection H3 as Hk Hrest.
  assert (Hnin : ~ In k (m_entered m)).
  { rewrite H2. lia. }
  split; [lia|]. split; [exact Hnin|].
  split.
  - constructor; unfold set_c, set_consumers, set_items, m_enter;
      cbn [items nput unfinished consumers m_put m_entered m_inblock m_nexited length].
    + exact H1.
    + intros i. cbn [In]. rewrite H2. lia.
    + exact Hrest.
    + lia.
    + exact H5.
    + lia.
    + intros i [Hi|Hi]; [left; exact Hi|right; auto].
    + intros c0 x' i Hx Hp.
      apply nth_error_upd_inv in Hx. destruct Hx as [(-> & -> & _)|(_ & Hx)].
      * left. congruence.
      * right. eauto.
    + intros c1 c2 x1 x2 i Hx1 Hx2 Hp1 Hp2.
      apply nth_error_upd_inv in Hx1. apply nth_error_upd_inv in Hx2.
      destruct Hx1 as [(<- & -> & _)|(Hn1 & Hx1)]; destruct Hx2 as [(<- & -> & _)|(Hn2 & Hx2)].
      * reflexivity.
      * exfalso. apply Hnin. apply H7. apply (H8 c2 x2). exact Hx2. congruence.
      * exfalso. apply Hnin. apply H7. apply (H8 c1 x1). exact Hx1. congruence.
      * eauto.
  - apply (JI_frame s _ m _); auto.
Qed.

Lemma do_get_sim s m c x : R s m -> sim s m (do_get s c x).
Proof.
  intros HR. unfold do_get. destruct (items s) as [|k rest] eqn:Hit.
  - apply sim_silent; [reflexivity|].
    apply R_set_getters. apply R_set_c; [|exact HR].
    cbn [c_with_pc c_pc]. intros i Hi. discriminate.
  - destruct (@R_enter s m c (c_with_pc (c_with_fw x (Some FPending)) (CInBlock k)) k rest
                HR Hit eq_refl) as (Hlt & Hnin & HR').
    exists [EvEnter c k], (m_enter m k). split; [reflexivity|]. split.
    + erewrite m_events_cons by (apply m_event_enter; assumption). reflexivity.
    + unfold emit. apply R_set_evs. exact HR'.
Qed.

(** * [Event.set()]: releasing the join waiters *)

Definition jrel (x x' : joiner) : Prop :=
  j_pc x' = j_pc x /\ (j_fw x' = j_fw x \/ j_fw x' = Some FResult).

Definition jsrel (l l' : list joiner) : Prop :=
  length l' = length l /\
  forall j x x', nth_error l j = Some x -> nth_error l' j = Some x' -> jrel x x'.

Lemma jsrel_refl l : jsrel l l.
Proof.
  split; [reflexivity|]. intros j x x' Hx Hx'.
  rewrite Hx in Hx'. injection Hx' as <-. split; auto.
Qed.

Lemma jsrel_trans l1 l2 l3 : jsrel l1 l2 -> jsrel l2 l3 -> jsrel l1 l3.
Proof.
  intros [Hl12 H12] [Hl23 H23]. split; [congruence|].
  intros j x x3 Hx Hx3.
  destruct (nth_error_same_len l1 l2 j x (eq_sym Hl12) Hx) as [x2 Hx2].
  destruct (H12 j x x2 Hx Hx2) as [Hp12 Hf12].
  destruct (H23 j x2 x3 Hx2 Hx3) as [Hp23 Hf23].
  split; [congruence|].
  destruct Hf23 as [Hf23|Hf23]; [|right; exact Hf23].
  destruct Hf12 as [Hf12|Hf12]; [left|right]; congruence.
Qed.

(** One iteration of the loop in [release_joiners]. *)
Definition release1 (s : qstate) (j : nat) : qstate :=
  match nth_error (joiners s) j with
  | Some x =>
      match j_fw x with
      | Some FPending => sched (set_j s j {| j_pc := j_pc x; j_fw := Some FResult |}) (HJ j)
      | _ => s
      end
  | None => s
  end.

Lemma release_joiners_cons s j t : release_joiners s (j :: t) = release_joiners (release1 s j) t.
Proof. reflexivity. Qed.

Record same_queue (s s' : qstate) : Prop := {
  SQ_items : items s' = items s;
  SQ_nput : nput s' = nput s;
  SQ_unf : unfinished s' = unfinished s;
  SQ_jw : jwaiters s' = jwaiters s;
  SQ_cons : consumers s' = consumers s;
  SQ_evs : evs s' = evs s
}.

Lemma same_queue_refl s : same_queue s s.
Proof. constructor; reflexivity. Qed.

Lemma same_queue_trans s1 s2 s3 : same_queue s1 s2 -> same_queue s2 s3 -> same_queue s1 s3.
Proof. intros [A1 A2 A3 A4 A5 A6] [B1 B2 B3 B4 B5 B6]. constructor; congruence. Qed.

Lemma release1_spec s j :
  same_queue s (release1 s j) /\ jsrel (joiners s) (joiners (release1 s j)) /\
  (forall x', nth_error (joiners (release1 s j)) j = Some x' -> j_fw x' <> Some FPending).
Proof.
  unfold release1. destruct (nth_error (joiners s) j) as [x|] eqn:Hx.
  - destruct (j_fw x) as [f|] eqn:Hfw.
    + destruct f.
      * split; [constructor; reflexivity|]. split.
        -- unfold sched, set_j, set_joiners, set_ready; cbn [joiners].
           split; [apply upd_length|].
           intros j0 y y' Hy Hy'. apply nth_error_upd_inv in Hy'.
           destruct Hy' as [(<- & -> & _)|(_ & Hy')].
           ++ rewrite Hx in Hy. injection Hy as <-. split; [reflexivity|right; reflexivity].
           ++ rewrite Hy in Hy'. injection Hy' as <-. split; auto.
        -- unfold sched, set_j, set_joiners, set_ready; cbn [joiners].
           intros x' Hx'. apply nth_error_upd_inv in Hx'.
           destruct Hx' as [(_ & -> & _)|(Hne & _)]; [cbn [j_fw]; discriminate|congruence].
      * split; [apply same_queue_refl|]. split; [apply jsrel_refl|].
        intros x' Hx'. rewrite Hx in Hx'. injection Hx' as <-. congruence.
      * split; [apply same_queue_refl|]. split; [apply jsrel_refl|].
        intros x' Hx'. rewrite Hx in Hx'. injection Hx' as <-. congruence.
      * split; [apply same_queue_refl|]. split; [apply jsrel_refl|].
        intros x' Hx'. rewrite Hx in Hx'. injection Hx' as <-. congruence.
    + split; [apply same_queue_refl|]. split; [apply jsrel_refl|].
      intros x' Hx'. rewrite Hx in Hx'. injection Hx' as <-. congruence.
  - split; [apply same_queue_refl|]. split; [apply jsrel_refl|].
    intros x' Hx'. congruence.
Qed.

Lemma release_spec js : forall s,
  same_queue s (release_joiners s js) /\ jsrel (joiners s) (joiners (release_joiners s js)) /\
  (forall j x', In j js -> nth_error (joiners (release_joiners s js)) j = Some x' ->
                j_fw x' <> Some FPending).
Proof.
  induction js as [|j t IH]; intros s.
  - simpl. split; [apply same_queue_refl|]. split; [apply jsrel_refl|]. intros j x' [].
  - rewrite release_joiners_cons.
    destruct (release1_spec s j) as (Hq1 & Hj1 & Hf1).
    destruct (IH (release1 s j)) as (Hq2 & Hj2 & Hf2).
    split; [eapply same_queue_trans; eauto|].
    split; [eapply jsrel_trans; eauto|].
    intros j0 x' [<-|Hin] Hx'.
    + destruct Hj2 as [Hlen H2].
      destruct (nth_error_same_len _ (joiners (release1 s j)) j _ Hlen Hx') as [x1 Hx1].
      destruct (H2 j x1 x' Hx1 Hx') as [_ Hfw].
      specialize (Hf1 x1 Hx1).
      destruct Hfw as [Hfw|Hfw]; congruence.
    + eapply Hf2; eauto.
Qed.

(** * Block exit: [task_done()] *)

Lemma QI_exit_step s s2 m m2 c x0 i y :
  QI s m -> nth_error (consumers s) c = Some x0 -> c_pc x0 = CInBlock i -> c_pc y = CDone ->
  items s2 = items s -> nput s2 = nput s -> S (unfinished s2) = unfinished s ->
  consumers s2 = upd (consumers s) c y ->
  m_put m2 = m_put m -> m_entered m2 = m_entered m -> m_inblock m2 = remove1 i (m_inblock m) ->
  m_nexited m2 = S (m_nexited m) ->
  QI s2 m2.
Proof.
  intros [H1 H2 H3 H4 H5 H6 H7 H8 H9] Hx0 Hpc0 Hy Hi Hn Hu Hc Hmp Hme Hmi Hmx.
  assert (Hin : In i (m_inblock m)) by (eapply H8; eauto).
  pose proof (remove1_length_In i (m_inblock m) Hin) as Hlen.
  constructor; rewrite ?Hi, ?Hn, ?Hc, ?Hmp, ?Hme, ?Hmi, ?Hmx; auto; try lia.
  - intros i0 Hi0. apply H7. eapply In_remove1; eauto.
  - intros c0 x' i0 Hx' Hp. apply nth_error_upd_inv in Hx'.
    destruct Hx' as [(_ & -> & _)|(Hne & Hx')]; [congruence|].
    apply In_remove1_neq; [|eauto].
    intros ->. apply Hne. eapply H9; eauto.
  - intros c1 c2 x1 x2 i0 Hx1 Hx2 Hp1 Hp2.
    apply nth_error_upd_inv in Hx1. apply nth_error_upd_inv in Hx2.
    destruct Hx1 as [(_ & -> & _)|(_ & Hx1)]; [congruence|].
    destruct Hx2 as [(_ & -> & _)|(_ & Hx2)]; [congruence|].
    eauto.
Qed.

Lemma joiner_released_true x :
  j_pc x <> JNotStarted -> (j_pc x = JWait -> j_fw x <> Some FPending) ->
  joiner_released x = true.
Proof.
  unfold joiner_released. intros Hpc Hfw.
  destruct (j_pc x); [congruence| |reflexivity].
  specialize (Hfw eq_refl). destruct (j_fw x) as [[]|]; congruence.
Qed.

(** After the last unfinished item is marked done, every started joiner is released. *)
Lemma JI_release s s2 m ms2 :
  JI s m -> jsrel (joiners s) (joiners s2) -> jwaiters s2 = jwaiters s ->
  (forall j x', In j (jwaiters s) -> nth_error (joiners s2) j = Some x' ->
                j_fw x' <> Some FPending) ->
  m_should ms2 = map (fun o => match o with Some _ => Some true | None => None end) (m_should m) ->
  JI s2 ms2.
Proof.
  intros [H1 H2 H3] [Hlen Hrel] Hjw Hnp Hms.
  assert (Hnp' : forall j x', nth_error (joiners s2) j = Some x' -> j_pc x' = JWait ->
                              j_fw x' <> Some FPending).
  { intros j x' Hx' Hpc Hfw.
    destruct (nth_error_same_len _ (joiners s) j _ Hlen Hx') as [x Hx].
    destruct (Hrel j x x' Hx Hx') as [Hp Hf].
    assert (Hfx : j_fw x = Some FPending) by (destruct Hf as [Hf|Hf]; congruence).
    assert (Hpx : j_pc x = JWait) by congruence.
    destruct (H3 j x Hx Hpx Hfx) as [Hin _].
    exact (Hnp j x' Hin Hx' Hfw). }
  constructor.
  - rewrite Hms, map_length. congruence.
  - intros j x' o Hx' Ho. rewrite Hms, nth_error_map in Ho.
    destruct (nth_error (m_should m) j) as [o0|] eqn:Ho0; [|discriminate].
    cbn [option_map] in Ho. injection Ho as <-.
    destruct (nth_error_same_len _ (joiners s) j _ Hlen Hx') as [x Hx].
    destruct (Hrel j x x' Hx Hx') as [Hp Hf].
    specialize (H2 j x o0 Hx Ho0).
    destruct o0 as [b|].
    + destruct H2 as [Hns _]. split; [congruence|].
      symmetry. apply joiner_released_true; [congruence|].
      intros Hpc'. eapply Hnp'; eauto.
    + congruence.
  - intros j x' Hx' Hpc Hfw. exfalso. eapply Hnp'; eauto.
Qed.

Lemma task_done_exit s m c x0 i h :
  R s m -> nth_error (consumers s) c = Some x0 -> c_pc x0 = CInBlock i ->
  exists s2 m2,
    task_done (emit s (EvExit c i h)) = Some s2 /\
    m_event m (EvExit c i h) = inl m2 /\
    evs s2 = evs s ++ [EvExit c i h] /\
    forall y, c_pc y = CDone -> R (set_c s2 c y) m2.
Proof.
  intros [HQ HJ] Hx0 Hpc0.
  assert (Hin : In i (m_inblock m)) by (eapply QI_cin; eauto).
  pose proof (remove1_length_In i (m_inblock m) Hin) as Hlen.
  pose proof (QI_unf s m HQ) as Hunf. pose proof (QI_exit s m HQ) as Hex.
  pose proof (QI_put s m HQ) as Hput.
  rewrite (m_event_exit m c i h Hin).
  unfold task_done.
  change (unfinished (emit s (EvExit c i h))) with (unfinished s).
  destruct (unfinished s) as [|u] eqn:Hu; [lia|].
  destruct u as [|u']; cbn [Nat.eqb].
  - (* last unfinished item: the joiners are released *)
    replace (Nat.eqb (m_put m) (S (m_nexited m))) with true
      by (symmetry; apply Nat.eqb_eq; lia).
    set (s1 := emit s (EvExit c i h)).
    destruct (release_spec (jwaiters s1) (set_unfinished s1 0 true)) as (Hq & Hjs & Hnp).
    destruct Hq as [Q1 Q2 Q3 Q4 Q5 Q6].
    set (s2 := release_joiners (set_unfinished s1 0 true) (jwaiters s1)) in *.
    exists s2, (m_exit m i true). split; [reflexivity|]. split; [reflexivity|].
    split; [rewrite Q6; reflexivity|].
    intros y Hy. split.
    + apply (@QI_exit_step s _ m _ c x0 i y HQ Hx0 Hpc0 Hy);
        unfold set_c, set_consumers; cbn [items nput unfinished consumers];
        rewrite ?Q1, ?Q2, ?Q3, ?Q5; try reflexivity.
      cbn [unfinished set_unfinished]. congruence.
    + apply (JI_frame s2 _ (m_exit m i true) _); auto.
      apply (@JI_release s s2 m _ HJ Hjs Q4 Hnp). reflexivity.
  - replace (Nat.eqb (m_put m) (S (m_nexited m))) with false
      by (symmetry; apply Nat.eqb_neq; lia).
    eexists. eexists. split; [reflexivity|]. split; [reflexivity|].
    split; [reflexivity|].
    intros y Hy. split.
    + apply (@QI_exit_step s _ m _ c x0 i y HQ Hx0 Hpc0 Hy); try reflexivity.
      cbn [unfinished set_c set_consumers set_unfinished]. congruence.
    + apply (JI_frame s _ m _); auto.
Qed.

Lemma exit_block_sim s m c x0 x i inp :
  R s m -> nth_error (consumers s) c = Some x0 -> c_pc x0 = CInBlock i ->
  sim s m (exit_block s c x i inp).
Proof.
  intros HR Hx0 Hpc0. unfold exit_block. cbv zeta.
  set (h := match inp with InOk => HowNormal | InExc => HowExc | InCancel => HowCancel end).
  destruct (task_done_exit s m c x0 i h HR Hx0 Hpc0) as (s2 & m2 & Htd & Hev & Hevs & HR2).
  rewrite Htd.
  assert (Hfin : forall o, sim s m (set_c s2 c (c_finish x o))).
  { intros o. exists [EvExit c i h], m2. split; [exact Hevs|]. split.
    - erewrite m_events_cons by exact Hev. reflexivity.
    - apply HR2. reflexivity. }
  destruct inp; auto.
  destruct (c_loops x); auto.
  rewrite <- (do_get_set_c s2 c (c_finish x OResult) x).
  destruct (@do_get_sim (set_c s2 c (c_finish x OResult)) m2 c x
              (HR2 (c_finish x OResult) eq_refl))
    as (es & m' & He & Hm & HR').
  exists (EvExit c i h :: es), m'. split; [|split].
  - rewrite He. change (evs (set_c s2 c (c_finish x OResult))) with (evs s2).
    rewrite Hevs, <- app_assoc. reflexivity.
  - erewrite m_events_cons by exact Hev. exact Hm.
  - exact HR'.
Qed.

(** * Running a consumer task *)

Lemma run_consumer_sim s m c : R s m -> sim s m (run_consumer s c).
Proof.
  intros HR. unfold run_consumer.
  destruct (nth_error (consumers s) c) as [x0|] eqn:Hx0; [|apply sim_silent; auto].
  cbv zeta.
  set (x := c_with_mc (c_with_fw x0 None) false).
  destruct (c_pc x0) as [| |i|] eqn:Hpc.
  - destruct (task_input (c_mc x0) (c_fw x0)).
    + apply do_get_sim; exact HR.
    + apply do_get_sim; exact HR.
    + apply sim_silent; [reflexivity|]. apply R_set_c_done; [reflexivity|exact HR].
  - destruct (task_input (c_mc x0) (c_fw x0)).
    + apply do_get_sim; exact HR.
    + apply do_get_sim; exact HR.
    + set (s2 := set_c (set_getters s (remove1 c (getters s))) c (c_finish x OCancelled)).
      assert (HR2 : R s2 m).
      { apply R_set_c_done; [reflexivity|]. apply R_set_getters. exact HR. }
      destruct (items s2) as [|k rest].
      * apply sim_silent; [reflexivity|exact HR2].
      * destruct (match c_fw x0 with Some FCancelled => true | _ => false end).
        -- apply sim_silent; [reflexivity|exact HR2].
        -- apply sim_silent; [rewrite dwn_evs; reflexivity|]. apply R_dwn. exact HR2.
  - eapply exit_block_sim; eauto.
  - apply sim_silent; auto.
Qed.

(** * Running a joiner task *)

Ltac qs :=
  unfold set_c, set_j, sched, unsched, emit, set_consumers, set_joiners, set_ready, set_getters,
    set_items, set_evs, set_unfinished;
  cbn [items nput getters unfinished finished jwaiters consumers joiners ready evs
       m_put m_entered m_inblock m_nexited m_should].

Definition m_joinstart (m : mstate) (j : nat) (b : bool) : mstate :=
  {| m_put := m_put m; m_entered := m_entered m; m_inblock := m_inblock m;
     m_nexited := m_nexited m; m_should := upd (m_should m) j (Some b) |}.

Lemma m_event_joinstart m j :
  m_event m (EvJoinStart j) = inl (m_joinstart m j (all_processed m)).
Proof. reflexivity. Qed.

Lemma run_joiner_sim s m j :
  R s m ->
  (forall x, nth_error (joiners s) j = Some x -> j_pc x = JWait -> j_fw x <> Some FPending) ->
  ~ In (HJ j) (ready s) ->
  sim s m (run_joiner s j).
Proof.
  intros HR Hnp Hnr. pose proof HR as [HQ HJ]. unfold run_joiner.
  destruct (nth_error (joiners s) j) as [x|] eqn:Hx; [|apply sim_silent; auto].
  pose proof (QI_exit s m HQ) as Hex. pose proof (QI_put s m HQ) as Hput.
  destruct (j_pc x) eqn:Hpc.
  - (* JNotStarted *)
    cbv zeta. change (unfinished (emit s (EvJoinStart j))) with (unfinished s).
    destruct (Nat.ltb_spec 0 (unfinished s)) as [Hlt|Hge].
    + assert (Hall : all_processed m = false).
      { unfold all_processed. apply Nat.eqb_neq. lia. }
      exists [EvJoinStart j], (m_joinstart m j false). split; [reflexivity|]. split.
      * erewrite m_events_cons by apply m_event_joinstart. rewrite Hall. reflexivity.
      * split.
        -- apply (QI_frame s _ m _); auto. intros c x' i Hx' Hp; eauto.
        -- destruct HJ as [J1 J2 J3]. constructor; unfold m_joinstart; qs.
           ++ rewrite !upd_length. exact J1.
           ++ intros j0 y o Hy Ho.
              apply nth_error_upd_inv in Hy. apply nth_error_upd_inv in Ho.
              destruct Hy as [(Hj & -> & _)|(Hj & Hy)];
                destruct Ho as [(Hj' & -> & _)|(Hj' & Ho)]; try congruence.
              ** cbn [j_pc]. split; [discriminate|reflexivity].
              ** exact (J2 j0 y o Hy Ho).
           ++ intros j0 y Hy Hpy Hfy. apply nth_error_upd_inv in Hy.
              destruct Hy as [(<- & _ & _)|(Hj & Hy)].
              ** split; [apply in_or_app; right; left; reflexivity|exact Hnr].
              ** destruct (J3 j0 y Hy Hpy Hfy) as [Ha Hb].
                 split; [apply in_or_app; left; exact Ha|exact Hb].
    + assert (Hall : all_processed m = true).
      { unfold all_processed. apply Nat.eqb_eq. lia. }
      exists [EvJoinStart j; EvJoinDone j], (m_joinstart m j true).
      split; [qs; rewrite <- app_assoc; reflexivity|]. split.
      * erewrite m_events_cons by apply m_event_joinstart. rewrite Hall. reflexivity.
      * split.
        -- apply (QI_frame s _ m _); auto. intros c x' i Hx' Hp; eauto.
        -- destruct HJ as [J1 J2 J3]. constructor; unfold m_joinstart; qs.
           ++ rewrite !upd_length. exact J1.
           ++ intros j0 y o Hy Ho.
              apply nth_error_upd_inv in Hy. apply nth_error_upd_inv in Ho.
              destruct Hy as [(Hj & -> & _)|(Hj & Hy)];
                destruct Ho as [(Hj' & -> & _)|(Hj' & Ho)]; try congruence.
              ** cbn [j_pc]. split; [discriminate|reflexivity].
              ** exact (J2 j0 y o Hy Ho).
           ++ intros j0 y Hy Hpy Hfy. apply nth_error_upd_inv in Hy.
              destruct Hy as [(_ & -> & _)|(Hj & Hy)]; [discriminate|].
              eauto.
  - (* JWait *)
    exists [EvJoinDone j], m. split; [reflexivity|]. split; [reflexivity|].
    split.
    + apply (QI_frame s _ m _); auto. intros c x' i Hx' Hp; eauto.
    + destruct HJ as [J1 J2 J3]. constructor; qs.
      * rewrite upd_length. exact J1.
      * intros j0 y o Hy Ho. apply nth_error_upd_inv in Hy.
        destruct Hy as [(<- & -> & _)|(Hj & Hy)]; [|exact (J2 j0 y o Hy Ho)].
        specialize (J2 j x o Hx Ho). destruct o as [b|]; [|congruence].
        destruct J2 as [_ ->]. cbn [j_pc]. split; [discriminate|].
        apply joiner_released_true; [congruence|]. intros _. apply Hnp; auto.
      * intros j0 y Hy Hpy Hfy. apply nth_error_upd_inv in Hy.
        destruct Hy as [(_ & -> & _)|(Hj & Hy)]; [discriminate|].
        destruct (J3 j0 y Hy Hpy Hfy) as [Ha Hb].
        split; [apply In_remove1_neq; auto|exact Hb].
  - apply sim_silent; auto.
Qed.

(** * The monitor's checks at the end of a step *)

Lemma released_ok_nth : forall sh js,
  length sh = length js ->
  (forall j o x, nth_error sh j = Some o -> nth_error js j = Some x ->
                 match o with None => True | Some b => b = joiner_released x end) ->
  released_ok sh (map joiner_released js) = true.
Proof.
  induction sh as [|o t IH]; intros [|x js] Hlen H; cbn [length] in Hlen;
    try discriminate; [reflexivity|].
  pose proof (H 0 o x eq_refl eq_refl) as H0.
  assert (IH' : released_ok t (map joiner_released js) = true).
  { apply IH; [lia|]. intros j o' x' Ho Hx. exact (H (S j) o' x' Ho Hx). }
  cbn [map released_ok]. destruct o as [b|]; [|exact IH'].
  rewrite IH', <- H0, Bool.eqb_reflx. reflexivity.
Qed.

Lemma R_checks s m :
  R s m ->
  released_ok (m_should m) (map joiner_released (joiners s)) = true /\
  Nat.eqb (length (items s) + length (m_entered m)) (m_put m) = true.
Proof.
  intros [HQ HJ]. split.
  - apply released_ok_nth; [apply (JI_len s m HJ)|].
    intros j o x Ho Hx. pose proof (JI_rel s m HJ j x o Hx Ho) as H.
    destruct o as [b|]; [tauto|exact I].
  - apply Nat.eqb_eq. rewrite (QI_put s m HQ). pose proof (QI_cnt s m HQ). lia.
Qed.

(** * One step of the model *)

Definition m_incput (m : mstate) : mstate :=
  {| m_put := S (m_put m); m_entered := m_entered m; m_inblock := m_inblock m;
     m_nexited := m_nexited m; m_should := m_should m |}.

Lemma R_put s m :
  R s m ->
  R {| items := items s ++ [nput s]; nput := S (nput s); getters := getters s;
       unfinished := S (unfinished s); finished := false; jwaiters := jwaiters s;
       consumers := consumers s; joiners := joiners s; ready := ready s; evs := evs s |}
    (m_incput m).
Proof.
  intros [HQ HJ]. split.
  - destruct HQ as [H1 H2 H3 H4 H5 H6 H7 H8 H9].
    constructor; unfold m_incput; qs; auto.
    + rewrite app_length. cbn [length]. rewrite Nat.add_1_r, seq_S, <- H3, H4. reflexivity.
    + rewrite app_length. cbn [length]. lia.
    + lia.
    + rewrite app_length. cbn [length]. lia.
  - apply (JI_frame s _ m _); auto.
Qed.

Definition m_addjoin (m : mstate) : mstate :=
  {| m_put := m_put m; m_entered := m_entered m; m_inblock := m_inblock m;
     m_nexited := m_nexited m; m_should := m_should m ++ [None] |}.

Lemma R_join s m :
  R s m ->
  R (sched (set_joiners s (joiners s ++ [{| j_pc := JNotStarted; j_fw := None |}]))
           (HJ (length (joiners s))))
    (m_addjoin m).
Proof.
  intros [HQ HJ]. split.
  - apply (QI_frame s _ m _); auto. intros c x' i Hx' Hp; eauto.
  - destruct HJ as [J1 J2 J3]. constructor; unfold m_addjoin; qs.
    + rewrite !app_length. cbn [length]. lia.
    + intros j x o Hx Ho.
      apply nth_error_snoc_inv in Hx. apply nth_error_snoc_inv in Ho.
      destruct Hx as [Hx|(Hj & ->)]; destruct Ho as [Ho|(Hj' & ->)].
      * exact (J2 j x o Hx Ho).
      * assert (j < length (joiners s)) by (apply nth_error_Some; congruence). lia.
      * assert (j < length (m_should m)) by (apply nth_error_Some; congruence). lia.
      * reflexivity.
    + intros j x Hx Hpx Hfx. apply nth_error_snoc_inv in Hx.
      destruct Hx as [Hx|(Hj & ->)]; [|discriminate].
      destruct (J3 j x Hx Hpx Hfx) as [Ha Hb]. split; [exact Ha|].
      intros Hin. apply in_app_or in Hin. destruct Hin as [Hin|Hin]; [auto|].
      cbn [In] in Hin. destruct Hin as [Hin|[]]. injection Hin as Hin.
      assert (j < length (joiners s)) by (apply nth_error_Some; congruence). lia.
Qed.

Lemma R_spawn s m x :
  c_pc x = CNotStarted -> R s m -> R (set_consumers s (consumers s ++ [x])) m.
Proof.
  intros Hpc. apply R_frame; auto. qs.
  intros c x' i Hx' Hp. apply nth_error_snoc_inv in Hx'.
  destruct Hx' as [Hx'|(_ & ->)]; [eauto|congruence].
Qed.

Lemma sim_finish s m s' :
  evs s = [] -> sim s m s' -> exists m', m_events m (evs s') = inl m' /\ R s' m'.
Proof.
  intros He (es & m' & Hes & Hm & HR). exists m'. rewrite Hes, He. cbn [app]. auto.
Qed.

Lemma silent_finish s m s' :
  evs s = [] -> evs s' = evs s -> R s' m -> exists m', m_events m (evs s') = inl m' /\ R s' m'.
Proof.
  intros He Hes HR. exists m. rewrite Hes, He. auto.
Qed.

Lemma step_events s0 m l :
  R s0 m ->
  exists m',
    m_events (m_label m (enabled (set_evs s0 []) l) l) (evs (step s0 l)) = inl m' /\
    R (step s0 l) m'.
Proof.
  intros HR0. unfold step. cbv zeta.
  set (s := set_evs s0 []).
  assert (HR : R s m) by (apply R_set_evs; exact HR0).
  assert (Hevs : evs s = []) by reflexivity.
  clearbody s. clear HR0 s0.
  destruct (enabled s l) eqn:Hen; cbn [negb].
  2: { unfold m_label; cbn [negb]. apply (silent_finish s); auto. }
  destruct l as [|loops| |[c|j]|c normal|c]; unfold m_label; cbn [negb].
  - (* QPut *)
    fold (m_incput m). apply (silent_finish s); auto.
    + rewrite dwn_evs. reflexivity.
    + apply R_dwn. apply R_put. exact HR.
  - (* QSpawn *)
    apply (silent_finish s); auto.
    apply R_sched_HC. apply R_spawn; [reflexivity|exact HR].
  - (* QJoin *)
    fold (m_addjoin m). apply (silent_finish s); auto.
    apply R_join. exact HR.
  - (* QRun (HC c) *)
    apply (sim_finish (unsched s (HC c)) m _ Hevs).
    apply run_consumer_sim. apply R_unsched. exact HR.
  - (* QRun (HJ j) *)
    cbn [enabled] in Hen. apply is_ready_In in Hen.
    apply (sim_finish (unsched s (HJ j)) m _ Hevs).
    apply run_joiner_sim.
    + apply R_unsched. exact HR.
    + intros x Hx Hpx Hfx. destruct HR as [_ HJ].
      destruct (JI_wait s m HJ j x Hx Hpx Hfx) as [_ Hnr]. contradiction.
    + unfold unsched, set_ready; cbn [ready]. intros Hin. apply In_unsched in Hin.
      destruct Hin as [_ Hne]. congruence.
  - (* QExit *)
    destruct (nth_error (consumers s) c) as [x|] eqn:Hx.
    + apply (silent_finish s); auto.
      apply R_sched_HC. eapply R_set_c_samepc; [exact Hx|reflexivity|exact HR].
    + apply (silent_finish s); auto.
  - (* QCancel *)
    destruct (nth_error (consumers s) c) as [x|] eqn:Hx; [|apply (silent_finish s); auto].
    assert (H1 : forall f, exists m',
      m_events m (evs (sched (set_c s c (c_with_fw x f)) (HC c))) = inl m' /\
      R (sched (set_c s c (c_with_fw x f)) (HC c)) m').
    { intros f. apply (silent_finish s); auto.
      apply R_sched_HC. eapply R_set_c_samepc; [exact Hx|reflexivity|exact HR]. }
    assert (H2 : exists m',
      m_events m (evs (set_c s c (c_with_mc x true))) = inl m' /\
      R (set_c s c (c_with_mc x true)) m').
    { apply (silent_finish s); auto.
      eapply R_set_c_samepc; [exact Hx|reflexivity|exact HR]. }
    destruct (c_pc x); try (apply (silent_finish s); auto; fail);
      destruct (c_fw x) as [[]|]; auto.
Qed.

Lemma step_sim s m l :
  R s m ->
  exists m', m_step m (snd (observe1 s l)) = inl m' /\ R (fst (observe1 s l)) m'.
Proof.
  intros HR. destruct (step_events s m l HR) as (m' & Hev & HR').
  destruct (R_checks _ _ HR') as [Hrel Hq].
  exists m'. split; [|exact HR'].
  unfold observe1, m_step. cbn [fst snd o_enabled o_label o_events o_released o_qsize].
  rewrite Hev, Hrel, Hq. reflexivity.
Qed.

(** * The theorem *)

Lemma m_run_sim tr : forall s m, R s m -> m_run m (observe_from s tr) = None.
Proof.
  induction tr as [|l t IH]; intros s m HR; [reflexivity|].
  cbn [observe_from].
  destruct (step_sim s m l HR) as (m' & Hst & HR').
  destruct (observe1 s l) as [s' o]. cbn [fst snd] in Hst, HR'.
  cbn [m_run]. rewrite Hst. apply IH. exact HR'.
Qed.

Theorem C20_proof : forall tr : list label, ok_C20 (observe tr) = true.
Proof.
  intros tr. unfold ok_C20, observe. rewrite (m_run_sim tr init m_init R_init). reflexivity.
Qed.
