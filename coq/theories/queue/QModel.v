(** M4 — model of [asyncio_taskpool.queue_context.Queue] used as an async context manager,
    together with the slice of CPython 3.12 asyncio it leans on ([Queue.get/put_nowait/task_done/
    join], [Event], [Task.cancel]).  Executable; no proofs in this file. *)
From TP Require Export Base.

(** State of the future a task is suspended on. *)
Inductive fut := FPending | FResult | FExcept | FCancelled.

Definition fut_done (f : fut) : bool := match f with FPending => false | _ => true end.

Inductive outcome := OResult | OExc | OCancelled.

Inductive cpc := CNotStarted | CWaitGet | CInBlock (item : nat) | CDone.

Record consumer := {
  c_pc : cpc;
  c_loops : bool;               (* [while True: async with q as item: ...] vs. a single block *)
  c_fw : option fut;            (* the future it awaits (getter future or the body's gate) *)
  c_mc : bool;                  (* Task._must_cancel *)
  c_final : option outcome
}.

Inductive jpc := JNotStarted | JWait | JDone.
Record joiner := { j_pc : jpc; j_fw : option fut }.

Inductive handle := HC (c : nat) | HJ (j : nat).

Definition handle_eqb (a b : handle) : bool :=
  match a, b with
  | HC x, HC y => Nat.eqb x y
  | HJ x, HJ y => Nat.eqb x y
  | _, _ => false
  end.

Inductive how := HowNormal | HowExc | HowCancel.

Inductive event :=
| EvEnter (c item : nat)
| EvExit (c item : nat) (h : how)
| EvJoinStart (j : nat)
| EvJoinDone (j : nat)
| EvValueError (c : nat).

Record qstate := {
  items : list nat;             (* queue content, oldest first *)
  nput : nat;                   (* number of put calls so far = next item *)
  getters : list nat;           (* deque of getter futures, identified by their consumer *)
  unfinished : nat;             (* _unfinished_tasks *)
  finished : bool;              (* _finished event value *)
  jwaiters : list nat;          (* Event._waiters, identified by joiner *)
  consumers : list consumer;
  joiners : list joiner;
  ready : list handle;          (* ready handles (a set; the order is not used) *)
  evs : list event              (* events of the last step, in order *)
}.

Definition init : qstate :=
  {| items := []; nput := 0; getters := []; unfinished := 0; finished := true; jwaiters := [];
     consumers := []; joiners := []; ready := []; evs := [] |}.

Inductive label :=
| QPut
| QSpawn (loops : bool)
| QJoin
| QRun (h : handle)
| QExit (c : nat) (normal : bool)
| QCancel (c : nat).

(** ** Small state updaters *)
Definition set_consumers (s : qstate) cs :=
  {| items := items s; nput := nput s; getters := getters s; unfinished := unfinished s;
     finished := finished s; jwaiters := jwaiters s; consumers := cs; joiners := joiners s;
     ready := ready s; evs := evs s |}.
Definition set_joiners (s : qstate) js :=
  {| items := items s; nput := nput s; getters := getters s; unfinished := unfinished s;
     finished := finished s; jwaiters := jwaiters s; consumers := consumers s; joiners := js;
     ready := ready s; evs := evs s |}.
Definition set_ready (s : qstate) r :=
  {| items := items s; nput := nput s; getters := getters s; unfinished := unfinished s;
     finished := finished s; jwaiters := jwaiters s; consumers := consumers s;
     joiners := joiners s; ready := r; evs := evs s |}.
Definition set_getters (s : qstate) g :=
  {| items := items s; nput := nput s; getters := g; unfinished := unfinished s;
     finished := finished s; jwaiters := jwaiters s; consumers := consumers s;
     joiners := joiners s; ready := ready s; evs := evs s |}.
Definition set_items (s : qstate) i :=
  {| items := i; nput := nput s; getters := getters s; unfinished := unfinished s;
     finished := finished s; jwaiters := jwaiters s; consumers := consumers s;
     joiners := joiners s; ready := ready s; evs := evs s |}.
Definition set_evs (s : qstate) e :=
  {| items := items s; nput := nput s; getters := getters s; unfinished := unfinished s;
     finished := finished s; jwaiters := jwaiters s; consumers := consumers s;
     joiners := joiners s; ready := ready s; evs := e |}.
Definition emit (s : qstate) (e : event) := set_evs s (evs s ++ [e]).

Definition set_c (s : qstate) (c : nat) (x : consumer) := set_consumers s (upd (consumers s) c x).
Definition set_j (s : qstate) (j : nat) (x : joiner) := set_joiners s (upd (joiners s) j x).

Definition sched (s : qstate) (h : handle) := set_ready s (ready s ++ [h]).
Definition unsched (s : qstate) (h : handle) :=
  set_ready s (filter (fun x => negb (handle_eqb h x)) (ready s)).
Definition is_ready (s : qstate) (h : handle) := existsb (handle_eqb h) (ready s).

Definition c_with_fw (x : consumer) f :=
  {| c_pc := c_pc x; c_loops := c_loops x; c_fw := f; c_mc := c_mc x; c_final := c_final x |}.
Definition c_with_mc (x : consumer) b :=
  {| c_pc := c_pc x; c_loops := c_loops x; c_fw := c_fw x; c_mc := b; c_final := c_final x |}.
Definition c_with_pc (x : consumer) p :=
  {| c_pc := p; c_loops := c_loops x; c_fw := c_fw x; c_mc := c_mc x; c_final := c_final x |}.
Definition c_finish (x : consumer) o :=
  {| c_pc := CDone; c_loops := c_loops x; c_fw := None; c_mc := false; c_final := Some o |}.

(** [Queue._wakeup_next(getters)]: pop waiters from the left until one that is not done; give it
    a result.  Getter futures are identified with the consumer awaiting them. *)
Fixpoint wakeup_next_getter (cs : list consumer) (g : list nat) : list nat * option nat :=
  match g with
  | [] => ([], None)
  | c :: t =>
      match nth_error cs c with
      | Some x =>
          match c_fw x with
          | Some FPending => (t, Some c)
          | _ => wakeup_next_getter cs t
          end
      | None => wakeup_next_getter cs t
      end
  end.

Definition do_wakeup_next (s : qstate) : qstate :=
  let '(g, w) := wakeup_next_getter (consumers s) (getters s) in
  let s := set_getters s g in
  match w with
  | None => s
  | Some c =>
      match nth_error (consumers s) c with
      | Some x => sched (set_c s c (c_with_fw x (Some FResult))) (HC c)
      | None => s
      end
  end.

(** [Event.set()] on the queue's [_finished] event: every pending join waiter gets a result. *)
Fixpoint release_joiners (s : qstate) (js : list nat) : qstate :=
  match js with
  | [] => s
  | j :: t =>
      let s :=
        match nth_error (joiners s) j with
        | Some x =>
            match j_fw x with
            | Some FPending => sched (set_j s j {| j_pc := j_pc x; j_fw := Some FResult |}) (HJ j)
            | _ => s
            end
        | None => s
        end in
      release_joiners s t
  end.

Definition set_unfinished (s : qstate) (u : nat) (f : bool) :=
  {| items := items s; nput := nput s; getters := getters s; unfinished := u;
     finished := f; jwaiters := jwaiters s; consumers := consumers s;
     joiners := joiners s; ready := ready s; evs := evs s |}.

(** [task_done()]; [None] = it raised ValueError. *)
Definition task_done (s : qstate) : option qstate :=
  match unfinished s with
  | O => None
  | S u =>
      if Nat.eqb u 0
      then Some (release_joiners (set_unfinished s 0 true) (jwaiters s))
      else Some (set_unfinished s u (finished s))
  end.

(** The consumer enters [get()] (or re-tests [while self.empty()] after a wake-up). *)
Definition do_get (s : qstate) (c : nat) (x : consumer) : qstate :=
  match items s with
  | [] =>
      set_getters (set_c s c (c_with_pc (c_with_fw x (Some FPending)) CWaitGet)) (getters s ++ [c])
  | i :: rest =>
      emit (set_c (set_items s rest) c (c_with_pc (c_with_fw x (Some FPending)) (CInBlock i)))
           (EvEnter c i)
  end.

Inductive input := InOk | InExc | InCancel.

Definition task_input (mc : bool) (fw : option fut) : input :=
  if mc then InCancel else
  match fw with
  | Some FCancelled => InCancel
  | Some FExcept => InExc
  | _ => InOk
  end.

(** Block exit: [__aexit__] calls [item_processed()] however the block was left. *)
Definition exit_block (s : qstate) (c : nat) (x : consumer) (i : nat) (inp : input) : qstate :=
  let h := match inp with InOk => HowNormal | InExc => HowExc | InCancel => HowCancel end in
  let s := emit s (EvExit c i h) in
  match task_done s with
  | None => emit (set_c s c (c_finish x OExc)) (EvValueError c)
  | Some s =>
      match inp with
      | InOk => if c_loops x then do_get s c x else set_c s c (c_finish x OResult)
      | InExc => set_c s c (c_finish x OExc)
      | InCancel => set_c s c (c_finish x OCancelled)
      end
  end.

Definition run_consumer (s : qstate) (c : nat) : qstate :=
  match nth_error (consumers s) c with
  | None => s
  | Some x0 =>
      let inp := task_input (c_mc x0) (c_fw x0) in
      let was_cancelled_fut := match c_fw x0 with Some FCancelled => true | _ => false end in
      let x := c_with_mc (c_with_fw x0 None) false in
      match c_pc x0 with
      | CNotStarted =>
          match inp with
          | InCancel => set_c s c (c_finish x OCancelled)
          | _ => do_get s c x
          end
      | CWaitGet =>
          match inp with
          | InCancel =>
              (* except: getter.cancel(); getters.remove(getter) (if still there);
                 if not empty and not getter.cancelled(): wake up the next getter; raise *)
              let s := set_getters s (remove1 c (getters s)) in
              let s := set_c s c (c_finish x OCancelled) in
              match items s with
              | [] => s
              | _ :: _ => if was_cancelled_fut then s else do_wakeup_next s
              end
          | _ => do_get s c x
          end
      | CInBlock i => exit_block s c x i inp
      | CDone => s
      end
  end.

Definition run_joiner (s : qstate) (j : nat) : qstate :=
  match nth_error (joiners s) j with
  | None => s
  | Some x =>
      match j_pc x with
      | JNotStarted =>
          let s := emit s (EvJoinStart j) in
          if Nat.ltb 0 (unfinished s)
          then
            let s := set_j s j {| j_pc := JWait; j_fw := Some FPending |} in
            {| items := items s; nput := nput s; getters := getters s;
               unfinished := unfinished s; finished := finished s;
               jwaiters := jwaiters s ++ [j]; consumers := consumers s;
               joiners := joiners s; ready := ready s; evs := evs s |}
          else emit (set_j s j {| j_pc := JDone; j_fw := None |}) (EvJoinDone j)
      | JWait =>
          let s := set_j s j {| j_pc := JDone; j_fw := None |} in
          emit {| items := items s; nput := nput s; getters := getters s;
                  unfinished := unfinished s; finished := finished s;
                  jwaiters := remove1 j (jwaiters s); consumers := consumers s;
                  joiners := joiners s; ready := ready s; evs := evs s |} (EvJoinDone j)
      | JDone => s
      end
  end.

Definition enabled (s : qstate) (l : label) : bool :=
  match l with
  | QPut | QSpawn _ | QJoin => true
  | QRun h => is_ready s h
  | QExit c _ =>
      match nth_error (consumers s) c with
      | Some x =>
          match c_pc x, c_fw x with
          | CInBlock _, Some FPending => true
          | _, _ => false
          end
      | None => false
      end
  | QCancel c => Nat.ltb c (length (consumers s))
  end.

Definition step (s0 : qstate) (l : label) : qstate :=
  let s := set_evs s0 [] in
  if negb (enabled s l) then s else
  match l with
  | QPut =>
      (* put_nowait: append; unfinished += 1; finished.clear(); wake up the next getter *)
      let s := {| items := items s ++ [nput s]; nput := S (nput s); getters := getters s;
                  unfinished := S (unfinished s); finished := false; jwaiters := jwaiters s;
                  consumers := consumers s; joiners := joiners s; ready := ready s;
                  evs := evs s |} in
      do_wakeup_next s
  | QSpawn loops =>
      let c := length (consumers s) in
      sched (set_consumers s (consumers s ++
              [{| c_pc := CNotStarted; c_loops := loops; c_fw := None; c_mc := false;
                  c_final := None |}])) (HC c)
  | QJoin =>
      let j := length (joiners s) in
      sched (set_joiners s (joiners s ++ [{| j_pc := JNotStarted; j_fw := None |}])) (HJ j)
  | QRun (HC c) => run_consumer (unsched s (HC c)) c
  | QRun (HJ j) => run_joiner (unsched s (HJ j)) j
  | QExit c normal =>
      match nth_error (consumers s) c with
      | Some x => sched (set_c s c (c_with_fw x (Some (if normal then FResult else FExcept)))) (HC c)
      | None => s
      end
  | QCancel c =>
      match nth_error (consumers s) c with
      | Some x =>
          match c_pc x with
          | CDone => s
          | _ =>
              match c_fw x with
              | Some FPending => sched (set_c s c (c_with_fw x (Some FCancelled))) (HC c)
              | _ => set_c s c (c_with_mc x true)
              end
          end
      | None => s
      end
  end.

(** ** Observations (public: qsize, events recorded by the harness's own consumers, and for
    every joiner whether its [join()] has been released). *)
Definition joiner_released (x : joiner) : bool :=
  match j_pc x with
  | JNotStarted => false
  | JWait => match j_fw x with Some FPending => false | _ => true end
  | JDone => true
  end.

Record obs := {
  o_enabled : bool;
  o_label : label;
  o_qsize : nat;
  o_ready_empty : bool;
  o_released : list bool;
  o_events : list event
}.

Definition observe1 (s : qstate) (l : label) : qstate * obs :=
  let en := enabled (set_evs s []) l in
  let s' := step s l in
  (s', {| o_enabled := en; o_label := l; o_qsize := length (items s');
          o_ready_empty := match ready s' with [] => true | _ => false end;
          o_released := map joiner_released (joiners s');
          o_events := evs s' |}).

Fixpoint observe_from (s : qstate) (tr : list label) : list obs :=
  match tr with
  | [] => []
  | l :: t => let '(s', o) := observe1 s l in o :: observe_from s' t
  end.

Definition observe (tr : list label) : list obs := observe_from init tr.
Definition run (tr : list label) : qstate := fold_left step tr init.
