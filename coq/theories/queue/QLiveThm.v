(** LIVENESS HALF OF C20 — "join() RETURNS exactly when every item put so far has been taken and
    its block has exited", the 'returns' direction as an eventuality.

    Under a cooperative environment (QLive.v: ready handles are run, block bodies end — normally,
    by an exception or by cancellation —, consumers may be cancelled; NO new put / consumer /
    join) and from ANY reachable state [run tr0]:

      - [queue_coop_bounded] (QLiveMeasure.v): every cooperative run has at most
        [qmeasure (run tr0)] steps;
      - [coop_reaches_rest] / [coop_run_extends_to_rest]: a state at rest is reached, and every
        cooperative run can be extended to one that ends at rest;
      - [maximal_at_rest]: a cooperative run that cannot be extended ends at rest;
      - [taken_items_all_marked_at_rest]: at rest no consumer is inside a block and
        [unfinished = qsize], i.e. #marked = #taken: every item that was taken has been marked —
        exactly once (C20: the monitor, which checks that every exit matches a distinct enter and
        that [task_done()] never raises, is in a state with nothing inside a block and
        #exits = #enters);
      - [join_released_iff_queue_drained_at_rest]: at the end of a cooperative run that ends at
        rest, a joiner that was not yet released when the run began is released IF AND ONLY IF no
        item is left in the queue;
      - [join_released_if_drained_at_rest]: in any reachable state at rest with an empty queue
        every joiner is released;
      - [join_returns_when_all_taken]: if every item put so far has already been taken when the
        cooperative phase begins, every joiner is released when it ends at rest.

    FINDING.  The naive statement "at rest, every joiner is released iff the queue is empty" is
    FALSE for the model (and for asyncio): a joiner that passed [join()] while nothing was
    unfinished stays released when items are put afterwards — [naive_iff_false]:
    [QJoin; QRun (HJ 0); QPut] is at rest (even maximal), its joiner is released, one item is in
    the queue.  The 'only if' half holds for the joiners that were still blocked when the
    cooperative phase began (in a cooperative run [unfinished] never grows, so a release inside
    the run means it reached 0, and it is then 0 at the end), which is what the theorem says.

    FINDING.  With [QModel.enabled] as the notion of "fires", cooperative runs can be infinite:
    [QCancel c] on a finished consumer is enabled and is a no-op — [enabled_runs_can_be_infinite].
    Hence [effective]. *)
From TP Require Export QLiveInv.

(** * At rest *)

Lemma In_is_ready s h : In h (ready s) -> is_ready s h = true.
Proof.
  intros H. unfold is_ready. apply existsb_exists. exists h. split; auto. apply handle_eqb_refl.
Qed.

Lemma at_rest_no_ready s h : at_rest s -> ~ In h (ready s).
Proof.
  intros [H _] Hin. specialize (H h). cbn [enabled] in H.
  rewrite (In_is_ready s h Hin) in H. discriminate.
Qed.

Lemma at_rest_quiet s :
  LI s -> at_rest s ->
  (forall c x, nth_error (consumers s) c = Some x -> needs_run_c x = false) /\
  (forall j x, nth_error (joiners s) j = Some x -> needs_run_j x = false) /\
  (forall c x i, nth_error (consumers s) c = Some x -> c_pc x <> CInBlock i).
Proof.
  intros (H1 & H2 & H3 & H4) HR.
  assert (HC : forall c x, nth_error (consumers s) c = Some x -> needs_run_c x = false).
  { intros c x Hx. destruct (needs_run_c x) eqn:Hn; [|reflexivity].
    exfalso. apply (at_rest_no_ready s (HC c) HR). apply (H2 c x Hx Hn). discriminate. }
  split; [exact HC|]. split.
  - intros j x Hx. destruct (needs_run_j x) eqn:Hn; [|reflexivity].
    exfalso. apply (at_rest_no_ready s (HJ j) HR). apply (H3 j x Hx Hn). discriminate.
  - intros c x i Hx Hpc. pose proof (HC c x Hx) as Hn.
    destruct HR as [_ HE]. specialize (HE c true). cbn [enabled] in HE.
    rewrite Hx, Hpc in HE. unfold needs_run_c in Hn. rewrite Hpc in Hn.
    destruct (c_fw x) as [[]|]; cbn in Hn; discriminate.
Qed.

(** * (3a) every taken item has been marked *)

Theorem taken_items_all_marked_at_rest : forall tr,
  at_rest (run tr) ->
  (* no block is open *)
  (forall c x i, nth_error (consumers (run tr)) c = Some x -> c_pc x <> CInBlock i) /\
  (* put - marked = put - taken *)
  unfinished (run tr) = length (items (run tr)) /\
  (* the C20 monitor has accepted the whole run and is in a state where nothing is inside a
     block, every block entered has exited, and every item put is in the queue or was entered *)
  exists m, m_state m_init (observe tr) = Some m /\
            m_inblock m = [] /\ m_nexited m = length (m_entered m) /\
            length (m_entered m) + length (items (run tr)) = m_put m.
Proof.
  intros tr HR. pose proof (LI_run tr) as HL.
  destruct (at_rest_quiet _ HL HR) as (_ & _ & Hnb).
  assert (Hz : nblock (consumers (run tr)) = 0).
  { apply sumf_zero. intros c x Hx. unfold isblock.
    destruct (c_pc x) eqn:Hpc; try reflexivity. exfalso. exact (Hnb c x item Hx Hpc). }
  assert (Hu : unfinished (run tr) = length (items (run tr))).
  { destruct HL as (H1 & _). unfold CntI in H1. lia. }
  split; [exact Hnb|]. split; [exact Hu|].
  destruct (m_state_run tr) as (m & Hm & [HQ _]). exists m. split; [exact Hm|].
  pose proof (QI_unf _ _ HQ) as A. pose proof (QI_exit _ _ HQ) as B.
  pose proof (QI_cnt _ _ HQ) as C. pose proof (QI_put _ _ HQ) as D.
  assert (Hl : length (m_inblock m) = 0) by lia.
  split; [destruct (m_inblock m); [reflexivity|discriminate]|]. split; lia.
Qed.

(** * What a cooperative step keeps *)

(** [unfinished] and the queue never grow; the joiner table keeps its length; while something is
    unfinished, a joiner that is not released stays so. *)
Definition keeps (s s' : qstate) : Prop :=
  length (joiners s') = length (joiners s) /\
  unfinished s' <= unfinished s /\
  length (items s') <= length (items s) /\
  (0 < unfinished s' ->
   forall j x, nth_error (joiners s) j = Some x -> joiner_released x = false ->
               exists x', nth_error (joiners s') j = Some x' /\ joiner_released x' = false).

Lemma keeps_same s s' :
  joiners s' = joiners s -> unfinished s' <= unfinished s ->
  length (items s') <= length (items s) -> keeps s s'.
Proof.
  intros Hj Hu Hi. split; [rewrite Hj; reflexivity|]. split; [exact Hu|]. split; [exact Hi|].
  intros _ j x Hx Hr. rewrite Hj. eauto.
Qed.

Lemma keeps_eq s s' :
  joiners s' = joiners s -> unfinished s' = unfinished s -> items s' = items s -> keeps s s'.
Proof. intros Hj Hu Hi. apply keeps_same; auto; [rewrite Hu|rewrite Hi]; auto. Qed.

Lemma keeps_refl s : keeps s s.
Proof. apply keeps_eq; reflexivity. Qed.

Lemma keeps_trans s1 s2 s3 : keeps s1 s2 -> keeps s2 s3 -> keeps s1 s3.
Proof.
  intros (A1 & A2 & A3 & A4) (B1 & B2 & B3 & B4).
  split; [congruence|]. split; [lia|]. split; [lia|].
  intros Hpos j x Hx Hr.
  destruct (A4 ltac:(lia) j x Hx Hr) as (x' & Hx' & Hr'). exact (B4 Hpos j x' Hx' Hr').
Qed.

Lemma dwn_same s :
  joiners (do_wakeup_next s) = joiners s /\ unfinished (do_wakeup_next s) = unfinished s /\
  items (do_wakeup_next s) = items s.
Proof.
  unfold do_wakeup_next.
  destruct (wakeup_next_getter (consumers s) (getters s)) as [g [c|]]; [|auto].
  destruct (nth_error (consumers (set_getters s g)) c); auto.
Qed.

Lemma do_get_same s c x :
  joiners (do_get s c x) = joiners s /\ unfinished (do_get s c x) = unfinished s /\
  length (items (do_get s c x)) <= length (items s).
Proof.
  unfold do_get. destruct (items s) as [|k rest] eqn:Hit.
  - cbn [items set_getters set_c set_consumers]. rewrite Hit. auto.
  - cbn [items length emit set_evs set_c set_consumers set_items]. auto.
Qed.

Lemma keeps_do_get s c x : keeps s (do_get s c x).
Proof. destruct (do_get_same s c x) as (A & B & C). apply keeps_same; auto. rewrite B. auto. Qed.

Lemma task_done_keeps s s2 : task_done s = Some s2 -> keeps s s2.
Proof.
  unfold task_done. destruct (unfinished s) as [|u] eqn:Hu; [discriminate|].
  destruct (Nat.eqb_spec u 0) as [->|Hne]; intros H; injection H as <-.
  - destruct (release_spec (jwaiters s) (set_unfinished s 0 true))
      as ([Q1 Q2 Q3 Q4 Q5 Q6] & [Hlen _] & _).
    split; [exact Hlen|]. split; [rewrite Q3; cbn; lia|]. split; [rewrite Q1; cbn; lia|].
    rewrite Q3. cbn [unfinished set_unfinished]. lia.
  - apply keeps_same; cbn [joiners unfinished items set_unfinished]; auto; lia.
Qed.

Lemma keeps_exit_block s c x i inp : keeps s (exit_block s c x i inp).
Proof.
  unfold exit_block. cbv zeta. set (s1 := emit s _).
  assert (K1 : keeps s s1) by (apply keeps_eq; reflexivity).
  destruct (task_done s1) as [s2|] eqn:Htd.
  - pose proof (keeps_trans _ _ _ K1 (task_done_keeps _ _ Htd)) as K2.
    assert (Kf : forall o, keeps s (set_c s2 c (c_finish x o))).
    { intros o. apply (keeps_trans _ _ _ K2). apply keeps_eq; reflexivity. }
    destruct inp; auto. destruct (c_loops x); auto.
    apply (keeps_trans _ _ _ K2). apply keeps_do_get.
  - apply keeps_eq; reflexivity.
Qed.

Lemma keeps_run_consumer s c : keeps s (run_consumer s c).
Proof.
  unfold run_consumer. destruct (nth_error (consumers s) c) as [x0|]; [|apply keeps_refl].
  cbv zeta. set (x := c_with_mc (c_with_fw x0 None) false).
  destruct (c_pc x0) as [| |i|].
  - destruct (task_input (c_mc x0) (c_fw x0)); try apply keeps_do_get.
    apply keeps_eq; reflexivity.
  - destruct (task_input (c_mc x0) (c_fw x0)); try apply keeps_do_get.
    set (s2 := set_c _ c _).
    assert (K2 : keeps s s2) by (apply keeps_eq; reflexivity).
    destruct (items s2); [exact K2|].
    destruct (match c_fw x0 with Some FCancelled => true | _ => false end); [exact K2|].
    apply (keeps_trans _ _ _ K2). destruct (dwn_same s2) as (A & B & C).
    apply keeps_eq; auto.
  - apply keeps_exit_block.
  - apply keeps_refl.
Qed.

Lemma keeps_run_joiner s j :
  (forall x, nth_error (joiners s) j = Some x -> j_pc x = JWait -> j_fw x <> Some FPending) ->
  keeps s (run_joiner s j).
Proof.
  intros Hnp. unfold run_joiner.
  destruct (nth_error (joiners s) j) as [x|] eqn:Hx; [|apply keeps_refl].
  assert (Hupd : forall s' y,
            joiners s' = upd (joiners s) j y -> unfinished s' = unfinished s ->
            items s' = items s ->
            (0 < unfinished s -> joiner_released x = false -> joiner_released y = false) ->
            keeps s s').
  { intros s' y Hj Hu Hi Hy. split; [rewrite Hj; apply upd_length|].
    split; [lia|]. split; [rewrite Hi; lia|].
    intros Hpos j0 x0 Hx0 Hr0. rewrite Hj, nth_error_upd.
    destruct (Nat.eqb_spec j j0) as [<-|Hne]; [|eauto].
    assert (Hlt : j < length (joiners s)) by (apply nth_error_Some; congruence).
    apply Nat.ltb_lt in Hlt. rewrite Hlt. exists y. split; [reflexivity|].
    rewrite Hx in Hx0. injection Hx0 as <-. apply Hy; [lia|exact Hr0]. }
  destruct (j_pc x) eqn:Hpc.
  - cbv zeta. change (unfinished (emit s (EvJoinStart j))) with (unfinished s).
    destruct (Nat.ltb_spec 0 (unfinished s)) as [Hlt|Hge].
    + apply (Hupd _ {| j_pc := JWait; j_fw := Some FPending |}); auto.
    + apply (Hupd _ {| j_pc := JDone; j_fw := None |}); auto. intros Hpos. lia.
  - cbv zeta. apply (Hupd _ {| j_pc := JDone; j_fw := None |}); auto.
    intros _ Hr. exfalso. unfold joiner_released in Hr. rewrite Hpc in Hr.
    apply (Hnp x eq_refl Hpc). destruct (j_fw x) as [[]|]; congruence.
  - apply keeps_refl.
Qed.

Lemma coop_step_keeps s m l : R s m -> coop l = true -> keeps s (step s l).
Proof.
  intros HR Hco. unfold step. cbv zeta. set (s1 := set_evs s []).
  assert (K1 : keeps s s1) by (apply keeps_eq; reflexivity).
  destruct (enabled s1 l) eqn:Hen; cbn [negb]; [|exact K1].
  apply (keeps_trans _ _ _ K1).
  destruct l as [|lp| |[c|j]|c b|c]; try discriminate.
  - assert (K2 : keeps s1 (unsched s1 (HC c))) by (apply keeps_eq; reflexivity).
    apply (keeps_trans _ _ _ K2). apply keeps_run_consumer.
  - assert (K2 : keeps s1 (unsched s1 (HJ j))) by (apply keeps_eq; reflexivity).
    apply (keeps_trans _ _ _ K2). apply keeps_run_joiner.
    intros x Hx Hpc Hfw. destruct HR as [_ HJ].
    destruct (JI_wait _ _ HJ j x Hx Hpc Hfw) as [_ Hnr].
    apply Hnr. apply is_ready_In. exact Hen.
  - destruct (nth_error (consumers s1) c); apply keeps_eq; reflexivity.
  - destruct (nth_error (consumers s1) c) as [x|]; [|apply keeps_refl].
    destruct (c_pc x); try apply keeps_refl;
      destruct (c_fw x) as [[]|]; apply keeps_eq; reflexivity.
Qed.

Lemma reachable_step s l : reachable s -> reachable (step s l).
Proof. intros [tr ->]. exists (tr ++ [l]). symmetry. apply run_snoc. Qed.

Lemma coop_run_keeps ctr : forall s,
  reachable s -> coop_run s ctr -> keeps s (run_from s ctr).
Proof.
  induction ctr as [|l t IH]; intros s Hre Hrun; [apply keeps_refl|].
  cbn [coop_run] in Hrun. destruct Hrun as (Hco & _ & Hrest).
  rewrite run_from_cons. destruct (R_reachable _ Hre) as [m HR].
  apply (keeps_trans _ _ _ (coop_step_keeps _ _ l HR Hco)).
  apply IH; [apply reachable_step; exact Hre|exact Hrest].
Qed.

(** * (3b) join() is released iff the queue has been drained *)

Lemma released_at_rest s :
  LI s -> at_rest s -> items s = [] ->
  forall j x, nth_error (joiners s) j = Some x -> joiner_released x = true.
Proof.
  intros HL HR Hit j x Hx.
  destruct (at_rest_quiet s HL HR) as (_ & Hj & Hnb).
  assert (Hz : nblock (consumers s) = 0).
  { apply sumf_zero. intros c y Hy. unfold isblock.
    destruct (c_pc y) eqn:Hpc; try reflexivity. exfalso. exact (Hnb c y item Hy Hpc). }
  destruct HL as (H1 & _ & _ & H4). unfold CntI in H1. rewrite Hit, Hz in H1. cbn in H1.
  pose proof (Hj j x Hx) as Hn. unfold needs_run_j in Hn. unfold joiner_released.
  destruct (j_pc x) eqn:Hpc; try discriminate; [|reflexivity].
  destruct (j_fw x) as [[]|] eqn:Hfw; try discriminate.
  destruct (H4 j x Hx Hpc Hfw) as [_ Hpos]. lia.
Qed.

Theorem join_released_if_drained_at_rest : forall tr,
  at_rest (run tr) -> items (run tr) = [] ->
  forall j x, nth_error (joiners (run tr)) j = Some x -> joiner_released x = true.
Proof. intros tr. apply released_at_rest. apply LI_run. Qed.

Theorem join_released_iff_queue_drained_at_rest : forall tr0 ctr,
  coop_run (run tr0) ctr ->
  at_rest (run_from (run tr0) ctr) ->
  forall j x0,
    nth_error (joiners (run tr0)) j = Some x0 -> joiner_released x0 = false ->
    exists x, nth_error (joiners (run_from (run tr0) ctr)) j = Some x /\
              (joiner_released x = true <-> items (run_from (run tr0) ctr) = []).
Proof.
  intros tr0 ctr Hrun HR j x0 Hx0 Hr0.
  set (s' := run_from (run tr0) ctr) in *.
  assert (HL : LI s') by (apply LI_reachable, reachable_run_from, reachable_run).
  destruct (coop_run_keeps ctr _ (reachable_run tr0) Hrun) as (Klen & _ & _ & K). fold s' in Klen, K.
  destruct (nth_error_same_len _ (joiners s') j _ (eq_sym Klen) Hx0) as [x Hx].
  exists x. split; [exact Hx|]. split.
  - intros Hrel. destruct (items s') as [|k rest] eqn:Hit; [reflexivity|]. exfalso.
    assert (Hpos : 0 < unfinished s').
    { destruct HL as (H1 & _). unfold CntI in H1. rewrite Hit in H1. cbn [length] in H1. lia. }
    destruct (K Hpos j x0 Hx0 Hr0) as (x' & Hx' & Hr'). congruence.
  - intros Hit. exact (released_at_rest s' HL HR Hit j x Hx).
Qed.

(** The clean 'returns' direction: everything put so far has been taken; the environment lets
    the open blocks exit; then every [join()] caller is released. *)
Theorem join_returns_when_all_taken : forall tr0 ctr,
  items (run tr0) = [] ->
  coop_run (run tr0) ctr -> at_rest (run_from (run tr0) ctr) ->
  forall j x, nth_error (joiners (run_from (run tr0) ctr)) j = Some x ->
              joiner_released x = true.
Proof.
  intros tr0 ctr Hit Hrun HR.
  destruct (coop_run_keeps ctr _ (reachable_run tr0) Hrun) as (_ & _ & Ki & _).
  rewrite Hit in Ki. cbn [length] in Ki.
  apply released_at_rest; auto.
  - apply LI_reachable, reachable_run_from, reachable_run.
  - destruct (items (run_from (run tr0) ctr)); [reflexivity|cbn [length] in Ki; lia].
Qed.

(** * A state at rest is reached; maximal runs end at rest *)

Lemma at_restb_true s : at_restb s = true -> at_rest s.
Proof.
  unfold at_restb. destruct (ready s) as [|h0 r] eqn:Hr; [|discriminate].
  intros H. apply negb_true_iff in H. split.
  - intros h. cbn [enabled]. unfold is_ready. rewrite Hr. reflexivity.
  - intros c b. cbn [enabled]. destruct (nth_error (consumers s) c) as [x|] eqn:Hx; [|reflexivity].
    assert (Hp : in_block_pending x = false).
    { destruct (in_block_pending x) eqn:E; [|reflexivity].
      assert (existsb in_block_pending (consumers s) = true).
      { apply existsb_exists. exists x. split; [eapply nth_error_In; eauto|exact E]. }
      congruence. }
    unfold in_block_pending in Hp. destruct (c_pc x); try reflexivity.
    destruct (c_fw x) as [[]|]; try reflexivity. discriminate.
Qed.

Lemma at_restb_false s :
  at_restb s = false -> exists l, coop l = true /\ coop_eff s l = true.
Proof.
  unfold at_restb. destruct (ready s) as [|h0 r] eqn:Hr.
  - intros H. apply negb_false_iff in H. apply existsb_exists in H.
    destruct H as (x & Hin & Hp). apply In_nth_error in Hin. destruct Hin as [c Hx].
    exists (QExit c true). split; [reflexivity|]. cbn [coop_eff enabled]. rewrite Hx.
    unfold in_block_pending in Hp. destruct (c_pc x); try discriminate.
    destruct (c_fw x) as [[]|]; try discriminate. reflexivity.
  - intros _. exists (QRun h0). split; [reflexivity|]. cbn [coop_eff]. unfold is_ready.
    rewrite Hr. cbn [existsb]. rewrite handle_eqb_refl. reflexivity.
Qed.

Lemma coop_reaches_rest_aux n : forall s,
  qmeasure s <= n -> exists ctr, coop_run s ctr /\ at_rest (run_from s ctr).
Proof.
  induction n as [|n IH]; intros s Hn.
  - destruct (at_restb s) eqn:Hb.
    + exists []. split; [exact I|]. apply at_restb_true. exact Hb.
    + destruct (at_restb_false s Hb) as (l & Hco & Heff).
      pose proof (step_decreases s l Hco Heff). lia.
  - destruct (at_restb s) eqn:Hb.
    + exists []. split; [exact I|]. apply at_restb_true. exact Hb.
    + destruct (at_restb_false s Hb) as (l & Hco & Heff).
      pose proof (step_decreases s l Hco Heff) as Hlt.
      destruct (IH (step s l) ltac:(lia)) as (ctr & Hrun & HR).
      exists (l :: ctr). split; [|rewrite run_from_cons; exact HR].
      cbn [coop_run]. split; [exact Hco|]. split; [|exact Hrun].
      apply effective_iff; assumption.
Qed.

(** From ANY state the cooperative environment can bring the queue to rest. *)
Theorem coop_reaches_rest : forall s,
  exists ctr, coop_run s ctr /\ at_rest (run_from s ctr).
Proof. intros s. apply (coop_reaches_rest_aux (qmeasure s)). lia. Qed.

Lemma coop_run_app tr1 : forall s tr2,
  coop_run s tr1 -> coop_run (run_from s tr1) tr2 -> coop_run s (tr1 ++ tr2).
Proof.
  induction tr1 as [|l t IH]; intros s tr2 H1 H2; [exact H2|].
  cbn [coop_run app] in *. destruct H1 as (A & B & C). split; [exact A|]. split; [exact B|].
  apply IH; [exact C|exact H2].
Qed.

(** Every cooperative run can be extended to one that ends at rest. *)
Theorem coop_run_extends_to_rest : forall s tr,
  coop_run s tr -> exists tr', coop_run s (tr ++ tr') /\ at_rest (run_from s (tr ++ tr')).
Proof.
  intros s tr H. destruct (coop_reaches_rest (run_from s tr)) as (tr' & H1 & H2).
  exists tr'. split; [apply coop_run_app; assumption|]. rewrite run_from_app. exact H2.
Qed.

(** A cooperative run that cannot be extended ends at rest. *)
Theorem maximal_at_rest : forall s, maximal s -> at_rest s.
Proof.
  intros s Hmax. split.
  - intros h. destruct (enabled s (QRun h)) eqn:Hen; [|reflexivity]. exfalso.
    apply (Hmax (QRun h) eq_refl). apply effective_iff; [reflexivity|exact Hen].
  - intros c b. destruct (enabled s (QExit c b)) eqn:Hen; [|reflexivity]. exfalso.
    apply (Hmax (QExit c b) eq_refl). apply effective_iff; [reflexivity|exact Hen].
Qed.

(** ... and then (cancellation being cooperative) with every consumer done. *)
Theorem maximal_all_done : forall s,
  reachable s -> maximal s ->
  forall c x, nth_error (consumers s) c = Some x -> c_pc x = CDone.
Proof.
  intros s Hre Hmax c x Hx.
  destruct (at_rest_quiet s (LI_reachable s Hre) (maximal_at_rest s Hmax)) as (Hq & _ & _).
  pose proof (Hq c x Hx) as Hn.
  assert (Hc : coop_eff s (QCancel c) = false).
  { destruct (coop_eff s (QCancel c)) eqn:E; [|reflexivity]. exfalso.
    apply (Hmax (QCancel c) eq_refl). apply effective_iff; [reflexivity|exact E]. }
  cbn [coop_eff] in Hc. rewrite Hx in Hc. unfold cancel_eff in Hc. unfold needs_run_c in Hn.
  destruct (c_pc x); try reflexivity; try discriminate;
    apply orb_false_iff in Hc; destruct Hc as [Hp _]; rewrite Hp in Hn; discriminate.
Qed.

(** * The packaged statement *)

Theorem C20_join_eventually_returns : forall tr0,
  (* every cooperative run from [run tr0] is finite ... *)
  (forall ctr, coop_run (run tr0) ctr -> length ctr <= qmeasure (run tr0)) /\
  (* ... can be extended to one that ends at rest ... *)
  (forall ctr, coop_run (run tr0) ctr ->
     exists ctr', coop_run (run tr0) (ctr ++ ctr') /\
                  at_rest (run_from (run tr0) (ctr ++ ctr'))) /\
  (* ... is at rest when it cannot be extended ... *)
  (forall ctr, coop_run (run tr0) ctr -> maximal (run_from (run tr0) ctr) ->
     at_rest (run_from (run tr0) ctr)) /\
  (* ... and whenever it ends at rest: *)
  (forall ctr, coop_run (run tr0) ctr -> at_rest (run_from (run tr0) ctr) ->
     let s' := run_from (run tr0) ctr in
     (* every block has exited, every taken item has been marked *)
     (forall c x i, nth_error (consumers s') c = Some x -> c_pc x <> CInBlock i) /\
     unfinished s' = length (items s') /\
     (* a joiner blocked at the start has been released iff the queue is drained *)
     (forall j x0, nth_error (joiners (run tr0)) j = Some x0 -> joiner_released x0 = false ->
        exists x, nth_error (joiners s') j = Some x /\
                  (joiner_released x = true <-> items s' = [])) /\
     (* and if the queue is drained every joiner is released *)
     (items s' = [] ->
      forall j x, nth_error (joiners s') j = Some x -> joiner_released x = true)).
Proof.
  intros tr0. split; [apply queue_coop_bounded|].
  split; [intros ctr; apply coop_run_extends_to_rest|].
  split; [intros ctr _; apply maximal_at_rest|].
  intros ctr Hrun HR. cbv zeta.
  assert (HR' : at_rest (run (tr0 ++ ctr))) by (rewrite run_run_from; exact HR).
  destruct (taken_items_all_marked_at_rest (tr0 ++ ctr) HR') as (A & B & _).
  rewrite run_run_from in A, B.
  split; [exact A|]. split; [exact B|].
  split; [apply join_released_iff_queue_drained_at_rest; assumption|].
  intros Hit. apply released_at_rest; auto.
  apply LI_reachable, reachable_run_from, reachable_run.
Qed.

(** * Non-vacuity and counterexamples *)

(** Three items, two (looping) consumers, a join waiter.  Both consumers enter a block (items 0
    and 1), item 2 stays in the queue, the joiner blocks.  The cooperative environment then:
    cancels consumer 1 inside its block and runs it (the block exits by cancellation, item 1 is
    marked); lets the body of consumer 0 end and runs it (item 0 marked, it loops and takes
    item 2); lets that body end too and runs it (item 2 marked: [unfinished] reaches 0 and the
    join waiter is released; the consumer goes back to waiting in [get()]); runs the joiner.
    The run is cooperative, ends at rest, the queue is drained, and the joiner — blocked when the
    cooperative phase began — has returned. *)
Definition ex_setup : list label :=
  [QPut; QPut; QPut; QSpawn true; QSpawn true; QJoin; QRun (HJ 0); QRun (HC 0); QRun (HC 1)].

Definition ex_coop : list label :=
  [QCancel 1; QRun (HC 1); QExit 0 true; QRun (HC 0); QExit 0 true; QRun (HC 0); QRun (HJ 0)].

Example ex_facts :
  let s0 := run ex_setup in
  let s' := run_from s0 ex_coop in
  (map c_pc (consumers s0), items s0, unfinished s0, map joiner_released (joiners s0)) =
    ([CInBlock 0; CInBlock 1], [2], 3, [false]) /\
  coop_runb s0 ex_coop = true /\ at_restb s' = true /\
  (map c_pc (consumers s'), map c_final (consumers s'), items s', unfinished s',
   map joiner_released (joiners s'), map j_pc (joiners s')) =
    ([CWaitGet; CDone], [None; Some OCancelled], [], 0, [true], [JDone]) /\
  ok_C20 (observe (ex_setup ++ ex_coop)) = true /\
  flat_map o_events (skipn (length ex_setup) (observe (ex_setup ++ ex_coop))) =
    [EvExit 1 1 HowCancel; EvExit 0 0 HowNormal; EvEnter 0 2; EvExit 0 2 HowNormal;
     EvJoinDone 0].
Proof. vm_compute. repeat split; reflexivity. Qed.

(** The premises of the theorems are satisfied by this run, and their conclusion is the
    release of the join waiter. *)
Example ex_join_waiter_released :
  coop_run (run ex_setup) ex_coop /\
  at_rest (run_from (run ex_setup) ex_coop) /\
  exists x, nth_error (joiners (run_from (run ex_setup) ex_coop)) 0 = Some x /\
            joiner_released x = true.
Proof.
  assert (Hrun : coop_run (run ex_setup) ex_coop)
    by (apply coop_runb_sound; vm_compute; reflexivity).
  assert (HR : at_rest (run_from (run ex_setup) ex_coop))
    by (apply at_restb_true; vm_compute; reflexivity).
  split; [exact Hrun|]. split; [exact HR|].
  destruct (join_released_iff_queue_drained_at_rest ex_setup ex_coop Hrun HR 0
              {| j_pc := JWait; j_fw := Some FPending |} eq_refl eq_refl) as (x & Hx & Hiff).
  exists x. split; [exact Hx|]. apply Hiff. vm_compute. reflexivity.
Qed.

(** The same setup, but the environment only lets the two open blocks exit by cancellation: both
    consumers are done, item 2 is left in the queue, and at rest the joiner is NOT released —
    the 'only if' direction is not vacuous either. *)
Example ex_join_waiter_blocked :
  let ctr := [QCancel 0; QCancel 1; QRun (HC 0); QRun (HC 1)] in
  coop_run (run ex_setup) ctr /\
  at_rest (run_from (run ex_setup) ctr) /\
  maximal (run_from (run ex_setup) ctr) /\
  items (run_from (run ex_setup) ctr) = [2] /\
  unfinished (run_from (run ex_setup) ctr) = 1 /\
  map joiner_released (joiners (run_from (run ex_setup) ctr)) = [false].
Proof.
  cbv zeta. split; [apply coop_runb_sound; vm_compute; reflexivity|].
  split; [apply at_restb_true; vm_compute; reflexivity|].
  split; [|vm_compute; repeat split; reflexivity].
  intros l Hco Heff. apply effective_iff in Heff; [|exact Hco].
  destruct l as [|lp| |h|c b|c]; try discriminate Hco.
  - vm_compute in Heff. discriminate Heff.
  - destruct c as [|[|c]]; vm_compute in Heff; try discriminate Heff.
    destruct c; discriminate Heff.
  - destruct c as [|[|c]]; vm_compute in Heff; try discriminate Heff.
    destruct c; discriminate Heff.
Qed.

(** FINDING: the naive [iff] is false.  A joiner that went through [join()] while nothing was
    unfinished stays released; an item put afterwards stays in the queue (nobody consumes). *)
Example naive_iff_false :
  let s := run [QJoin; QRun (HJ 0); QPut] in
  at_rest s /\ maximal s /\
  (forall j x, nth_error (joiners s) j = Some x -> joiner_released x = true) /\
  items s = [0].
Proof.
  cbv zeta. split; [apply at_restb_true; vm_compute; reflexivity|].
  split; [|split; [|vm_compute; reflexivity]].
  - intros l Hco Heff. apply effective_iff in Heff; [|exact Hco].
    destruct l as [|lp| |h|c b|c]; try discriminate Hco.
    + vm_compute in Heff. discriminate Heff.
    + vm_compute in Heff. destruct c; discriminate Heff.
    + vm_compute in Heff. destruct c; discriminate Heff.
  - intros j x Hx. vm_compute in Hx. destruct j as [|j].
    + injection Hx as <-. reflexivity.
    + destruct j; discriminate.
Qed.

(** FINDING: with the model's own [enabled], "cooperative" runs can be infinite: cancelling a
    finished consumer is enabled and does nothing, as often as one likes. *)
Example enabled_runs_can_be_infinite :
  let s := run [QSpawn false; QCancel 0; QRun (HC 0)] in
  enabled s (QCancel 0) = true /\ step s (QCancel 0) = s /\
  forall n, run_from s (repeat (QCancel 0) n) = s.
Proof.
  cbv zeta.
  assert (Hs : step (run [QSpawn false; QCancel 0; QRun (HC 0)]) (QCancel 0)
               = run [QSpawn false; QCancel 0; QRun (HC 0)]) by (vm_compute; reflexivity).
  split; [vm_compute; reflexivity|]. split; [exact Hs|].
  induction n as [|n IH]; [reflexivity|].
  cbn [repeat]. rewrite run_from_cons, Hs. exact IH.
Qed.

Print Assumptions queue_coop_bounded.
Print Assumptions queue_coop_no_infinite_run.
Print Assumptions taken_items_all_marked_at_rest.
Print Assumptions join_released_iff_queue_drained_at_rest.
Print Assumptions join_released_if_drained_at_rest.
Print Assumptions join_returns_when_all_taken.
Print Assumptions coop_reaches_rest.
Print Assumptions maximal_all_done.
Print Assumptions C20_join_eventually_returns.
Print Assumptions ex_join_waiter_released.
