(** C20 as a monitor over public observations.  The same (extracted) function is evaluated on the
    observation stream of the model (theorem [C20]) and of the real implementation. *)
From TP Require Export QModel.

Inductive clause :=
| C20_item_handed_once      (* an item is handed to a block that was never put / already handed *)
| C20_exit_matches_enter    (* a block exit for an item that is not inside a block *)
| C20_task_done_once        (* item_processed() raised ValueError: marked too often *)
| C20_join_exact            (* a join() waiter is released too early / not released in time *)
| C20_qsize.                (* qsize <> put - taken *)

Record mstate := {
  m_put : nat;                   (* items put so far *)
  m_entered : list nat;          (* items handed to a block *)
  m_inblock : list nat;          (* items whose block has not exited yet *)
  m_nexited : nat;               (* number of block exits *)
  m_should : list (option bool)  (* per joiner: None = not started; Some b = must be released *)
}.

Definition m_init : mstate :=
  {| m_put := 0; m_entered := []; m_inblock := []; m_nexited := 0; m_should := [] |}.

Definition all_processed (m : mstate) : bool := Nat.eqb (m_put m) (m_nexited m).

Definition m_event (m : mstate) (e : event) : mstate + clause :=
  match e with
  | EvEnter _ i =>
      if negb (Nat.ltb i (m_put m)) || mem i (m_entered m) then inr C20_item_handed_once
      else inl {| m_put := m_put m; m_entered := i :: m_entered m; m_inblock := i :: m_inblock m;
                  m_nexited := m_nexited m; m_should := m_should m |}
  | EvExit _ i _ =>
      if mem i (m_inblock m)
      then
        let m' := {| m_put := m_put m; m_entered := m_entered m;
                     m_inblock := remove1 i (m_inblock m); m_nexited := S (m_nexited m);
                     m_should := m_should m |} in
        (* the instant everything put so far has been processed, every started joiner must be
           released *)
        inl (if all_processed m'
             then {| m_put := m_put m'; m_entered := m_entered m'; m_inblock := m_inblock m';
                     m_nexited := m_nexited m';
                     m_should := map (fun o => match o with Some _ => Some true | None => None end)
                                     (m_should m') |}
             else m')
      else inr C20_exit_matches_enter
  | EvJoinStart j =>
      inl {| m_put := m_put m; m_entered := m_entered m; m_inblock := m_inblock m;
             m_nexited := m_nexited m;
             m_should := upd (m_should m) j (Some (all_processed m)) |}
  | EvJoinDone _ => inl m
  | EvValueError _ => inr C20_task_done_once
  end.

Fixpoint m_events (m : mstate) (es : list event) : mstate + clause :=
  match es with
  | [] => inl m
  | e :: t => match m_event m e with inl m' => m_events m' t | inr c => inr c end
  end.

Fixpoint released_ok (should : list (option bool)) (rel : list bool) : bool :=
  match should, rel with
  | [], [] => true
  | None :: s, _ :: r => released_ok s r
  | Some b :: s, x :: r => Bool.eqb b x && released_ok s r
  | _, _ => false
  end.

Definition m_label (m : mstate) (en : bool) (l : label) : mstate :=
  if negb en then m else
  match l with
  | QPut => {| m_put := S (m_put m); m_entered := m_entered m; m_inblock := m_inblock m;
               m_nexited := m_nexited m; m_should := m_should m |}
  | QJoin => {| m_put := m_put m; m_entered := m_entered m; m_inblock := m_inblock m;
                m_nexited := m_nexited m; m_should := m_should m ++ [None] |}
  | _ => m
  end.

Definition m_step (m : mstate) (o : obs) : mstate + clause :=
  let m := m_label m (o_enabled o) (o_label o) in
  match m_events m (o_events o) with
  | inr c => inr c
  | inl m' =>
      if negb (released_ok (m_should m') (o_released o)) then inr C20_join_exact
      else if negb (Nat.eqb (o_qsize o + length (m_entered m')) (m_put m')) then inr C20_qsize
      else inl m'
  end.

Fixpoint m_run (m : mstate) (os : list obs) : option clause :=
  match os with
  | [] => None
  | o :: t => match m_step m o with inl m' => m_run m' t | inr c => Some c end
  end.

Definition ok_C20 (os : list obs) : bool :=
  match m_run m_init os with None => true | Some _ => false end.
