(** LIVENESS HALF OF C20 — every cooperative run is finite.

    [step_decreases]: an effective cooperative label strictly decreases [qmeasure], from EVERY
    state (no invariant needed);
    [effective_iff]: [effective s l <-> coop_eff s l = true] for cooperative labels;
    [coop_run_bounded]: a cooperative run from [s] has at most [qmeasure s] labels;
    [queue_coop_bounded]: the same from a reachable state; [queue_coop_no_infinite_run]. *)
From TP Require Export QLive.

(** * The measure under the primitive state updates *)

Lemma qm_set_evs s e : qmeasure (set_evs s e) = qmeasure s.
Proof. reflexivity. Qed.

Lemma qm_emit s e : qmeasure (emit s e) = qmeasure s.
Proof. reflexivity. Qed.

Lemma qm_set_getters s g : qmeasure (set_getters s g) = qmeasure s.
Proof. reflexivity. Qed.

Lemma qm_set_unfinished s u f : qmeasure (set_unfinished s u f) = qmeasure s.
Proof. reflexivity. Qed.

Lemma qm_sched s h : qmeasure (sched s h) = S (qmeasure s).
Proof.
  unfold qmeasure, sched, set_ready; cbn [ready items consumers joiners].
  rewrite app_length. cbn [length]. lia.
Qed.

Lemma filter_length_le {A} (p : A -> bool) l : length (filter p l) <= length l.
Proof. induction l as [|a t IH]; simpl; auto. destruct (p a); simpl; lia. Qed.

Lemma unsched_length h r :
  existsb (handle_eqb h) r = true ->
  length (filter (fun x => negb (handle_eqb h x)) r) < length r.
Proof.
  induction r as [|a t IH]; simpl; [discriminate|].
  destruct (handle_eqb h a); simpl.
  - intros _. pose proof (filter_length_le (fun x => negb (handle_eqb h x)) t). lia.
  - intros H. specialize (IH H). lia.
Qed.

Lemma qm_unsched s h : is_ready s h = true -> qmeasure (unsched s h) < qmeasure s.
Proof.
  unfold is_ready. intros H. apply unsched_length in H.
  unfold qmeasure, unsched, set_ready; cbn [ready items consumers joiners]. lia.
Qed.

Lemma qm_set_c s c a b :
  nth_error (consumers s) c = Some a ->
  qmeasure (set_c s c b) + c_weight a = qmeasure s + c_weight b.
Proof.
  intros H. pose proof (sumf_upd c_weight (consumers s) c a b H).
  unfold qmeasure, set_c, set_consumers; cbn [ready items consumers joiners]. lia.
Qed.

Lemma qm_set_j s j a b :
  nth_error (joiners s) j = Some a ->
  qmeasure (set_j s j b) + j_weight a = qmeasure s + j_weight b.
Proof.
  intros H. pose proof (sumf_upd j_weight (joiners s) j a b H).
  unfold qmeasure, set_j, set_joiners; cbn [ready items consumers joiners]. lia.
Qed.

(** * [get()] *)

Lemma qm_do_get s c x0 x :
  nth_error (consumers s) c = Some x0 -> c_mc x = false ->
  qmeasure (do_get s c x) + c_weight x0 = qmeasure s + 4.
Proof.
  intros Hx0 Hmc. unfold do_get. destruct (items s) as [|k rest] eqn:Hit.
  - rewrite qm_set_getters.
    pose proof (qm_set_c s c _ (c_with_pc (c_with_fw x (Some FPending)) CWaitGet) Hx0) as H.
    unfold c_weight in H at 2. cbn [c_with_pc c_with_fw c_pc c_fw c_mc] in H.
    rewrite Hmc in H. lia.
  - rewrite qm_emit.
    assert (Hx0' : nth_error (consumers (set_items s rest)) c = Some x0) by exact Hx0.
    pose proof (qm_set_c (set_items s rest) c _
                  (c_with_pc (c_with_fw x (Some FPending)) (CInBlock k)) Hx0') as H.
    unfold c_weight in H at 2. cbn [c_with_pc c_with_fw c_pc c_fw c_mc pending] in H.
    rewrite Hmc in H.
    assert (Hi : qmeasure (set_items s rest) + 2 = qmeasure s).
    { unfold qmeasure, set_items; cbn [ready items consumers joiners].
      rewrite Hit. cbn [length]. lia. }
    lia.
Qed.

(** * Waking up a getter *)

Lemma wakeup_next_getter_pending cs g g' c :
  wakeup_next_getter cs g = (g', Some c) ->
  exists x, nth_error cs c = Some x /\ c_fw x = Some FPending.
Proof.
  induction g as [|a t IH]; simpl; [discriminate|].
  destruct (nth_error cs a) as [x|] eqn:Hx; [|exact IH].
  destruct (c_fw x) as [[]|] eqn:Hfw; try exact IH.
  intros H. injection H as _ <-. eauto.
Qed.

Lemma c_weight_wake x :
  c_fw x = Some FPending -> c_weight (c_with_fw x (Some FResult)) <= c_weight x.
Proof.
  destruct x as [pc lp fw mc fin]. cbn [c_fw]. intros ->.
  unfold c_weight; cbn [c_with_fw c_pc c_fw c_mc pending]. destruct pc; lia.
Qed.

Lemma qm_dwn s : qmeasure (do_wakeup_next s) <= S (qmeasure s).
Proof.
  unfold do_wakeup_next.
  destruct (wakeup_next_getter (consumers s) (getters s)) as [g [c|]] eqn:Hw;
    [|rewrite qm_set_getters; lia].
  destruct (wakeup_next_getter_pending _ _ _ _ Hw) as (x & Hx & Hfw).
  change (consumers (set_getters s g)) with (consumers s). rewrite Hx.
  rewrite qm_sched.
  assert (Hx' : nth_error (consumers (set_getters s g)) c = Some x) by exact Hx.
  pose proof (qm_set_c (set_getters s g) c _ (c_with_fw x (Some FResult)) Hx') as H.
  rewrite qm_set_getters in H. pose proof (c_weight_wake x Hfw). lia.
Qed.

(** * [Event.set()] and [task_done()] *)

Lemma qm_release1 s j : qmeasure (release1 s j) <= qmeasure s.
Proof.
  unfold release1. destruct (nth_error (joiners s) j) as [x|] eqn:Hx; [|lia].
  destruct (j_fw x) as [[]|] eqn:Hfw; try lia.
  rewrite qm_sched.
  pose proof (qm_set_j s j _ {| j_pc := j_pc x; j_fw := Some FResult |} Hx) as H.
  unfold j_weight in H. cbn [j_pc j_fw pending] in H. rewrite Hfw in H. cbn [pending] in H. lia.
Qed.

Lemma qm_release js : forall s, qmeasure (release_joiners s js) <= qmeasure s.
Proof.
  induction js as [|j t IH]; intros s; [simpl; lia|].
  rewrite release_joiners_cons. pose proof (IH (release1 s j)). pose proof (qm_release1 s j). lia.
Qed.

Lemma task_done_facts s s2 :
  task_done s = Some s2 ->
  consumers s2 = consumers s /\ items s2 = items s /\ S (unfinished s2) = unfinished s /\
  evs s2 = evs s /\ qmeasure s2 <= qmeasure s.
Proof.
  unfold task_done. destruct (unfinished s) as [|u] eqn:Hu; [discriminate|].
  destruct (Nat.eqb_spec u 0) as [->|Hne]; intros H; injection H as <-.
  - destruct (release_spec (jwaiters s) (set_unfinished s 0 true)) as ([Q1 Q2 Q3 Q4 Q5 Q6] & _).
    pose proof (qm_release (jwaiters s) (set_unfinished s 0 true)) as Hq.
    rewrite qm_set_unfinished in Hq.
    repeat split; auto.
  - repeat split; auto.
Qed.

(** * Running a consumer *)

Lemma c_weight_finish x o : c_weight (c_finish x o) = 0.
Proof. reflexivity. Qed.

Lemma qm_exit_block s c x0 x i inp :
  nth_error (consumers s) c = Some x0 -> c_mc x = false ->
  (inp = InOk -> 4 <= c_weight x0) ->
  qmeasure (exit_block s c x i inp) <= qmeasure s.
Proof.
  intros Hx0 Hmc Hw. unfold exit_block. cbv zeta.
  set (e := EvExit c i _). set (s1 := emit s e).
  assert (Hx1 : nth_error (consumers s1) c = Some x0) by exact Hx0.
  destruct (task_done s1) as [s2|] eqn:Htd.
  - destruct (task_done_facts _ _ Htd) as (Hc2 & _ & _ & _ & Hq2).
    change (qmeasure s1) with (qmeasure s) in Hq2.
    assert (Hx2 : nth_error (consumers s2) c = Some x0) by (rewrite Hc2; exact Hx1).
    assert (Hfin : forall o, qmeasure (set_c s2 c (c_finish x o)) <= qmeasure s).
    { intros o. pose proof (qm_set_c s2 c _ (c_finish x o) Hx2) as H.
      rewrite c_weight_finish in H. lia. }
    destruct inp; auto.
    destruct (c_loops x); auto.
    pose proof (qm_do_get s2 c _ x Hx2 Hmc). specialize (Hw eq_refl). lia.
  - rewrite qm_emit. pose proof (qm_set_c s1 c _ (c_finish x OExc) Hx1) as H.
    rewrite c_weight_finish in H. change (qmeasure s1) with (qmeasure s) in H. lia.
Qed.

Lemma c_weight_ok x :
  c_pc x <> CDone -> task_input (c_mc x) (c_fw x) <> InCancel -> 4 <= c_weight x.
Proof.
  destruct x as [pc lp fw mc fin]. cbn [c_pc c_mc c_fw]. unfold task_input, c_weight.
  cbn [c_pc c_mc c_fw]. intros Hpc Hin.
  destruct mc; [congruence|].
  destruct pc; try congruence; destruct fw as [[]|]; cbn [pending]; try lia; congruence.
Qed.

Lemma c_weight_pos x : c_pc x <> CDone -> 1 <= c_weight x.
Proof.
  destruct x as [pc lp fw mc fin]. cbn [c_pc]. unfold c_weight. cbn [c_pc c_mc c_fw].
  intros Hpc. destruct pc; try congruence; destruct fw as [[]|]; cbn [pending]; lia.
Qed.

Lemma qm_run_consumer s c : qmeasure (run_consumer s c) <= qmeasure s.
Proof.
  unfold run_consumer. destruct (nth_error (consumers s) c) as [x0|] eqn:Hx0; [|lia].
  cbv zeta. set (x := c_with_mc (c_with_fw x0 None) false).
  assert (Hmc : c_mc x = false) by reflexivity.
  assert (Hget : c_pc x0 <> CDone -> task_input (c_mc x0) (c_fw x0) <> InCancel ->
                 qmeasure (do_get s c x) <= qmeasure s).
  { intros Hpc Hin. pose proof (qm_do_get s c _ x Hx0 Hmc). pose proof (c_weight_ok x0 Hpc Hin).
    lia. }
  assert (Hfin : forall o, qmeasure (set_c s c (c_finish x o)) + c_weight x0 = qmeasure s).
  { intros o. pose proof (qm_set_c s c _ (c_finish x o) Hx0) as H.
    rewrite c_weight_finish in H. lia. }
  destruct (c_pc x0) as [| |i|] eqn:Hpc.
  - destruct (task_input (c_mc x0) (c_fw x0)) eqn:Hin;
      try (apply Hget; congruence).
    pose proof (Hfin OCancelled). lia.
  - destruct (task_input (c_mc x0) (c_fw x0)) eqn:Hin;
      try (apply Hget; congruence).
    set (s1 := set_getters s (remove1 c (getters s))).
    assert (Hx1 : nth_error (consumers s1) c = Some x0) by exact Hx0.
    pose proof (qm_set_c s1 c _ (c_finish x OCancelled) Hx1) as H.
    rewrite c_weight_finish in H. change (qmeasure s1) with (qmeasure s) in H.
    assert (Hpos : 1 <= c_weight x0) by (apply c_weight_pos; congruence).
    destruct (items (set_c s1 c (c_finish x OCancelled))); [lia|].
    destruct (match c_fw x0 with Some FCancelled => true | _ => false end); [lia|].
    pose proof (qm_dwn (set_c s1 c (c_finish x OCancelled))). lia.
  - apply (qm_exit_block s c _ x i _ Hx0 Hmc).
    intros Hin. apply c_weight_ok; congruence.
  - lia.
Qed.

(** * Running a joiner *)

Lemma qm_run_joiner s j : qmeasure (run_joiner s j) <= qmeasure s.
Proof.
  unfold run_joiner. destruct (nth_error (joiners s) j) as [x|] eqn:Hx; [|lia].
  destruct (j_pc x) eqn:Hpc.
  - cbv zeta. destruct (Nat.ltb 0 (unfinished (emit s (EvJoinStart j)))).
    + assert (Hx1 : nth_error (joiners (emit s (EvJoinStart j))) j = Some x) by exact Hx.
      pose proof (qm_set_j _ j _ {| j_pc := JWait; j_fw := Some FPending |} Hx1) as H.
      rewrite qm_emit in H. unfold j_weight in H. rewrite Hpc in H. cbn [j_pc j_fw pending] in H.
      match goal with |- qmeasure ?t <= _ =>
        change (qmeasure t) with
          (qmeasure (set_j (emit s (EvJoinStart j)) j {| j_pc := JWait; j_fw := Some FPending |}))
      end.
      lia.
    + rewrite qm_emit.
      assert (Hx1 : nth_error (joiners (emit s (EvJoinStart j))) j = Some x) by exact Hx.
      pose proof (qm_set_j _ j _ {| j_pc := JDone; j_fw := None |} Hx1) as H.
      rewrite qm_emit in H. unfold j_weight in H at 2. cbn [j_pc j_fw pending] in H. lia.
  - cbv zeta. rewrite qm_emit.
    pose proof (qm_set_j s j _ {| j_pc := JDone; j_fw := None |} Hx) as H.
    unfold j_weight in H at 2. cbn [j_pc j_fw pending] in H.
    match goal with |- qmeasure ?t <= _ =>
      change (qmeasure t) with (qmeasure (set_j s j {| j_pc := JDone; j_fw := None |}))
    end.
    lia.
  - lia.
Qed.

(** * One effective cooperative step *)

Lemma c_weight_exit x i f :
  c_pc x = CInBlock i -> c_fw x = Some FPending -> f <> FPending ->
  c_weight (c_with_fw x (Some f)) + 2 <= c_weight x.
Proof.
  destruct x as [pc lp fw mc fin]. cbn [c_pc c_fw]. intros -> -> Hf.
  unfold c_weight; cbn [c_with_fw c_pc c_fw c_mc pending].
  destruct f; try congruence; cbn; lia.
Qed.

Lemma c_weight_cancel_fut x :
  c_pc x <> CDone -> c_fw x = Some FPending ->
  c_weight (c_with_fw x (Some FCancelled)) + 2 <= c_weight x.
Proof.
  destruct x as [pc lp fw mc fin]. cbn [c_pc c_fw]. intros Hpc ->.
  unfold c_weight; cbn [c_with_fw c_pc c_fw c_mc pending].
  destruct pc; try congruence; lia.
Qed.

Lemma c_weight_cancel_mc x :
  c_pc x <> CDone -> c_mc x = false -> c_weight (c_with_mc x true) + 1 = c_weight x.
Proof.
  destruct x as [pc lp fw mc fin]. cbn [c_pc c_mc]. intros Hpc ->.
  unfold c_weight; cbn [c_with_mc c_pc c_fw c_mc].
  destruct pc; try congruence; lia.
Qed.

Theorem step_decreases s l :
  coop l = true -> coop_eff s l = true -> qmeasure (step s l) < qmeasure s.
Proof.
  intros Hco Heff. unfold step. cbv zeta.
  set (s1 := set_evs s []).
  assert (Hq1 : qmeasure s1 = qmeasure s) by reflexivity.
  destruct l as [|lp| |[c|j]|c b|c]; try discriminate; cbn [coop_eff] in Heff.
  - (* QRun (HC c) *)
    change (enabled s1 (QRun (HC c))) with (is_ready s (HC c)). rewrite Heff. cbn [negb].
    pose proof (qm_run_consumer (unsched s1 (HC c)) c).
    pose proof (qm_unsched s1 (HC c) Heff). lia.
  - (* QRun (HJ j) *)
    change (enabled s1 (QRun (HJ j))) with (is_ready s (HJ j)). rewrite Heff. cbn [negb].
    pose proof (qm_run_joiner (unsched s1 (HJ j)) j).
    pose proof (qm_unsched s1 (HJ j) Heff). lia.
  - (* QExit *)
    change (enabled s1 (QExit c b)) with (enabled s (QExit c b)). rewrite Heff. cbn [negb].
    cbn [enabled] in Heff. change (consumers s1) with (consumers s).
    destruct (nth_error (consumers s) c) as [x|] eqn:Hx; [|discriminate].
    destruct (c_pc x) as [| |i|] eqn:Hpc; try discriminate.
    destruct (c_fw x) as [[]|] eqn:Hfw; try discriminate.
    rewrite qm_sched.
    assert (Hx1 : nth_error (consumers s1) c = Some x) by exact Hx.
    pose proof (qm_set_c s1 c _ (c_with_fw x (Some (if b then FResult else FExcept))) Hx1) as H.
    assert (Hf : (if b then FResult else FExcept) <> FPending) by (destruct b; discriminate).
    pose proof (c_weight_exit x _ _ Hpc Hfw Hf). lia.
  - (* QCancel *)
    destruct (nth_error (consumers s) c) as [x|] eqn:Hx; [|discriminate].
    assert (Hen : enabled s1 (QCancel c) = true).
    { cbn [enabled]. apply Nat.ltb_lt. apply nth_error_Some.
      change (consumers s1) with (consumers s). congruence. }
    rewrite Hen. cbn [negb]. change (consumers s1) with (consumers s). rewrite Hx.
    assert (Hx1 : nth_error (consumers s1) c = Some x) by exact Hx.
    unfold cancel_eff in Heff.
    assert (Hpc : c_pc x <> CDone) by (intros E; rewrite E in Heff; discriminate).
    assert (Hor : pending (c_fw x) || negb (c_mc x) = true) by (destruct (c_pc x); congruence).
    assert (Hgoal :
      qmeasure (match c_fw x with
                | Some FPending => sched (set_c s1 c (c_with_fw x (Some FCancelled))) (HC c)
                | _ => set_c s1 c (c_with_mc x true)
                end) < qmeasure s).
    { destruct (c_fw x) as [f|] eqn:Hfw.
      - destruct f; cbn [pending orb] in Hor.
        + rewrite qm_sched.
          pose proof (qm_set_c s1 c _ (c_with_fw x (Some FCancelled)) Hx1).
          pose proof (c_weight_cancel_fut x Hpc Hfw). lia.
        + apply negb_true_iff in Hor. pose proof (qm_set_c s1 c _ (c_with_mc x true) Hx1).
          pose proof (c_weight_cancel_mc x Hpc Hor). lia.
        + apply negb_true_iff in Hor. pose proof (qm_set_c s1 c _ (c_with_mc x true) Hx1).
          pose proof (c_weight_cancel_mc x Hpc Hor). lia.
        + apply negb_true_iff in Hor. pose proof (qm_set_c s1 c _ (c_with_mc x true) Hx1).
          pose proof (c_weight_cancel_mc x Hpc Hor). lia.
      - cbn [pending orb] in Hor.
        apply negb_true_iff in Hor. pose proof (qm_set_c s1 c _ (c_with_mc x true) Hx1).
        pose proof (c_weight_cancel_mc x Hpc Hor). lia. }
    destruct (c_pc x); try congruence; exact Hgoal.
Qed.

(** * [effective] is [coop_eff] *)

Lemma c_with_mc_same x : c_mc x = true -> c_with_mc x true = x.
Proof. destruct x as [pc lp fw mc fin]. cbn [c_mc]. intros ->. reflexivity. Qed.

Lemma noneff_same s l :
  coop l = true -> enabled s l = true -> coop_eff s l = false ->
  set_evs (step s l) [] = set_evs s [].
Proof.
  intros Hco Hen Heff.
  destruct l as [|lp| |h|c b|c]; try discriminate; cbn [coop_eff] in Heff.
  - cbn [enabled] in Hen. congruence.
  - congruence.
  - unfold step. cbv zeta. set (s1 := set_evs s []).
    change (enabled s1 (QCancel c)) with (enabled s (QCancel c)). rewrite Hen. cbn [negb].
    change (consumers s1) with (consumers s).
    destruct (nth_error (consumers s) c) as [x|] eqn:Hx; [|reflexivity].
    unfold cancel_eff in Heff.
    destruct (c_pc x) eqn:Hpc; try reflexivity;
      apply orb_false_iff in Heff; destruct Heff as [Hp Hm]; apply negb_false_iff in Hm;
      (destruct (c_fw x) as [[]|] eqn:Hfw; try discriminate;
       rewrite (c_with_mc_same x Hm); unfold set_c, set_consumers;
       change (consumers s1) with (consumers s); rewrite (upd_same _ _ _ Hx); reflexivity).
Qed.

Theorem effective_iff s l :
  coop l = true -> (effective s l <-> coop_eff s l = true).
Proof.
  intros Hco. split.
  - intros [Hen Hch]. destruct (coop_eff s l) eqn:Heff; [reflexivity|].
    exfalso. apply Hch. apply noneff_same; assumption.
  - intros Heff. split.
    + destruct l as [|lp| |h|c b|c]; try discriminate; cbn [coop_eff] in Heff; try exact Heff.
      cbn [enabled]. apply Nat.ltb_lt. apply nth_error_Some.
      destruct (nth_error (consumers s) c); congruence.
    + intros Heq. pose proof (step_decreases s l Hco Heff) as Hlt.
      assert (Hq : qmeasure (set_evs (step s l) []) = qmeasure (set_evs s [])) by (f_equal; exact Heq).
      rewrite !qm_set_evs in Hq. lia.
Qed.

Lemma coop_runb_sound tr : forall s, coop_runb s tr = true -> coop_run s tr.
Proof.
  induction tr as [|l t IH]; intros s H; cbn [coop_runb coop_run] in *; [exact I|].
  apply andb_true_iff in H. destruct H as [H H3]. apply andb_true_iff in H. destruct H as [H1 H2].
  split; [exact H1|]. split; [apply effective_iff; assumption|]. apply IH. exact H3.
Qed.

(** * Every cooperative run is finite *)

Theorem coop_run_bounded tr : forall s,
  coop_run s tr -> length tr + qmeasure (run_from s tr) <= qmeasure s.
Proof.
  induction tr as [|l t IH]; intros s H; cbn [coop_run] in H.
  - simpl. lia.
  - destruct H as (Hco & Heff & Hrest).
    apply effective_iff in Heff; [|exact Hco].
    pose proof (step_decreases s l Hco Heff). specialize (IH _ Hrest).
    rewrite run_from_cons. cbn [length]. lia.
Qed.

(** (2) of the task: every cooperative run from a reachable state is finite; explicit bound. *)
Theorem queue_coop_bounded : forall tr0 tr,
  coop_run (run tr0) tr -> length tr <= qmeasure (run tr0).
Proof. intros tr0 tr H. pose proof (coop_run_bounded tr _ H). lia. Qed.

(** There is no infinite cooperative run (as a stream of labels all of whose finite prefixes are
    cooperative runs) — from ANY state. *)
Theorem queue_coop_no_infinite_run : forall s (f : nat -> label),
  ~ (forall n, coop_run s (map f (seq 0 n))).
Proof.
  intros s f H. specialize (H (S (qmeasure s))).
  pose proof (coop_run_bounded _ _ H) as Hb. rewrite map_length, seq_length in Hb. lia.
Qed.
