(** LIVENESS HALF OF C20 — definitions.

    C20 (safety, QProofs.v) says that [join()] is released *exactly when* everything put so far has
    been taken and its block has exited.  This file sets up the eventuality: a *cooperative
    environment* for the queue model, the notion of a cooperative run, the termination measure and
    the predicate "at rest".  The theorems are in QLiveMeasure.v (every cooperative run is finite),
    QLiveInv.v (the invariant of reachable states) and QLiveThm.v (what holds at rest).

    ** Classification of [QModel.label]

      - [QPut]            NOT cooperative: a new item.  It raises [unfinished] and re-arms the
                          [_finished] event; an environment that keeps putting can keep [join()]
                          blocked for ever, legitimately.
      - [QSpawn loops]    NOT cooperative: a new consumer.  (Without it the items nobody is waiting
                          for stay in the queue: that is the [iff] of the theorem.)
      - [QJoin]           NOT cooperative: a new [join()] caller.
      - [QRun h]          cooperative: the event loop runs a ready handle (a consumer or a joiner
                          resumes).  This is how a waiting consumer is *resumed*: a getter that was
                          woken ([FResult]) or cancelled is in [ready] and [QRun (HC c)] runs it.
      - [QExit c normal]  cooperative: the body of the block of consumer [c] ends — normally
                          ([normal = true]) or by an exception ([false]); [__aexit__] then runs at
                          the next [QRun (HC c)].
      - [QCancel c]       cooperative: [Task.cancel()] on consumer [c] — the third way to leave a
                          block; on a consumer waiting in [get()] it makes the getter give up.
                          It starts nothing new.  It is *permitted* to the environment but never
                          *demanded* of it (see [at_rest] below).

    ** Enabled vs. effective

    [QModel.enabled] says [QCancel c] is enabled for every existing consumer, including one that
    is already done — where it is a no-op (CPython: [cancel()] returns [False]).  With the model's
    own notion a cooperative run can therefore be infinite ([enabled_runs_can_be_infinite],
    QLiveThm.v).  So a step of a cooperative run has to be *effective*: the label is enabled and
    the step changes the state (the event log [evs], which every step resets, apart).
    [coop_eff] is the executable characterisation ([effective_iff], QLiveMeasure.v):
      [QRun h]     the handle is ready;
      [QExit c _]  [c] is inside a block and its body has not ended yet;
      [QCancel c]  [c] is not done and either awaits a pending future (which gets cancelled) or
                   has no cancellation pending yet ([_must_cancel] is set).

    ** At rest

    [at_rest s]: no handle is ready and no block body is still running, i.e. no [QRun _] and no
    [QExit _ _] is enabled.  Cancellation is optional: a consumer suspended in [get()] on an empty
    queue may stay there for ever.  A *maximal* cooperative run (no cooperative label effective,
    [maximal]) ends at rest ([maximal_at_rest]) — and then, because [QCancel] would still be
    effective on any consumer that is not done, with every consumer done; the theorems are proved
    under the weaker premise [at_rest], hence hold for both readings of "maximal". *)
From TP Require Export QProofs.

(** ** The cooperative environment *)

Definition coop (l : label) : bool :=
  match l with
  | QRun _ | QExit _ _ | QCancel _ => true
  | QPut | QSpawn _ | QJoin => false
  end.

(** The step changes the state, the event log apart. *)
Definition effective (s : qstate) (l : label) : Prop :=
  enabled s l = true /\ set_evs (step s l) [] <> set_evs s [].

Definition pending (f : option fut) : bool :=
  match f with Some FPending => true | _ => false end.

Definition cancel_eff (x : consumer) : bool :=
  match c_pc x with
  | CDone => false
  | _ => pending (c_fw x) || negb (c_mc x)
  end.

Definition coop_eff (s : qstate) (l : label) : bool :=
  match l with
  | QRun h => is_ready s h
  | QExit c b => enabled s (QExit c b)
  | QCancel c =>
      match nth_error (consumers s) c with Some x => cancel_eff x | None => false end
  | QPut | QSpawn _ | QJoin => false
  end.

(** A cooperative run from [s]: every label is cooperative and effective where it fires. *)
Fixpoint coop_run (s : qstate) (tr : list label) : Prop :=
  match tr with
  | [] => True
  | l :: t => coop l = true /\ effective s l /\ coop_run (step s l) t
  end.

(** Executable version (for the examples; [coop_runb_sound], QLiveMeasure.v). *)
Fixpoint coop_runb (s : qstate) (tr : list label) : bool :=
  match tr with
  | [] => true
  | l :: t => coop l && coop_eff s l && coop_runb (step s l) t
  end.

Definition run_from (s : qstate) (tr : list label) : qstate := fold_left step tr s.

Definition reachable (s : qstate) : Prop := exists tr, s = run tr.

(** No cooperative label is effective. *)
Definition maximal (s : qstate) : Prop := forall l, coop l = true -> ~ effective s l.

(** Nothing is runnable and no block body is still running (cancellation is not demanded). *)
Definition at_rest (s : qstate) : Prop :=
  (forall h, enabled s (QRun h) = false) /\ (forall c b, enabled s (QExit c b) = false).

Definition in_block_pending (x : consumer) : bool :=
  match c_pc x with CInBlock _ => pending (c_fw x) | _ => false end.

Definition at_restb (s : qstate) : bool :=
  match ready s with [] => negb (existsb in_block_pending (consumers s)) | _ => false end.

(** ** The termination measure

    [qmeasure s] = number of ready handles
                 + 2 * number of items in the queue
                 + sum of the consumers' weights + sum of the joiners' weights.

    A consumer that is done weighs 0.  Otherwise it weighs 1 if no cancellation is pending on it
    ([_must_cancel] unset: one more [QCancel] can still set it), plus
      - not started:        3 (5 if it awaited a pending future — not reachable);
      - waiting in [get()]: 3, but 1 once its getter future is cancelled (all it can do is die);
      - inside a block:     5 while the body runs (pending gate), 3 once the body has ended.
    A joiner weighs 2 if it has not started, plus 2 if it awaits a pending future.

    Why it decreases:
      - [QExit] / [QCancel] on a pending future: the future is resolved (-2) and one handle
        becomes ready (+1); [QCancel] otherwise sets [_must_cancel] (-1).
      - [QRun h] removes [h] from [ready] (-1).  A joiner then only loses weight.  A consumer
        either dies (its weight, >= 1, is released: that pays for the one getter it may wake up
        when it was cancelled after having been handed a wake-up), or it goes back to waiting
        (weight 4 -> 4), or it enters a block (4 -> 6, paid by the item it takes: -2).
        A block exit may release join waiters: each goes from pending to resolved (-2) and
        becomes ready (+1).
    No invariant is needed: the measure decreases from EVERY state. *)

Fixpoint sumf {A : Type} (f : A -> nat) (l : list A) : nat :=
  match l with
  | [] => 0
  | h :: t => f h + sumf f t
  end.

Definition c_weight (x : consumer) : nat :=
  match c_pc x with
  | CDone => 0
  | CNotStarted => (if pending (c_fw x) then 5 else 3) + (if c_mc x then 0 else 1)
  | CWaitGet =>
      (match c_fw x with Some FCancelled => 1 | _ => 3 end) + (if c_mc x then 0 else 1)
  | CInBlock _ => (if pending (c_fw x) then 5 else 3) + (if c_mc x then 0 else 1)
  end.

Definition j_weight (x : joiner) : nat :=
  (match j_pc x with JNotStarted => 2 | _ => 0 end) + (if pending (j_fw x) then 2 else 0).

Definition qmeasure (s : qstate) : nat :=
  length (ready s) + 2 * length (items s)
  + sumf c_weight (consumers s) + sumf j_weight (joiners s).

(** ** Generic facts about [sumf] and [run_from] *)

Lemma sumf_app {A} (f : A -> nat) l1 l2 : sumf f (l1 ++ l2) = sumf f l1 + sumf f l2.
Proof. induction l1 as [|h t IH]; simpl; auto. rewrite IH. lia. Qed.

Lemma sumf_upd {A} (f : A -> nat) (l : list A) n a b :
  nth_error l n = Some a -> sumf f (upd l n b) + f a = sumf f l + f b.
Proof.
  revert n; induction l as [|h t IH]; intros [|n] H; simpl in *; try discriminate.
  - injection H as ->. lia.
  - specialize (IH n H). lia.
Qed.

Lemma sumf_ge_nth {A} (f : A -> nat) (l : list A) n a :
  nth_error l n = Some a -> f a <= sumf f l.
Proof.
  revert n; induction l as [|h t IH]; intros [|n] H; simpl in *; try discriminate.
  - injection H as ->. lia.
  - specialize (IH n H). lia.
Qed.

Lemma sumf_zero {A} (f : A -> nat) (l : list A) :
  (forall n a, nth_error l n = Some a -> f a = 0) -> sumf f l = 0.
Proof.
  induction l as [|h t IH]; intros H; simpl; auto.
  rewrite (H 0 h eq_refl). rewrite IH; auto.
  intros n a Hn. exact (H (S n) a Hn).
Qed.

Lemma upd_same {A} (l : list A) n a : nth_error l n = Some a -> upd l n a = l.
Proof.
  revert n; induction l as [|h t IH]; intros [|n] H; simpl in *; try discriminate.
  - injection H as ->. reflexivity.
  - f_equal. apply IH. exact H.
Qed.

Lemma run_from_app s tr1 tr2 : run_from s (tr1 ++ tr2) = run_from (run_from s tr1) tr2.
Proof. unfold run_from. apply fold_left_app. Qed.

Lemma run_from_cons s l tr : run_from s (l :: tr) = run_from (step s l) tr.
Proof. reflexivity. Qed.

Lemma run_run_from tr0 tr : run (tr0 ++ tr) = run_from (run tr0) tr.
Proof. unfold run, run_from. apply fold_left_app. Qed.

Lemma reachable_run tr : reachable (run tr).
Proof. exists tr. reflexivity. Qed.

Lemma reachable_run_from s tr : reachable s -> reachable (run_from s tr).
Proof. intros [tr0 ->]. exists (tr0 ++ tr). symmetry. apply run_run_from. Qed.
