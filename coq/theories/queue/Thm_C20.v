From TP Require Import QProofs.

Theorem C20 : forall tr : list label, ok_C20 (observe tr) = true.
Proof. exact C20_proof. Qed.

Print Assumptions C20.

(* Non-vacuity 1: a concrete trace (two puts, a looping and two one-shot consumers, a joiner that
   has to wait, a disabled label, blocks left normally / by an exception / by cancellation, a
   getter woken by a later put, a second joiner that passes straight through, a cancelled getter).
   The monitor accepts it, and the events it consumed are exactly the listed ones, so it went
   through entering, exiting in all three ways, and releasing a waiting joiner. *)
Example C20_accepts_concrete_trace :
  let os := observe
    [QPut; QPut; QSpawn true; QSpawn false; QSpawn false; QJoin;
     QRun (HJ 0); QRun (HC 0); QRun (HC 1); QRun (HC 2); QRun (HC 7);
     QExit 0 true; QRun (HC 0); QExit 1 false; QRun (HC 1); QRun (HJ 0);
     QPut; QRun (HC 2); QCancel 2; QRun (HC 2);
     QJoin; QRun (HJ 1); QCancel 0; QRun (HC 0)] in
  (ok_C20 os, flat_map o_events os, map o_released (skipn 13 os)) =
  (true,
   [EvJoinStart 0; EvEnter 0 0; EvEnter 1 1; EvExit 0 0 HowNormal; EvExit 1 1 HowExc;
    EvJoinDone 0; EvEnter 2 2; EvExit 2 2 HowCancel; EvJoinStart 1; EvJoinDone 1],
   [[false]; [true]; [true]; [true]; [true]; [true]; [true]; [true; false]; [true; true];
    [true; true]; [true; true]]).
Proof. vm_compute; reflexivity. Qed.

(* Non-vacuity 2: a hand-written bad stream.  One item is put, a joiner starts waiting, a consumer
   enters its block with the item -- and in that very observation the joiner is reported released
   although the item is still inside the block.  The monitor rejects it. *)
Example C20_rejects_early_join_release :
  ok_C20
    [ {| o_enabled := true; o_label := QPut; o_qsize := 1; o_ready_empty := true;
         o_released := []; o_events := [] |};
      {| o_enabled := true; o_label := QSpawn false; o_qsize := 1; o_ready_empty := false;
         o_released := []; o_events := [] |};
      {| o_enabled := true; o_label := QJoin; o_qsize := 1; o_ready_empty := false;
         o_released := [false]; o_events := [] |};
      {| o_enabled := true; o_label := QRun (HJ 0); o_qsize := 1; o_ready_empty := false;
         o_released := [false]; o_events := [EvJoinStart 0] |};
      {| o_enabled := true; o_label := QRun (HC 0); o_qsize := 0; o_ready_empty := true;
         o_released := [true]; o_events := [EvEnter 0 0] |} ] = false.
Proof. vm_compute; reflexivity. Qed.
