From TP Require Import QProofs.

Theorem C20 : forall tr : list label, ok_C20 (observe tr) = true.
Proof. exact C20_proof. Qed.

(** The liveness half ("Hence join() returns ..."): under a cooperative environment for the
    queue (ready handles run, blocks exit - normally, by exception or by cancellation - but no new
    put / consumer / join) every run is finite, extends to rest, and at rest every block has
    exited, every taken item has been marked (unfinished = items still queued) and a joiner that
    was blocked has been released iff the queue is drained.  (QLiveThm.v also records why the
    naive "released iff drained" for ALL joiners is false: a joiner that returned earlier stays
    returned after later puts.) *)
From TP Require QLive QLiveMeasure QLiveInv QLiveThm.
Theorem C20_join_eventually_returns : forall tr0,
  (forall ctr, QLive.coop_run (run tr0) ctr -> length ctr <= QLive.qmeasure (run tr0)) /\
  (forall ctr, QLive.coop_run (run tr0) ctr ->
     exists ctr', QLive.coop_run (run tr0) (ctr ++ ctr') /\
                  QLive.at_rest (QLive.run_from (run tr0) (ctr ++ ctr'))) /\
  (forall ctr, QLive.coop_run (run tr0) ctr -> QLive.at_rest (QLive.run_from (run tr0) ctr) ->
     let s' := QLive.run_from (run tr0) ctr in
     (forall c x i, nth_error (consumers s') c = Some x -> c_pc x <> CInBlock i) /\
     unfinished s' = length (items s') /\
     (forall j x0, nth_error (joiners (run tr0)) j = Some x0 -> joiner_released x0 = false ->
        exists x, nth_error (joiners s') j = Some x /\
                  (joiner_released x = true <-> items s' = [])) /\
     (items s' = [] ->
      forall j x, nth_error (joiners s') j = Some x -> joiner_released x = true)).
Proof.
  intros tr0. destruct (QLiveThm.C20_join_eventually_returns tr0) as (A & B & _ & D).
  split; [exact A|]. split; [exact B|exact D].
Qed.

Print Assumptions C20.

(* Non-vacuity 1: a concrete trace (two puts, a looping and two one-shot consumers, a joiner that
   has to wait, a disabled label, blocks left normally / by an exception / by cancellation, a
   getter woken by a later put, a second joiner that passes straight through, a cancelled getter).
   The monitor accepts it, and the events it consumed are exactly the listed ones, so it went
   through entering, exiting in all three ways, and releasing a waiting joiner. *)
Example C20_accepts_concrete_trace :
  let os := observe
    [QPut; QPut; QSpawn true; QSpawn false; QSpawn false; QJoin;
     QRun (HJ 0); QRun (HC 0); QRun (HC 1); QRun (HC 2); QRun (HC 7);
     QExit 0 true; QRun (HC 0); QExit 1 false; QRun (HC 1); QRun (HJ 0);
     QPut; QRun (HC 2); QCancel 2; QRun (HC 2);
     QJoin; QRun (HJ 1); QCancel 0; QRun (HC 0)] in
  (ok_C20 os, flat_map o_events os, map o_released (skipn 13 os)) =
  (true,
   [EvJoinStart 0; EvEnter 0 0; EvEnter 1 1; EvExit 0 0 HowNormal; EvExit 1 1 HowExc;
    EvJoinDone 0; EvEnter 2 2; EvExit 2 2 HowCancel; EvJoinStart 1; EvJoinDone 1],
   [[false]; [true]; [true]; [true]; [true]; [true]; [true]; [true; false]; [true; true];
    [true; true]; [true; true]]).
Proof. vm_compute; reflexivity. Qed.

(* Non-vacuity 2: a hand-written bad stream.  One item is put, a joiner starts waiting, a consumer
   enters its block with the item -- and in that very observation the joiner is reported released
   although the item is still inside the block.  The monitor rejects it. *)
Example C20_rejects_early_join_release :
  ok_C20
    [ {| o_enabled := true; o_label := QPut; o_qsize := 1; o_ready_empty := true;
         o_released := []; o_events := [] |};
      {| o_enabled := true; o_label := QSpawn false; o_qsize := 1; o_ready_empty := false;
         o_released := []; o_events := [] |};
      {| o_enabled := true; o_label := QJoin; o_qsize := 1; o_ready_empty := false;
         o_released := [false]; o_events := [] |};
      {| o_enabled := true; o_label := QRun (HJ 0); o_qsize := 1; o_ready_empty := false;
         o_released := [false]; o_events := [EvJoinStart 0] |};
      {| o_enabled := true; o_label := QRun (HC 0); o_qsize := 0; o_ready_empty := true;
         o_released := [true]; o_events := [EvEnter 0 0] |} ] = false.
Proof. vm_compute; reflexivity. Qed.
Print Assumptions C20_join_eventually_returns.
