(** LIVENESS HALF OF C20 — the invariant of reachable states used at rest.

    [LI s]:
      - [CntI]  [unfinished s = length (items s) + number of consumers inside a block]
                (every item put is marked, in the queue, or held by exactly one open block);
      - [CRun]  a consumer that has something to do (not started, or resumed: the future it awaits
                is no longer pending) has its handle in [ready] — no lost wake-up;
      - [JRun]  the same for joiners;
      - [JwI]   a joiner still blocked in [join()] is registered in the event's waiter list, and
                then [unfinished > 0].

    [LIx (Some h)] is the same with the obligations [CRun]/[JRun] waived for the handle [h] that
    has just been popped from [ready] and is being run.

    [LI_run : forall tr, LI (run tr)];  [R_run : forall tr, exists m, R (run tr) m] (the simulation
    relation of QProofs.v holds along every run, with the monitor state it has reached:
    [m_state_run]). *)
From TP Require Export QLiveMeasure.

Definition isblock (x : consumer) : nat := match c_pc x with CInBlock _ => 1 | _ => 0 end.
Definition nblock (cs : list consumer) : nat := sumf isblock cs.

Definition needs_run_c (x : consumer) : bool :=
  match c_pc x with
  | CDone => false
  | CNotStarted => true
  | _ => negb (pending (c_fw x))
  end.

Definition needs_run_j (x : joiner) : bool :=
  match j_pc x with
  | JDone => false
  | JNotStarted => true
  | JWait => negb (pending (j_fw x))
  end.

Definition CntI (s : qstate) : Prop :=
  unfinished s = length (items s) + nblock (consumers s).

Definition CRun (h : option handle) (s : qstate) : Prop :=
  forall c x, nth_error (consumers s) c = Some x -> needs_run_c x = true ->
              Some (HC c) <> h -> In (HC c) (ready s).

Definition JRun (h : option handle) (s : qstate) : Prop :=
  forall j x, nth_error (joiners s) j = Some x -> needs_run_j x = true ->
              Some (HJ j) <> h -> In (HJ j) (ready s).

Definition JwI (s : qstate) : Prop :=
  forall j x, nth_error (joiners s) j = Some x -> j_pc x = JWait -> j_fw x = Some FPending ->
              In j (jwaiters s) /\ 0 < unfinished s.

Definition LIx (h : option handle) (s : qstate) : Prop :=
  CntI s /\ CRun h s /\ JRun h s /\ JwI s.

Definition LI : qstate -> Prop := LIx None.

Ltac lsplit := split; [|split; [|split]].

(** * Component lemmas *)

Lemma nblock_upd cs c x0 y :
  nth_error cs c = Some x0 -> nblock (upd cs c y) + isblock x0 = nblock cs + isblock y.
Proof. intros H. unfold nblock. apply sumf_upd. exact H. Qed.

Lemma CRun_change h h' s s' c y :
  CRun h s -> consumers s' = upd (consumers s) c y ->
  (forall k, In k (ready s) -> In k (ready s')) ->
  (needs_run_c y = true -> Some (HC c) <> h' -> In (HC c) (ready s')) ->
  (forall c0, c0 <> c -> Some (HC c0) <> h' -> Some (HC c0) <> h) ->
  CRun h' s'.
Proof.
  intros H Hc Hr Hy Hw c0 x Hx Hn Hh. rewrite Hc in Hx.
  apply nth_error_upd_inv in Hx. destruct Hx as [(<- & -> & _)|(Hne & Hx)].
  - apply Hy; auto.
  - apply Hr. apply (H c0 x Hx Hn). apply Hw; auto.
Qed.

Lemma CRun_frame h h' s s' :
  CRun h s -> consumers s' = consumers s ->
  (forall k, In k (ready s) -> In k (ready s')) ->
  (forall c0, Some (HC c0) <> h' -> Some (HC c0) <> h) ->
  CRun h' s'.
Proof.
  intros H Hc Hr Hw c0 x Hx Hn Hh. rewrite Hc in Hx. apply Hr. apply (H c0 x Hx Hn). auto.
Qed.

Lemma JRun_change h h' s s' j y :
  JRun h s -> joiners s' = upd (joiners s) j y ->
  (forall k, In k (ready s) -> In k (ready s')) ->
  (needs_run_j y = true -> Some (HJ j) <> h' -> In (HJ j) (ready s')) ->
  (forall j0, j0 <> j -> Some (HJ j0) <> h' -> Some (HJ j0) <> h) ->
  JRun h' s'.
Proof.
  intros H Hc Hr Hy Hw j0 x Hx Hn Hh. rewrite Hc in Hx.
  apply nth_error_upd_inv in Hx. destruct Hx as [(<- & -> & _)|(Hne & Hx)].
  - apply Hy; auto.
  - apply Hr. apply (H j0 x Hx Hn). apply Hw; auto.
Qed.

Lemma JRun_frame h h' s s' :
  JRun h s -> joiners s' = joiners s ->
  (forall k, In k (ready s) -> In k (ready s')) ->
  (forall j0, Some (HJ j0) <> h' -> Some (HJ j0) <> h) ->
  JRun h' s'.
Proof.
  intros H Hc Hr Hw j0 x Hx Hn Hh. rewrite Hc in Hx. apply Hr. apply (H j0 x Hx Hn). auto.
Qed.

Lemma JwI_frame s s' :
  JwI s -> joiners s' = joiners s ->
  (forall j, In j (jwaiters s) -> In j (jwaiters s')) ->
  (0 < unfinished s -> 0 < unfinished s') ->
  JwI s'.
Proof.
  intros H Hj Hw Hu j x Hx Hpc Hfw. rewrite Hj in Hx.
  destruct (H j x Hx Hpc Hfw). split; auto.
Qed.

Lemma hc_cond c h h' :
  (forall k, k <> HC c -> Some k <> h' -> Some k <> h) ->
  (forall c0, c0 <> c -> Some (HC c0) <> h' -> Some (HC c0) <> h) /\
  (forall j0, Some (HJ j0) <> h' -> Some (HJ j0) <> h).
Proof.
  intros H. split.
  - intros c0 Hne. apply H. congruence.
  - intros j0. apply H. discriminate.
Qed.

Lemma hj_cond j h h' :
  (forall k, k <> HJ j -> Some k <> h' -> Some k <> h) ->
  (forall j0, j0 <> j -> Some (HJ j0) <> h' -> Some (HJ j0) <> h) /\
  (forall c0, Some (HC c0) <> h' -> Some (HC c0) <> h).
Proof.
  intros H. split.
  - intros j0 Hne. apply H. congruence.
  - intros c0. apply H. discriminate.
Qed.

(** Nothing relevant changes; [ready] may grow. *)
Lemma LIx_frame h s s' :
  LIx h s -> items s' = items s -> unfinished s' = unfinished s ->
  consumers s' = consumers s -> joiners s' = joiners s -> jwaiters s' = jwaiters s ->
  (forall k, In k (ready s) -> In k (ready s')) ->
  LIx h s'.
Proof.
  intros (H1 & H2 & H3 & H4) Hi Hu Hc Hj Hw Hr. lsplit.
  - unfold CntI in *. rewrite Hi, Hu, Hc. exact H1.
  - eapply CRun_frame; eauto.
  - eapply JRun_frame; eauto.
  - eapply JwI_frame; eauto; [rewrite Hw; auto|rewrite Hu; auto].
Qed.

(** Consumer [c] is overwritten by [y]; an item may move from the queue into its block. *)
Lemma LIx_cchange h h' s s' c x0 y :
  LIx h s -> nth_error (consumers s) c = Some x0 ->
  consumers s' = upd (consumers s) c y -> joiners s' = joiners s -> jwaiters s' = jwaiters s ->
  (forall k, In k (ready s) -> In k (ready s')) ->
  unfinished s' = unfinished s ->
  length (items s') + isblock y = length (items s) + isblock x0 ->
  (needs_run_c y = true -> Some (HC c) <> h' -> In (HC c) (ready s')) ->
  (forall k, k <> HC c -> Some k <> h' -> Some k <> h) ->
  LIx h' s'.
Proof.
  intros (H1 & H2 & H3 & H4) Hx0 Hc Hj Hw Hr Hu Hi Hy Hh.
  destruct (hc_cond _ _ _ Hh) as [Hh1 Hh2]. lsplit.
  - unfold CntI in *. rewrite Hc, Hu. pose proof (nblock_upd _ c _ y Hx0). lia.
  - eapply CRun_change; eauto.
  - eapply JRun_frame; eauto.
  - eapply JwI_frame; eauto; [rewrite Hw; auto|rewrite Hu; auto].
Qed.

(** Joiner [j] is overwritten by [y]. *)
Lemma LIx_jchange h h' s s' j y :
  LIx h s ->
  items s' = items s -> unfinished s' = unfinished s -> consumers s' = consumers s ->
  joiners s' = upd (joiners s) j y ->
  (forall k, In k (ready s) -> In k (ready s')) ->
  (needs_run_j y = true -> Some (HJ j) <> h' -> In (HJ j) (ready s')) ->
  (forall j0, j0 <> j -> In j0 (jwaiters s) -> In j0 (jwaiters s')) ->
  (j_pc y = JWait -> j_fw y = Some FPending -> In j (jwaiters s') /\ 0 < unfinished s) ->
  (forall k, k <> HJ j -> Some k <> h' -> Some k <> h) ->
  LIx h' s'.
Proof.
  intros (H1 & H2 & H3 & H4) Hi Hu Hc Hj Hr Hy Hw Hjw Hh.
  destruct (hj_cond _ _ _ Hh) as [Hh1 Hh2]. lsplit.
  - unfold CntI in *. rewrite Hi, Hu, Hc. exact H1.
  - eapply CRun_frame; eauto.
  - eapply JRun_change; eauto.
  - intros j0 x Hx Hpc Hfw. rewrite Hj in Hx. rewrite Hu.
    apply nth_error_upd_inv in Hx. destruct Hx as [(<- & -> & _)|(Hne & Hx)].
    + apply Hjw; auto.
    + destruct (H4 j0 x Hx Hpc Hfw). split; auto.
Qed.

Lemma LIx_weaken h s : LI s -> LIx h s.
Proof.
  intros (H1 & H2 & H3 & H4). lsplit; auto.
  - intros c x Hx Hn _. apply (H2 c x Hx Hn). discriminate.
  - intros j x Hx Hn _. apply (H3 j x Hx Hn). discriminate.
Qed.

Lemma LIx_close_c s c :
  LIx (Some (HC c)) s ->
  (forall x, nth_error (consumers s) c = Some x -> needs_run_c x = false) -> LI s.
Proof.
  intros (H1 & H2 & H3 & H4) Hq. lsplit; auto.
  - intros c0 x Hx Hn _. destruct (Nat.eq_dec c0 c) as [->|Hne].
    + rewrite (Hq x Hx) in Hn. discriminate.
    + apply (H2 c0 x Hx Hn). congruence.
  - intros j x Hx Hn _. apply (H3 j x Hx Hn). discriminate.
Qed.

Lemma LIx_close_j s j :
  LIx (Some (HJ j)) s ->
  (forall x, nth_error (joiners s) j = Some x -> needs_run_j x = false) -> LI s.
Proof.
  intros (H1 & H2 & H3 & H4) Hq. lsplit; auto.
  - intros c x Hx Hn _. apply (H2 c x Hx Hn). discriminate.
  - intros j0 x Hx Hn _. destruct (Nat.eq_dec j0 j) as [->|Hne].
    + rewrite (Hq x Hx) in Hn. discriminate.
    + apply (H3 j0 x Hx Hn). congruence.
Qed.

Lemma In_sched s h k : In k (ready s) -> In k (ready (sched s h)).
Proof. unfold sched, set_ready; cbn [ready]. intros H. apply in_or_app. auto. Qed.

Lemma In_sched_self s h : In h (ready (sched s h)).
Proof. unfold sched, set_ready; cbn [ready]. apply in_or_app. right. left. reflexivity. Qed.

Lemma LI_unsched s h : LI s -> LIx (Some h) (unsched s h).
Proof.
  intros (H1 & H2 & H3 & H4).
  assert (Hin : forall k, In k (ready s) -> Some k <> Some h -> In k (ready (unsched s h))).
  { intros k Hk Hne. unfold unsched, set_ready; cbn [ready]. apply filter_In. split; auto.
    destruct (handle_eqb h k) eqn:E; auto. apply handle_eqb_eq in E. congruence. }
  lsplit; auto.
  - intros c x Hx Hn Hh. apply Hin; auto. apply (H2 c x Hx Hn). discriminate.
  - intros j x Hx Hn Hh. apply Hin; auto. apply (H3 j x Hx Hn). discriminate.
Qed.

(** * Waking up a getter *)

Lemma LIx_dwn h s : LIx h s -> LIx h (do_wakeup_next s).
Proof.
  intros HL. unfold do_wakeup_next.
  destruct (wakeup_next_getter (consumers s) (getters s)) as [g [c|]] eqn:Hw.
  - destruct (wakeup_next_getter_pending _ _ _ _ Hw) as (x & Hx & Hfw).
    change (consumers (set_getters s g)) with (consumers s). rewrite Hx.
    apply (LIx_cchange h h s _ c x (c_with_fw x (Some FResult)) HL Hx); try reflexivity; auto.
    + intros k. apply In_sched.
    + intros _ _. apply In_sched_self.
  - apply (LIx_frame h s); auto.
Qed.

(** * [get()] *)

Lemma LIx_do_get h h' s c x0 x :
  LIx h s -> nth_error (consumers s) c = Some x0 -> isblock x0 = 0 ->
  (forall k, k <> HC c -> Some k <> h' -> Some k <> h) ->
  LIx h' (do_get s c x).
Proof.
  intros HL Hx0 Hb Hh. unfold do_get. destruct (items s) as [|k rest] eqn:Hit.
  - apply (LIx_cchange h h' s _ c x0 (c_with_pc (c_with_fw x (Some FPending)) CWaitGet) HL Hx0);
      try reflexivity; auto; try (intros Hn; discriminate).
  - apply (LIx_cchange h h' s _ c x0
             (c_with_pc (c_with_fw x (Some FPending)) (CInBlock k)) HL Hx0);
      try reflexivity; auto; try (intros Hn; discriminate).
    cbn [items emit set_evs set_items set_c set_consumers]. rewrite Hit, Hb.
    cbn [length]. unfold isblock. cbn [c_with_pc c_pc]. lia.
Qed.

(** * [Event.set()] *)

Lemma release1_run h s j :
  JRun h s ->
  JRun h (release1 s j) /\ (forall k, In k (ready s) -> In k (ready (release1 s j))).
Proof.
  intros HJ. unfold release1. destruct (nth_error (joiners s) j) as [x|] eqn:Hx; [|auto].
  destruct (j_fw x) as [[]|] eqn:Hfw; auto.
  split; [|intros k; apply In_sched].
  apply (JRun_change h h s _ j {| j_pc := j_pc x; j_fw := Some FResult |} HJ); auto.
  - intros k. apply In_sched.
  - intros _ _. apply In_sched_self.
Qed.

Lemma release_run h js : forall s,
  JRun h s ->
  JRun h (release_joiners s js) /\
  (forall k, In k (ready s) -> In k (ready (release_joiners s js))).
Proof.
  induction js as [|j t IH]; intros s HJ; [simpl; auto|].
  rewrite release_joiners_cons.
  destruct (release1_run h s j HJ) as [H1 H2].
  destruct (IH _ H1) as [H3 H4]. split; auto.
Qed.

(** * Block exit *)

Lemma isblock_ge cs c x i :
  nth_error cs c = Some x -> c_pc x = CInBlock i -> 1 <= nblock cs.
Proof.
  intros Hx Hpc. pose proof (sumf_ge_nth isblock cs c x Hx) as H.
  unfold isblock in H at 1. rewrite Hpc in H. exact H.
Qed.

Lemma exit_LI h s c x0 i e :
  LIx h s -> nth_error (consumers s) c = Some x0 -> c_pc x0 = CInBlock i ->
  exists s2,
    task_done (emit s e) = Some s2 /\ consumers s2 = consumers s /\
    forall h' y, isblock y = 0 -> needs_run_c y = false ->
                 (forall k, k <> HC c -> Some k <> h' -> Some k <> h) ->
                 LIx h' (set_c s2 c y).
Proof.
  intros (H1 & H2 & H3 & H4) Hx0 Hpc.
  pose proof (isblock_ge _ _ _ _ Hx0 Hpc) as Hge.
  assert (Hb0 : isblock x0 = 1) by (unfold isblock; rewrite Hpc; reflexivity).
  unfold CntI in H1. unfold task_done.
  set (s1 := emit s e). change (unfinished s1) with (unfinished s).
  destruct (unfinished s) as [|u] eqn:Hu; [lia|].
  destruct (Nat.eqb_spec u 0) as [->|Hne].
  - destruct (release_spec (jwaiters s1) (set_unfinished s1 0 true))
      as ([Q1 Q2 Q3 Q4 Q5 Q6] & [Hlen Hrel] & Hnp).
    assert (HJ1 : JRun h (set_unfinished s1 0 true)).
    { apply (JRun_frame h h s); auto. }
    destruct (release_run h (jwaiters s1) _ HJ1) as [HJ2 Hr2].
    set (s2 := release_joiners (set_unfinished s1 0 true) (jwaiters s1)) in *.
    exists s2. split; [reflexivity|]. split; [exact Q5|].
    intros h' y Hby Hny Hh. destruct (hc_cond _ _ _ Hh) as [Hh1 Hh2].
    lsplit.
    + unfold CntI, set_c, set_consumers; cbn [unfinished items consumers].
      rewrite Q1, Q3, Q5. cbn [unfinished set_unfinished items consumers emit set_evs s1].
      pose proof (nblock_upd _ c _ y Hx0). lia.
    + apply (CRun_change h h' s _ c y H2); auto;
        try (intros Hn; rewrite Hny in Hn; discriminate).
      unfold set_c, set_consumers; cbn [consumers]. rewrite Q5. reflexivity.
    + apply (JRun_frame h h' s2); auto.
    + intros j x' Hx' Hpx Hfx. exfalso.
      change (joiners (set_c s2 c y)) with (joiners s2) in Hx'.
      destruct (nth_error_same_len _ (joiners (set_unfinished s1 0 true)) j _ Hlen Hx')
        as [x Hx].
      destruct (Hrel j x x' Hx Hx') as [Hp Hf].
      assert (Hfx0 : j_fw x = Some FPending) by (destruct Hf as [Hf|Hf]; congruence).
      assert (Hpx0 : j_pc x = JWait) by congruence.
      destruct (H4 j x Hx Hpx0 Hfx0) as [Hin _].
      exact (Hnp j x' Hin Hx' Hfx).
  - exists (set_unfinished s1 u (finished s1)). split; [reflexivity|]. split; [reflexivity|].
    intros h' y Hby Hny Hh. destruct (hc_cond _ _ _ Hh) as [Hh1 Hh2].
    lsplit.
    + unfold CntI, set_c, set_consumers; cbn [unfinished set_unfinished items consumers emit set_evs s1].
      pose proof (nblock_upd _ c _ y Hx0). lia.
    + apply (CRun_change h h' s _ c y H2); auto;
        try (intros Hn; rewrite Hny in Hn; discriminate).
    + apply (JRun_frame h h' s); auto.
    + apply (JwI_frame s); auto.
      cbn [unfinished set_c set_consumers set_unfinished]. lia.
Qed.

Lemma exit_block_LI s c x0 x i inp :
  LIx (Some (HC c)) s -> nth_error (consumers s) c = Some x0 -> c_pc x0 = CInBlock i ->
  LI (exit_block s c x i inp).
Proof.
  intros HL Hx0 Hpc. unfold exit_block. cbv zeta.
  set (e := EvExit c i _).
  destruct (exit_LI (Some (HC c)) s c x0 i e HL Hx0 Hpc) as (s2 & Htd & Hc2 & Hfin).
  rewrite Htd.
  assert (Hf : forall o, LI (set_c s2 c (c_finish x o))).
  { intros o. apply Hfin; try reflexivity. intros k Hk _. congruence. }
  destruct inp; auto.
  destruct (c_loops x); auto.
  rewrite <- (do_get_set_c s2 c (c_finish x OResult) x).
  assert (Hx2 : nth_error (consumers (set_c s2 c (c_finish x OResult))) c
                = Some (c_finish x OResult)).
  { unfold set_c, set_consumers; cbn [consumers]. apply nth_error_upd_eq.
    rewrite Hc2. apply nth_error_Some. congruence. }
  apply (LIx_do_get None None _ c _ x (Hf OResult) Hx2); auto.
Qed.

(** * Running a consumer *)

Lemma LI_run_consumer s c : LIx (Some (HC c)) s -> LI (run_consumer s c).
Proof.
  intros HL. unfold run_consumer.
  destruct (nth_error (consumers s) c) as [x0|] eqn:Hx0.
  2: { apply (LIx_close_c s c HL). intros x Hx. congruence. }
  cbv zeta. set (x := c_with_mc (c_with_fw x0 None) false).
  assert (Hh : forall k, k <> HC c -> Some k <> None -> Some k <> Some (HC c))
    by (intros k Hk _; congruence).
  assert (Hfin : isblock x0 = 0 -> forall s1 o,
            LIx (Some (HC c)) s1 -> nth_error (consumers s1) c = Some x0 ->
            LI (set_c s1 c (c_finish x o))).
  { intros Hb s1 o HL1 Hx1.
    apply (LIx_cchange (Some (HC c)) None s1 _ c x0 (c_finish x o) HL1 Hx1);
      try reflexivity; auto; try (intros Hn; discriminate). }
  destruct (c_pc x0) as [| |i|] eqn:Hpc.
  - assert (Hb : isblock x0 = 0) by (unfold isblock; rewrite Hpc; reflexivity).
    destruct (task_input (c_mc x0) (c_fw x0)).
    + apply (LIx_do_get (Some (HC c)) None s c x0 x HL Hx0 Hb Hh).
    + apply (LIx_do_get (Some (HC c)) None s c x0 x HL Hx0 Hb Hh).
    + apply Hfin; auto.
  - assert (Hb : isblock x0 = 0) by (unfold isblock; rewrite Hpc; reflexivity).
    destruct (task_input (c_mc x0) (c_fw x0)).
    + apply (LIx_do_get (Some (HC c)) None s c x0 x HL Hx0 Hb Hh).
    + apply (LIx_do_get (Some (HC c)) None s c x0 x HL Hx0 Hb Hh).
    + set (s1 := set_getters s (remove1 c (getters s))).
      assert (HL1 : LIx (Some (HC c)) s1) by (apply (LIx_frame _ s); auto).
      assert (HL2 : LI (set_c s1 c (c_finish x OCancelled))) by (apply Hfin; auto).
      destruct (items (set_c s1 c (c_finish x OCancelled))); [exact HL2|].
      destruct (match c_fw x0 with Some FCancelled => true | _ => false end); [exact HL2|].
      apply LIx_dwn. exact HL2.
  - eapply exit_block_LI; eauto.
  - apply (LIx_close_c s c HL). intros y Hy. rewrite Hx0 in Hy. injection Hy as <-.
    unfold needs_run_c. rewrite Hpc. reflexivity.
Qed.

(** * Running a joiner *)

Lemma LI_run_joiner s j : LIx (Some (HJ j)) s -> LI (run_joiner s j).
Proof.
  intros HL. unfold run_joiner.
  destruct (nth_error (joiners s) j) as [x|] eqn:Hx.
  2: { apply (LIx_close_j s j HL). intros y Hy. congruence. }
  assert (Hh : forall k, k <> HJ j -> Some k <> None -> Some k <> Some (HJ j))
    by (intros k Hk _; congruence).
  destruct (j_pc x) eqn:Hpc.
  - cbv zeta. change (unfinished (emit s (EvJoinStart j))) with (unfinished s).
    destruct (Nat.ltb_spec 0 (unfinished s)) as [Hlt|Hge].
    + apply (LIx_jchange (Some (HJ j)) None s _ j {| j_pc := JWait; j_fw := Some FPending |} HL);
        try reflexivity; auto; try (intros Hn; discriminate).
      * intros j0 _ Hin. cbn [jwaiters]. apply in_or_app. auto.
      * intros _ _. split; [|exact Hlt]. cbn [jwaiters]. apply in_or_app. right. left. reflexivity.
    + apply (LIx_jchange (Some (HJ j)) None s _ j {| j_pc := JDone; j_fw := None |} HL);
        try reflexivity; auto; try (intros Hn; discriminate).
  - cbv zeta.
    apply (LIx_jchange (Some (HJ j)) None s _ j {| j_pc := JDone; j_fw := None |} HL);
      try reflexivity; auto; try (intros Hn; discriminate).
    intros j0 Hne Hin. cbn [jwaiters emit set_evs]. apply In_remove1_neq; auto.
  - apply (LIx_close_j s j HL). intros y Hy. rewrite Hx in Hy. injection Hy as <-.
    unfold needs_run_j. rewrite Hpc. reflexivity.
Qed.

(** * One step, every run *)

Lemma nblock_snoc cs x : isblock x = 0 -> nblock (cs ++ [x]) = nblock cs.
Proof. intros H. unfold nblock. rewrite sumf_app. simpl. lia. Qed.

Lemma LI_step s0 l : LI s0 -> LI (step s0 l).
Proof.
  intros HL0. unfold step. cbv zeta.
  set (s := set_evs s0 []).
  assert (HL : LI s) by (apply (LIx_frame None s0); auto).
  clearbody s. clear HL0 s0.
  destruct (enabled s l) eqn:Hen; cbn [negb]; [|exact HL].
  destruct l as [|loops| |[c|j]|c normal|c].
  - (* QPut *)
    apply LIx_dwn. destruct HL as (H1 & H2 & H3 & H4). lsplit.
    + unfold CntI in *. cbn [unfinished items consumers]. rewrite app_length. cbn [length]. lia.
    + exact H2.
    + exact H3.
    + intros j x Hx Hp Hf. destruct (H4 j x Hx Hp Hf). split; auto. cbn [unfinished]. lia.
  - (* QSpawn *)
    destruct HL as (H1 & H2 & H3 & H4). lsplit.
    + unfold CntI in *. cbn [unfinished items consumers sched set_ready set_consumers].
      rewrite nblock_snoc by reflexivity. exact H1.
    + intros c x Hx Hn _. cbn [consumers sched set_ready set_consumers] in Hx.
      apply nth_error_snoc_inv in Hx. destruct Hx as [Hx|(-> & _)].
      * apply In_sched. apply (H2 c x Hx Hn). discriminate.
      * apply In_sched_self.
    + intros j x Hx Hn _. apply In_sched. apply (H3 j x Hx Hn). discriminate.
    + exact H4.
  - (* QJoin *)
    destruct HL as (H1 & H2 & H3 & H4). lsplit.
    + exact H1.
    + intros c x Hx Hn _. apply In_sched. apply (H2 c x Hx Hn). discriminate.
    + intros j x Hx Hn _. cbn [joiners sched set_ready set_joiners] in Hx.
      apply nth_error_snoc_inv in Hx. destruct Hx as [Hx|(-> & _)].
      * apply In_sched. apply (H3 j x Hx Hn). discriminate.
      * apply In_sched_self.
    + intros j x Hx Hp Hf. cbn [joiners sched set_ready set_joiners] in Hx.
      apply nth_error_snoc_inv in Hx. destruct Hx as [Hx|(_ & ->)]; [|discriminate].
      exact (H4 j x Hx Hp Hf).
  - (* QRun (HC c) *)
    apply LI_run_consumer. apply LI_unsched. exact HL.
  - (* QRun (HJ j) *)
    apply LI_run_joiner. apply LI_unsched. exact HL.
  - (* QExit *)
    destruct (nth_error (consumers s) c) as [x|] eqn:Hx; [|exact HL].
    apply (LIx_cchange None None s _ c x
             (c_with_fw x (Some (if normal then FResult else FExcept))) HL Hx);
      try reflexivity; auto.
    + intros k. apply In_sched.
    + intros _ _. apply In_sched_self.
  - (* QCancel *)
    destruct (nth_error (consumers s) c) as [x|] eqn:Hx; [|exact HL].
    assert (G1 : LI (sched (set_c s c (c_with_fw x (Some FCancelled))) (HC c))).
    { apply (LIx_cchange None None s _ c x (c_with_fw x (Some FCancelled)) HL Hx);
        try reflexivity; auto.
      - intros k. apply In_sched.
      - intros _ _. apply In_sched_self. }
    assert (G2 : LI (set_c s c (c_with_mc x true))).
    { apply (LIx_cchange None None s _ c x (c_with_mc x true) HL Hx); try reflexivity; auto.
      intros Hn _. destruct HL as (_ & H2 & _). apply (H2 c x Hx); [exact Hn|discriminate]. }
    destruct (c_pc x); try exact HL; destruct (c_fw x) as [[]|]; auto.
Qed.

Lemma LI_init : LI init.
Proof.
  lsplit.
  - reflexivity.
  - intros c x Hx. destruct c; discriminate.
  - intros j x Hx. destruct j; discriminate.
  - intros j x Hx. destruct j; discriminate.
Qed.

Lemma run_snoc tr l : run (tr ++ [l]) = step (run tr) l.
Proof. unfold run. rewrite fold_left_app. reflexivity. Qed.

Theorem LI_run : forall tr, LI (run tr).
Proof.
  induction tr as [|l tr IH] using rev_ind; [exact LI_init|].
  rewrite run_snoc. apply LI_step. exact IH.
Qed.

Lemma LI_reachable s : reachable s -> LI s.
Proof. intros [tr ->]. apply LI_run. Qed.

(** * The simulation relation of C20 along every run, and the monitor state reached *)

Fixpoint m_state (m : mstate) (os : list obs) : option mstate :=
  match os with
  | [] => Some m
  | o :: t => match m_step m o with inl m' => m_state m' t | inr _ => None end
  end.

Lemma m_state_sim tr : forall s m,
  R s m -> exists m', m_state m (observe_from s tr) = Some m' /\ R (run_from s tr) m'.
Proof.
  induction tr as [|l t IH]; intros s m HR; [exists m; auto|].
  cbn [observe_from]. destruct (step_sim s m l HR) as (m1 & Hst & HR1).
  rewrite run_from_cons.
  unfold observe1 in *. cbv zeta in *. cbn [fst snd] in Hst, HR1.
  cbn [m_state]. rewrite Hst. apply IH. exact HR1.
Qed.

Theorem m_state_run : forall tr,
  exists m, m_state m_init (observe tr) = Some m /\ R (run tr) m.
Proof. intros tr. exact (m_state_sim tr init m_init R_init). Qed.

Theorem R_run : forall tr, exists m, R (run tr) m.
Proof. intros tr. destruct (m_state_run tr) as (m & _ & H). eauto. Qed.

Lemma R_reachable s : reachable s -> exists m, R s m.
Proof. intros [tr ->]. apply R_run. Qed.
