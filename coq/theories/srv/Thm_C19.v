(** C19 — Control server lifecycle (the lifecycle logic on top of asyncio's stream-server
    contract; kernel sockets, the selector loop and time are exercised by the correspondence over
    real sockets, not proved).  PARTIAL in that sense.  Property theorems only. *)
From TP Require Import SModel SProofs.
From TP Require SStop.

(** serve_forever() returns at once with a task; from then on, and until the task is cancelled,
    the server is listening, whatever clients do. *)
Theorem C19_serving_until_stop : forall k tr,
  let s := run k tr in
  v_started s = true -> v_stopreq s = false -> v_listening s = true /\ v_done s = false.
Proof. intros k tr s. exact (inv_serving _ (Inv_run k tr)). Qed.

(** While it serves, every client is served: a connection attempt is accepted with the handshake
    reply, and a command line is answered with exactly one reply — to that client only. *)
Theorem C19_clients_served : forall k tr,
  let s := run k tr in
  v_started s = true -> v_stopreq s = false ->
  v_conns (step s LConnect) = v_conns s ++ [{| k_client_open := true; k_session := true;
                                               k_replies := 1; k_hello := true; k_waiting := false |}] /\
  forall c x, nth_error (v_conns s) c = Some x -> k_client_open x = true -> k_session x = true ->
    k_hello x = true -> k_waiting x = false ->
    nth_error (v_conns (step s (LSend c))) c
    = Some {| k_client_open := true; k_session := true; k_replies := S (k_replies x);
              k_hello := true; k_waiting := false |} /\
    forall c', c' <> c -> nth_error (v_conns (step s (LSend c))) c' = nth_error (v_conns s) c'.
Proof.
  intros k tr s Hst Hns.
  destruct (inv_serving _ (Inv_run k tr) Hst Hns) as [Hl Hd]. fold s in Hl, Hd.
  split.
  - cbn [step]. rewrite Hl. reflexivity.
  - intros c x Hx Ho Hse Hh Hw. cbn [step]. rewrite Hx, Ho, Hse, Hh, Hw. cbn [andb negb].
    destruct (settle_fields (set_conns s (upd (v_conns s) c
                {| k_client_open := true; k_session := v_listening s;
                   k_replies := S (k_replies x); k_hello := true; k_waiting := false |})))
      as [_ [_ [Hc _]]].
    rewrite Hc. unfold set_conns. cbn [v_conns]. split.
    + rewrite nth_error_upd, Nat.eqb_refl, Hl.
      assert (Hlt : c < length (v_conns s)) by (apply nth_error_Some; congruence).
      apply Nat.ltb_lt in Hlt. rewrite Hlt. reflexivity.
    + intros c' Hne. rewrite nth_error_upd.
      destruct (Nat.eqb_spec c c'); [congruence|reflexivity].
Qed.

(** A client disconnecting affects no other session, and (before a stop) not the server. *)
Theorem C19_disconnect_is_local : forall k tr c,
  let s := run k tr in
  (forall c', c' <> c -> nth_error (v_conns (step s (LLeave c))) c' = nth_error (v_conns s) c') /\
  (v_stopreq s = false ->
   v_listening (step s (LLeave c)) = v_listening s /\ v_done (step s (LLeave c)) = v_done s).
Proof.
  intros k tr c s. cbn [step].
  destruct (nth_error (v_conns s) c) as [x|] eqn:Hx; [|split; auto].
  destruct (k_client_open x); [|split; auto].
  set (s' := set_conns s _).
  destruct (settle_fields s') as [_ [_ [Hc _]]]. split.
  - intros c' Hne. rewrite Hc. unfold s', set_conns. cbn [v_conns]. rewrite nth_error_upd.
    destruct (Nat.eqb_spec c c'); [congruence|reflexivity].
  - intros Hns. unfold settle. replace (v_stopreq s') with false by (symmetry; exact Hns).
    cbn [andb]. auto.
Qed.

(** After the serving task was cancelled: the address accepts no connection, is_serving() is
    false, and the task completes exactly when every connected client has gone (disconnected, or
    sent one more line, after which its session ends) — not earlier. *)
Theorem C19_stop : forall k tr,
  let s := run k tr in
  v_stopreq s = true ->
  v_listening s = false /\
  (v_done s = true <-> all_sessions_ended (v_conns s) = true) /\
  v_conns (step s LConnect) = v_conns s /\ v_refused (step s LConnect) = S (v_refused s).
Proof.
  intros k tr s Hs. pose proof (Inv_run k tr) as I. fold s in I.
  destruct (inv_stopped _ I Hs) as [Hl _]. split; [exact Hl|].
  split; [exact (inv_done_iff _ I Hs)|].
  cbn [step]. rewrite Hl. cbn. auto.
Qed.

(** ... and it does complete: after the serving task was cancelled, as soon as every connected
    client has disconnected (in any order, other labels of clients that are gone being no-ops) - PROVIDED no session is
    inside a waiting command -
    the task is done, the address stays closed and a Unix server's socket file is gone. *)
Theorem C19_stop_completes : forall k tr cs,
  let s := run k tr in
  v_stopreq s = true -> SStop.nobody_waits s ->
  (forall c, c < length (v_conns s) -> In c cs) ->
  let s' := fold_left step (map LLeave cs) s in
  v_done s' = true /\ v_listening s' = false /\ v_sockfile s' = false.
Proof. exact SStop.stop_completes. Qed.

(** REFUTED without that hypothesis (open finding D12): a client sends a command whose method
    waits (until-closed on a pool nobody closes) and disconnects; its session stays inside the pool
    call and cannot notice; the serving task is then cancelled - and never completes, although no
    client is connected any more: "it completes once connected clients have gone" fails.  The
    witness is replayed on the implementation by the C19 check (KNOWN-FINDING). *)
Theorem C19_stop_waits_for_waiting_session :
  exists tr, let s := run TCP tr in
    v_stopreq s = true /\ v_done s = false /\
    forallb (fun k => negb (k_client_open k)) (v_conns s) = true /\
    (* ... and no departure of anybody can change that *)
    v_done (fold_left step [LLeave 0; LLeave 0; LSend 0] s) = false.
Proof.
  exists [LStart; LConnect; LSendWait 0; LLeave 0; LStop]. vm_compute. repeat split; reflexivity.
Qed.

(** Once the task has completed a Unix server's socket file is gone; while it has not, the file
    is there. *)
Theorem C19_socket_file : forall tr,
  let s := run Unix tr in
  (v_done s = true -> v_sockfile s = false) /\
  (v_started s = true -> v_done s = false -> v_sockfile s = true).
Proof.
  intros tr s. pose proof (Inv_run Unix tr) as I. fold s in I. split.
  - exact (inv_sock_gone _ I).
  - apply (inv_sock_there _ I).
    assert (H : forall t u, v_kind (fold_left step t u) = v_kind u).
    { induction t as [|l t IH]; intros u; cbn [fold_left]; [reflexivity|]. rewrite IH.
      destruct l as [| | | |c|c|c|c|c|]; cbn [step].
      - destruct (v_started u && negb (v_done u)); reflexivity.
      - destruct (v_listening u); reflexivity.
      - destruct (v_listening u); reflexivity.
      - destruct (v_listening u); reflexivity.
      - destruct (nth_error (v_conns u) c) as [x|]; [|reflexivity].
        destruct (k_client_open x && k_session x && negb (k_hello x)); [|reflexivity].
        match goal with |- v_kind (settle ?z) = _ => destruct (settle_fields z) as [Hk _] end.
        exact Hk.
      - destruct (nth_error (v_conns u) c) as [x|]; [|reflexivity].
        destruct (k_client_open x && k_session x && k_hello x && negb (k_waiting x)); [|reflexivity].
        match goal with |- v_kind (settle ?z) = _ => destruct (settle_fields z) as [Hk _] end.
        exact Hk.
      - destruct (nth_error (v_conns u) c) as [x|]; [|reflexivity].
        destruct (k_client_open x && k_session x && k_hello x && negb (k_waiting x)); reflexivity.
      - destruct (nth_error (v_conns u) c) as [x|]; [|reflexivity].
        destruct (k_client_open x); [|reflexivity].
        match goal with |- v_kind (settle ?z) = _ => destruct (settle_fields z) as [Hk _] end.
        exact Hk.
      - destruct (nth_error (v_conns u) c) as [x|]; [|reflexivity].
        destruct (k_client_open x); [|reflexivity].
        match goal with |- v_kind (settle ?z) = _ => destruct (settle_fields z) as [Hk _] end.
        exact Hk.
      - destruct (v_started u && negb (v_stopreq u)); [|reflexivity].
        match goal with |- v_kind (settle ?z) = _ => destruct (settle_fields z) as [Hk _] end.
        exact Hk. }
    unfold s, run. rewrite H. reflexivity.
Qed.

(** Non-vacuity: two clients, the stop arrives while both are connected; the task completes only
    when the second one has gone; the socket file disappears then. *)
Example C19_example :
  map (fun s => (v_listening s, v_done s, v_sockfile s))
      (observe Unix [LStart; LConnect; LConnect; LSend 0; LStop; LLeave 0; LConnect; LSend 1])
  = [(true, false, true); (true, false, true); (true, false, true); (true, false, true);
     (false, false, true); (false, false, true); (false, false, true); (false, true, false)].
Proof. vm_compute. reflexivity. Qed.

(** Sessions are independent while a handshake is pending: a client that has connected but not
    yet sent its handshake line holds a waiting session; whatever that client does or does not do,
    every other connection's record is untouched by its handshake, and the handshake itself is
    answered with exactly one reply (after which the session lives iff the server still serves). *)
Theorem C19_pending_handshake_is_local : forall k tr c x,
  let s := run k tr in
  nth_error (v_conns s) c = Some x -> k_client_open x = true -> k_session x = true ->
  k_hello x = false ->
  nth_error (v_conns (step s (LHello c))) c
  = Some {| k_client_open := true; k_session := v_listening s; k_replies := S (k_replies x);
            k_hello := true; k_waiting := false |} /\
  (forall c', c' <> c -> nth_error (v_conns (step s (LHello c))) c' = nth_error (v_conns s) c') /\
  (v_listening s = true ->
   v_conns (step s LOpen) = v_conns s ++ [{| k_client_open := true; k_session := true;
                                             k_replies := 0; k_hello := false; k_waiting := false |}] /\
   v_conns (step s LConnect) = v_conns s ++ [{| k_client_open := true; k_session := true;
                                                k_replies := 1; k_hello := true; k_waiting := false |}]).
Proof.
  intros k tr c x s Hx Ho Hse Hh. cbn [step]. rewrite Hx, Ho, Hse, Hh. cbn [andb negb].
  match goal with |- context [settle ?z] => destruct (settle_fields z) as [_ [_ [Hc _]]] end.
  rewrite Hc. unfold set_conns. cbn [v_conns]. split; [|split].
  - rewrite nth_error_upd, Nat.eqb_refl.
    assert (Hlt : c < length (v_conns s)) by (apply nth_error_Some; congruence).
    apply Nat.ltb_lt in Hlt. rewrite Hlt. reflexivity.
  - intros c' Hne. rewrite nth_error_upd.
    destruct (Nat.eqb_spec c c'); [congruence|reflexivity].
  - intros Hl. rewrite Hl. split; reflexivity.
Qed.

(** Restart: once the serving task has completed, serve_forever() on the same server object serves
    again (same address, a Unix server's socket file is back) and can be stopped again. *)
Theorem C19_restart : forall k tr,
  let s := run k tr in
  v_done s = true ->
  let s' := step s LStart in
  v_listening s' = true /\ v_done s' = false /\ v_stopreq s' = false /\ v_conns s' = v_conns s /\
  (k = Unix -> v_sockfile s' = true).
Proof.
  intros k tr s Hd s'. unfold s'. cbn [step]. rewrite Hd. rewrite andb_false_r. cbn.
  repeat split; auto. intros ->.
  assert (H : forall t u, v_kind (fold_left step t u) = v_kind u).
  { induction t as [|l t IH]; intros u; cbn [fold_left]; [reflexivity|]. rewrite IH.
    destruct l as [| | | |c|c|c|c|c|]; cbn [step].
    - destruct (v_started u && negb (v_done u)); reflexivity.
    - destruct (v_listening u); reflexivity.
    - destruct (v_listening u); reflexivity.
    - destruct (v_listening u); reflexivity.
    - destruct (nth_error (v_conns u) c) as [x|]; [|reflexivity].
      destruct (k_client_open x && k_session x && negb (k_hello x)); [|reflexivity].
      match goal with |- v_kind (settle ?z) = _ => destruct (settle_fields z) as [Hk _] end.
      exact Hk.
    - destruct (nth_error (v_conns u) c) as [x|]; [|reflexivity].
      destruct (k_client_open x && k_session x && k_hello x && negb (k_waiting x)); [|reflexivity].
      match goal with |- v_kind (settle ?z) = _ => destruct (settle_fields z) as [Hk _] end.
      exact Hk.
    - destruct (nth_error (v_conns u) c) as [x|]; [|reflexivity].
      destruct (k_client_open x && k_session x && k_hello x && negb (k_waiting x)); reflexivity.
    - destruct (nth_error (v_conns u) c) as [x|]; [|reflexivity].
      destruct (k_client_open x); [|reflexivity].
      match goal with |- v_kind (settle ?z) = _ => destruct (settle_fields z) as [Hk _] end.
      exact Hk.
    - destruct (nth_error (v_conns u) c) as [x|]; [|reflexivity].
      destruct (k_client_open x); [|reflexivity].
      match goal with |- v_kind (settle ?z) = _ => destruct (settle_fields z) as [Hk _] end.
      exact Hk.
    - destruct (v_started u && negb (v_stopreq u)); [|reflexivity].
      match goal with |- v_kind (settle ?z) = _ => destruct (settle_fields z) as [Hk _] end.
      exact Hk. }
  unfold s, run. rewrite H. reflexivity.
Qed.

Example C19_restart_example :
  map (fun s => (v_listening s, v_done s, v_sockfile s))
      (observe Unix [LStart; LConnect; LStop; LLeave 0; LStart; LConnect; LSend 1; LStop; LSend 1])
  = [(true, false, true); (true, false, true); (false, false, true); (false, true, false);
     (true, false, true); (true, false, true); (true, false, true); (false, false, true);
     (false, true, false)].
Proof. vm_compute. reflexivity. Qed.

Print Assumptions C19_serving_until_stop.
Print Assumptions C19_clients_served.
Print Assumptions C19_disconnect_is_local.
Print Assumptions C19_stop.
Print Assumptions C19_socket_file.
Print Assumptions C19_restart.
Print Assumptions C19_pending_handshake_is_local.
(** ... whereas a client that vanishes with a connection *reset* takes its transport with it: the
    same history with an abort instead of a clean disconnect lets the stop complete. *)
Example C19_abort_frees_the_stop :
  let s := run TCP [LStart; LConnect; LSendWait 0; LAbort 0; LStop] in
  v_done s = true /\ v_listening s = false.
Proof. vm_compute. split; reflexivity. Qed.

Print Assumptions C19_stop_completes.
Print Assumptions C19_stop_waits_for_waiting_session.
