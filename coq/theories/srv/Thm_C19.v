(** C19 — Control server lifecycle (the lifecycle logic on top of asyncio's stream-server
    contract; kernel sockets, the selector loop and time are exercised by the correspondence over
    real sockets, not proved).  PARTIAL in that sense.  Property theorems only.

    The model knows runs: every serve_forever() that takes effect starts a new one; a run started
    while the previous, cancelled task still waits for its lingering clients overlaps with it
    (ghost flag [v_overlap]).  Theorems that speak about the socket file of a Unix server or about
    new connections being accepted carry the hypothesis [v_overlap s = false] where they need it;
    what an overlap does to a Unix server is shown by C19_unix_overlap_loses_socket, and that it
    is harmless over TCP by C19_tcp_overlap_harmless. *)
From TP Require Import SModel SProofs.
From TP Require SStop.

(** serve_forever() returns at once with a task; from then on, and until the task is cancelled,
    the server is listening, whatever clients do. *)
Theorem C19_serving_until_stop : forall k tr,
  let s := run k tr in
  v_started s = true -> v_stopreq s = false -> v_listening s = true /\ v_done s = false.
Proof. intros k tr s. exact (inv_serving _ (Inv_run k tr)). Qed.

(** While it serves, every client is served: a connection attempt is accepted with the handshake
    reply (no run having overlapped with another - see C19_unix_overlap_loses_socket), the new
    connection belonging to the latest run; and a command line is answered with exactly one
    reply — to that client only, whichever run accepted it. *)
Theorem C19_clients_served : forall k tr,
  let s := run k tr in
  v_started s = true -> v_stopreq s = false ->
  (v_overlap s = false ->
   v_conns (step s LConnect) = v_conns s ++ [new_conn s true true 1 true]) /\
  forall c x, nth_error (v_conns s) c = Some x -> k_client_open x = true -> k_session x = true ->
    k_hello x = true -> k_waiting x = false ->
    nth_error (v_conns (step s (LSend c))) c
    = Some {| k_client_open := true; k_session := true; k_replies := S (k_replies x);
              k_hello := true; k_waiting := false; k_gen := k_gen x |} /\
    forall c', c' <> c -> nth_error (v_conns (step s (LSend c))) c' = nth_error (v_conns s) c'.
Proof.
  intros k tr s Hst Hns. pose proof (Inv_run k tr) as I. fold s in I.
  destruct (inv_serving _ I Hst Hns) as [Hl Hd].
  split.
  - intros Ho. cbn [step].
    assert (Ha : accepting s = true).
    { unfold accepting, is_unix. rewrite Hl. cbn [andb]. destruct (v_kind s) eqn:Hk.
      - reflexivity.
      - rewrite (inv_sock_there _ I Ho Hk Hst Hd). reflexivity. }
    rewrite Ha. reflexivity.
  - intros c x Hx Ho Hse Hh Hw. cbn [step]. rewrite Hx, Ho, Hse, Hh, Hw. cbn [andb negb].
    unfold answer. rewrite settle_conns. unfold set_conns. cbn [v_conns]. split.
    + rewrite nth_error_upd, Nat.eqb_refl, Hl.
      assert (Hlt : c < length (v_conns s)) by (apply nth_error_Some; congruence).
      apply Nat.ltb_lt in Hlt. rewrite Hlt. reflexivity.
    + intros c' Hne. rewrite nth_error_upd.
      destruct (Nat.eqb_spec c c'); [congruence|reflexivity].
Qed.

(** A client disconnecting affects no other session, and (before a stop) not the server. *)
Theorem C19_disconnect_is_local : forall k tr c,
  let s := run k tr in
  (forall c', c' <> c -> nth_error (v_conns (step s (LLeave c))) c' = nth_error (v_conns s) c') /\
  (v_stopreq s = false ->
   v_listening (step s (LLeave c)) = v_listening s /\ v_done (step s (LLeave c)) = v_done s).
Proof.
  intros k tr c s. cbn [step].
  destruct (nth_error (v_conns s) c) as [x|] eqn:Hx; [|split; auto].
  destruct (k_client_open x); [|split; auto].
  set (s' := set_conns s _). split.
  - intros c' Hne. rewrite settle_conns. unfold s', set_conns. cbn [v_conns].
    rewrite nth_error_upd. destruct (Nat.eqb_spec c c'); [congruence|reflexivity].
  - intros Hns. unfold settle. rewrite settle_cur_nostop by exact Hns.
    split; reflexivity.
Qed.

(** After the serving task was cancelled: the address accepts no connection, is_serving() is
    false, and the task completes exactly when every client that connected during this run has
    gone (disconnected, or sent one more line, after which its session ends) — not earlier.
    (Clients of an earlier run that is still draining do not hold this task back: each task waits
    for its own run's connections.) *)
Theorem C19_stop : forall k tr,
  let s := run k tr in
  v_stopreq s = true ->
  v_listening s = false /\
  (v_done s = true <-> run_ended (v_gen s) (v_conns s) = true) /\
  v_conns (step s LConnect) = v_conns s /\ v_refused (step s LConnect) = S (v_refused s).
Proof.
  intros k tr s Hs. pose proof (Inv_run k tr) as I. fold s in I.
  destruct (inv_stopped _ I Hs) as [Hl _]. split; [exact Hl|].
  split; [exact (inv_done_iff _ I Hs)|].
  cbn [step]. unfold accepting. rewrite Hl. cbn. auto.
Qed.

(** ... which, no run having overlapped with another, are all the clients there are. *)
Theorem C19_stop_no_overlap : forall k tr,
  let s := run k tr in
  v_stopreq s = true -> v_overlap s = false ->
  v_listening s = false /\
  (v_done s = true <-> all_sessions_ended (v_conns s) = true) /\
  v_conns (step s LConnect) = v_conns s /\ v_refused (step s LConnect) = S (v_refused s).
Proof.
  intros k tr s Hs Ho. pose proof (Inv_run k tr) as I. fold s in I.
  destruct (C19_stop k tr Hs) as (H1 & H2 & H3). fold s in H1, H2, H3.
  rewrite (no_overlap_run_ended s I Ho) in H2. auto.
Qed.

(** ... and it does complete: after the serving task was cancelled, as soon as every connected
    client has disconnected (in any order, other labels of clients that are gone being no-ops) - PROVIDED no session is
    inside a waiting command -
    the task is done, the address stays closed and a Unix server's socket file is gone.  With or
    without overlapping runs. *)
Theorem C19_stop_completes : forall k tr cs,
  let s := run k tr in
  v_stopreq s = true -> SStop.nobody_waits s ->
  (forall c, c < length (v_conns s) -> In c cs) ->
  let s' := fold_left step (map LLeave cs) s in
  v_done s' = true /\ v_listening s' = false /\ v_sockfile s' = false.
Proof. exact SStop.stop_completes. Qed.

(** REFUTED without that hypothesis (open finding D12): a client sends a command whose method
    waits (until-closed on a pool nobody closes) and disconnects; its session stays inside the pool
    call and cannot notice; the serving task is then cancelled - and never completes, although no
    client is connected any more: "it completes once connected clients have gone" fails.  The
    witness is replayed on the implementation by the C19 check (KNOWN-FINDING). *)
Theorem C19_stop_waits_for_waiting_session :
  exists tr, let s := run TCP tr in
    v_stopreq s = true /\ v_done s = false /\
    forallb (fun k => negb (k_client_open k)) (v_conns s) = true /\
    (* ... and no departure of anybody can change that *)
    v_done (fold_left step [LLeave 0; LLeave 0; LSend 0] s) = false.
Proof.
  exists [LStart; LConnect; LSendWait 0; LLeave 0; LStop]. vm_compute. repeat split; reflexivity.
Qed.

(** no client is connected, and no session is stuck inside a waiting command (the pool is closed,
    or nobody waits): then no session is left *)
Lemma clients_gone_sessions_over : forall s,
  Inv s ->
  (forall c x, nth_error (v_conns s) c = Some x -> k_client_open x = false) ->
  (v_pool_closed s = true \/ SStop.nobody_waits s) ->
  all_sessions_ended (v_conns s) = true.
Proof.
  intros s I Hgone Hnw. unfold all_sessions_ended. apply forallb_forall. intros x Hx.
  apply In_nth_error in Hx. destruct Hx as [c Hc].
  destruct (k_session x) eqn:Hs; [|reflexivity]. exfalso.
  assert (Hw : k_waiting x = false).
  { destruct Hnw as [Hpc|N]; [exact (inv_closed_nowait _ I Hpc c x Hc)|exact (N c x Hc)]. }
  pose proof (inv_session_client _ I c x Hc Hs Hw) as Ho.
  rewrite (Hgone c x Hc) in Ho. discriminate.
Qed.

(** What the waiting sessions wait for is the pool's closing.  Once the pool is closed, a stop
    requested with every client gone has completed - whatever was waiting before: the task is
    done, the address closed, the socket file gone, and no earlier run is left draining. *)
Theorem C19_stop_completes_when_pool_closed : forall k tr,
  let s := run k tr in
  v_stopreq s = true ->
  (forall c x, nth_error (v_conns s) c = Some x -> k_client_open x = false) ->
  v_pool_closed s = true ->
  v_done s = true /\ v_listening s = false /\ v_sockfile s = false /\ v_drain s = [].
Proof.
  intros k tr s Hs Hgone Hpc. pose proof (Inv_run k tr) as I. fold s in I.
  pose proof (clients_gone_sessions_over s I Hgone (or_introl Hpc)) as E.
  destruct (all_ended_no_drain s I E) as [Hdr Hd]. specialize (Hd Hs).
  split; [exact Hd|]. split; [exact (proj1 (inv_stopped _ I Hs))|].
  split; [exact (inv_sock_gone _ I Hd)|exact Hdr].
Qed.

(** Every run completes - the earlier ones too, and also without a stop of the latest: when no
    client is connected and no session is stuck inside a waiting command, no earlier run is left
    draining, and the latest task, if cancelled, is done. *)
Theorem C19_every_run_completes : forall k tr,
  let s := run k tr in
  (forall c x, nth_error (v_conns s) c = Some x -> k_client_open x = false) ->
  (v_pool_closed s = true \/ SStop.nobody_waits s) ->
  v_drain s = [] /\ (v_stopreq s = true -> v_done s = true).
Proof.
  intros k tr s Hgone Hnw. pose proof (Inv_run k tr) as I. fold s in I.
  exact (all_ended_no_drain s I (clients_gone_sessions_over s I Hgone Hnw)).
Qed.

(** The witness of C19_stop_waits_for_waiting_session, continued: closing the pool lets the stuck
    session return, find its client gone and end; the stop then completes. *)
Example C19_close_frees_the_stop :
  let s := run TCP [LStart; LConnect; LSendWait 0; LLeave 0; LStop] in
  v_done s = false /\ v_done (step s LClosePool) = true.
Proof. vm_compute. split; reflexivity. Qed.

(** Closing the pool releases exactly the waiting commands: the pool is closed; no connection
    appears or disappears; a session that was not waiting is untouched; a waiting one whose client
    is still there gets its one reply and goes on iff the (latest run of the) server serves; a
    waiting one whose client has gone ends, without a reply. *)
Theorem C19_close_pool_releases : forall k tr,
  let s := run k tr in
  let s' := step s LClosePool in
  v_pool_closed s' = true /\
  length (v_conns s') = length (v_conns s) /\
  forall c x, nth_error (v_conns s) c = Some x ->
    (k_waiting x = false -> nth_error (v_conns s') c = Some x) /\
    (k_waiting x = true -> k_client_open x = true ->
     nth_error (v_conns s') c
     = Some {| k_client_open := true; k_session := v_listening s; k_replies := S (k_replies x);
               k_hello := k_hello x; k_waiting := false; k_gen := k_gen x |}) /\
    (k_waiting x = true -> k_client_open x = false ->
     nth_error (v_conns s') c
     = Some {| k_client_open := false; k_session := false; k_replies := k_replies x;
               k_hello := k_hello x; k_waiting := false; k_gen := k_gen x |}).
Proof.
  intros k tr s s'. unfold s'. cbn [step].
  match goal with |- context [settle ?z] =>
    destruct (settle_fields z) as (_ & _ & Hc & _ & _ & _ & _ & Hp) end.
  rewrite Hc, Hp. cbn [v_conns v_pool_closed].
  split; [reflexivity|]. split; [apply map_length|].
  intros c x Hx. rewrite nth_error_map, Hx. cbn [option_map].
  split; [|split].
  - intros Hw. rewrite Hw. reflexivity.
  - intros Hw Ho. rewrite Hw, Ho. reflexivity.
  - intros Hw Ho. rewrite Hw, Ho. reflexivity.
Qed.

(** Once the task has completed a Unix server's socket file is gone; while it has not, the file
    is there - no run having overlapped with another (otherwise see
    C19_unix_overlap_loses_socket). *)
Theorem C19_socket_file : forall tr,
  let s := run Unix tr in
  (v_done s = true -> v_sockfile s = false) /\
  (v_overlap s = false -> v_started s = true -> v_done s = false -> v_sockfile s = true).
Proof.
  intros tr s. pose proof (Inv_run Unix tr) as I. fold s in I. split.
  - exact (inv_sock_gone _ I).
  - intros Ho. apply (inv_sock_there _ I Ho). apply run_kind.
Qed.

(** Non-vacuity: two clients, the stop arrives while both are connected; the task completes only
    when the second one has gone; the socket file disappears then. *)
Example C19_example :
  map (fun s => (v_listening s, v_done s, v_sockfile s))
      (observe Unix [LStart; LConnect; LConnect; LSend 0; LStop; LLeave 0; LConnect; LSend 1])
  = [(true, false, true); (true, false, true); (true, false, true); (true, false, true);
     (false, false, true); (false, false, true); (false, false, true); (false, true, false)].
Proof. vm_compute. reflexivity. Qed.

(** Sessions are independent while a handshake is pending: a client that has connected but not
    yet sent its handshake line holds a waiting session; whatever that client does or does not do,
    every other connection's record is untouched by its handshake, and the handshake itself is
    answered with exactly one reply (after which the session lives iff the latest run of the
    server still serves); meanwhile other clients are accepted - as long as connection attempts
    reach the server at all ([accepting]: it listens and, Unix, its socket file is in place). *)
Theorem C19_pending_handshake_is_local : forall k tr c x,
  let s := run k tr in
  nth_error (v_conns s) c = Some x -> k_client_open x = true -> k_session x = true ->
  k_hello x = false ->
  nth_error (v_conns (step s (LHello c))) c
  = Some {| k_client_open := true; k_session := v_listening s; k_replies := S (k_replies x);
            k_hello := true; k_waiting := false; k_gen := k_gen x |} /\
  (forall c', c' <> c -> nth_error (v_conns (step s (LHello c))) c' = nth_error (v_conns s) c') /\
  (accepting s = true ->
   v_conns (step s LOpen) = v_conns s ++ [new_conn s true true 0 false] /\
   v_conns (step s LConnect) = v_conns s ++ [new_conn s true true 1 true]).
Proof.
  intros k tr c x s Hx Ho Hse Hh. cbn [step]. rewrite Hx, Ho, Hse, Hh. cbn [andb negb].
  unfold answer. rewrite settle_conns. unfold set_conns. cbn [v_conns]. split; [|split].
  - rewrite nth_error_upd, Nat.eqb_refl.
    assert (Hlt : c < length (v_conns s)) by (apply nth_error_Some; congruence).
    apply Nat.ltb_lt in Hlt. rewrite Hlt. reflexivity.
  - intros c' Hne. rewrite nth_error_upd.
    destruct (Nat.eqb_spec c c'); [congruence|reflexivity].
  - intros Ha. rewrite Ha. split; reflexivity.
Qed.

(** Restart: once the serving task has completed, serve_forever() on the same server object serves
    again (same address, a Unix server's socket file is back) and can be stopped again.  It is a
    new run, which overlaps with nothing (unless an earlier one did, and is still draining). *)
Theorem C19_restart : forall k tr,
  let s := run k tr in
  v_done s = true ->
  let s' := step s LStart in
  v_listening s' = true /\ v_done s' = false /\ v_stopreq s' = false /\ v_conns s' = v_conns s /\
  (k = Unix -> v_sockfile s' = true) /\
  v_gen s' = S (v_gen s) /\ v_drain s' = v_drain s /\ v_overlap s' = v_overlap s.
Proof.
  intros k tr s Hd s'. unfold s'. cbn [step]. rewrite Hd. rewrite andb_false_r. cbn.
  rewrite orb_false_r. repeat split; auto. intros ->.
  unfold is_unix, s. rewrite run_kind. reflexivity.
Qed.

Example C19_restart_example :
  map (fun s => (v_listening s, v_done s, v_sockfile s))
      (observe Unix [LStart; LConnect; LStop; LLeave 0; LStart; LConnect; LSend 1; LStop; LSend 1])
  = [(true, false, true); (true, false, true); (false, false, true); (false, true, false);
     (true, false, true); (true, false, true); (true, false, true); (false, false, true);
     (false, true, false)].
Proof. vm_compute. reflexivity. Qed.

(** Overlapping restart: serve_forever() again while the cancelled task still waits for its
    lingering clients.  A new run starts beside the old one, which goes on draining; the server
    listens again; and the lingering clients of the earlier run keep being served - their sessions
    ask is_serving(), which now speaks about the new run. *)
Theorem C19_overlapping_restart : forall k tr,
  let s := run k tr in
  v_stopreq s = true -> v_done s = false ->
  let s' := step s LStart in
  v_listening s' = true /\ v_done s' = false /\ v_stopreq s' = false /\ v_conns s' = v_conns s /\
  v_drain s' = v_drain s ++ [v_gen s] /\ v_gen s' = S (v_gen s) /\ v_overlap s' = true /\
  (forall c x, nth_error (v_conns s) c = Some x -> k_client_open x = true -> k_session x = true ->
     k_hello x = true -> k_waiting x = false ->
     nth_error (v_conns (step s' (LSend c))) c
     = Some {| k_client_open := true; k_session := true; k_replies := S (k_replies x);
               k_hello := true; k_waiting := false; k_gen := k_gen x |}).
Proof.
  intros k tr s Hs Hd s'. pose proof (Inv_run k tr) as I. fold s in I.
  destruct (inv_stopped _ I Hs) as [_ Hst].
  assert (E : s' = start_run s true).
  { unfold s'. cbn [step]. rewrite Hst, Hd, Hs. reflexivity. }
  rewrite E. cbn [start_run v_listening v_done v_stopreq v_conns v_drain v_gen v_overlap].
  rewrite orb_true_r. repeat split.
  intros c x Hx Ho Hse Hh Hw. cbn [step start_run v_conns]. rewrite Hx, Ho, Hse, Hh, Hw.
  cbn [andb negb]. unfold answer. rewrite settle_conns. unfold set_conns.
  cbn [v_conns v_listening].
  rewrite nth_error_upd, Nat.eqb_refl.
  assert (Hlt : c < length (v_conns s)) by (apply nth_error_Some; congruence).
  apply Nat.ltb_lt in Hlt.
  change (v_conns (start_run s true)) with (v_conns s).
  change (v_listening (start_run s true)) with true.
  rewrite Hlt. reflexivity.
Qed.

(** Over TCP an overlap is harmless: connection attempts succeed exactly while is_serving() is
    true, no serving task ever ends with an exception, and there is no socket file to lose. *)
Theorem C19_tcp_overlap_harmless : forall tr,
  let s := run TCP tr in
  accepting s = v_listening s /\ v_raised s = false /\ v_sockfile s = false.
Proof.
  intros tr s. pose proof (Inv_run TCP tr) as I. fold s in I.
  assert (Hk : v_kind s = TCP) by apply run_kind.
  split; [|split].
  - unfold accepting, is_unix. rewrite Hk. cbn. apply andb_true_r.
  - destruct (v_raised s) eqn:E; [|reflexivity].
    destruct (inv_raised _ I E) as [H _]. congruence.
  - exact (inv_sock_tcp _ I Hk).
Qed.

(** Over a Unix socket it is not (finding): every run's final callback removes the same path.
    The first run's task, completing when its lingering client leaves, removes the socket file of
    the second run: the server reports is_serving() = true, yet new clients are refused; and when
    the second run is stopped and has drained, its own final callback finds the file gone and the
    task ends with an exception. *)
Example C19_unix_overlap_loses_socket :
  let s := run Unix [LStart; LConnect; LStop; LStart; LConnect; LLeave 0] in
  v_listening s = true /\ v_sockfile s = false /\ v_refused (step s LConnect) = 1 /\
  v_raised (run Unix [LStart; LConnect; LStop; LStart; LConnect; LLeave 0; LStop; LLeave 1]) = true.
Proof. vm_compute. repeat split; reflexivity. Qed.

(** ... whereas a client that vanishes with a connection *reset* takes its transport with it: the
    same history as in C19_stop_waits_for_waiting_session with an abort instead of a clean
    disconnect lets the stop complete. *)
Example C19_abort_frees_the_stop :
  let s := run TCP [LStart; LConnect; LSendWait 0; LAbort 0; LStop] in
  v_done s = true /\ v_listening s = false.
Proof. vm_compute. split; reflexivity. Qed.

Print Assumptions C19_serving_until_stop.
Print Assumptions C19_clients_served.
Print Assumptions C19_disconnect_is_local.
Print Assumptions C19_stop.
Print Assumptions C19_stop_no_overlap.
Print Assumptions C19_stop_completes.
Print Assumptions C19_stop_waits_for_waiting_session.
Print Assumptions C19_stop_completes_when_pool_closed.
Print Assumptions C19_every_run_completes.
Print Assumptions C19_close_frees_the_stop.
Print Assumptions C19_close_pool_releases.
Print Assumptions C19_socket_file.
Print Assumptions C19_example.
Print Assumptions C19_pending_handshake_is_local.
Print Assumptions C19_restart.
Print Assumptions C19_restart_example.
Print Assumptions C19_overlapping_restart.
Print Assumptions C19_tcp_overlap_harmless.
Print Assumptions C19_unix_overlap_loses_socket.
Print Assumptions C19_abort_frees_the_stop.
