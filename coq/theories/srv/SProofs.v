(** M3 — invariant of the server lifecycle model (with runs, overlapping restarts and the pool's
    closing) and its consequences (C19). *)
From TP Require Import SModel.

Record Inv (s : srv) : Prop := {
  inv_nostart : v_started s = false ->
                v_listening s = false /\ v_stopreq s = false /\ v_done s = false /\
                v_conns s = [] /\ v_drain s = [] /\ v_gen s = 0;
  inv_serving : v_started s = true -> v_stopreq s = false ->
                v_listening s = true /\ v_done s = false;
  inv_stopped : v_stopreq s = true -> v_listening s = false /\ v_started s = true;
  inv_done_iff : v_stopreq s = true ->
                 (v_done s = true <-> run_ended (v_gen s) (v_conns s) = true);
  inv_done_stop : v_done s = true -> v_stopreq s = true;
  inv_sock_gone : v_done s = true -> v_sockfile s = false;
  inv_sock_there : v_overlap s = false -> v_kind s = Unix -> v_started s = true ->
                   v_done s = false -> v_sockfile s = true;
  inv_sock_tcp : v_kind s = TCP -> v_sockfile s = false;
  inv_session_client : forall c k, nth_error (v_conns s) c = Some k -> k_session k = true ->
                       k_waiting k = false -> k_client_open k = true;
  inv_waiting_session : forall c k, nth_error (v_conns s) c = Some k -> k_waiting k = true ->
                        k_session k = true;
  inv_closed_nowait : v_pool_closed s = true ->
                      forall c k, nth_error (v_conns s) c = Some k -> k_waiting k = false;
  inv_gen_pos : v_started s = true -> 1 <= v_gen s;
  inv_gen : forall c k, nth_error (v_conns s) c = Some k -> 1 <= k_gen k <= v_gen s;
  inv_live_run : forall c k, nth_error (v_conns s) c = Some k -> k_session k = true ->
                 k_gen k = v_gen s \/ In (k_gen k) (v_drain s);
  inv_drain_old : forall g, In g (v_drain s) -> 1 <= g < v_gen s;
  inv_drain_live : forall g, In g (v_drain s) -> run_ended g (v_conns s) = false;
  inv_no_overlap : v_overlap s = false -> v_drain s = [] /\ v_raised s = false;
  inv_raised : v_raised s = true -> v_kind s = Unix /\ v_done s = true
}.

(** what holds of a state whose connections have just changed, before the system settles: as
    [Inv], except that a run may be over (no session of it left) while its task is not marked
    completed yet *)
Record WInv (s : srv) : Prop := {
  w_nostart : v_started s = false ->
              v_listening s = false /\ v_stopreq s = false /\ v_done s = false /\
              v_conns s = [] /\ v_drain s = [] /\ v_gen s = 0;
  w_serving : v_started s = true -> v_stopreq s = false ->
              v_listening s = true /\ v_done s = false;
  w_stopped : v_stopreq s = true -> v_listening s = false /\ v_started s = true;
  w_done : v_done s = true -> v_stopreq s = true /\ run_ended (v_gen s) (v_conns s) = true;
  w_sock_gone : v_done s = true -> v_sockfile s = false;
  w_sock_there : v_overlap s = false -> v_kind s = Unix -> v_started s = true ->
                 v_done s = false -> v_sockfile s = true;
  w_sock_tcp : v_kind s = TCP -> v_sockfile s = false;
  w_session_client : forall c k, nth_error (v_conns s) c = Some k -> k_session k = true ->
                     k_waiting k = false -> k_client_open k = true;
  w_waiting_session : forall c k, nth_error (v_conns s) c = Some k -> k_waiting k = true ->
                      k_session k = true;
  w_closed_nowait : v_pool_closed s = true ->
                    forall c k, nth_error (v_conns s) c = Some k -> k_waiting k = false;
  w_gen_pos : v_started s = true -> 1 <= v_gen s;
  w_gen : forall c k, nth_error (v_conns s) c = Some k -> 1 <= k_gen k <= v_gen s;
  w_live_run : forall c k, nth_error (v_conns s) c = Some k -> k_session k = true ->
               k_gen k = v_gen s \/ In (k_gen k) (v_drain s);
  w_drain_old : forall g, In g (v_drain s) -> 1 <= g < v_gen s;
  w_no_overlap : v_overlap s = false -> v_drain s = [] /\ v_raised s = false;
  w_raised : v_raised s = true -> v_kind s = Unix /\ v_done s = true
}.

Lemma Inv_init k : Inv (init k).
Proof.
  constructor; cbn.
  - intros _. repeat split; reflexivity.
  - intros H; discriminate.
  - intros H; discriminate.
  - intros H; discriminate.
  - intros H; discriminate.
  - intros H; discriminate.
  - intros _ _ H; discriminate.
  - intros _. reflexivity.
  - intros c x H. destruct c; discriminate.
  - intros c x H. destruct c; discriminate.
  - intros H; discriminate.
  - intros H; discriminate.
  - intros c x H. destruct c; discriminate.
  - intros c x H. destruct c; discriminate.
  - intros g [].
  - intros g [].
  - intros _. split; reflexivity.
  - intros H; discriminate.
Qed.

Lemma nth_error_upd {A} (l : list A) n m x :
  nth_error (upd l n x) m =
  if Nat.eqb n m then (if Nat.ltb n (length l) then Some x else None) else nth_error l m.
Proof.
  revert n m. induction l as [|h t IH]; intros [|n] [|m]; cbn; auto.
  - destruct (Nat.eqb n m); reflexivity.
  - rewrite IH. destruct (Nat.eqb n m); auto.
Qed.

Lemma upd_length {A} (l : list A) n x : length (upd l n x) = length l.
Proof. revert n. induction l as [|h t IH]; intros [|n]; cbn; auto. Qed.

(* case analysis on a boolean of the goal only (hypotheses are left untouched) *)
Ltac dcase t H := let bb := fresh "bb" in remember t as bb eqn:H; destruct bb; symmetry in H.

(** * runs and their sessions *)

Lemma all_ended_app cs k :
  all_sessions_ended (cs ++ [k]) = all_sessions_ended cs && negb (k_session k).
Proof. unfold all_sessions_ended. rewrite forallb_app. cbn. rewrite andb_true_r. reflexivity. Qed.

Lemma run_ended_app g cs k :
  run_ended g (cs ++ [k]) = run_ended g cs && negb (k_session k && Nat.eqb (k_gen k) g).
Proof. unfold run_ended. rewrite forallb_app. cbn. rewrite andb_true_r. reflexivity. Qed.

(** a live session keeps its run going *)
Lemma run_ended_live cs c k g :
  nth_error cs c = Some k -> k_session k = true -> k_gen k = g -> run_ended g cs = false.
Proof.
  intros Hk Hs Hg. apply Bool.not_true_is_false. intros E. unfold run_ended in E.
  rewrite forallb_forall in E. apply nth_error_In in Hk. apply E in Hk.
  rewrite Hs, Hg, Nat.eqb_refl in Hk. discriminate.
Qed.

Lemma run_ended_no_live cs g :
  (forall c k, nth_error cs c = Some k -> k_session k = true -> k_gen k <> g) ->
  run_ended g cs = true.
Proof.
  intros H. unfold run_ended. apply forallb_forall. intros x Hx.
  apply In_nth_error in Hx. destruct Hx as [c Hc].
  destruct (k_session x) eqn:Hs; [|reflexivity]. cbn.
  apply negb_true_iff. apply Nat.eqb_neq. eapply H; eauto.
Qed.

Lemma run_ended_nth cs g c k :
  run_ended g cs = true -> nth_error cs c = Some k -> k_session k = true -> k_gen k <> g.
Proof.
  intros E Hk Hs Hg. rewrite (run_ended_live cs c k g Hk Hs Hg) in E. discriminate.
Qed.

Lemma all_ended_run_ended cs g : all_sessions_ended cs = true -> run_ended g cs = true.
Proof.
  intros E. apply run_ended_no_live. intros c k Hk Hs. exfalso.
  unfold all_sessions_ended in E. rewrite forallb_forall in E.
  apply nth_error_In in Hk. apply E in Hk. rewrite Hs in Hk. discriminate.
Qed.

(** every live session belongs to run g: then "run g is over" = "every session is over" *)
Lemma run_ended_all_ended cs g :
  (forall c k, nth_error cs c = Some k -> k_session k = true -> k_gen k = g) ->
  run_ended g cs = all_sessions_ended cs.
Proof.
  intros H. destruct (all_sessions_ended cs) eqn:E.
  - apply all_ended_run_ended. exact E.
  - apply Bool.not_true_is_false. intros R. apply Bool.not_true_iff_false in E. apply E.
    unfold all_sessions_ended. apply forallb_forall. intros x Hx.
    apply In_nth_error in Hx. destruct Hx as [c Hc].
    destruct (k_session x) eqn:Hs; [|reflexivity]. exfalso.
    exact (run_ended_nth cs g c x R Hc Hs (H c x Hc Hs)).
Qed.

Lemma filter_length_le' {A} (f : A -> bool) l : length (filter f l) <= length l.
Proof. induction l as [|a t IH]; cbn; [lia|]. destruct (f a); cbn; lia. Qed.

Lemma filter_length_eq {A} (f : A -> bool) l : length (filter f l) = length l -> filter f l = l.
Proof.
  induction l as [|a t IH]; cbn; [reflexivity|]. destruct (f a); cbn; intros H.
  - f_equal. apply IH. lia.
  - pose proof (filter_length_le' f t). lia.
Qed.

(** * how the connections may change in one step *)

(** the new record k' of a connection whose record was k ([closed]: the pool is closed now) *)
Definition conn_evolves (closed : bool) (k k' : conn) : Prop :=
  k_gen k' = k_gen k /\
  (k_session k' = true -> k_session k = true) /\
  (k_session k' = true -> k_waiting k' = false -> k_client_open k' = true) /\
  (k_waiting k' = true -> k_session k' = true) /\
  (closed = true -> k_waiting k' = false).

Definition evolves (closed : bool) (cs cs' : list conn) : Prop :=
  forall c k', nth_error cs' c = Some k' ->
  exists k, nth_error cs c = Some k /\ conn_evolves closed k k'.

Lemma run_ended_evolves b cs cs' g :
  evolves b cs cs' -> run_ended g cs = true -> run_ended g cs' = true.
Proof.
  intros Ev E. apply run_ended_no_live. intros c k' Hk' Hs.
  destruct (Ev c k' Hk') as (k & Hk & Hg & Hse & _). rewrite Hg.
  exact (run_ended_nth cs g c k E Hk (Hse Hs)).
Qed.

Lemma conn_evolves_refl s c k :
  Inv s -> nth_error (v_conns s) c = Some k -> conn_evolves (v_pool_closed s) k k.
Proof.
  intros I Hk. repeat split; auto.
  - intros Hs Hw. exact (inv_session_client _ I c k Hk Hs Hw).
  - intros Hw. exact (inv_waiting_session _ I c k Hk Hw).
  - intros Hc. exact (inv_closed_nowait _ I Hc c k Hk).
Qed.

Lemma evolves_upd b cs c k k' :
  (forall n x, nth_error cs n = Some x -> conn_evolves b x x) ->
  nth_error cs c = Some k -> conn_evolves b k k' -> evolves b cs (upd cs c k').
Proof.
  intros Hrefl Hk Hkk' n x Hx. rewrite nth_error_upd in Hx.
  destruct (Nat.eqb_spec c n) as [->|Hne].
  - destruct (Nat.ltb n (length cs)); [|discriminate]. injection Hx as <-.
    exists k. split; assumption.
  - exists x. split; [exact Hx|]. eapply Hrefl; eauto.
Qed.

Lemma evolves_map b cs f :
  (forall n x, nth_error cs n = Some x -> conn_evolves b x (f x)) -> evolves b cs (map f cs).
Proof.
  intros H n x Hx. rewrite nth_error_map in Hx.
  destruct (nth_error cs n) as [y|] eqn:Hy; cbn in Hx; [|discriminate].
  injection Hx as <-. exists y. split; [reflexivity|]. eapply H; eauto.
Qed.

(** a state that differs from an invariant one in its connections (and the pool's flag, and the
    refusals' count) only *)
Lemma WInv_evolve s s' :
  Inv s ->
  v_kind s' = v_kind s -> v_started s' = v_started s -> v_listening s' = v_listening s ->
  v_stopreq s' = v_stopreq s -> v_done s' = v_done s -> v_sockfile s' = v_sockfile s ->
  v_gen s' = v_gen s -> v_drain s' = v_drain s -> v_overlap s' = v_overlap s ->
  v_raised s' = v_raised s ->
  evolves (v_pool_closed s') (v_conns s) (v_conns s') ->
  WInv s'.
Proof.
  intros I Ek Est El Esr Ed Esf Eg Edr Eo Er Ev.
  constructor; rewrite ?Ek, ?Est, ?El, ?Esr, ?Ed, ?Esf, ?Eg, ?Edr, ?Eo, ?Er.
  - intros H. destruct (inv_nostart _ I H) as (Ha & Hb & Hc & Hd & He & Hf).
    repeat split; auto.
    destruct (v_conns s') as [|k' t] eqn:E; [reflexivity|].
    destruct (Ev 0 k') as (k & Hk & _); [try rewrite E; reflexivity|].
    rewrite Hd in Hk. discriminate.
  - exact (inv_serving _ I).
  - exact (inv_stopped _ I).
  - intros H. pose proof (inv_done_stop _ I H) as Hs. split; [exact Hs|].
    eapply run_ended_evolves; [exact Ev|]. apply (inv_done_iff _ I Hs). exact H.
  - exact (inv_sock_gone _ I).
  - exact (inv_sock_there _ I).
  - exact (inv_sock_tcp _ I).
  - intros c k' Hk' Hs Hw. destruct (Ev c k' Hk') as (k & Hk & _ & _ & R & _). auto.
  - intros c k' Hk' Hw. destruct (Ev c k' Hk') as (k & Hk & _ & _ & _ & R & _). auto.
  - intros Hc c k' Hk'. destruct (Ev c k' Hk') as (k & Hk & _ & _ & _ & _ & R). auto.
  - exact (inv_gen_pos _ I).
  - intros c k' Hk'. destruct (Ev c k' Hk') as (k & Hk & Hg & _). rewrite Hg.
    exact (inv_gen _ I c k Hk).
  - intros c k' Hk' Hs. destruct (Ev c k' Hk') as (k & Hk & Hg & Hse & _). rewrite Hg.
    exact (inv_live_run _ I c k Hk (Hse Hs)).
  - exact (inv_drain_old _ I).
  - exact (inv_no_overlap _ I).
  - exact (inv_raised _ I).
Qed.

(** * settling *)

Lemma settle_old_fields s :
  v_kind (settle_old s) = v_kind s /\ v_started (settle_old s) = v_started s /\
  v_listening (settle_old s) = v_listening s /\ v_stopreq (settle_old s) = v_stopreq s /\
  v_done (settle_old s) = v_done s /\ v_conns (settle_old s) = v_conns s /\
  v_refused (settle_old s) = v_refused s /\ v_gen (settle_old s) = v_gen s /\
  v_overlap (settle_old s) = v_overlap s /\ v_raised (settle_old s) = v_raised s /\
  v_pool_closed (settle_old s) = v_pool_closed s.
Proof. cbn. repeat split; reflexivity. Qed.

Lemma settle_old_drain s :
  v_drain (settle_old s) = filter (fun g => negb (run_ended g (v_conns s))) (v_drain s).
Proof. reflexivity. Qed.

(** the earlier runs' stage changes nothing if no earlier run is draining *)
Lemma settle_old_nodrain s : v_drain s = [] -> settle_old s = set_conns s (v_conns s).
Proof. intros H. unfold settle_old, set_conns. rewrite H. cbn. reflexivity. Qed.

Lemma settle_cur_fields s :
  v_kind (settle_cur s) = v_kind s /\ v_started (settle_cur s) = v_started s /\
  v_conns (settle_cur s) = v_conns s /\ v_refused (settle_cur s) = v_refused s /\
  v_stopreq (settle_cur s) = v_stopreq s /\ v_gen (settle_cur s) = v_gen s /\
  v_drain (settle_cur s) = v_drain s /\ v_overlap (settle_cur s) = v_overlap s /\
  v_pool_closed (settle_cur s) = v_pool_closed s.
Proof.
  unfold settle_cur.
  destruct (v_stopreq s && negb (v_done s) && run_ended (v_gen s) (v_conns s)) eqn:E; cbn;
    [|repeat split; reflexivity].
  apply andb_true_iff in E. destruct E as [E _]. apply andb_true_iff in E. destruct E as [E _].
  rewrite E. repeat split; reflexivity.
Qed.

Lemma settle_fields s :
  v_kind (settle s) = v_kind s /\ v_started (settle s) = v_started s /\
  v_conns (settle s) = v_conns s /\ v_refused (settle s) = v_refused s /\
  v_stopreq (settle s) = v_stopreq s /\ v_gen (settle s) = v_gen s /\
  v_overlap (settle s) = v_overlap s /\ v_pool_closed (settle s) = v_pool_closed s.
Proof.
  unfold settle.
  destruct (settle_cur_fields (settle_old s)) as (H1 & H2 & H3 & H4 & H5 & H6 & _ & H8 & H9).
  rewrite H1, H2, H3, H4, H5, H6, H8, H9. cbn. repeat split; reflexivity.
Qed.

Lemma settle_conns s : v_conns (settle s) = v_conns s.
Proof. apply (settle_fields s). Qed.

Lemma settle_kind s : v_kind (settle s) = v_kind s.
Proof. apply (settle_fields s). Qed.

Lemma settle_stopreq s : v_stopreq (settle s) = v_stopreq s.
Proof. apply (settle_fields s). Qed.

(** before a stop request (and with no earlier run draining) settling changes nothing that can be
    observed *)
Lemma settle_cur_nostop s : v_stopreq s = false -> settle_cur s = s.
Proof. intros H. unfold settle_cur. rewrite H. reflexivity. Qed.

(** first stage: the earlier runs that are over leave [v_drain] *)
Lemma WInv_settle_old s :
  WInv s ->
  WInv (settle_old s) /\
  (forall g, In g (v_drain (settle_old s)) -> run_ended g (v_conns (settle_old s)) = false).
Proof.
  intros W. split.
  - constructor; cbn.
    + intros H. destruct (w_nostart _ W H) as (Ha & Hb & Hc & Hd & He & Hf).
      rewrite He. cbn. repeat split; assumption.
    + exact (w_serving _ W).
    + exact (w_stopped _ W).
    + exact (w_done _ W).
    + intros H. destruct (Nat.eqb _ _); [exact (w_sock_gone _ W H)|reflexivity].
    + intros Ho Hk Hst Hd. destruct (w_no_overlap _ W Ho) as [He _]. rewrite He. cbn.
      exact (w_sock_there _ W Ho Hk Hst Hd).
    + intros H. destruct (Nat.eqb _ _); [exact (w_sock_tcp _ W H)|reflexivity].
    + exact (w_session_client _ W).
    + exact (w_waiting_session _ W).
    + exact (w_closed_nowait _ W).
    + exact (w_gen_pos _ W).
    + exact (w_gen _ W).
    + intros c k Hk Hs. destruct (w_live_run _ W c k Hk Hs) as [Hg|Hg]; [left; exact Hg|].
      right. apply filter_In. split; [exact Hg|].
      rewrite (run_ended_live _ c k (k_gen k) Hk Hs eq_refl). reflexivity.
    + intros g Hg. apply filter_In in Hg. destruct Hg as [Hg _]. exact (w_drain_old _ W g Hg).
    + intros Ho. destruct (w_no_overlap _ W Ho) as [He Hr]. rewrite He. cbn. split; auto.
    + exact (w_raised _ W).
  - cbn. intros g Hg. apply filter_In in Hg. destruct Hg as [_ Hg].
    apply negb_true_iff in Hg. exact Hg.
Qed.

(** second stage: the latest run's task completes if it was cancelled and its run is over *)
Lemma Inv_settle_cur s :
  WInv s -> (forall g, In g (v_drain s) -> run_ended g (v_conns s) = false) ->
  Inv (settle_cur s).
Proof.
  intros W DL. unfold settle_cur.
  destruct (v_stopreq s && negb (v_done s) && run_ended (v_gen s) (v_conns s)) eqn:E.
  - apply andb_true_iff in E. destruct E as [E Ha].
    apply andb_true_iff in E. destruct E as [Hs Hd]. apply negb_true_iff in Hd.
    destruct (w_stopped _ W Hs) as [Hl Hst].
    constructor; cbn.
    + intros H. congruence.
    + intros _ H. discriminate.
    + intros _. split; [reflexivity|exact Hst].
    + intros _. split; intros _; [exact Ha|reflexivity].
    + intros _. reflexivity.
    + intros _. reflexivity.
    + intros _ _ _ H. discriminate.
    + intros _. reflexivity.
    + exact (w_session_client _ W).
    + exact (w_waiting_session _ W).
    + exact (w_closed_nowait _ W).
    + exact (w_gen_pos _ W).
    + exact (w_gen _ W).
    + exact (w_live_run _ W).
    + exact (w_drain_old _ W).
    + exact DL.
    + intros Ho. destruct (w_no_overlap _ W Ho) as [He _]. split; [exact He|].
      unfold is_unix. destruct (v_kind s) eqn:Hk; [reflexivity|].
      rewrite (w_sock_there _ W Ho Hk Hst Hd). reflexivity.
    + intros H. split; [|reflexivity]. unfold is_unix in H.
      destruct (v_kind s); [discriminate|reflexivity].
  - constructor.
    + exact (w_nostart _ W).
    + exact (w_serving _ W).
    + exact (w_stopped _ W).
    + intros Hs. split; [intros Hd; apply (w_done _ W Hd)|].
      intros Ha. rewrite Hs, Ha in E. destruct (v_done s); [reflexivity|discriminate].
    + intros Hd. apply (w_done _ W Hd).
    + exact (w_sock_gone _ W).
    + exact (w_sock_there _ W).
    + exact (w_sock_tcp _ W).
    + exact (w_session_client _ W).
    + exact (w_waiting_session _ W).
    + exact (w_closed_nowait _ W).
    + exact (w_gen_pos _ W).
    + exact (w_gen _ W).
    + exact (w_live_run _ W).
    + exact (w_drain_old _ W).
    + exact DL.
    + exact (w_no_overlap _ W).
    + exact (w_raised _ W).
Qed.

(** [settle] re-establishes "a cancelled task is done iff no session of its run is left" - for
    the latest run and the earlier ones - after a change of the connections *)
Lemma Inv_settle s : WInv s -> Inv (settle s).
Proof.
  intros W. unfold settle. destruct (WInv_settle_old s W) as [W1 DL].
  apply Inv_settle_cur; assumption.
Qed.

(** without settling: nothing to settle *)
Lemma Inv_of_WInv s :
  WInv s -> (forall g, In g (v_drain s) -> run_ended g (v_conns s) = false) ->
  (v_stopreq s = true -> run_ended (v_gen s) (v_conns s) = true -> v_done s = true) ->
  Inv s.
Proof.
  intros W DL Hdone. constructor.
  - exact (w_nostart _ W).
  - exact (w_serving _ W).
  - exact (w_stopped _ W).
  - intros Hs. split; [intros Hd; apply (w_done _ W Hd)|exact (Hdone Hs)].
  - intros Hd. apply (w_done _ W Hd).
  - exact (w_sock_gone _ W).
  - exact (w_sock_there _ W).
  - exact (w_sock_tcp _ W).
  - exact (w_session_client _ W).
  - exact (w_waiting_session _ W).
  - exact (w_closed_nowait _ W).
  - exact (w_gen_pos _ W).
  - exact (w_gen _ W).
  - exact (w_live_run _ W).
  - exact (w_drain_old _ W).
  - exact DL.
  - exact (w_no_overlap _ W).
  - exact (w_raised _ W).
Qed.

(** * consequences of the invariant *)

(** the latest task cannot be done while a session of its run lives *)
Lemma live_session_not_done s c k :
  Inv s -> nth_error (v_conns s) c = Some k -> k_session k = true -> k_gen k = v_gen s ->
  v_done s = false.
Proof.
  intros I Hk Hse Hg. apply Bool.not_true_is_false. intros E.
  pose proof (inv_done_stop _ I E) as Hs. apply (inv_done_iff _ I Hs) in E.
  rewrite (run_ended_live _ c k _ Hk Hse Hg) in E. discriminate.
Qed.

(** without an overlap every live session belongs to the latest run ... *)
Lemma no_overlap_live_gen s c k :
  Inv s -> v_overlap s = false -> nth_error (v_conns s) c = Some k -> k_session k = true ->
  k_gen k = v_gen s.
Proof.
  intros I Ho Hk Hs. destruct (inv_live_run _ I c k Hk Hs) as [H|H]; [exact H|].
  destruct (inv_no_overlap _ I Ho) as [Hd _]. rewrite Hd in H. destruct H.
Qed.

(** ... hence the latest run is over iff every session is over *)
Lemma no_overlap_run_ended s :
  Inv s -> v_overlap s = false ->
  run_ended (v_gen s) (v_conns s) = all_sessions_ended (v_conns s).
Proof.
  intros I Ho. apply run_ended_all_ended. intros c k Hk Hs.
  exact (no_overlap_live_gen s c k I Ho Hk Hs).
Qed.

(** no session left at all: every run is over *)
Lemma all_ended_no_drain s :
  Inv s -> all_sessions_ended (v_conns s) = true ->
  v_drain s = [] /\ (v_stopreq s = true -> v_done s = true).
Proof.
  intros I E. split.
  - destruct (v_drain s) as [|g t] eqn:Hd; [reflexivity|]. exfalso.
    assert (Hin : In g (v_drain s)) by (rewrite Hd; left; reflexivity).
    pose proof (inv_drain_live _ I g Hin) as Hl.
    rewrite (all_ended_run_ended _ g E) in Hl. discriminate.
  - intros Hs. apply (inv_done_iff _ I Hs). apply all_ended_run_ended. exact E.
Qed.

(** listening: started, not cancelled, not done *)
Lemma listening_serving s :
  Inv s -> v_listening s = true ->
  v_started s = true /\ v_stopreq s = false /\ v_done s = false.
Proof.
  intros I Hl.
  assert (Hns : v_stopreq s = false).
  { destruct (v_stopreq s) eqn:E; [|reflexivity].
    destruct (inv_stopped _ I E) as [H _]. congruence. }
  assert (Hst : v_started s = true).
  { destruct (v_started s) eqn:E; [reflexivity|].
    destruct (inv_nostart _ I E) as [H _]. congruence. }
  destruct (inv_serving _ I Hst Hns) as [_ Hd]. auto.
Qed.

Lemma accepting_listening s : accepting s = true -> v_listening s = true.
Proof. unfold accepting. intros H. apply andb_true_iff in H. apply H. Qed.

(** * the steps *)

(* a fact about the connection at index c0 of [upd l c x]: about x itself, or from the old list *)
Ltac upd_case H :=
  rewrite nth_error_upd in H;
  match type of H with
  | (if Nat.eqb ?a ?b then _ else _) = _ =>
      destruct (Nat.eqb a b); [|eauto];
      match type of H with
      | (if Nat.ltb ?x ?y then _ else _) = _ => destruct (Nat.ltb x y); [|discriminate]
      end;
      injection H as <-; cbn in *; try reflexivity; try discriminate; try congruence
  end.

(* a fact about the connection at index c of [l ++ [x]]: from the old list or about x itself *)
Ltac app_case H :=
  match type of H with nth_error (?l ++ [?x]) ?c = Some ?k =>
    let Hlt := fresh "Hlt" in let Hge := fresh "Hge" in
    destruct (Nat.lt_ge_cases c (length l)) as [Hlt|Hge];
    [rewrite nth_error_app1 in H by exact Hlt; eauto
    |rewrite nth_error_app2 in H by exact Hge;
     destruct (c - length l) as [|[|?]]; cbn in H; try discriminate;
     injection H as <-; cbn in *; try reflexivity; try discriminate; try congruence]
  end.

Lemma Inv_refuse s : Inv s -> Inv (refuse s).
Proof.
  intros [I1 I2 I3 I4 I5 I6 I7 I8 I9 I10 I11 I12 I13 I14 I15 I16 I17 I18].
  constructor; cbn; assumption.
Qed.

(** a connection is accepted: it belongs to the latest run *)
Lemma Inv_accept s o se r h :
  Inv s -> accepting s = true -> (se = true -> o = true) ->
  Inv (set_conns s (v_conns s ++ [new_conn s o se r h])).
Proof.
  intros I Ha Hso. pose proof (accepting_listening s Ha) as Hl.
  destruct (listening_serving s I Hl) as (Hst & Hns & Hd).
  constructor; cbn.
  - intros H. congruence.
  - exact (inv_serving _ I).
  - exact (inv_stopped _ I).
  - intros H. congruence.
  - intros H. congruence.
  - intros H. congruence.
  - exact (inv_sock_there _ I).
  - exact (inv_sock_tcp _ I).
  - intros c k Hk Hs Hw. pose proof (inv_session_client _ I) as P. app_case Hk. auto.
  - intros c k Hk Hw. pose proof (inv_waiting_session _ I) as P. app_case Hk.
  - intros Hc c k Hk. pose proof (inv_closed_nowait _ I Hc) as P. app_case Hk.
  - exact (inv_gen_pos _ I).
  - intros c k Hk. pose proof (inv_gen _ I) as P. pose proof (inv_gen_pos _ I Hst) as Q.
    app_case Hk. lia.
  - intros c k Hk Hs. pose proof (inv_live_run _ I) as P. app_case Hk. left; reflexivity.
  - exact (inv_drain_old _ I).
  - intros g Hg. change (run_ended g (v_conns s ++ [new_conn s o se r h]) = false).
    rewrite run_ended_app, (inv_drain_live _ I g Hg). reflexivity.
  - exact (inv_no_overlap _ I).
  - exact (inv_raised _ I).
Qed.

(** a fresh run after the previous task has completed (or the first run) *)
Lemma Inv_start_plain s :
  Inv s -> v_started s && negb (v_done s) = false -> Inv (start_run s false).
Proof.
  intros I Hsd.
  assert (Hold : forall c k, nth_error (v_conns s) c = Some k -> k_session k = true ->
                             k_gen k <> v_gen s).
  { intros c k Hk Hs Hg. destruct (v_started s) eqn:Hst.
    - cbn in Hsd. apply negb_false_iff in Hsd.
      pose proof (live_session_not_done s c k I Hk Hs Hg). congruence.
    - destruct (inv_nostart _ I Hst) as (_ & _ & _ & Hc & _). rewrite Hc in Hk.
      destruct c; discriminate. }
  constructor; cbn.
  - intros H; discriminate.
  - intros _ _. split; reflexivity.
  - intros H; discriminate.
  - intros H; discriminate.
  - intros H; discriminate.
  - intros H; discriminate.
  - intros _ Hk _ _. unfold is_unix. rewrite Hk. reflexivity.
  - intros Hk. unfold is_unix. rewrite Hk. reflexivity.
  - exact (inv_session_client _ I).
  - exact (inv_waiting_session _ I).
  - exact (inv_closed_nowait _ I).
  - intros _. lia.
  - intros c k Hk. pose proof (inv_gen _ I c k Hk). lia.
  - intros c k Hk Hs. destruct (inv_live_run _ I c k Hk Hs) as [Hg|Hg]; [|right; exact Hg].
    exfalso. exact (Hold c k Hk Hs Hg).
  - intros g Hg. pose proof (inv_drain_old _ I g Hg). lia.
  - exact (inv_drain_live _ I).
  - rewrite orb_false_r. intros Ho. destruct (inv_no_overlap _ I Ho) as [He _]. auto.
  - intros H; discriminate.
Qed.

(** a fresh run while the previous, cancelled task still waits for its lingering clients *)
Lemma Inv_start_overlap s :
  Inv s -> v_stopreq s = true -> v_done s = false -> Inv (start_run s true).
Proof.
  intros I Hs Hd.
  assert (Hlive : run_ended (v_gen s) (v_conns s) = false).
  { destruct (run_ended (v_gen s) (v_conns s)) eqn:E; [|reflexivity].
    apply (inv_done_iff _ I Hs) in E. congruence. }
  constructor; cbn.
  - intros H; discriminate.
  - intros _ _. split; reflexivity.
  - intros H; discriminate.
  - intros H; discriminate.
  - intros H; discriminate.
  - intros H; discriminate.
  - rewrite orb_true_r. intros H; discriminate.
  - intros Hk. unfold is_unix. rewrite Hk. reflexivity.
  - exact (inv_session_client _ I).
  - exact (inv_waiting_session _ I).
  - exact (inv_closed_nowait _ I).
  - intros _. lia.
  - intros c k Hk. pose proof (inv_gen _ I c k Hk). lia.
  - intros c k Hk Hse. right. apply in_or_app.
    destruct (inv_live_run _ I c k Hk Hse) as [Hg|Hg]; [right; left; auto|left; exact Hg].
  - intros g Hg. apply in_app_or in Hg. destruct Hg as [Hg|[<-|[]]].
    + pose proof (inv_drain_old _ I g Hg). lia.
    + destruct (inv_stopped _ I Hs) as [_ Hst]. pose proof (inv_gen_pos _ I Hst). lia.
  - intros g Hg. apply in_app_or in Hg. destruct Hg as [Hg|[<-|[]]].
    + exact (inv_drain_live _ I g Hg).
    + exact Hlive.
  - rewrite orb_true_r. intros H; discriminate.
  - intros H; discriminate.
Qed.

(** the line of a client with a live session is answered *)
Lemma Inv_answer s c k :
  Inv s -> nth_error (v_conns s) c = Some k -> k_session k = true -> Inv (answer s c k).
Proof.
  intros I Hk Hse. unfold answer. apply Inv_settle.
  apply (WInv_evolve s); try reflexivity; [exact I|].
  unfold set_conns; cbn. eapply evolves_upd; [|exact Hk|].
  - intros n x Hx. exact (conn_evolves_refl s n x I Hx).
  - repeat split; cbn; auto; intros; discriminate.
Qed.

(** a client goes: its session ends, or stays (inside a waiting command: w = true) *)
Lemma Inv_gone s c k w :
  Inv s -> nth_error (v_conns s) c = Some k -> (w = true -> k_waiting k = true) ->
  Inv (settle (set_conns s (upd (v_conns s) c
         {| k_client_open := false; k_session := w; k_replies := k_replies k;
            k_hello := k_hello k; k_waiting := w; k_gen := k_gen k |}))).
Proof.
  intros I Hk Hw. apply Inv_settle.
  apply (WInv_evolve s); try reflexivity; [exact I|].
  unfold set_conns; cbn. eapply evolves_upd; [|exact Hk|].
  - intros n x Hx. exact (conn_evolves_refl s n x I Hx).
  - repeat split; cbn; auto.
    + intros H. exact (inv_waiting_session _ I c k Hk (Hw H)).
    + intros H H'. congruence.
    + intros Hc. destruct w; [|reflexivity].
      rewrite (inv_closed_nowait _ I Hc c k Hk) in Hw. symmetry. auto.
Qed.

Lemma Inv_step s l : Inv s -> Inv (step s l).
Proof.
  intros I.
  destruct l as [| | | |c|c|c|c|c| |]; cbn [step].
  - (* LStart *)
    dcase (v_started s && negb (v_done s)) Hsd.
    + dcase (v_stopreq s) Hs; [|exact I].
      apply andb_true_iff in Hsd. destruct Hsd as [_ Hd]. apply negb_true_iff in Hd.
      apply Inv_start_overlap; assumption.
    + apply Inv_start_plain; assumption.
  - (* LConnect *)
    dcase (accepting s) Ha; [|apply Inv_refuse; exact I].
    apply Inv_accept; auto.
  - (* LConnectBad *)
    dcase (accepting s) Ha; [|apply Inv_refuse; exact I].
    apply Inv_accept; auto.
  - (* LOpen *)
    dcase (accepting s) Ha; [|apply Inv_refuse; exact I].
    apply Inv_accept; auto.
  - (* LHello *)
    destruct (nth_error (v_conns s) c) as [k|] eqn:Hk; [|exact I].
    dcase (k_client_open k && k_session k && negb (k_hello k)) Hopen; [|exact I].
    apply andb_true_iff in Hopen. destruct Hopen as [Hopen _].
    apply andb_true_iff in Hopen. destruct Hopen as [Ho Hse].
    apply Inv_answer; assumption.
  - (* LSend *)
    destruct (nth_error (v_conns s) c) as [k|] eqn:Hk; [|exact I].
    dcase (k_client_open k && k_session k && k_hello k && negb (k_waiting k)) Hopen; [|exact I].
    apply andb_true_iff in Hopen. destruct Hopen as [Hopen _].
    apply andb_true_iff in Hopen. destruct Hopen as [Hopen _].
    apply andb_true_iff in Hopen. destruct Hopen as [Ho Hse].
    apply Inv_answer; assumption.
  - (* LSendWait *)
    destruct (nth_error (v_conns s) c) as [k|] eqn:Hk; [|exact I].
    dcase (k_client_open k && k_session k && k_hello k && negb (k_waiting k)) Hopen; [|exact I].
    apply andb_true_iff in Hopen. destruct Hopen as [Hopen _].
    apply andb_true_iff in Hopen. destruct Hopen as [Hopen _].
    apply andb_true_iff in Hopen. destruct Hopen as [Ho Hse].
    dcase (v_pool_closed s) Hpc; [apply Inv_answer; assumption|].
    (* the session enters a waiting command; no run ends, nothing else changes *)
    set (k' := {| k_client_open := true; k_session := true; k_replies := k_replies k;
                  k_hello := true; k_waiting := true; k_gen := k_gen k |}).
    assert (Hsame : forall g, run_ended g (upd (v_conns s) c k') = run_ended g (v_conns s)).
    { intros g. destruct (run_ended g (v_conns s)) eqn:E.
      - apply run_ended_no_live. intros n x Hx Hs.
        rewrite nth_error_upd in Hx. destruct (Nat.eqb n c) eqn:En.
        + apply Nat.eqb_eq in En. subst n. rewrite Nat.eqb_refl in Hx.
          destruct (Nat.ltb c (length (v_conns s))); [|discriminate]. injection Hx as <-.
          cbn. exact (run_ended_nth _ g c k E Hk Hse).
        + rewrite Nat.eqb_sym, En in Hx. exact (run_ended_nth _ g n x E Hx Hs).
      - assert (Hlt : c < length (v_conns s)) by (apply nth_error_Some; congruence).
        apply Nat.ltb_lt in Hlt.
        destruct (Nat.eq_dec (k_gen k) g) as [Hg|Hg].
        + apply (run_ended_live _ c k' g); [|reflexivity|exact Hg].
          rewrite nth_error_upd, Nat.eqb_refl, Hlt. reflexivity.
        + (* another live session of run g *)
          apply Bool.not_true_is_false. intros E'. apply Bool.not_true_iff_false in E.
          apply E. apply run_ended_no_live. intros n x Hx Hs Hxg.
          destruct (Nat.eqb c n) eqn:En.
          * apply Nat.eqb_eq in En. subst n. congruence.
          * apply (run_ended_nth _ g n x E'); [|exact Hs|exact Hxg].
            rewrite nth_error_upd, En. exact Hx. }
    apply Inv_of_WInv.
    + apply (WInv_evolve s); try reflexivity; [exact I|].
      unfold set_conns; cbn. rewrite Hpc. eapply evolves_upd; [|exact Hk|].
      * intros n x Hx. rewrite <- Hpc. exact (conn_evolves_refl s n x I Hx).
      * repeat split; cbn; auto; intros; discriminate.
    + unfold set_conns; cbn [v_conns v_drain]. intros g Hg. rewrite Hsame.
      exact (inv_drain_live _ I g Hg).
    + unfold set_conns; cbn [v_conns v_gen v_stopreq v_done]. rewrite Hsame. intros Hs.
      apply (inv_done_iff _ I Hs).
  - (* LLeave *)
    destruct (nth_error (v_conns s) c) as [k|] eqn:Hk; [|exact I].
    dcase (k_client_open k) Ho; [|exact I].
    apply Inv_gone; auto.
  - (* LAbort *)
    destruct (nth_error (v_conns s) c) as [k|] eqn:Hk; [|exact I].
    dcase (k_client_open k) Ho; [|exact I].
    apply Inv_gone; auto. destruct (v_kind s); [intros; discriminate|auto].
  - (* LStop *)
    dcase (v_started s && negb (v_stopreq s)) E; [|exact I].
    apply andb_true_iff in E. destruct E as [Hst Hns]. apply negb_true_iff in Hns.
    destruct (inv_serving _ I Hst Hns) as [Hl Hd].
    apply Inv_settle. constructor; cbn.
    + intros H; discriminate.
    + intros _ H; discriminate.
    + intros _. split; reflexivity.
    + intros H; discriminate.
    + intros H; discriminate.
    + intros Ho Hk _ _. exact (inv_sock_there _ I Ho Hk Hst Hd).
    + exact (inv_sock_tcp _ I).
    + exact (inv_session_client _ I).
    + exact (inv_waiting_session _ I).
    + exact (inv_closed_nowait _ I).
    + intros _. exact (inv_gen_pos _ I Hst).
    + exact (inv_gen _ I).
    + exact (inv_live_run _ I).
    + exact (inv_drain_old _ I).
    + exact (inv_no_overlap _ I).
    + intros H. destruct (inv_raised _ I H) as [_ H']. congruence.
  - (* LClosePool *)
    apply Inv_settle. apply (WInv_evolve s); try reflexivity; [exact I|].
    cbn. apply evolves_map. intros n x Hx.
    destruct (k_waiting x) eqn:Hw.
    + pose proof (inv_waiting_session _ I n x Hx Hw) as Hs.
      destruct (k_client_open x) eqn:Ho; repeat split; cbn; auto; intros; discriminate.
    + destruct (conn_evolves_refl s n x I Hx) as (H1 & H2 & H3 & H4 & _).
      repeat split; auto.
Qed.

Theorem Inv_run k tr : Inv (run k tr).
Proof.
  unfold run. generalize (Inv_init k). generalize (init k).
  induction tr as [|l t IH]; intros s I; cbn [fold_left]; auto.
  apply IH. apply Inv_step. exact I.
Qed.

(** * the transport never changes *)

Lemma step_kind s l : v_kind (step s l) = v_kind s.
Proof.
  destruct l as [| | | |c|c|c|c|c| |]; cbn [step]; unfold answer;
    repeat match goal with
    | |- v_kind (settle _) = _ => rewrite settle_kind
    | |- v_kind (match ?x with _ => _ end) = _ => destruct x
    end; reflexivity.
Qed.

Lemma run_kind k tr : v_kind (run k tr) = k.
Proof.
  unfold run. change k with (v_kind (init k)) at 2. generalize (init k).
  induction tr as [|l t IH]; intros s; cbn [fold_left]; [reflexivity|].
  rewrite IH. apply step_kind.
Qed.
