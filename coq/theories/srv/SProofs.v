(** M3 — invariant of the server lifecycle model and its consequences (C19). *)
From TP Require Import SModel.

Record Inv (s : srv) : Prop := {
  inv_nostart : v_started s = false ->
                v_listening s = false /\ v_stopreq s = false /\ v_done s = false /\ v_conns s = [];
  inv_serving : v_started s = true -> v_stopreq s = false ->
                v_listening s = true /\ v_done s = false;
  inv_stopped : v_stopreq s = true -> v_listening s = false /\ v_started s = true;
  inv_done_iff : v_stopreq s = true -> (v_done s = true <-> all_sessions_ended (v_conns s) = true);
  inv_done_stop : v_done s = true -> v_stopreq s = true;
  inv_sock_gone : v_done s = true -> v_sockfile s = false;
  inv_sock_there : v_kind s = Unix -> v_started s = true -> v_done s = false ->
                   v_sockfile s = true;
  inv_sock_tcp : v_kind s = TCP -> v_sockfile s = false;
  inv_session_client : forall c k, nth_error (v_conns s) c = Some k -> k_session k = true ->
                       k_waiting k = false -> k_client_open k = true;
  inv_waiting_session : forall c k, nth_error (v_conns s) c = Some k -> k_waiting k = true ->
                        k_session k = true
}.

Lemma Inv_init k : Inv (init k).
Proof.
  constructor; cbn; intros; try discriminate; auto; try (destruct c; discriminate).
Qed.

Lemma nth_error_upd {A} (l : list A) n m x :
  nth_error (upd l n x) m =
  if Nat.eqb n m then (if Nat.ltb n (length l) then Some x else None) else nth_error l m.
Proof.
  revert n m. induction l as [|h t IH]; intros [|n] [|m]; cbn; auto.
  - destruct (Nat.eqb n m); reflexivity.
  - rewrite IH. destruct (Nat.eqb n m); auto.
Qed.

Lemma settle_fields s :
  v_kind (settle s) = v_kind s /\ v_started (settle s) = v_started s /\
  v_conns (settle s) = v_conns s /\ v_refused (settle s) = v_refused s /\
  v_stopreq (settle s) = v_stopreq s.
Proof.
  unfold settle.
  destruct (v_stopreq s && negb (v_done s) && all_sessions_ended (v_conns s)) eqn:E; cbn; auto.
  apply andb_true_iff in E. destruct E as [E _]. apply andb_true_iff in E. destruct E as [E _].
  rewrite E. auto 6.
Qed.

(** [settle] re-establishes "done iff no session left" after a change of the connections,
    provided the server cannot be done already while a session is left *)
Lemma Inv_settle s :
  (v_started s = false ->
   v_listening s = false /\ v_stopreq s = false /\ v_done s = false /\ v_conns s = []) ->
  (v_started s = true -> v_stopreq s = false -> v_listening s = true /\ v_done s = false) ->
  (v_stopreq s = true -> v_listening s = false /\ v_started s = true) ->
  (v_done s = true -> v_stopreq s = true /\ all_sessions_ended (v_conns s) = true) ->
  (v_done s = true -> v_sockfile s = false) ->
  (v_kind s = Unix -> v_started s = true -> v_done s = false -> v_sockfile s = true) ->
  (v_kind s = TCP -> v_sockfile s = false) ->
  (forall c k, nth_error (v_conns s) c = Some k -> k_session k = true -> k_waiting k = false ->
               k_client_open k = true) ->
  (forall c k, nth_error (v_conns s) c = Some k -> k_waiting k = true -> k_session k = true) ->
  Inv (settle s).
Proof.
  intros H1 H2 H3 H4 H5 H6 H7 H8 H9. unfold settle.
  destruct (v_stopreq s && negb (v_done s) && all_sessions_ended (v_conns s)) eqn:E.
  - apply andb_true_iff in E. destruct E as [E Ha].
    apply andb_true_iff in E. destruct E as [Hs Hd]. apply negb_true_iff in Hd.
    destruct (H3 Hs) as [Hl Hst].
    constructor; cbn; intros; auto; try congruence.
    + split; auto.
    + eapply H8; eauto.
    + eapply H9; eauto.
  - constructor; auto.
    + intros Hs. split; [intros Hd; apply H4; exact Hd|].
      intros Ha. rewrite Hs, Ha in E. destruct (v_done s); [reflexivity|discriminate].
    + intros Hd. apply H4. exact Hd.
Qed.

Lemma all_ended_app cs k :
  all_sessions_ended (cs ++ [k]) = all_sessions_ended cs && negb (k_session k).
Proof. unfold all_sessions_ended. rewrite forallb_app. cbn. rewrite andb_true_r. reflexivity. Qed.

(* case analysis on a boolean of the goal only (hypotheses are left untouched) *)
Ltac dcase t H := let bb := fresh "bb" in remember t as bb eqn:H; destruct bb; symmetry in H.

Lemma live_session_not_done s c k :
  Inv s -> nth_error (v_conns s) c = Some k -> k_session k = true -> v_done s = false.
Proof.
  intros I Hk Hse. apply Bool.not_true_is_false. intros E.
  pose proof (inv_done_stop _ I E) as Hs. apply (inv_done_iff _ I Hs) in E.
  unfold all_sessions_ended in E. rewrite forallb_forall in E.
  apply nth_error_In in Hk. apply E in Hk. rewrite Hse in Hk. discriminate.
Qed.

(* a fact about the connection at index c0 of [upd l c x]: about x itself, or from the old list *)
Ltac upd_case H :=
  rewrite nth_error_upd in H;
  match type of H with
  | (if Nat.eqb ?a ?b then _ else _) = _ =>
      destruct (Nat.eqb a b); [|eauto];
      match type of H with
      | (if Nat.ltb ?x ?y then _ else _) = _ => destruct (Nat.ltb x y); [|discriminate]
      end;
      injection H as <-; cbn in *; try reflexivity; try discriminate; try congruence
  end.

(* a fact about the connection at index c of [l ++ [x]]: from the old list or about x itself *)
Ltac app_case H :=
  match type of H with nth_error (?l ++ [?x]) ?c = Some ?k =>
    let Hlt := fresh "Hlt" in let Hge := fresh "Hge" in
    destruct (Nat.lt_ge_cases c (length l)) as [Hlt|Hge];
    [rewrite nth_error_app1 in H by exact Hlt; eauto
    |rewrite nth_error_app2 in H by exact Hge;
     destruct (c - length l) as [|[|?]]; cbn in H; try discriminate;
     injection H as <-; cbn in *; try reflexivity; try discriminate; try congruence]
  end.

Lemma Inv_step s l : Inv s -> Inv (step s l).
Proof.
  intros I.
  destruct l as [| | | |c|c|c|c|c|]; cbn [step].
  - (* LStart *)
    dcase (v_started s && negb (v_done s)) Hst; [exact I|].
    pose proof I as [I1 I2 I3 I4 I5 I6 I7 I8 I9 I10].
    constructor; cbn; intros; auto; try discriminate; try congruence.
    + destruct (v_kind s); [discriminate|reflexivity].
    + rewrite H. reflexivity.
    + eapply I9; eauto.
    + eapply I10; eauto.
  - (* LConnect *)
    dcase (v_listening s) Hl; pose proof I as [I1 I2 I3 I4 I5 I6 I7 I8 I9 I10].
    + assert (Hns : v_stopreq s = false)
        by (destruct (v_stopreq s) eqn:E; auto; destruct (I3 eq_refl); congruence).
      assert (Hst : v_started s = true)
        by (destruct (v_started s) eqn:E; auto; destruct (I1 eq_refl); congruence).
      destruct (I2 Hst Hns) as [_ Hd].
      constructor; unfold set_conns; cbn; intros; auto; try congruence.
      all: app_case H.
    + constructor; cbn; intros; eauto.
      * destruct (I1 H) as [_ [? [? ?]]]; auto.
      * destruct (I2 H H0) as [Hx _]; congruence.
      * destruct (I3 H) as [_ ?]; auto.
  - (* LConnectBad *)
    dcase (v_listening s) Hl; pose proof I as [I1 I2 I3 I4 I5 I6 I7 I8 I9 I10].
    + assert (Hns : v_stopreq s = false)
        by (destruct (v_stopreq s) eqn:E; auto; destruct (I3 eq_refl); congruence).
      assert (Hst : v_started s = true)
        by (destruct (v_started s) eqn:E; auto; destruct (I1 eq_refl); congruence).
      destruct (I2 Hst Hns) as [_ Hd].
      constructor; unfold set_conns; cbn; intros; auto; try congruence.
      all: app_case H.
    + constructor; cbn; intros; eauto.
      * destruct (I1 H) as [_ [? [? ?]]]; auto.
      * destruct (I2 H H0) as [Hx _]; congruence.
      * destruct (I3 H) as [_ ?]; auto.
  - (* LOpen *)
    dcase (v_listening s) Hl; pose proof I as [I1 I2 I3 I4 I5 I6 I7 I8 I9 I10].
    + assert (Hns : v_stopreq s = false)
        by (destruct (v_stopreq s) eqn:E; auto; destruct (I3 eq_refl); congruence).
      assert (Hst : v_started s = true)
        by (destruct (v_started s) eqn:E; auto; destruct (I1 eq_refl); congruence).
      destruct (I2 Hst Hns) as [_ Hd].
      constructor; unfold set_conns; cbn; intros; auto; try congruence.
      all: app_case H.
    + constructor; cbn; intros; eauto.
      * destruct (I1 H) as [_ [? [? ?]]]; auto.
      * destruct (I2 H H0) as [Hx _]; congruence.
      * destruct (I3 H) as [_ ?]; auto.
  - (* LHello *)
    destruct (nth_error (v_conns s) c) as [k|] eqn:Hk; [|exact I].
    dcase (k_client_open k && k_session k && negb (k_hello k)) Hopen; [|exact I].
    pose proof I as [I1 I2 I3 I4 I5 I6 I7 I8 I9 I10].
    apply andb_true_iff in Hopen. destruct Hopen as [Hopen _].
    apply andb_true_iff in Hopen. destruct Hopen as [Ho Hse].
    assert (Hnd : v_done s = false) by (eapply live_session_not_done; eauto).
    apply Inv_settle; unfold set_conns; cbn; intros; auto; try congruence.
    + destruct (I1 H) as [_ [_ [_ Hc]]]. rewrite Hc in Hk. destruct c; discriminate.
    + upd_case H.
    + upd_case H.
  - (* LSend *)
    destruct (nth_error (v_conns s) c) as [k|] eqn:Hk; [|exact I].
    dcase (k_client_open k && k_session k && k_hello k && negb (k_waiting k)) Hopen; [|exact I].
    pose proof I as [I1 I2 I3 I4 I5 I6 I7 I8 I9 I10].
    apply andb_true_iff in Hopen. destruct Hopen as [Hopen _].
    apply andb_true_iff in Hopen. destruct Hopen as [Hopen _].
    apply andb_true_iff in Hopen. destruct Hopen as [Ho Hse].
    assert (Hnd : v_done s = false) by (eapply live_session_not_done; eauto).
    apply Inv_settle; unfold set_conns; cbn; intros; auto; try congruence.
    + destruct (I1 H) as [_ [_ [_ Hc]]]. rewrite Hc in Hk. destruct c; discriminate.
    + upd_case H.
    + upd_case H.
  - (* LSendWait: the session enters a waiting command; nothing else changes *)
    destruct (nth_error (v_conns s) c) as [k|] eqn:Hk; [|exact I].
    dcase (k_client_open k && k_session k && k_hello k && negb (k_waiting k)) Hopen; [|exact I].
    pose proof I as [I1 I2 I3 I4 I5 I6 I7 I8 I9 I10].
    apply andb_true_iff in Hopen. destruct Hopen as [Hopen _].
    apply andb_true_iff in Hopen. destruct Hopen as [Hopen _].
    apply andb_true_iff in Hopen. destruct Hopen as [Ho Hse].
    assert (Hnd : v_done s = false) by (eapply live_session_not_done; eauto).
    constructor; unfold set_conns; cbn; intros; auto; try congruence.
    + destruct (I1 H) as [Ha [Hb [Hc Hd]]]. rewrite Hd in Hk. destruct c; discriminate.
    + (* done <-> all ended: done is false, and the updated connection still has a session *)
      split; [congruence|]. intros Ha. exfalso.
      unfold all_sessions_ended in Ha. rewrite forallb_forall in Ha.
      assert (Hin : In {| k_client_open := true; k_session := true; k_replies := k_replies k;
                          k_hello := true; k_waiting := true |} (upd (v_conns s) c
                       {| k_client_open := true; k_session := true; k_replies := k_replies k;
                          k_hello := true; k_waiting := true |})).
      { eapply nth_error_In with (n := c). rewrite nth_error_upd, Nat.eqb_refl.
        assert (Hlt : c < length (v_conns s)) by (apply nth_error_Some; congruence).
        apply Nat.ltb_lt in Hlt. rewrite Hlt. reflexivity. }
      apply Ha in Hin. cbn in Hin. discriminate.
    + upd_case H.
    + upd_case H.
  - (* LLeave *)
    destruct (nth_error (v_conns s) c) as [k|] eqn:Hk; [|exact I].
    dcase (k_client_open k) Ho; [|exact I]. pose proof I as [I1 I2 I3 I4 I5 I6 I7 I8 I9 I10].
    apply Inv_settle; unfold set_conns; cbn; intros; auto.
    + destruct (I1 H) as [_ [_ [_ Hc]]]. rewrite Hc in Hk. destruct c; discriminate.
    + split; [apply I5; exact H|].
      pose proof (I5 H) as Hs. apply (I4 Hs) in H. unfold all_sessions_ended in *.
      rewrite forallb_forall in *. intros x Hx. apply In_nth_error in Hx. destruct Hx as [n Hn].
      rewrite nth_error_upd in Hn. destruct (Nat.eqb c n).
      * destruct (Nat.ltb c (length (v_conns s))); [|discriminate]. injection Hn as <-. cbn.
        (* the old connection had no session (all had ended), hence was not waiting *)
        pose proof (H k (nth_error_In _ _ Hk)) as Hk'. apply negb_true_iff in Hk'.
        destruct (k_waiting k) eqn:Hw; [|reflexivity].
        rewrite (I10 c k Hk Hw) in Hk'. discriminate.
      * apply H. eapply nth_error_In; eauto.
    + upd_case H.
    + upd_case H.
  - (* LAbort *)
    destruct (nth_error (v_conns s) c) as [k|] eqn:Hk; [|exact I].
    dcase (k_client_open k) Ho; [|exact I]. pose proof I as [I1 I2 I3 I4 I5 I6 I7 I8 I9 I10].
    apply Inv_settle; unfold set_conns; cbn; intros; auto.
    + destruct (I1 H) as [_ [_ [_ Hc]]]. rewrite Hc in Hk. destruct c; discriminate.
    + split; [apply I5; exact H|].
      pose proof (I5 H) as Hs. apply (I4 Hs) in H. unfold all_sessions_ended in *.
      rewrite forallb_forall in *. intros x Hx. apply In_nth_error in Hx. destruct Hx as [n Hn].
      rewrite nth_error_upd in Hn. destruct (Nat.eqb c n).
      * destruct (Nat.ltb c (length (v_conns s))); [|discriminate]. injection Hn as <-. cbn.
        destruct (v_kind s); [reflexivity|].
        pose proof (H k (nth_error_In _ _ Hk)) as Hk'. apply negb_true_iff in Hk'.
        destruct (k_waiting k) eqn:Hw; [|reflexivity].
        rewrite (I10 c k Hk Hw) in Hk'. discriminate.
      * apply H. eapply nth_error_In; eauto.
    + rewrite nth_error_upd in H.
      destruct (Nat.eqb c c0); [|eauto].
      destruct (Nat.ltb c (length (v_conns s))); [|discriminate]. injection H as <-.
      cbn in *. destruct (v_kind s); congruence.
    + rewrite nth_error_upd in H.
      destruct (Nat.eqb c c0); [|eauto].
      destruct (Nat.ltb c (length (v_conns s))); [|discriminate]. injection H as <-.
      cbn in *. destruct (v_kind s); congruence.
  - (* LStop *)
    dcase (v_started s && negb (v_stopreq s)) E; [|exact I]. pose proof I as [I1 I2 I3 I4 I5 I6 I7 I8 I9 I10].
    apply andb_true_iff in E. destruct E as [Hst Hns]. apply negb_true_iff in Hns.
    destruct (I2 Hst Hns) as [Hl Hd].
    apply Inv_settle; cbn; intros; auto; try discriminate; try congruence.
    + eapply I9; eauto.
    + eapply I10; eauto.
Qed.

Theorem Inv_run k tr : Inv (run k tr).
Proof.
  unfold run. generalize (Inv_init k). generalize (init k).
  induction tr as [|l t IH]; intros s I; cbn [fold_left]; auto.
  apply IH. apply Inv_step. exact I.
Qed.
