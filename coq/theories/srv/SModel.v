(** M3 — executable model of the control server's lifecycle (server.py: serve_forever /
    _serve_forever / _client_connected_cb; session.py: listen's loop condition) on top of the
    contract of asyncio's stream server (CPython 3.12.1): [Server.close] stops listening at once;
    [Server.wait_closed] returns when every connection *that server* accepted has been closed by
    the server side; a cancelled [serve_forever] closes, waits, and re-raises.  Each label is one
    action of the environment followed by the system settling.

    Runs.  Every [serve_forever()] call that takes effect starts a new *run* (a fresh asyncio
    server on the same address and a new serving task); connections belong to the run that
    accepted them.  A run may be started after the previous task has completed (plain restart) or
    while the previous, cancelled task still waits for its lingering clients (an overlap; ghost
    flag [v_overlap]).  The control server object knows only its latest asyncio server, so
    [is_serving()] - which every session consults after each line - speaks about the latest run,
    also for the sessions of an earlier one; and every run's final callback removes the *same*
    Unix socket path.  Both are mirrored here as they are in the code.

    The pool.  [LClosePool]: the pool is closed from outside; commands that were waiting for that
    (until-closed) return.

    No proofs in this file. *)
From Coq Require Export List Bool Arith Lia.
Export ListNotations.

Inductive transport := TCP | Unix.

(** one accepted connection *)
Record conn := {
  k_client_open : bool;      (* the client has not disconnected *)
  k_session : bool;          (* the session coroutine is still running (server side open) *)
  k_replies : nat;           (* replies written to this client, handshake reply included *)
  k_hello : bool;            (* the client has sent its handshake line *)
  k_waiting : bool;          (* the session is inside a command whose method waits (until-closed on
                                a pool not closed yet): it reads no input and cannot notice that
                                its client has gone *)
  k_gen : nat                (* the run that accepted the connection *)
}.

Record srv := {
  v_kind : transport;
  v_started : bool;          (* serve_forever() was awaited: a task was returned *)
  v_listening : bool;        (* the latest run's asyncio server is serving; = is_serving() *)
  v_stopreq : bool;          (* the latest serving task was cancelled *)
  v_done : bool;             (* the latest serving task has completed *)
  v_sockfile : bool;         (* Unix: the socket file exists *)
  v_conns : list conn;
  v_refused : nat;           (* connection attempts that were refused *)
  v_gen : nat;               (* number of the latest run (0: never started) *)
  v_drain : list nat;        (* earlier runs whose serving task has not completed yet *)
  v_overlap : bool;          (* ghost: some run was started while the previous task was unfinished *)
  v_raised : bool;           (* the latest serving task ended with an exception (its final callback
                                found the Unix socket file gone - only after an overlap) *)
  v_pool_closed : bool       (* the pool was closed *)
}.

Inductive label :=
| LStart                     (* await server.serve_forever() - also again: after a completed stop,
                                or while the cancelled task still waits for lingering clients *)
| LConnect                   (* a client connects and performs the handshake *)
| LConnectBad                (* a client connects and sends garbage instead of the handshake, or
                                hangs up at once: the session fails, its connection is closed *)
| LOpen                      (* a client connects but does not send its handshake yet: its session
                                waits for the handshake line while other clients come and go *)
| LHello (c : nat)           (* client c (connected by LOpen) sends its handshake line *)
| LSend (c : nat)            (* client c sends one command line *)
| LSendWait (c : nat)        (* client c sends until-closed: no reply while the pool is open, the
                                session stays inside the command *)
| LLeave (c : nat)           (* client c disconnects (clean close, 'exit' command or EOF) *)
| LAbort (c : nat)           (* client c vanishes abruptly (reply left unread, connection torn down) *)
| LStop                      (* the latest serving task is cancelled *)
| LClosePool.                (* the pool is closed (gather_and_close() from outside) *)

Definition init (k : transport) : srv :=
  {| v_kind := k; v_started := false; v_listening := false; v_stopreq := false; v_done := false;
     v_sockfile := false; v_conns := []; v_refused := 0; v_gen := 0; v_drain := [];
     v_overlap := false; v_raised := false; v_pool_closed := false |}.

Fixpoint upd {A} (l : list A) (n : nat) (x : A) : list A :=
  match l, n with
  | [], _ => []
  | _ :: t, O => x :: t
  | h :: t, S k => h :: upd t k x
  end.

Definition all_sessions_ended (cs : list conn) : bool := forallb (fun c => negb (k_session c)) cs.

(** no session of run [g] is left *)
Definition run_ended (g : nat) (cs : list conn) : bool :=
  forallb (fun c => negb (k_session c && Nat.eqb (k_gen c) g)) cs.

Definition is_unix (s : srv) : bool := match v_kind s with Unix => true | TCP => false end.

(** a connection attempt succeeds: the latest asyncio server listens and - Unix - the path leads
    to it *)
Definition accepting (s : srv) : bool :=
  v_listening s && (negb (is_unix s) || v_sockfile s).

Definition set_conns (s : srv) (cs : list conn) : srv :=
  {| v_kind := v_kind s; v_started := v_started s; v_listening := v_listening s;
     v_stopreq := v_stopreq s; v_done := v_done s; v_sockfile := v_sockfile s; v_conns := cs;
     v_refused := v_refused s; v_gen := v_gen s; v_drain := v_drain s; v_overlap := v_overlap s;
     v_raised := v_raised s; v_pool_closed := v_pool_closed s |}.

Definition refuse (s : srv) : srv :=
  {| v_kind := v_kind s; v_started := v_started s; v_listening := v_listening s;
     v_stopreq := v_stopreq s; v_done := v_done s; v_sockfile := v_sockfile s;
     v_conns := v_conns s; v_refused := S (v_refused s); v_gen := v_gen s; v_drain := v_drain s;
     v_overlap := v_overlap s; v_raised := v_raised s; v_pool_closed := v_pool_closed s |}.

(** earlier runs: a cancelled task completes as soon as no session of its run is left; its final
    callback then removes the Unix socket path - whichever run's file that is by now *)
Definition settle_old (s : srv) : srv :=
  let d := filter (fun g => negb (run_ended g (v_conns s))) (v_drain s) in
  {| v_kind := v_kind s; v_started := v_started s; v_listening := v_listening s;
     v_stopreq := v_stopreq s; v_done := v_done s;
     v_sockfile := if Nat.eqb (length d) (length (v_drain s)) then v_sockfile s else false;
     v_conns := v_conns s; v_refused := v_refused s; v_gen := v_gen s; v_drain := d;
     v_overlap := v_overlap s; v_raised := v_raised s; v_pool_closed := v_pool_closed s |}.

(** the latest run: after a stop request the serving task completes as soon as no session of the
    run is left; the final callback then removes a Unix server's socket file (and raises if it is
    gone already) *)
Definition settle_cur (s : srv) : srv :=
  if v_stopreq s && negb (v_done s) && run_ended (v_gen s) (v_conns s)
  then {| v_kind := v_kind s; v_started := v_started s; v_listening := false;
          v_stopreq := true; v_done := true; v_sockfile := false; v_conns := v_conns s;
          v_refused := v_refused s; v_gen := v_gen s; v_drain := v_drain s;
          v_overlap := v_overlap s; v_raised := is_unix s && negb (v_sockfile s);
          v_pool_closed := v_pool_closed s |}
  else s.

Definition settle (s : srv) : srv := settle_cur (settle_old s).

Definition new_conn (s : srv) (o se : bool) (r : nat) (h : bool) : conn :=
  {| k_client_open := o; k_session := se; k_replies := r; k_hello := h; k_waiting := false;
     k_gen := v_gen s |}.

(** a fresh run of the same server object *)
Definition start_run (s : srv) (overlapping : bool) : srv :=
  {| v_kind := v_kind s; v_started := true; v_listening := true; v_stopreq := false;
     v_done := false; v_sockfile := is_unix s;
     v_conns := v_conns s; v_refused := v_refused s; v_gen := S (v_gen s);
     v_drain := if overlapping then v_drain s ++ [v_gen s] else v_drain s;
     v_overlap := v_overlap s || overlapping; v_raised := false;
     v_pool_closed := v_pool_closed s |}.

(** the line of client c is answered; the listen loop then re-checks is_serving() - of the latest
    run - and ends the session (closing the connection) if that is false *)
Definition answer (s : srv) (c : nat) (k : conn) : srv :=
  settle (set_conns s (upd (v_conns s) c
    {| k_client_open := true; k_session := v_listening s; k_replies := S (k_replies k);
       k_hello := true; k_waiting := false; k_gen := k_gen k |})).

Definition step (s : srv) (l : label) : srv :=
  match l with
  | LStart =>
      if v_started s && negb (v_done s)
      then
        (* the previous task has not completed.  Cancelled already: a new run starts beside the
           one that still drains.  Not even cancelled (a second serve_forever() while serving):
           not modelled - no-op here, never issued by the harness *)
        if v_stopreq s then start_run s true else s
      else start_run s false
  | LConnect =>
      if accepting s then set_conns s (v_conns s ++ [new_conn s true true 1 true]) else refuse s
  | LConnectBad =>
      (* client_handshake raises; the connected-callback's finally closes the connection; the
         client is not answered.  It counts as a connection that came and went. *)
      if accepting s then set_conns s (v_conns s ++ [new_conn s false false 0 false]) else refuse s
  | LOpen =>
      (* the connection is accepted; the session coroutine waits in client_handshake() *)
      if accepting s then set_conns s (v_conns s ++ [new_conn s true true 0 false]) else refuse s
  | LHello c =>
      match nth_error (v_conns s) c with
      | Some k =>
          if k_client_open k && k_session k && negb (k_hello k) then answer s c k else s
      | None => s
      end
  | LSend c =>
      match nth_error (v_conns s) c with
      | Some k =>
          if k_client_open k && k_session k && k_hello k && negb (k_waiting k)
          then answer s c k else s
      | None => s
      end
  | LSendWait c =>
      match nth_error (v_conns s) c with
      | Some k =>
          if k_client_open k && k_session k && k_hello k && negb (k_waiting k)
          then
            if v_pool_closed s then answer s c k      (* until-closed returns at once *)
            else set_conns s (upd (v_conns s) c
                   {| k_client_open := true; k_session := true; k_replies := k_replies k;
                      k_hello := true; k_waiting := true; k_gen := k_gen k |})
          else s
      | None => s
      end
  | LLeave c =>
      match nth_error (v_conns s) c with
      | Some k =>
          if k_client_open k
          then settle (set_conns s (upd (v_conns s) c
                         {| k_client_open := false;
                            (* a session inside a waiting command does not notice: it stays *)
                            k_session := k_waiting k;
                            k_replies := k_replies k; k_hello := k_hello k;
                            k_waiting := k_waiting k; k_gen := k_gen k |}))
          else s
      | None => s
      end
  | LAbort c =>
      match nth_error (v_conns s) c with
      | Some k =>
          if k_client_open k
          then
            (* TCP: the reset tears the server-side transport down whatever the session does.
               Unix: a session inside a waiting command neither reads nor writes and does not
               notice - as for a clean disconnect *)
            let w := match v_kind s with TCP => false | Unix => k_waiting k end in
            settle (set_conns s (upd (v_conns s) c
                         {| k_client_open := false; k_session := w;
                            k_replies := k_replies k; k_hello := k_hello k;
                            k_waiting := w; k_gen := k_gen k |}))
          else s
      | None => s
      end
  | LStop =>
      if v_started s && negb (v_stopreq s)
      then settle {| v_kind := v_kind s; v_started := true; v_listening := false;
                     v_stopreq := true; v_done := false; v_sockfile := v_sockfile s;
                     v_conns := v_conns s; v_refused := v_refused s; v_gen := v_gen s;
                     v_drain := v_drain s; v_overlap := v_overlap s; v_raised := v_raised s;
                     v_pool_closed := v_pool_closed s |}
      else s
  | LClosePool =>
      (* every waiting command returns: a client that is still there gets its reply and the
         session goes on (if the latest run serves); a session whose client has gone finds out
         now and ends *)
      let wake k :=
        if k_waiting k
        then if k_client_open k
             then {| k_client_open := true; k_session := v_listening s;
                     k_replies := S (k_replies k); k_hello := k_hello k; k_waiting := false;
                     k_gen := k_gen k |}
             else {| k_client_open := false; k_session := false; k_replies := k_replies k;
                     k_hello := k_hello k; k_waiting := false; k_gen := k_gen k |}
        else k in
      settle {| v_kind := v_kind s; v_started := v_started s; v_listening := v_listening s;
                v_stopreq := v_stopreq s; v_done := v_done s; v_sockfile := v_sockfile s;
                v_conns := map wake (v_conns s); v_refused := v_refused s; v_gen := v_gen s;
                v_drain := v_drain s; v_overlap := v_overlap s; v_raised := v_raised s;
                v_pool_closed := true |}
  end.

Definition run (k : transport) (tr : list label) : srv := fold_left step tr (init k).

Fixpoint observe_from (s : srv) (tr : list label) : list srv :=
  match tr with
  | [] => []
  | l :: t => let s' := step s l in s' :: observe_from s' t
  end.

Definition observe (k : transport) (tr : list label) : list srv := observe_from (init k) tr.
