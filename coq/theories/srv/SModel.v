(** M3 — executable model of the control server's lifecycle (server.py: serve_forever /
    _serve_forever / _client_connected_cb; session.py: listen's loop condition) on top of the
    contract of asyncio's stream server (CPython 3.12.1): [Server.close] stops listening at once;
    [Server.wait_closed] returns when every accepted connection has been closed by the server
    side; a cancelled [serve_forever] closes, waits, and re-raises.  Each label is one action of
    the environment followed by the system settling.  No proofs in this file. *)
From Coq Require Export List Bool Arith Lia.
Export ListNotations.

Inductive transport := TCP | Unix.

(** one accepted connection *)
Record conn := {
  k_client_open : bool;      (* the client has not disconnected *)
  k_session : bool;          (* the session coroutine is still running (server side open) *)
  k_replies : nat;           (* replies written to this client, handshake reply included *)
  k_hello : bool;            (* the client has sent its handshake line *)
  k_waiting : bool           (* the session is inside a command whose method waits (until-closed on a
                                pool nobody closes): it reads no input and cannot notice that its
                                client has gone *)
}.

Record srv := {
  v_kind : transport;
  v_started : bool;          (* serve_forever() was awaited: a task was returned *)
  v_listening : bool;        (* the address accepts connections; = is_serving() *)
  v_stopreq : bool;          (* the serving task was cancelled *)
  v_done : bool;             (* the serving task has completed *)
  v_sockfile : bool;         (* Unix: the socket file exists *)
  v_conns : list conn;
  v_refused : nat            (* connection attempts that were refused *)
}.

Inductive label :=
| LStart                     (* await server.serve_forever() - also again, after a completed stop *)
| LConnect                   (* a client connects and performs the handshake *)
| LConnectBad                (* a client connects and sends garbage instead of the handshake, or
                                hangs up at once: the session fails, its connection is closed *)
| LOpen                      (* a client connects but does not send its handshake yet: its session
                                waits for the handshake line while other clients come and go *)
| LHello (c : nat)           (* client c (connected by LOpen) sends its handshake line *)
| LSend (c : nat)            (* client c sends one command line *)
| LSendWait (c : nat)        (* client c sends a command whose method waits (until-closed; the pool
                                is never closed in this model): no reply, the session stays inside it *)
| LLeave (c : nat)           (* client c disconnects (clean close, 'exit' command or EOF) *)
| LAbort (c : nat)           (* client c vanishes abruptly (reply left unread, connection torn down) *)
| LStop.                     (* the serving task is cancelled *)

Definition init (k : transport) : srv :=
  {| v_kind := k; v_started := false; v_listening := false; v_stopreq := false; v_done := false;
     v_sockfile := false; v_conns := []; v_refused := 0 |}.

Fixpoint upd {A} (l : list A) (n : nat) (x : A) : list A :=
  match l, n with
  | [], _ => []
  | _ :: t, O => x :: t
  | h :: t, S k => h :: upd t k x
  end.

Definition all_sessions_ended (cs : list conn) : bool := forallb (fun c => negb (k_session c)) cs.

(** after a stop request the serving task completes as soon as no session is left; the final
    callback then removes a Unix server's socket file *)
Definition settle (s : srv) : srv :=
  if v_stopreq s && negb (v_done s) && all_sessions_ended (v_conns s)
  then {| v_kind := v_kind s; v_started := v_started s; v_listening := false;
          v_stopreq := true; v_done := true; v_sockfile := false; v_conns := v_conns s;
          v_refused := v_refused s |}
  else s.

Definition set_conns (s : srv) (cs : list conn) : srv :=
  {| v_kind := v_kind s; v_started := v_started s; v_listening := v_listening s;
     v_stopreq := v_stopreq s; v_done := v_done s; v_sockfile := v_sockfile s; v_conns := cs;
     v_refused := v_refused s |}.

Definition step (s : srv) (l : label) : srv :=
  match l with
  | LStart =>
      (* a second serve_forever() while the first serving task is still alive is not modelled
         (no-op here, never issued by the harness); once that task has completed, the same server
         object can be started again: a fresh asyncio server on the same address *)
      if v_started s && negb (v_done s) then s
      else {| v_kind := v_kind s; v_started := true; v_listening := true; v_stopreq := false;
              v_done := false;
              v_sockfile := match v_kind s with Unix => true | TCP => false end;
              v_conns := v_conns s; v_refused := v_refused s |}
  | LConnect =>
      if v_listening s
      then set_conns s (v_conns s ++ [{| k_client_open := true; k_session := true;
                                        k_replies := 1; k_hello := true; k_waiting := false |}])
      else {| v_kind := v_kind s; v_started := v_started s; v_listening := v_listening s;
              v_stopreq := v_stopreq s; v_done := v_done s; v_sockfile := v_sockfile s;
              v_conns := v_conns s; v_refused := S (v_refused s) |}
  | LConnectBad =>
      (* client_handshake raises; the connected-callback's finally closes the connection; the
         client is not answered.  It counts as a connection that came and went. *)
      if v_listening s
      then set_conns s (v_conns s ++ [{| k_client_open := false; k_session := false;
                                        k_replies := 0; k_hello := false; k_waiting := false |}])
      else {| v_kind := v_kind s; v_started := v_started s; v_listening := v_listening s;
              v_stopreq := v_stopreq s; v_done := v_done s; v_sockfile := v_sockfile s;
              v_conns := v_conns s; v_refused := S (v_refused s) |}
  | LOpen =>
      (* the connection is accepted; the session coroutine waits in client_handshake() *)
      if v_listening s
      then set_conns s (v_conns s ++ [{| k_client_open := true; k_session := true;
                                        k_replies := 0; k_hello := false; k_waiting := false |}])
      else {| v_kind := v_kind s; v_started := v_started s; v_listening := v_listening s;
              v_stopreq := v_stopreq s; v_done := v_done s; v_sockfile := v_sockfile s;
              v_conns := v_conns s; v_refused := S (v_refused s) |}
  | LHello c =>
      match nth_error (v_conns s) c with
      | Some k =>
          if k_client_open k && k_session k && negb (k_hello k)
          then
            (* the handshake is answered with the pool's name; listen() then checks is_serving()
               and ends the session at once if the server was stopped meanwhile *)
            let k' := {| k_client_open := true; k_session := v_listening s;
                         k_replies := S (k_replies k); k_hello := true; k_waiting := false |} in
            settle (set_conns s (upd (v_conns s) c k'))
          else s
      | None => s
      end
  | LSend c =>
      match nth_error (v_conns s) c with
      | Some k =>
          if k_client_open k && k_session k && k_hello k && negb (k_waiting k)
          then
            (* the line is answered; the listen loop then re-checks is_serving() and ends the
               session (closing the connection) if the server was stopped meanwhile *)
            let k' := {| k_client_open := true; k_session := v_listening s;
                         k_replies := S (k_replies k); k_hello := true; k_waiting := false |} in
            settle (set_conns s (upd (v_conns s) c k'))
          else s
      | None => s
      end
  | LSendWait c =>
      match nth_error (v_conns s) c with
      | Some k =>
          if k_client_open k && k_session k && k_hello k && negb (k_waiting k)
          then set_conns s (upd (v_conns s) c
                 {| k_client_open := true; k_session := true; k_replies := k_replies k;
                    k_hello := true; k_waiting := true |})
          else s
      | None => s
      end
  | LLeave c =>
      match nth_error (v_conns s) c with
      | Some k =>
          if k_client_open k
          then settle (set_conns s (upd (v_conns s) c
                         {| k_client_open := false;
                            (* a session inside a waiting command does not notice: it stays *)
                            k_session := k_waiting k;
                            k_replies := k_replies k; k_hello := k_hello k;
                            k_waiting := k_waiting k |}))
          else s
      | None => s
      end
  | LAbort c =>
      match nth_error (v_conns s) c with
      | Some k =>
          if k_client_open k
          then
            (* TCP: the reset tears the server-side transport down whatever the session does.
               Unix: a session inside a waiting command neither reads nor writes and does not
               notice - as for a clean disconnect *)
            let w := match v_kind s with TCP => false | Unix => k_waiting k end in
            settle (set_conns s (upd (v_conns s) c
                         {| k_client_open := false; k_session := w;
                            k_replies := k_replies k; k_hello := k_hello k;
                            k_waiting := w |}))
          else s
      | None => s
      end
  | LStop =>
      if v_started s && negb (v_stopreq s)
      then settle {| v_kind := v_kind s; v_started := true; v_listening := false;
                     v_stopreq := true; v_done := false; v_sockfile := v_sockfile s;
                     v_conns := v_conns s; v_refused := v_refused s |}
      else s
  end.

Definition run (k : transport) (tr : list label) : srv := fold_left step tr (init k).

Fixpoint observe_from (s : srv) (tr : list label) : list srv :=
  match tr with
  | [] => []
  | l :: t => let s' := step s l in s' :: observe_from s' t
  end.

Definition observe (k : transport) (tr : list label) : list srv := observe_from (init k) tr.
