(** M3 — the stop completes once the connected clients have gone (C19_stop_completes). *)
From TP Require Import SModel SProofs.

Lemma conns_len_leave s c : length (v_conns (step s (LLeave c))) = length (v_conns s).
Proof.
  cbn [step]. destruct (nth_error (v_conns s) c) as [x|]; [|reflexivity].
  destruct (k_client_open x); [|reflexivity].
  rewrite settle_conns. unfold set_conns. cbn [v_conns]. apply upd_length.
Qed.

Lemma nth_leave s c c' :
  nth_error (v_conns (step s (LLeave c))) c' =
  if Nat.eqb c c'
  then match nth_error (v_conns s) c with
       | Some x => if k_client_open x
                   then Some {| k_client_open := false; k_session := k_waiting x;
                                k_replies := k_replies x; k_hello := k_hello x;
                                k_waiting := k_waiting x; k_gen := k_gen x |}
                   else Some x
       | None => None
       end
  else nth_error (v_conns s) c'.
Proof.
  cbn [step]. destruct (nth_error (v_conns s) c) as [x|] eqn:Hx.
  - destruct (k_client_open x) eqn:Ho.
    + rewrite settle_conns. unfold set_conns. cbn [v_conns]. rewrite nth_error_upd.
      destruct (Nat.eqb_spec c c') as [->|Hne]; [|reflexivity].
      assert (Hlt : c' < length (v_conns s)) by (apply nth_error_Some; congruence).
      apply Nat.ltb_lt in Hlt. rewrite Hlt. reflexivity.
    + destruct (Nat.eqb_spec c c') as [->|Hne]; [exact Hx|reflexivity].
  - destruct (Nat.eqb_spec c c') as [->|Hne]; [exact Hx|reflexivity].
Qed.

(** after client c has left, its session is over - and stays over whoever else leaves *)
Definition nobody_waits (s : srv) : Prop :=
  forall c k, nth_error (v_conns s) c = Some k -> k_waiting k = false.

Lemma nobody_waits_leave s c : nobody_waits s -> nobody_waits (step s (LLeave c)).
Proof.
  intros N c' k H. rewrite nth_leave in H. destruct (Nat.eqb c c').
  - destruct (nth_error (v_conns s) c) as [y|] eqn:Hy; [|discriminate].
    destruct (k_client_open y); injection H as <-; cbn; eapply N; eauto.
  - eapply N; eauto.
Qed.

Lemma session_over_after_leave s c x :
  Inv s -> nobody_waits s ->
  nth_error (v_conns (step s (LLeave c))) c = Some x -> k_session x = false.
Proof.
  intros I N H. rewrite nth_leave, Nat.eqb_refl in H.
  destruct (nth_error (v_conns s) c) as [y|] eqn:Hy; [|discriminate].
  pose proof (N c y Hy) as Hw.
  destruct (k_client_open y) eqn:Ho.
  - injection H as <-. cbn. exact Hw.
  - injection H as <-. destruct (k_session y) eqn:Hs; [|reflexivity].
    pose proof (inv_session_client _ I c y Hy Hs Hw). congruence.
Qed.

Lemma session_over_stays s c c' x :
  nobody_waits s ->
  nth_error (v_conns s) c = Some x -> k_session x = false ->
  exists y, nth_error (v_conns (step s (LLeave c'))) c = Some y /\ k_session y = false.
Proof.
  intros N Hx Hs. rewrite nth_leave. destruct (Nat.eqb_spec c' c) as [->|Hne].
  - rewrite Hx. destruct (k_client_open x); eexists; split; try reflexivity; auto.
    cbn. eapply N; eauto.
  - eexists; split; [exact Hx|exact Hs].
Qed.

Lemma leave_list_over cs : forall s c x,
  Inv s -> nobody_waits s -> In c cs ->
  nth_error (v_conns (fold_left step (map LLeave cs) s)) c = Some x -> k_session x = false.
Proof.
  induction cs as [|a t IH]; intros s c x I N Hin Hx; [destruct Hin|].
  cbn [map fold_left] in Hx. destruct Hin as [->|Hin].
  - (* c leaves first; afterwards the fact is preserved along t *)
    assert (Hpres : forall l u, Inv u -> nobody_waits u ->
              (exists y, nth_error (v_conns u) c = Some y /\ k_session y = false) ->
              exists y, nth_error (v_conns (fold_left step (map LLeave l) u)) c = Some y /\
                        k_session y = false).
    { induction l as [|b l IHl]; intros u Iu Nu Hy; [exact Hy|].
      cbn [map fold_left]. apply IHl; [apply Inv_step; exact Iu|apply nobody_waits_leave; exact Nu|].
      destruct Hy as (y & Hy1 & Hy2). eapply session_over_stays; eauto. }
    destruct (nth_error (v_conns (step s (LLeave c))) c) as [y|] eqn:Hy.
    + destruct (Hpres t (step s (LLeave c)) (Inv_step _ _ I) (nobody_waits_leave _ _ N))
        as (z & Hz1 & Hz2).
      { exists y. split; [exact Hy|]. eapply session_over_after_leave; eauto. }
      rewrite Hx in Hz1. injection Hz1 as ->. exact Hz2.
    + (* c is not a connection: the lengths never change, so it cannot appear later *)
      exfalso.
      assert (Hlen : forall l u, length (v_conns (fold_left step (map LLeave l) u)) = length (v_conns u)).
      { induction l as [|b l IHl]; intros u; [reflexivity|]. cbn [map fold_left].
        rewrite IHl. apply conns_len_leave. }
      apply nth_error_None in Hy.
      assert (Hsome : c < length (v_conns (fold_left step (map LLeave t) (step s (LLeave c)))))
        by (apply nth_error_Some; congruence).
      rewrite Hlen in Hsome. lia.
  - eapply IH; [apply Inv_step; exact I|apply nobody_waits_leave; exact N|exact Hin|exact Hx].
Qed.

(** The stop completes once the connected clients have gone - provided no session is inside a
    waiting command (see Thm_C19.C19_stop_waits_for_waiting_session for what happens otherwise): after the serving task was cancelled,
    when every client (in any order, each possibly more than once) has disconnected, the task is
    done, the address stays closed and a Unix server's socket file is gone.  This holds also after
    overlapping restarts: the clients of the earlier runs are connections like the others. *)
Theorem stop_completes : forall k tr cs,
  let s := run k tr in
  v_stopreq s = true -> nobody_waits s ->
  (forall c, c < length (v_conns s) -> In c cs) ->
  let s' := fold_left step (map LLeave cs) s in
  v_done s' = true /\ v_listening s' = false /\ v_sockfile s' = false.
Proof.
  intros k tr cs s Hs N Hall s'.
  assert (I : Inv s) by apply Inv_run.
  assert (I' : Inv s').
  { unfold s'. clear Hall. generalize s I. induction cs as [|a t IH]; intros u Iu; [exact Iu|].
    cbn [map fold_left]. apply IH. apply Inv_step. exact Iu. }
  assert (Hs' : v_stopreq s' = true).
  { unfold s'. clear Hall I'. generalize s Hs. induction cs as [|a t IH]; intros u Hu; [exact Hu|].
    cbn [map fold_left]. apply IH. cbn [step].
    destruct (nth_error (v_conns u) a) as [x|]; [|exact Hu].
    destruct (k_client_open x); [|exact Hu].
    rewrite settle_stopreq. exact Hu. }
  assert (Hlen : length (v_conns s') = length (v_conns s)).
  { unfold s'. clear. generalize s. induction cs as [|a t IH]; intros u; [reflexivity|].
    cbn [map fold_left]. rewrite IH. apply conns_len_leave. }
  assert (Hd : v_done s' = true).
  { (* no session at all is left - of the latest run or of an earlier one *)
    apply (inv_done_iff _ I' Hs'). apply run_ended_no_live. intros c x Hc Hse. exfalso.
    assert (Hlt : c < length (v_conns s)) by (rewrite <- Hlen; apply nth_error_Some; congruence).
    rewrite (leave_list_over cs s c x I N (Hall c Hlt) Hc) in Hse. discriminate. }
  split; [exact Hd|]. split.
  - exact (proj1 (inv_stopped _ I' Hs')).
  - exact (inv_sock_gone _ I' Hd).
Qed.
