(** C17 — A command does exactly what the method call would do (the translation
    command line -> namespace -> call).  Nothing but the property theorems (proved in CRound.v;
    instantiations for the real classes in the regenerated PoolSurface.v). *)
From TP Require Import CModel CProofs CRound PoolSurface.
Open Scope string_scope.

(** Round trip: for every command of the table built from any class surface, every call in the
    command's domain (any values for the positionals, any subset of the options in any order, each
    in short, long or --long=value form), the rendered command line is parsed back to exactly the
    expected namespace, and the session makes exactly the call [dispatch] derives from it. *)
Theorem C17_roundtrip : forall ms c k,
  find_command (build_commands ms) (c_name c) = Some c ->
  cmd_parse_wf c = true -> call_ok c k = true ->
  parse_line (build_commands ms) (render c k) = Some (c, expected_ns c k) /\
  interpret ms (render c k) = dispatch ms c (expected_ns c k).
Proof.
  intros ms c k Hf Hwf Hok.
  pose proof (parse_line_render _ c k Hf Hwf Hok) as H.
  split; [exact H|]. unfold interpret. rewrite H. reflexivity.
Qed.

(** The expected namespace holds the given value for every given option ... *)
Theorem C17_given_value : forall c k o a,
  NoDup (map oa_dest (k_opts k)) -> In o (k_opts k) ->
  find_arg (oa_dest o) (c_args c) = Some a ->
  ns_get (expected_ns c k) (oa_dest o)
  = Some (match as_action a with AStoreTrue => NFlag true | AStore => NStr (oa_val o) end).
Proof. exact expected_given. Qed.

(** ... and for every omitted option the method's own default ([NDefault]; a flag: False). *)
Theorem C17_omitted_default : forall c k a,
  cmd_parse_wf c = true -> In a (c_args c) -> is_opt a = true ->
  ~ In (as_dest a) (map oa_dest (k_opts k)) ->
  ns_get (expected_ns c k) (as_dest a) = Some (ns_default a).
Proof. exact expected_default. Qed.

(** The command tables of the real classes (as read from /repo on this run) satisfy the
    hypotheses of the round trip. *)
Theorem C17_real_tables :
  forallb cmd_parse_wf (build_commands taskpool_members) = true /\
  forallb cmd_parse_wf (build_commands simplepool_members) = true.
Proof. split; [exact taskpool_members_parse_wf|exact simplepool_members_parse_wf]. Qed.

(** Non-vacuity on the real TaskPool surface: an [apply] with two options, one omitted; the
    positional-or-keyword parameters are passed positionally in signature order, omitted ones as
    their defaults; a cancel with var-positional ids and a keyword-only option. *)
Example C17_taskpool_examples :
  interpret taskpool_members ["apply"; "m.f"; "--num=3"; "-g"; "grp"]
  = Some {| y_member := "apply"; y_kind := 0;
            y_pos := [VConv APath "m.f"; VDef; VDef; VConv AInt "3"; VConv AStr "grp"; VDef; VDef];
            y_var := []; y_kw := [] |}
  /\ interpret taskpool_members ["cancel"; "4"; "-1"; "7"; "--msg"; "bye"]
  = Some {| y_member := "cancel"; y_kind := 0; y_pos := [];
            y_var := [VConv AInt "4"; VConv AInt "-1"; VConv AInt "7"];
            y_kw := [("msg", VConv AStr "bye")] |}
  /\ interpret taskpool_members ["pool-size"; "-1"]
  = Some {| y_member := "pool_size"; y_kind := 2; y_pos := []; y_var := [];
            y_kw := [("value", VConv AInt "-1")] |}
  /\ interpret taskpool_members ["flush"; "-r"]
  = Some {| y_member := "flush"; y_kind := 0; y_pos := [VBool true]; y_var := []; y_kw := [] |}.
Proof. vm_compute. repeat split; reflexivity. Qed.

Print Assumptions C17_roundtrip.
Print Assumptions C17_given_value.
Print Assumptions C17_omitted_default.
Print Assumptions C17_real_tables.
Print Assumptions C17_taskpool_examples.
