(** M2 — executable model of the control plane: class surface -> command table
    (parser.py: add_class_commands / add_function_command / add_property_command /
    add_function_arg), command line -> namespace (argparse, for the canonical command grammar),
    namespace -> call (session.py: _exec_method_and_respond / _exec_property_and_respond), and the
    session loop (session.py: listen / _parse_command).  No proofs in this file. *)
From Coq Require Export String Ascii List Bool Arith Lia.
Export ListNotations.
Open Scope string_scope.

(** ** Strings *)
Definition dash_char (c : ascii) : ascii := if Ascii.eqb c "_"%char then "-"%char else c.

Fixpoint smap (f : ascii -> ascii) (s : string) : string :=
  match s with EmptyString => EmptyString | String c r => String (f c) (smap f r) end.

(** [name.replace("_", "-")] *)
Definition dash (s : string) : string := smap dash_char s.

Definition first_char (s : string) : option ascii :=
  match s with EmptyString => None | String c _ => Some c end.

Definition starts_with_char (c : ascii) (s : string) : bool :=
  match s with String d _ => Ascii.eqb c d | EmptyString => false end.

(** [str.upper()] on one ASCII character *)
Definition upper (c : ascii) : ascii :=
  let n := nat_of_ascii c in
  if Nat.leb 97 n && Nat.leb n 122 then ascii_of_nat (n - 32) else c.

Definition is_digit (c : ascii) : bool :=
  let n := nat_of_ascii c in Nat.leb 48 n && Nat.leb n 57.

Fixpoint all_digits (s : string) : bool :=
  match s with EmptyString => true | String c r => is_digit c && all_digits r end.

(** argparse's [_negative_number_matcher], integer form: '-' followed by one or more digits *)
Definition is_negnum (s : string) : bool :=
  match s with
  | String "-" (String c r) => is_digit c && all_digits r
  | _ => false
  end.

(** A token that argparse takes as an argument value (the command parsers have no option string
    that looks like a negative number, so negative numbers are values). *)
Definition value_like (s : string) : bool :=
  negb (starts_with_char "-" s) || is_negnum s.

Fixpoint has_char (c : ascii) (s : string) : bool :=
  match s with EmptyString => false | String d r => Ascii.eqb c d || has_char c r end.

Definition mem_ascii (c : ascii) (l : list ascii) : bool := existsb (Ascii.eqb c) l.
Definition mem_str (s : string) (l : list string) : bool := existsb (String.eqb s) l.

(** ** The class surface (generated from /repo by introspection: lib/gensurface.py) *)
Inductive pkind := PPos | PVarPos | PKwOnly | PVarKw.

(** How the parser converts an argument of this parameter: the result of
    [_get_type_from_annotation(annotation)] and of the bool test in [add_function_arg]. *)
Inductive ann := ABool | AInt | AFloat | AStr | ALiteral | APath | AUnknown.

Record param := { pa_name : string; pa_kind : pkind; pa_default : bool; pa_ann : ann }.

Inductive member :=
| MFun (name : string) (ps : list param)              (* plain function; [self] omitted *)
| MProp (name : string) (setter : option param)       (* property; the setter's value parameter *)
| MOther (name : string).                             (* any other attribute: never a command *)

Definition member_name (m : member) : string :=
  match m with MFun n _ | MProp n _ | MOther n => n end.

Definition is_public (n : string) : bool := negb (starts_with_char "_" n).

(** ** Command table *)
Inductive action := AStore | AStoreTrue.
Inductive nargs := NOne | NStar | NOpt.

Record argspec := {
  as_dest : string;             (* attribute of the namespace = the parameter's name *)
  as_flags : list string;       (* option strings; [] for a positional argument *)
  as_action : action;
  as_nargs : nargs;
  as_conv : ann
}.

Record command := {
  c_name : string;              (* the sub-command *)
  c_member : string;            (* the method / property it stands for *)
  c_isprop : bool;
  c_args : list argspec
}.

(** [add_function_arg]: positional for a parameter without default; otherwise '--long-name' plus a
    short flag: the first letter unless taken (or 'h'), else its upper case unless taken. *)
Definition arg_of_param (p : param) (flags : list ascii) : argspec * list ascii :=
  let nargs := match pa_kind p with PVarPos => NStar | _ => NOne end in
  if negb (pa_default p)
  then ({| as_dest := pa_name p; as_flags := []; as_action := AStore; as_nargs := nargs;
           as_conv := pa_ann p |}, flags)
  else
    let long := "--" ++ dash (pa_name p) in
    let '(names, flags') :=
      match first_char (pa_name p) with
      | None => ([long], flags)
      | Some l =>
          if negb (mem_ascii l flags) && negb (Ascii.eqb l "h")
          then ([String "-" (String l EmptyString); long], l :: flags)
          else if negb (mem_ascii (upper l) flags)
          then ([String "-" (String (upper l) EmptyString); long], upper l :: flags)
          else ([long], flags)
      end in
    match pa_ann p with
    | ABool => ({| as_dest := pa_name p; as_flags := names; as_action := AStoreTrue;
                   as_nargs := nargs; as_conv := ABool |}, flags')
    | a => ({| as_dest := pa_name p; as_flags := names; as_action := AStore; as_nargs := nargs;
               as_conv := a |}, flags')
    end.

Fixpoint args_of_params (ps : list param) (flags : list ascii) : list argspec :=
  match ps with
  | [] => []
  | p :: r => let '(a, f) := arg_of_param p flags in a :: args_of_params r f
  end.

(** [add_property_command]: a property with a setter takes one optional positional value. *)
Definition command_of_member (m : member) : option command :=
  match m with
  | MFun n ps =>
      Some {| c_name := dash n; c_member := n; c_isprop := false; c_args := args_of_params ps [] |}
  | MProp n None =>
      Some {| c_name := dash n; c_member := n; c_isprop := true; c_args := [] |}
  | MProp n (Some p) =>
      Some {| c_name := dash n; c_member := n; c_isprop := true;
              c_args := [{| as_dest := pa_name p; as_flags := []; as_action := AStore;
                            as_nargs := NOpt; as_conv := pa_ann p |}] |}
  | MOther _ => None
  end.

(** [add_class_commands(cls, public_only=True)] *)
Fixpoint build_commands (ms : list member) : list command :=
  match ms with
  | [] => []
  | m :: r =>
      if is_public (member_name m)
      then match command_of_member m with
           | Some c => c :: build_commands r
           | None => build_commands r
           end
      else build_commands r
  end.

(** Option strings of a command, plus argparse's own help option. *)
Definition option_strings (c : command) : list string := flat_map as_flags (c_args c).
Definition help_flags : list string := ["-h"; "--help"].

Fixpoint nodup_str (l : list string) : bool :=
  match l with [] => true | h :: t => negb (mem_str h t) && nodup_str t end.

(** What makes [ArgumentParser.add_argument] / [add_parser] succeed for a command: no option
    string is registered twice (argparse raises "conflicting option string" otherwise) and every
    annotation was classified.  This is "the handshake succeeds". *)
Definition command_ok (c : command) : bool :=
  nodup_str (help_flags ++ option_strings c)
  && forallb (fun a => match as_conv a with AUnknown => false | _ => true end) (c_args c).

Definition handshake_ok (ms : list member) : bool :=
  let cs := build_commands ms in
  forallb command_ok cs && nodup_str (map c_name cs).

(** ** Well-formed surfaces: what Python guarantees about a class (distinct member names, distinct
    parameter names, identifiers without '-') plus the documented limits of the parser (no
    [**kwargs] parameter, no parameter named 'help', classifiable annotations). *)
Definition ident_ok (s : string) : bool :=
  negb (has_char "-" s) && match s with EmptyString => false | _ => true end.

Definition param_ok (p : param) : bool :=
  ident_ok (pa_name p)
  && negb (String.eqb (pa_name p) "help")
  && match pa_kind p with PVarKw => false | _ => true end
  && match pa_ann p with AUnknown => false | _ => true end.

Definition params_of (m : member) : list param :=
  match m with MFun _ ps => ps | MProp _ (Some p) => [p] | _ => [] end.

Definition member_ok (m : member) : bool :=
  ident_ok (member_name m)
  && (negb (is_public (member_name m))
      || (forallb param_ok (params_of m) && nodup_str (map pa_name (params_of m)))).

Definition wf_surface (ms : list member) : bool :=
  forallb member_ok ms && nodup_str (map member_name ms).

(** ** Command lines: canonical grammar
      <command> <positional>... [<var-positional>...] (<flag> | <opt> <value> | --long=<value>)*
    A [call] lists, in the order of the parameters, the values for the positional parameters, then
    options in any order, each at most once. *)
Inductive optform := FShort | FLong | FLongEq.

Record optarg := { oa_dest : string; oa_form : optform; oa_val : string (* "" for a flag *) }.

Record call := {
  k_pos : list string;          (* one value per plain positional argument *)
  k_var : list string;          (* values of the var-positional argument, if any *)
  k_opts : list optarg
}.

Definition find_arg (dest : string) (l : list argspec) : option argspec :=
  find (fun a => String.eqb dest (as_dest a)) l.

Definition is_long (f : string) : bool :=
  match f with String "-" (String "-" _) => true | _ => false end.
Definition long_flag (a : argspec) : option string := find is_long (as_flags a).
Definition short_flag (a : argspec) : option string :=
  find (fun f => negb (is_long f)) (as_flags a).

Definition render_opt (c : command) (o : optarg) : list string :=
  match find_arg (oa_dest o) (c_args c) with
  | None => []
  | Some a =>
      let flag := match oa_form o with
                  | FShort => match short_flag a with Some f => f
                                                   | None => match long_flag a with Some f => f | None => "" end end
                  | _ => match long_flag a with Some f => f | None => "" end
                  end in
      match as_action a, oa_form o with
      | AStoreTrue, _ => [flag]
      | AStore, FLongEq => [flag ++ "=" ++ oa_val o]
      | AStore, _ => [flag; oa_val o]
      end
  end.

Definition render (c : command) (k : call) : list string :=
  c_name c :: k_pos k ++ k_var k ++ flat_map (render_opt c) (k_opts k).

(** ** Namespace produced by the parser *)
Inductive nsval :=
| NStr (s : string)             (* a converted value (conversion itself is an oracle, see CSpec) *)
| NList (l : list string)
| NFlag (b : bool)
| NDefault                      (* the method's own default (argparse default = parameter.default) *)
| NAbsent.                      (* SUPPRESS: the attribute does not exist *)

Definition ns := list (string * nsval).

Fixpoint ns_get (n : ns) (d : string) : option nsval :=
  match n with
  | [] => None
  | (k, v) :: r => if String.eqb d k then Some v else ns_get r d
  end.

Fixpoint ns_set (n : ns) (d : string) (v : nsval) : ns :=
  match n with
  | [] => [(d, v)]
  | (k, w) :: r => if String.eqb d k then (k, v) :: r else (k, w) :: ns_set r d v
  end.

Definition ns_default (a : argspec) : nsval :=
  match as_flags a, as_action a, as_nargs a with
  | [], _, NStar => NList []
  | [], _, NOpt => NAbsent
  | [], _, NOne => NAbsent            (* required: never left at its default *)
  | _, AStoreTrue, _ => NFlag false
  | _, AStore, _ => NDefault
  end.

Definition ns_init (c : command) : ns := map (fun a => (as_dest a, ns_default a)) (c_args c).

Definition positionals (c : command) : list argspec :=
  filter (fun a => match as_flags a with [] => true | _ => false end) (c_args c).
Definition optionals (c : command) : list argspec :=
  filter (fun a => match as_flags a with [] => false | _ => true end) (c_args c).

(** take the leading value-like tokens *)
Fixpoint take_values (toks : list string) : list string * list string :=
  match toks with
  | t :: r => if value_like t then let '(a, b) := take_values r in (t :: a, b) else ([], toks)
  | [] => ([], [])
  end.

(** positionals, in order, from the front of the token list *)
Fixpoint parse_pos (ps : list argspec) (toks : list string) (n : ns) : option (ns * list string) :=
  match ps with
  | [] => Some (n, toks)
  | a :: r =>
      match as_nargs a with
      | NOne =>
          match toks with
          | t :: rest => if value_like t then parse_pos r rest (ns_set n (as_dest a) (NStr t))
                         else None
          | [] => None
          end
      | NStar =>
          let '(vs, rest) := take_values toks in
          parse_pos r rest (ns_set n (as_dest a) (NList vs))
      | NOpt =>
          match toks with
          | t :: rest => if value_like t then parse_pos r rest (ns_set n (as_dest a) (NStr t))
                         else parse_pos r toks n
          | [] => parse_pos r toks n
          end
      end
  end.

Definition arg_with_flag (f : string) (l : list argspec) : option argspec :=
  find (fun a => mem_str f (as_flags a)) l.

(** split '--long=value' *)
Fixpoint split_eq (s : string) : option (string * string) :=
  match s with
  | EmptyString => None
  | String c r =>
      if Ascii.eqb c "="%char then Some (EmptyString, r)
      else match split_eq r with Some (a, b) => Some (String c a, b) | None => None end
  end.

Fixpoint parse_opts (fuel : nat) (os : list argspec) (toks : list string) (n : ns) : option ns :=
  match toks with
  | [] => Some n
  | t :: rest =>
      match fuel with
      | O => None
      | S fuel' =>
          match arg_with_flag t os with
          | Some a =>
              match as_action a with
              | AStoreTrue => parse_opts fuel' os rest (ns_set n (as_dest a) (NFlag true))
              | AStore =>
                  match rest with
                  | v :: rest' =>
                      if value_like v
                      then parse_opts fuel' os rest' (ns_set n (as_dest a) (NStr v))
                      else None
                  | [] => None
                  end
              end
          | None =>
              match split_eq t with
              | Some (f, v) =>
                  match arg_with_flag f os with
                  | Some a =>
                      match as_action a with
                      | AStore => parse_opts fuel' os rest (ns_set n (as_dest a) (NStr v))
                      | AStoreTrue => None
                      end
                  | None => None
                  end
              | None => None
              end
          end
      end
  end.

(** Parse the tokens after the command name. *)
Definition parse_args (c : command) (toks : list string) : option ns :=
  match parse_pos (positionals c) toks (ns_init c) with
  | Some (n, rest) => parse_opts (S (length rest)) (optionals c) rest n
  | None => None
  end.

Definition find_command (cs : list command) (name : string) : option command :=
  find (fun c => String.eqb name (c_name c)) cs.

Definition parse_line (cs : list command) (toks : list string) : option (command * ns) :=
  match toks with
  | name :: rest =>
      match find_command cs name with
      | Some c => match parse_args c rest with Some n => Some (c, n) | None => None end
      | None => None
      end
  | [] => None
  end.

(** ** Dispatch: namespace -> call of the method (session.py:80-168) *)
Inductive argval :=
| VConv (a : ann) (s : string)        (* conv_a(s) *)
| VConvList (a : ann) (l : list string)
| VBool (b : bool)
| VDef.                               (* the parameter's default *)

Record pycall := {
  y_member : string;
  y_kind : nat;                         (* 0 method call, 1 property get, 2 property set *)
  y_pos : list argval;                  (* positional arguments after [self] *)
  y_var : list argval;                  (* unpacked var-positional arguments *)
  y_kw : list (string * argval)         (* keyword arguments *)
}.

Definition to_argval (a : argspec) (v : nsval) : argval :=
  match v with
  | NStr s => VConv (as_conv a) s
  | NList l => VConvList (as_conv a) l
  | NFlag b => VBool b
  | NDefault => VDef
  | NAbsent => VDef
  end.

Definition arg_val (c : command) (n : ns) (d : string) : argval :=
  match find_arg d (c_args c), ns_get n d with
  | Some a, Some v => to_argval a v
  | _, _ => VDef
  end.

(** [_exec_method_and_respond]: walk the signature; positional-or-keyword parameters are passed
    positionally in signature order, the var-positional one unpacked after them, the rest by
    keyword. *)
Definition dispatch_fun (name : string) (ps : list param) (c : command) (n : ns) : pycall :=
  {| y_member := name; y_kind := 0;
     y_pos := map (fun p => arg_val c n (pa_name p))
                  (filter (fun p => match pa_kind p with PPos => true | _ => false end) ps);
     y_var := match find (fun p => match pa_kind p with PVarPos => true | _ => false end) ps with
              | Some p => match arg_val c n (pa_name p) with
                          | VConvList a l => map (VConv a) l
                          | _ => []
                          end
              | None => []
              end;
     y_kw := map (fun p => (pa_name p, arg_val c n (pa_name p)))
                 (filter (fun p => match pa_kind p with PKwOnly | PVarKw => true | _ => false end)
                         ps) |}.

Definition dispatch_prop (name : string) (setter : option param) (c : command) (n : ns) : pycall :=
  match setter with
  | Some p =>
      match ns_get n (pa_name p) with
      | Some (NStr s) =>
          {| y_member := name; y_kind := 2; y_pos := []; y_var := [];
             y_kw := [(pa_name p, VConv (pa_ann p) s)] |}
      | _ => {| y_member := name; y_kind := 1; y_pos := []; y_var := []; y_kw := [] |}
      end
  | None => {| y_member := name; y_kind := 1; y_pos := []; y_var := []; y_kw := [] |}
  end.

Definition find_member (ms : list member) (n : string) : option member :=
  find (fun m => String.eqb n (member_name m)) ms.

Definition dispatch (ms : list member) (c : command) (n : ns) : option pycall :=
  match find_member ms (c_member c) with
  | Some (MFun name ps) => Some (dispatch_fun name ps c n)
  | Some (MProp name st) => Some (dispatch_prop name st c n)
  | _ => None
  end.

(** The whole path: tokens of a command line -> the call the session makes. *)
Definition interpret (ms : list member) (toks : list string) : option pycall :=
  match parse_line (build_commands ms) toks with
  | Some (c, n) => dispatch ms c n
  | None => None
  end.

(** ** The session loop (session.py: listen / _parse_command) with its response buffer.
    The parser and the pool are oracles: for each line the environment supplies what parsing did
    ([POk]: a namespace, then the pool call's outcome; [PArgError m]: argparse raised
    ArgumentError(m); [PParserError out] / [PHelp out]: the parser wrote [out] to the stream and
    raised). *)
Inductive call_out := CNone | CValue (s : string) | CExc (s : string).

Inductive parse_out :=
| POk (o : call_out)
| PArgError (m : string)
| PParserError (out : string)
| PHelp (out : string).

Record sess := { s_buf : string; s_replies : list string; s_calls : nat }.

Definition sess_init : sess := {| s_buf := ""; s_replies := []; s_calls := 0 |}.

Definition reply_of (o : call_out) : string :=
  match o with CNone => "ok" | CValue s => s | CExc s => s end.

(** One non-blank line: [_parse_command] writes into the buffer; [listen] sends the buffer plus a
    newline and then rewinds and truncates it. *)
Definition sess_line (s : sess) (p : parse_out) : sess :=
  let '(written, called) :=
    match p with
    | POk o => (reply_of o, 1)
    | PArgError m => (m, 0)
    | PParserError out => (out, 0)
    | PHelp out => (out, 0)
    end in
  let buf := s_buf s ++ written in
  {| s_buf := ""; s_replies := s_replies s ++ [buf ++ "
"]; s_calls := s_calls s + called |}.

Definition sess_run (ps : list parse_out) : sess := fold_left sess_line ps sess_init.
