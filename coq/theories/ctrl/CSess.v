(** M2 — proofs about the session loop (C18): one reply per line, each reply is the output of its
    own command only, the buffer is empty between commands, lines that do not parse make no pool
    call. *)
From TP Require Import CModel.
Open Scope string_scope.

Definition written (p : parse_out) : string :=
  match p with
  | POk o => reply_of o
  | PArgError m => m
  | PParserError out => out
  | PHelp out => out
  end.

Definition is_call (p : parse_out) : bool := match p with POk _ => true | _ => false end.

Definition nl : string := "
".

Lemma sess_line_spec s p :
  s_buf s = "" ->
  s_buf (sess_line s p) = "" /\
  s_replies (sess_line s p) = app (s_replies s) [written p ++ nl] /\
  s_calls (sess_line s p) = s_calls s + (if is_call p then 1 else 0).
Proof.
  intros Hb. unfold sess_line. rewrite Hb.
  destruct p as [o|m|out|out]; cbn; auto.
Qed.

Lemma fold_sess s ps :
  s_buf s = "" ->
  let s' := fold_left sess_line ps s in
  s_buf s' = "" /\
  s_replies s' = app (s_replies s) (map (fun p => written p ++ nl) ps) /\
  s_calls s' = s_calls s + length (filter is_call ps).
Proof.
  revert s. induction ps as [|p r IH]; intros s Hb; cbn [fold_left].
  - cbn. rewrite app_nil_r. auto.
  - destruct (sess_line_spec s p Hb) as [H1 [H2 H3]].
    destruct (IH (sess_line s p) H1) as [I1 [I2 I3]].
    split; [exact I1|]. split.
    + rewrite I2, H2. cbn [map]. rewrite <- app_assoc. reflexivity.
    + rewrite I3, H3. cbn [filter]. destruct (is_call p); cbn [length]; lia.
Qed.

Lemma sess_run_spec ps :
  s_buf (sess_run ps) = "" /\
  s_replies (sess_run ps) = map (fun p => written p ++ nl) ps /\
  s_calls (sess_run ps) = length (filter is_call ps).
Proof.
  unfold sess_run. destruct (fold_sess sess_init ps eq_refl) as [H1 [H2 H3]].
  cbn in H2, H3. auto.
Qed.

(** ** Several sessions on one pool.  Each session owns its buffer and parser stream; lines of
    different sessions arrive interleaved in any order.  [multi_run n evs]: the states of the [n]
    sessions after the interleaved input [evs] (pairs of session index and parse outcome). *)
Fixpoint upd_nth {A} (l : list A) (i : nat) (f : A -> A) : list A :=
  match l, i with
  | [], _ => []
  | x :: t, O => f x :: t
  | x :: t, S k => x :: upd_nth t k f
  end.

Definition multi_step (ss : list sess) (e : nat * parse_out) : list sess :=
  upd_nth ss (fst e) (fun s => sess_line s (snd e)).

Definition multi_run (n : nat) (evs : list (nat * parse_out)) : list sess :=
  fold_left multi_step evs (repeat sess_init n).

(** the lines addressed to session [i], in order *)
Definition proj_sess (i : nat) (evs : list (nat * parse_out)) : list parse_out :=
  map snd (filter (fun e => Nat.eqb (fst e) i) evs).

Lemma nth_error_upd_nth {A} (l : list A) i j f :
  nth_error (upd_nth l i f) j =
  if Nat.eqb i j then option_map f (nth_error l j) else nth_error l j.
Proof.
  revert i j. induction l as [|x t IH]; intros [|i] [|j]; cbn; auto.
  destruct (Nat.eqb i j); reflexivity.
Qed.

Lemma multi_fold evs : forall ss i s,
  nth_error ss i = Some s ->
  nth_error (fold_left multi_step evs ss) i = Some (fold_left sess_line (proj_sess i evs) s).
Proof.
  induction evs as [|[j p] r IH]; intros ss i s Hs; cbn [fold_left]; [exact Hs|].
  unfold proj_sess. cbn [filter fst]. destruct (Nat.eqb_spec j i) as [->|Hne].
  - cbn [map snd fold_left]. apply IH. unfold multi_step. cbn [fst snd].
    rewrite nth_error_upd_nth, Nat.eqb_refl, Hs. reflexivity.
  - apply IH. unfold multi_step. cbn [fst snd]. rewrite nth_error_upd_nth.
    destruct (Nat.eqb_spec j i); [congruence|exact Hs].
Qed.

(** Isolation: whatever the interleaving, session [i] ends exactly as if it had run alone on the
    lines addressed to it — its replies contain nothing of any other session's output. *)
Lemma multi_run_isolated n evs i :
  i < n -> nth_error (multi_run n evs) i = Some (sess_run (proj_sess i evs)).
Proof.
  intros Hi. unfold multi_run, sess_run. apply multi_fold.
  rewrite nth_error_repeat; [reflexivity|exact Hi].
Qed.
