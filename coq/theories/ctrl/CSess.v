(** M2 — proofs about the session loop (C18): one reply per line, each reply is the output of its
    own command only, the buffer is empty between commands, lines that do not parse make no pool
    call. *)
From TP Require Import CModel.
Open Scope string_scope.

Definition written (p : parse_out) : string :=
  match p with
  | POk o => reply_of o
  | PArgError m => m
  | PParserError out => out
  | PHelp out => out
  end.

Definition is_call (p : parse_out) : bool := match p with POk _ => true | _ => false end.

Definition nl : string := "
".

Lemma sess_line_spec s p :
  s_buf s = "" ->
  s_buf (sess_line s p) = "" /\
  s_replies (sess_line s p) = app (s_replies s) [written p ++ nl] /\
  s_calls (sess_line s p) = s_calls s + (if is_call p then 1 else 0).
Proof.
  intros Hb. unfold sess_line. rewrite Hb.
  destruct p as [o|m|out|out]; cbn; auto.
Qed.

Lemma fold_sess s ps :
  s_buf s = "" ->
  let s' := fold_left sess_line ps s in
  s_buf s' = "" /\
  s_replies s' = app (s_replies s) (map (fun p => written p ++ nl) ps) /\
  s_calls s' = s_calls s + length (filter is_call ps).
Proof.
  revert s. induction ps as [|p r IH]; intros s Hb; cbn [fold_left].
  - cbn. rewrite app_nil_r. auto.
  - destruct (sess_line_spec s p Hb) as [H1 [H2 H3]].
    destruct (IH (sess_line s p) H1) as [I1 [I2 I3]].
    split; [exact I1|]. split.
    + rewrite I2, H2. cbn [map]. rewrite <- app_assoc. reflexivity.
    + rewrite I3, H3. cbn [filter]. destruct (is_call p); cbn [length]; lia.
Qed.

Lemma sess_run_spec ps :
  s_buf (sess_run ps) = "" /\
  s_replies (sess_run ps) = map (fun p => written p ++ nl) ps /\
  s_calls (sess_run ps) = length (filter is_call ps).
Proof.
  unfold sess_run. destruct (fold_sess sess_init ps eq_refl) as [H1 [H2 H3]].
  cbn in H2, H3. auto.
Qed.
