(** C18 — A session survives any input and answers each line once (the session logic; what
    argparse does with arbitrary text is exercised by the correspondence, not proved).
    Nothing but the property theorems (proved in CSess.v). *)
From TP Require Import CModel CSess.
Open Scope string_scope.

(** For every sequence of non-blank lines and every behaviour of the parser and the pool within
    the contract (parse_out): exactly one reply per line, in order. *)
Theorem C18_one_reply_per_line : forall ps, length (s_replies (sess_run ps)) = length ps.
Proof. intros ps. destruct (sess_run_spec ps) as [_ [H _]]. rewrite H. apply map_length. Qed.

(** The k-th reply is the output of the k-th command and of nothing else — whatever came before
    (no stale buffer content; sessions have their own buffer, so this also holds per session). *)
Theorem C18_reply_is_own_output : forall ps k p,
  nth_error ps k = Some p -> nth_error (s_replies (sess_run ps)) k = Some (written p ++ nl).
Proof.
  intros ps k p H. destruct (sess_run_spec ps) as [_ [Hr _]]. rewrite Hr.
  exact (map_nth_error (fun q => written q ++ nl) k ps H).
Qed.

(** The response buffer is empty whenever a command starts. *)
Theorem C18_buffer_empty : forall ps, s_buf (sess_run ps) = "".
Proof. intros ps. exact (proj1 (sess_run_spec ps)). Qed.

(** Unknown commands, bad arguments, conversion failures and help requests make no pool call: the
    number of calls is the number of lines that parsed. *)
Theorem C18_no_call_on_error : forall ps,
  s_calls (sess_run ps) = length (filter is_call ps).
Proof. intros ps. exact (proj2 (proj2 (sess_run_spec ps))). Qed.

(** Concurrent sessions on one pool do not see each other's output: for every number of sessions
    and every interleaving of their lines, session i ends exactly as if it had run alone on the
    lines addressed to it (each session owns its response buffer and its parser's stream; that the
    implementation does is checked by the two-session correspondence). *)
Theorem C18_sessions_isolated : forall n evs i,
  i < n -> nth_error (multi_run n evs) i = Some (sess_run (proj_sess i evs)).
Proof. exact multi_run_isolated. Qed.

Example C18_two_sessions_example :
  map s_replies (multi_run 2 [(0, PHelp "usage: long help"); (1, POk (CValue "7"));
                              (0, POk CNone); (1, PArgError "bad")])
  = [[append "usage: long help" nl; append "ok" nl]; [append "7" nl; append "bad" nl]].
Proof. vm_compute. reflexivity. Qed.

(** Non-vacuity: a long help reply followed by a short answer does not leak. *)
Example C18_example :
  s_replies (sess_run [PHelp "usage: a very long help text"; POk CNone; PArgError "bad";
                       POk (CValue "3")])
  = [append "usage: a very long help text" nl; append "ok" nl; append "bad" nl; append "3" nl].
Proof. vm_compute. reflexivity. Qed.

Print Assumptions C18_one_reply_per_line.
Print Assumptions C18_reply_is_own_output.
Print Assumptions C18_buffer_empty.
Print Assumptions C18_no_call_on_error.
Print Assumptions C18_sessions_isolated.
