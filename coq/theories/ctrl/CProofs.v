(** M2 — proofs about the command table (C16): every public function/property becomes exactly one
    command named after it with dashes, private members are never exposed, and for a well-formed
    surface the parser construction cannot fail (no conflicting option strings, in particular none
    with argparse's own -h/--help; every annotation classified). *)
From TP Require Import CModel.
Open Scope string_scope.

(** ** Reflection of the boolean list predicates *)
Lemma mem_str_In s l : mem_str s l = true <-> In s l.
Proof.
  unfold mem_str. rewrite existsb_exists. split.
  - intros [x [Hin Heq]]. apply String.eqb_eq in Heq. subst. exact Hin.
  - intros H. exists s. split; [exact H|apply String.eqb_refl].
Qed.

Lemma mem_str_false s l : mem_str s l = false <-> ~ In s l.
Proof. rewrite <- mem_str_In. destruct (mem_str s l); split; intros; congruence. Qed.

Lemma nodup_str_NoDup l : nodup_str l = true <-> NoDup l.
Proof.
  induction l as [|h t IH]; simpl.
  - split; intros; [constructor|reflexivity].
  - rewrite andb_true_iff, negb_true_iff, mem_str_false, IH. split.
    + intros [H1 H2]. constructor; assumption.
    + intros H. inversion H; subst. split; assumption.
Qed.

Lemma mem_ascii_In c l : mem_ascii c l = true <-> In c l.
Proof.
  unfold mem_ascii. rewrite existsb_exists. split.
  - intros [x [Hin Heq]]. apply Ascii.eqb_eq in Heq. subst. exact Hin.
  - intros H. exists c. split; [exact H|apply Ascii.eqb_refl].
Qed.

Lemma mem_ascii_false c l : mem_ascii c l = false <-> ~ In c l.
Proof. rewrite <- mem_ascii_In. destruct (mem_ascii c l); split; intros; congruence. Qed.

(** ** Characters *)
Lemma upper_not_h c : upper c <> "h"%char.
Proof. destruct c as [[] [] [] [] [] [] [] []]; vm_compute; congruence. Qed.

Lemma upper_not_dash c : c <> "-"%char -> upper c <> "-"%char.
Proof. destruct c as [[] [] [] [] [] [] [] []]; vm_compute; congruence. Qed.

Lemma dash_char_inj a b :
  a <> "-"%char -> b <> "-"%char -> dash_char a = dash_char b -> a = b.
Proof.
  unfold dash_char. intros Ha Hb.
  destruct (Ascii.eqb_spec a "_"%char) as [->|Hna]; destruct (Ascii.eqb_spec b "_"%char) as [->|Hnb];
    intros H; congruence.
Qed.

Lemma has_char_cons c d r : has_char c (String d r) = false -> c <> d /\ has_char c r = false.
Proof.
  simpl. intros H. apply orb_false_iff in H. destruct H as [H1 H2].
  split; [|exact H2]. intros ->. rewrite Ascii.eqb_refl in H1. discriminate.
Qed.

Lemma dash_inj a : forall b,
  has_char "-" a = false -> has_char "-" b = false -> dash a = dash b -> a = b.
Proof.
  induction a as [|c r IH]; intros [|d q] Ha Hb H; simpl in H; try discriminate; auto.
  apply has_char_cons in Ha. apply has_char_cons in Hb.
  destruct Ha as [Hc Hr]. destruct Hb as [Hd Hq].
  injection H as H1 H2.
  f_equal.
  - apply dash_char_inj; auto.
  - apply IH; auto.
Qed.

Lemma dash_help n : has_char "-" n = false -> dash n = "help" -> n = "help".
Proof.
  intros Hn H. apply (dash_inj n "help"); auto.
Qed.

Lemma ident_ok_nodash s : ident_ok s = true -> has_char "-" s = false.
Proof. unfold ident_ok. intros H. apply andb_true_iff in H. destruct H as [H _].
       apply negb_true_iff in H. exact H. Qed.

(** ** Shape of the option strings of one argument *)
Definition short_of (c : ascii) : string := String "-" (String c EmptyString).
Definition long_of (n : string) : string := "--" ++ dash n.

Lemma short_ne_long c n : c <> "-"%char -> short_of c <> long_of n.
Proof. unfold short_of, long_of. simpl. intros Hc H. injection H as H. congruence. Qed.

Lemma long_ne_short c n : c <> "-"%char -> long_of n <> short_of c.
Proof. intros Hc H. symmetry in H. revert H. apply short_ne_long; auto. Qed.

Lemma short_inj a b : short_of a = short_of b -> a = b.
Proof. unfold short_of. intros H. injection H. auto. Qed.

Lemma long_inj a b :
  has_char "-" a = false -> has_char "-" b = false -> long_of a = long_of b -> a = b.
Proof. unfold long_of. simpl. intros Ha Hb H. injection H as H. apply dash_inj; auto. Qed.

Lemma short_ne_h c : c <> "h"%char -> short_of c <> "-h".
Proof. unfold short_of. intros Hc H. injection H as H. congruence. Qed.

Lemma long_ne_h n : long_of n <> "-h".
Proof. unfold long_of. simpl. intros H. discriminate. Qed.

Lemma short_ne_help c : short_of c <> "--help".
Proof. unfold short_of. intros H. discriminate. Qed.

Lemma long_ne_help n : has_char "-" n = false -> n <> "help" -> long_of n <> "--help".
Proof.
  unfold long_of. simpl. intros Hn Hne H. injection H as H. apply Hne. apply dash_help; auto.
Qed.

(** A string of the option strings built from [ps] starting with the flag set [flags]. *)
Inductive ostr (ps : list param) (flags : list ascii) : string -> Prop :=
| ostr_short c : ~ In c flags -> c <> "h"%char -> c <> "-"%char -> ostr ps flags (short_of c)
| ostr_long n : In n (map pa_name ps) -> ostr ps flags (long_of n).

Lemma ostr_inv ps flags o :
  ostr ps flags o ->
  (exists c, o = short_of c /\ ~ In c flags /\ c <> "h"%char /\ c <> "-"%char) \/
  (exists n, o = long_of n /\ In n (map pa_name ps)).
Proof. destruct 1 as [c H1 H2 H3|n Hn]; [left; exists c|right; exists n]; auto. Qed.

Lemma first_char_not_dash n c :
  has_char "-" n = false -> first_char n = Some c -> c <> "-"%char.
Proof.
  destruct n as [|d r]; intros H Hc; cbn [first_char] in Hc; [discriminate|].
  injection Hc as <-. apply has_char_cons in H. destruct H as [H _]. congruence.
Qed.

(** One parameter: its option strings are duplicate-free, of the two shapes, and the flag set
    grows by exactly the short letter used. *)
Lemma arg_of_param_spec p flags a flags' :
  arg_of_param p flags = (a, flags') ->
  has_char "-" (pa_name p) = false ->
  NoDup (as_flags a) /\
  (forall o, In o (as_flags a) ->
             o = long_of (pa_name p) \/
             exists c, o = short_of c /\ ~ In c flags /\ In c flags' /\ c <> "h"%char
                       /\ c <> "-"%char) /\
  (forall c, In c flags -> In c flags') /\
  (as_conv a = pa_ann p \/ as_conv a = ABool) /\
  (pa_ann p <> AUnknown -> as_conv a <> AUnknown).
Proof.
  unfold arg_of_param. intros H Hnd.
  destruct (pa_default p); cbn [negb] in H.
  2:{ injection H as <- <-. cbn. repeat split; auto; try constructor; intros; tauto. }
  destruct (first_char (pa_name p)) as [l|] eqn:Hfc.
  2:{ assert (Hfl : as_flags a = [long_of (pa_name p)] /\ flags' = flags
                    /\ (as_conv a = pa_ann p \/ as_conv a = ABool)
                    /\ (pa_ann p <> AUnknown -> as_conv a <> AUnknown)).
      { destruct (pa_ann p) eqn:Ha; injection H as <- <-; cbn; repeat split; auto; congruence. }
      destruct Hfl as [Hfl [-> [Hc1 Hc2]]]. rewrite Hfl.
      repeat split; auto.
      - constructor; [simpl; tauto|constructor].
      - intros o [<-|[]]. left; reflexivity. }
  pose proof (first_char_not_dash _ _ Hnd Hfc) as Hl.
  destruct (negb (mem_ascii l flags) && negb (Ascii.eqb l "h")) eqn:Hlow.
  - apply andb_true_iff in Hlow. destruct Hlow as [H1 H2].
    apply negb_true_iff in H1, H2. apply mem_ascii_false in H1.
    assert (Hlh : l <> "h"%char) by (intros ->; rewrite Ascii.eqb_refl in H2; discriminate).
    assert (Hfl : as_flags a = [short_of l; long_of (pa_name p)] /\ flags' = l :: flags
                  /\ (as_conv a = pa_ann p \/ as_conv a = ABool)
                  /\ (pa_ann p <> AUnknown -> as_conv a <> AUnknown)).
    { destruct (pa_ann p) eqn:Ha; injection H as <- <-; cbn; repeat split; auto; congruence. }
    destruct Hfl as [Hfl [-> [Hc1 Hc2]]]. rewrite Hfl.
    repeat split; auto.
    + constructor; [|constructor; [simpl; tauto|constructor]].
      simpl. intros [Heq|[]]. symmetry in Heq. revert Heq. apply short_ne_long; auto.
    + intros o [<-|[<-|[]]].
      * right. exists l. repeat split; auto. left; reflexivity.
      * left; reflexivity.
    + intros c Hc. right; exact Hc.
  - destruct (negb (mem_ascii (upper l) flags)) eqn:Hup.
    + apply negb_true_iff in Hup. apply mem_ascii_false in Hup.
      assert (Hfl : as_flags a = [short_of (upper l); long_of (pa_name p)]
                    /\ flags' = upper l :: flags
                    /\ (as_conv a = pa_ann p \/ as_conv a = ABool)
                    /\ (pa_ann p <> AUnknown -> as_conv a <> AUnknown)).
      { destruct (pa_ann p) eqn:Ha; injection H as <- <-; cbn; repeat split; auto; congruence. }
      destruct Hfl as [Hfl [-> [Hc1 Hc2]]]. rewrite Hfl.
      repeat split; auto.
      * constructor; [|constructor; [simpl; tauto|constructor]].
        simpl. intros [Heq|[]]. symmetry in Heq. revert Heq.
        apply short_ne_long. apply upper_not_dash; auto.
      * intros o [<-|[<-|[]]].
        -- right. exists (upper l). repeat split; auto.
           ++ left; reflexivity.
           ++ apply upper_not_h.
           ++ apply upper_not_dash; auto.
        -- left; reflexivity.
      * intros c Hc. right; exact Hc.
    + assert (Hfl : as_flags a = [long_of (pa_name p)] /\ flags' = flags
                    /\ (as_conv a = pa_ann p \/ as_conv a = ABool)
                    /\ (pa_ann p <> AUnknown -> as_conv a <> AUnknown)).
      { destruct (pa_ann p) eqn:Ha; injection H as <- <-; cbn; repeat split; auto; congruence. }
      destruct Hfl as [Hfl [-> [Hc1 Hc2]]]. rewrite Hfl.
      repeat split; auto.
      * constructor; [simpl; tauto|constructor].
      * intros o [<-|[]]. left; reflexivity.
Qed.

(** All parameters of a function: the option strings are pairwise distinct. *)
Lemma args_of_params_spec ps : forall flags,
  NoDup (map pa_name ps) ->
  (forall p, In p ps -> has_char "-" (pa_name p) = false) ->
  NoDup (flat_map as_flags (args_of_params ps flags)) /\
  (forall o, In o (flat_map as_flags (args_of_params ps flags)) -> ostr ps flags o).
Proof.
  induction ps as [|p r IH]; intros flags Hnd Hid; cbn [args_of_params].
  - split; [constructor|intros o []].
  - destruct (arg_of_param p flags) as [a flags'] eqn:Ha.
    cbn [flat_map].
    inversion Hnd as [|? ? Hnotin Hnd']; subst.
    pose proof (arg_of_param_spec _ _ _ _ Ha (Hid p (or_introl eq_refl)))
      as [Hnda [Hshape [Hmono _]]].
    destruct (IH flags' Hnd' (fun q Hq => Hid q (or_intror Hq))) as [IHnd IHshape].
    split.
    + (* NoDup of the concatenation *)
      clear IH. revert Hnda Hshape. generalize (as_flags a) as fs.
      induction fs as [|f fs IHfs]; intros Hnda Hshape; cbn [app]; [exact IHnd|].
      inversion Hnda as [|? ? Hf Hnda']; subst.
      constructor.
      * rewrite in_app_iff. intros [Hin|Hin]; [tauto|].
        specialize (IHshape f Hin).
        destruct (Hshape f (or_introl eq_refl)) as [->|[c [-> [Hc1 [Hc2 [Hc3 Hc4]]]]]].
        -- (* f is p's long flag *)
           destruct (ostr_inv _ _ _ IHshape) as [[c [Heq [Hc1 [Hc2 Hc3]]]]|[n [Heq Hn]]].
           ++ revert Heq. apply long_ne_short; auto.
           ++ apply in_map_iff in Hn. destruct Hn as [q [<- Hq]].
              apply long_inj in Heq; [|apply Hid; left; reflexivity|apply Hid; right; exact Hq].
              apply Hnotin. rewrite Heq. apply in_map. exact Hq.
        -- (* f is p's short flag: its letter is in flags' *)
           destruct (ostr_inv _ _ _ IHshape) as [[c' [Heq [Hc1' [Hc2' Hc3']]]]|[n [Heq Hn]]].
           ++ apply short_inj in Heq. subst c'. tauto.
           ++ revert Heq. apply short_ne_long; auto.
      * apply IHfs; auto. intros o Ho. apply Hshape. right; exact Ho.
    + intros o Ho. rewrite in_app_iff in Ho. destruct Ho as [Ho|Ho].
      * destruct (Hshape o Ho) as [->|[c [-> [Hc1 [Hc2 [Hc3 Hc4]]]]]].
        -- apply ostr_long. left; reflexivity.
        -- apply ostr_short; auto.
      * specialize (IHshape o Ho). destruct (ostr_inv _ _ _ IHshape) as [[c [-> [Hc1 [Hc2 Hc3]]]]|[n [-> Hn]]].
        -- apply ostr_short; auto.
        -- apply ostr_long. right; exact Hn.
Qed.

Lemma args_of_params_conv ps : forall flags a,
  (forall p, In p ps -> pa_ann p <> AUnknown) ->
  In a (args_of_params ps flags) -> as_conv a <> AUnknown.
Proof.
  induction ps as [|p r IH]; intros flags a Hann; cbn [args_of_params]; [intros []|].
  destruct (arg_of_param p flags) as [a0 flags'] eqn:Ha. intros [<-|Hin].
  - unfold arg_of_param in Ha.
    assert (Hp : pa_ann p <> AUnknown) by (apply Hann; left; reflexivity).
    destruct (negb (pa_default p)); [injection Ha as <- _; exact Hp|].
    destruct (first_char (pa_name p)) as [l|];
      [destruct (negb (mem_ascii l flags) && negb (Ascii.eqb l "h"));
       [|destruct (negb (mem_ascii (upper l) flags))]|];
      destruct (pa_ann p) eqn:E; injection Ha as <- _; cbn; congruence.
  - eapply IH; eauto. intros q Hq. apply Hann. right; exact Hq.
Qed.

(** ** Well-formed surface => the parser can be built *)
Lemma param_ok_facts p :
  param_ok p = true ->
  has_char "-" (pa_name p) = false /\ pa_name p <> "help" /\ pa_ann p <> AUnknown.
Proof.
  unfold param_ok. intros H.
  apply andb_true_iff in H. destruct H as [H H4].
  apply andb_true_iff in H. destruct H as [H H3].
  apply andb_true_iff in H. destruct H as [H1 H2].
  repeat split.
  - apply ident_ok_nodash; exact H1.
  - apply negb_true_iff in H2. intros Heq. rewrite Heq in H2. simpl in H2. discriminate.
  - destruct (pa_ann p); congruence.
Qed.

Lemma fun_command_ok n ps :
  forallb param_ok ps = true -> nodup_str (map pa_name ps) = true ->
  command_ok {| c_name := dash n; c_member := n; c_isprop := false;
                c_args := args_of_params ps [] |} = true.
Proof.
  intros Hok Hnd. rewrite forallb_forall in Hok. apply nodup_str_NoDup in Hnd.
  assert (Hid : forall p, In p ps -> has_char "-" (pa_name p) = false)
    by (intros p Hp; apply (param_ok_facts p (Hok p Hp))).
  destruct (args_of_params_spec ps [] Hnd Hid) as [Hnodup Hshape].
  unfold command_ok, option_strings. cbn [c_args].
  apply andb_true_iff. split.
  - apply nodup_str_NoDup. unfold help_flags. cbn [app].
    constructor; [|constructor; [|exact Hnodup]].
    + simpl. intros [Heq|Hin]; [discriminate|].
      specialize (Hshape _ Hin). destruct (ostr_inv _ _ _ Hshape) as [[c [Heq [Hc1 [Hc2 Hc3]]]]|[m [Heq Hm]]].
      * symmetry in Heq. revert Heq. apply short_ne_h; auto.
      * symmetry in Heq. revert Heq. apply long_ne_h.
    + intros Hin. specialize (Hshape _ Hin).
      destruct (ostr_inv _ _ _ Hshape) as [[c [Heq [Hc1 [Hc2 Hc3]]]]|[m [Heq Hm]]].
      * symmetry in Heq. revert Heq. apply short_ne_help.
      * apply in_map_iff in Hm. destruct Hm as [q [<- Hq]].
        destruct (param_ok_facts q (Hok q Hq)) as [Hq1 [Hq2 _]].
        symmetry in Heq. revert Heq. apply long_ne_help; auto.
  - rewrite forallb_forall. intros a Ha.
    pose proof (args_of_params_conv ps [] a
                  (fun p Hp => proj2 (proj2 (param_ok_facts p (Hok p Hp)))) Ha) as Hc.
    destruct (as_conv a); congruence.
Qed.

Lemma member_command_ok m c :
  member_ok m = true -> is_public (member_name m) = true ->
  command_of_member m = Some c -> command_ok c = true.
Proof.
  unfold member_ok. intros H Hpub Hc. rewrite Hpub in H. cbn [negb orb] in H.
  apply andb_true_iff in H. destruct H as [_ H].
  apply andb_true_iff in H. destruct H as [Hps Hnd].
  destruct m as [n ps|n [p|]|n]; cbn [command_of_member] in Hc; try discriminate;
    injection Hc as <-.
  - apply fun_command_ok; assumption.
  - cbn [params_of forallb] in Hps. rewrite andb_true_r in Hps.
    destruct (param_ok_facts p Hps) as [_ [_ Hann]].
    unfold command_ok, option_strings. cbn [c_args flat_map as_flags app forallb as_conv].
    change (nodup_str (help_flags ++ [])) with true. cbn [andb].
    destruct (pa_ann p); try reflexivity. congruence.
  - reflexivity.
Qed.

Lemma build_commands_in ms c :
  In c (build_commands ms) ->
  exists m, In m ms /\ is_public (member_name m) = true /\ command_of_member m = Some c.
Proof.
  induction ms as [|m r IH]; cbn [build_commands]; [intros []|].
  destruct (is_public (member_name m)) eqn:Hp.
  - destruct (command_of_member m) as [c0|] eqn:Hc.
    + intros [<-|Hin].
      * exists m. repeat split; auto. left; reflexivity.
      * destruct (IH Hin) as [m' [H1 H2]]. exists m'. split; [right; exact H1|exact H2].
    + intros Hin. destruct (IH Hin) as [m' [H1 H2]]. exists m'. split; [right; exact H1|exact H2].
  - intros Hin. destruct (IH Hin) as [m' [H1 H2]]. exists m'. split; [right; exact H1|exact H2].
Qed.

Lemma command_of_member_name m c :
  command_of_member m = Some c -> c_name c = dash (member_name m) /\ c_member c = member_name m.
Proof.
  destruct m as [n ps|n [p|]|n]; cbn; intros H; try discriminate; injection H as <-; auto.
Qed.

(** Private members are never exposed; every command stands for a public member. *)
Theorem private_hidden ms c :
  In c (build_commands ms) -> is_public (c_member c) = true /\ c_name c = dash (c_member c).
Proof.
  intros H. destruct (build_commands_in ms c H) as [m [_ [Hp Hc]]].
  destruct (command_of_member_name m c Hc) as [H1 H2]. rewrite H2, H1. auto.
Qed.

Definition is_cmd_member (m : member) : bool :=
  is_public (member_name m) && match m with MOther _ => false | _ => true end.

(** Every public function and property is exposed, once, in order, under its dashed name. *)
Theorem command_names ms :
  map c_name (build_commands ms) = map (fun m => dash (member_name m)) (filter is_cmd_member ms).
Proof.
  induction ms as [|m r IH]; cbn [build_commands filter map]; [reflexivity|].
  unfold is_cmd_member at 1.
  destruct (is_public (member_name m)); cbn [andb]; [|exact IH].
  destruct m as [n ps|n [p|]|n]; cbn [command_of_member map c_name member_name]; rewrite ?IH;
    reflexivity.
Qed.

Lemma NoDup_map_dash l :
  (forall s, In s l -> has_char "-" s = false) -> NoDup l -> NoDup (map dash l).
Proof.
  induction l as [|h t IH]; intros Hid Hnd; cbn; [constructor|].
  inversion Hnd as [|? ? Hh Ht]; subst. constructor.
  - rewrite in_map_iff. intros [x [Heq Hin]]. apply dash_inj in Heq.
    + subst x. tauto.
    + apply Hid. right; exact Hin.
    + apply Hid. left; reflexivity.
  - apply IH; auto. intros s Hs. apply Hid. right; exact Hs.
Qed.

Lemma NoDup_filter {A} (f : A -> bool) l : NoDup l -> NoDup (filter f l).
Proof.
  induction 1 as [|h t Hh Ht IH]; cbn; [constructor|].
  destruct (f h); auto. constructor; auto. rewrite filter_In. tauto.
Qed.

Lemma NoDup_map_filter {A B} (g : A -> B) (f : A -> bool) l :
  NoDup (map g l) -> NoDup (map g (filter f l)).
Proof.
  induction l as [|h t IH]; cbn; intros H; [constructor|].
  inversion H as [|? ? Hh Ht]; subst.
  destruct (f h); cbn; auto. constructor; auto.
  rewrite in_map_iff in *. intros [x [Heq Hin]]. apply Hh. exists x. split; auto.
  apply filter_In in Hin. tauto.
Qed.

(** C16, construction part: a well-formed class surface always yields a parser. *)
Theorem wf_surface_handshake_ok ms : wf_surface ms = true -> handshake_ok ms = true.
Proof.
  unfold wf_surface, handshake_ok. intros H.
  apply andb_true_iff in H. destruct H as [Hms Hnd].
  rewrite forallb_forall in Hms. apply andb_true_iff. split.
  - rewrite forallb_forall. intros c Hc.
    destruct (build_commands_in ms c Hc) as [m [Hin [Hp Hcm]]].
    eapply member_command_ok; eauto.
  - apply nodup_str_NoDup. rewrite command_names.
    apply nodup_str_NoDup in Hnd.
    rewrite <- (map_map member_name dash).
    apply NoDup_map_dash.
    + intros s Hs. apply in_map_iff in Hs. destruct Hs as [m [<- Hm]].
      apply filter_In in Hm. destruct Hm as [Hm _].
      specialize (Hms m Hm). unfold member_ok in Hms. apply andb_true_iff in Hms.
      apply ident_ok_nodash. tauto.
    + apply NoDup_map_filter. exact Hnd.
Qed.

(** Non-vacuity: a subclass-like surface with a bool flag, two parameters sharing their initial,
    a parameter starting with 'h', a private method and a settable property. *)
Definition demo_surface : list member :=
  [ MFun "_hidden" [ {| pa_name := "x"; pa_kind := PPos; pa_default := false; pa_ann := AInt |} ];
    MFun "do_it" [ {| pa_name := "what"; pa_kind := PPos; pa_default := false; pa_ann := AStr |};
                   {| pa_name := "items"; pa_kind := PVarPos; pa_default := false; pa_ann := AInt |};
                   {| pa_name := "how"; pa_kind := PKwOnly; pa_default := true; pa_ann := AStr |};
                   {| pa_name := "hard"; pa_kind := PKwOnly; pa_default := true; pa_ann := ABool |};
                   {| pa_name := "height"; pa_kind := PKwOnly; pa_default := true; pa_ann := AInt |} ];
    MProp "pool_size" (Some {| pa_name := "value"; pa_kind := PPos; pa_default := false;
                                pa_ann := AInt |});
    MOther "some_attr" ].

Example demo_wf : wf_surface demo_surface = true.
Proof. vm_compute. reflexivity. Qed.

Example demo_table :
  map (fun c => (c_name c, option_strings c)) (build_commands demo_surface)
  = [ ("do-it", ["-H"; "--how"; "--hard"; "--height"]); ("pool-size", []) ].
Proof. vm_compute. reflexivity. Qed.

(** ... and a surface the parser cannot be built for (a parameter named 'help'). *)
Example bad_surface_rejected :
  handshake_ok [ MFun "f" [ {| pa_name := "help"; pa_kind := PKwOnly; pa_default := true;
                               pa_ann := AStr |} ] ] = false.
Proof. vm_compute. reflexivity. Qed.
