(** C16 — Any pool can be served: handshake succeeds, full command surface.
    Nothing but the property theorems (proved in CProofs.v; the instantiations for the real
    classes are in the regenerated PoolSurface.v). *)
From TP Require Import CModel CProofs PoolSurface.

(** Every public function and property of the class — and nothing else — is a command, named after
    it with underscores as dashes, in member order. *)
Theorem C16_names : forall ms,
  map c_name (build_commands ms) = map (fun m => dash (member_name m)) (filter is_cmd_member ms).
Proof. exact command_names. Qed.

(** Non-public members are never exposed. *)
Theorem C16_private_hidden : forall ms c,
  In c (build_commands ms) -> is_public (c_member c) = true /\ c_name c = dash (c_member c).
Proof. exact private_hidden. Qed.

(** For every well-formed class surface (any subclass adding public members) the parser can be
    built: no two option strings of a command coincide, none collides with -h/--help (so every
    command has its help), every annotation is classified, command names are distinct. *)
Theorem C16_constructible : forall ms, wf_surface ms = true -> handshake_ok ms = true.
Proof. exact wf_surface_handshake_ok. Qed.

(** The surfaces of the real classes, as read from /repo on this run, are well-formed. *)
Theorem C16_taskpool :
  wf_surface taskpool_members = true /\ handshake_ok taskpool_members = true.
Proof. split; [exact taskpool_members_wf|exact taskpool_members_handshake]. Qed.

Theorem C16_simplepool :
  wf_surface simplepool_members = true /\ handshake_ok simplepool_members = true.
Proof. split; [exact simplepool_members_wf|exact simplepool_members_handshake]. Qed.

Print Assumptions C16_names.
Print Assumptions C16_private_hidden.
Print Assumptions C16_constructible.
Print Assumptions C16_taskpool.
Print Assumptions C16_simplepool.
