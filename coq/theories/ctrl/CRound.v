(** M2 — round trip (C17): for every command of a parse-well-formed table and every call in its
    domain, parsing the rendered command line yields exactly the namespace that holds the given
    values for the given arguments and the defaults for all others. *)
From TP Require Import CModel CProofs.
Open Scope string_scope.

(** ** What a command must satisfy for its lines to be parsed by the canonical grammar.
    (All boolean: established for concrete tables by computation.) *)
Definition is_opt (a : argspec) : bool := match as_flags a with [] => false | _ => true end.

Definition flag_ok (f : string) : bool :=
  negb (value_like f) && negb (has_char "=" f).

Definition cmd_parse_wf (c : command) : bool :=
  nodup_str (option_strings c)
  && forallb flag_ok (option_strings c)
  && nodup_str (map as_dest (c_args c)).

(** the positional values fit the positional arguments: one value per plain positional, then the
    var-positional one (last) takes [var], or the optional one (last) takes zero or one value *)
Fixpoint fits (ps : list argspec) (vals var : list string) : bool :=
  match ps with
  | [] => match vals, var with [], [] => true | _, _ => false end
  | a :: r =>
      match as_nargs a with
      | NOne => match vals with v :: vs => fits r vs var | [] => false end
      | NStar => match r, vals with [], [] => true | _, _ => false end
      | NOpt => match r, var with
                | [], [] => match vals with [] | [_] => true | _ => false end
                | _, _ => false
                end
      end
  end.

(** ** Calls in the domain of a command *)
Definition opt_ok (c : command) (o : optarg) : bool :=
  match find_arg (oa_dest o) (c_args c) with
  | Some a =>
      is_opt a &&
      match as_action a with
      | AStoreTrue => true
      | AStore => match oa_form o with FLongEq => true | _ => value_like (oa_val o) end
      end
      && match oa_form o with
         | FShort => true
         | _ => match long_flag a with Some _ => true | None => false end
         end
  | None => false
  end.

Definition call_ok (c : command) (k : call) : bool :=
  forallb value_like (k_pos k) && forallb value_like (k_var k)
  && forallb (opt_ok c) (k_opts k)
  && fits (positionals c) (k_pos k) (k_var k).

(** ** The expected namespace *)
Fixpoint set_pos (ps : list argspec) (vals : list string) (var : list string) (n : ns) : ns :=
  match ps with
  | [] => n
  | a :: r =>
      match as_nargs a with
      | NOne => match vals with
                | v :: vs => set_pos r vs var (ns_set n (as_dest a) (NStr v))
                | [] => n
                end
      | NStar => set_pos r vals var (ns_set n (as_dest a) (NList var))
      | NOpt => match vals with
                | v :: vs => set_pos r vs var (ns_set n (as_dest a) (NStr v))
                | [] => set_pos r vals var n
                end
      end
  end.

Definition set_opt (c : command) (n : ns) (o : optarg) : ns :=
  match find_arg (oa_dest o) (c_args c) with
  | Some a => match as_action a with
              | AStoreTrue => ns_set n (oa_dest o) (NFlag true)
              | AStore => ns_set n (oa_dest o) (NStr (oa_val o))
              end
  | None => n
  end.

Definition expected_ns (c : command) (k : call) : ns :=
  fold_left (set_opt c) (k_opts k) (set_pos (positionals c) (k_pos k) (k_var k) (ns_init c)).

(** ** Tokens *)
Lemma take_values_app vs rest :
  forallb value_like vs = true ->
  match rest with [] => True | t :: _ => value_like t = false end ->
  take_values (vs ++ rest) = (vs, rest).
Proof.
  induction vs as [|v r IH]; cbn [app forallb]; intros Hv Hr.
  - destruct rest as [|t q]; cbn; [reflexivity|]. rewrite Hr. reflexivity.
  - apply andb_true_iff in Hv. destruct Hv as [Hv1 Hv2]. cbn [take_values]. rewrite Hv1.
    rewrite IH; auto.
Qed.

(** the option tokens start with a flag, which is not value-like *)
Definition head_not_value (toks : list string) : Prop :=
  match toks with [] => True | t :: _ => value_like t = false end.

Lemma parse_pos_spec ps : forall vals var rest n,
  fits ps vals var = true ->
  forallb value_like vals = true -> forallb value_like var = true ->
  head_not_value rest ->
  parse_pos ps (vals ++ var ++ rest) n = Some (set_pos ps vals var n, rest).
Proof.
  induction ps as [|a r IH]; intros vals var rest n Hfit Hvals Hvar Hrest.
  - cbn [fits] in Hfit. destruct vals; [|discriminate]. destruct var; [|discriminate]. reflexivity.
  - cbn [fits parse_pos set_pos] in *. destruct (as_nargs a) eqn:Hna.
    + destruct vals as [|v vs]; [discriminate|].
      cbn [app forallb] in *. apply andb_true_iff in Hvals. destruct Hvals as [Hv Hvs].
      rewrite Hv. apply IH; auto.
    + destruct r; [|discriminate]. destruct vals; [|discriminate]. cbn [app].
      rewrite take_values_app; auto.
    + destruct r; [|discriminate]. destruct var; [|discriminate]. cbn [app].
      destruct vals as [|v [|w vs]]; try discriminate.
      * destruct rest as [|t q]; [reflexivity|]. cbn in Hrest. cbn [app]. rewrite Hrest. reflexivity.
      * cbn [app forallb] in *. rewrite andb_true_r in Hvals. rewrite Hvals. reflexivity.
Qed.

(** ** Options *)
Lemma find_arg_In d l a : find_arg d l = Some a -> In a l /\ as_dest a = d.
Proof.
  unfold find_arg. intros H. apply find_some in H. destruct H as [H1 H2].
  apply String.eqb_eq in H2. auto.
Qed.

Lemma NoDup_app_r {A} (l1 l2 : list A) : NoDup (l1 ++ l2) -> NoDup l2.
Proof. induction l1 as [|x xs IH]; cbn; auto. intros H. inversion H; subst. auto. Qed.

(** with pairwise distinct option strings, a flag identifies its argument *)
Lemma arg_with_flag_unique l : forall a f,
  NoDup (flat_map as_flags l) -> In a l -> In f (as_flags a) -> arg_with_flag f l = Some a.
Proof.
  induction l as [|b r IH]; intros a f Hnd Hin Hf; [destruct Hin|].
  cbn [flat_map] in Hnd. unfold arg_with_flag. cbn [find].
  destruct (mem_str f (as_flags b)) eqn:Hm.
  - destruct Hin as [->|Hin]; [reflexivity|].
    exfalso. apply mem_str_In in Hm.
    (* f occurs in b's flags and in a's flags further down: contradiction with NoDup *)
    assert (Hin2 : In f (flat_map as_flags r)) by (apply in_flat_map; exists a; auto).
    clear -Hnd Hm Hin2. induction (as_flags b) as [|x xs IHx]; [destruct Hm|].
    cbn [app] in Hnd. inversion Hnd as [|? ? Hx Hnd']; subst.
    destruct Hm as [->|Hm].
    + apply Hx. apply in_or_app. right; exact Hin2.
    + apply IHx; auto.
  - destruct Hin as [->|Hin].
    + apply mem_str_false in Hm. tauto.
    + apply IH; auto. apply NoDup_app_r in Hnd. exact Hnd.
Qed.

Lemma split_eq_app f v : has_char "=" f = false -> split_eq (f ++ "=" ++ v) = Some (f, v).
Proof.
  induction f as [|c r IH]; intros H.
  - reflexivity.
  - apply has_char_cons in H. destruct H as [Hc Hr]. cbn [append split_eq].
    destruct (Ascii.eqb_spec c "="%char) as [->|_]; [congruence|].
    change (match split_eq (r ++ "=" ++ v) with
            | Some (a, b) => Some (String c a, b) | None => None end = Some (String c r, v)).
    rewrite IH; auto.
Qed.

Lemma find_In {A} (f : A -> bool) l x : find f l = Some x -> In x l.
Proof. intros H. apply find_some in H. tauto. Qed.

Record opts_ctx (c : command) (os : list argspec) : Prop := {
  oc_os : os = optionals c;
  oc_nodup : NoDup (flat_map as_flags os);
  oc_flag_ok : forall a f, In a os -> In f (as_flags a) -> flag_ok f = true;
  oc_dest : forall a b, In a (c_args c) -> In b (c_args c) -> as_dest a = as_dest b -> a = b
}.

Lemma optional_of c a : In a (c_args c) -> is_opt a = true -> In a (optionals c).
Proof.
  intros Hin Ho. unfold optionals. apply filter_In. split; [exact Hin|].
  unfold is_opt in Ho. destruct (as_flags a); [discriminate|reflexivity].
Qed.

(** the flag chosen by [render_opt] is one of the argument's option strings *)
Lemma long_flag_eq a : long_flag a = find is_long (as_flags a).
Proof. reflexivity. Qed.
Lemma short_flag_eq a : short_flag a = find (fun f => negb (is_long f)) (as_flags a).
Proof. reflexivity. Qed.

Definition chosen_flag (a : argspec) (form : optform) : string :=
  match form with
  | FShort => match short_flag a with
              | Some f => f
              | None => match long_flag a with Some f => f | None => "" end
              end
  | _ => match long_flag a with Some f => f | None => "" end
  end.

Lemma chosen_flag_in a form :
  is_opt a = true ->
  (match form with FShort => true | _ => match long_flag a with Some _ => true | None => false end
   end = true) ->
  In (chosen_flag a form) (as_flags a).
Proof.
  intros Ho Hf. unfold chosen_flag. rewrite long_flag_eq, short_flag_eq in *.
  destruct form.
  - destruct (find (fun f => negb (is_long f)) (as_flags a)) as [g|] eqn:Hs;
      [eapply find_In; eauto|].
    destruct (find is_long (as_flags a)) as [g|] eqn:Hl; [eapply find_In; eauto|].
    exfalso. unfold is_opt in Ho. destruct (as_flags a) as [|x xs]; [discriminate|].
    pose proof (find_none _ _ Hs x (or_introl eq_refl)) as H1.
    pose proof (find_none _ _ Hl x (or_introl eq_refl)) as H2.
    cbn in H1. rewrite H2 in H1. discriminate.
  - destruct (find is_long (as_flags a)) as [g|] eqn:Hl; [eapply find_In; eauto|discriminate].
  - destruct (find is_long (as_flags a)) as [g|] eqn:Hl; [eapply find_In; eauto|discriminate].
Qed.

Lemma render_opt_eq c o :
  render_opt c o =
  match find_arg (oa_dest o) (c_args c) with
  | None => []
  | Some a =>
      match as_action a, oa_form o with
      | AStoreTrue, _ => [chosen_flag a (oa_form o)]
      | AStore, FLongEq => [chosen_flag a (oa_form o) ++ "=" ++ oa_val o]
      | AStore, _ => [chosen_flag a (oa_form o); oa_val o]
      end
  end.
Proof. reflexivity. Qed.

(** a token starting like a flag is not value-like *)
Lemma flag_prefix_not_value f rest :
  value_like f = false -> has_char "=" f = false -> value_like (f ++ "=" ++ rest) = false.
Proof.
  unfold value_like. intros H Heq. apply orb_false_iff in H. destruct H as [H1 H2].
  apply negb_false_iff in H1. apply orb_false_iff.
  destruct f as [|c0 fl]; [discriminate|]. cbn [starts_with_char] in H1.
  apply Ascii.eqb_eq in H1. subst c0. split; [reflexivity|].
  (* "-" ++ fl ++ "=" ++ rest is no negative number: '=' is not a digit *)
  destruct fl as [|c1 fl]; [reflexivity|].
  cbn [append is_negnum] in *.
  destruct (is_digit c1) eqn:Hd; [|reflexivity]. cbn [andb] in *.
  apply has_char_cons in Heq. destruct Heq as [_ Heq].
  apply has_char_cons in Heq. destruct Heq as [_ Heq].
  clear -Heq. induction fl as [|d fl IH]; cbn [append all_digits].
  - reflexivity.
  - apply has_char_cons in Heq. destruct Heq as [_ Heq].
    destruct (is_digit d); [apply IH; exact Heq|reflexivity].
Qed.

Lemma token_not_flag c os f v :
  opts_ctx c os -> arg_with_flag (f ++ "=" ++ v) os = None.
Proof.
  intros Hctx. unfold arg_with_flag.
  destruct (find _ os) as [b|] eqn:Hf; [|reflexivity]. exfalso.
  apply find_some in Hf. destruct Hf as [Hb Hm]. apply mem_str_In in Hm.
  pose proof (oc_flag_ok _ _ Hctx b _ Hb Hm) as Hok. unfold flag_ok in Hok.
  apply andb_true_iff in Hok. destruct Hok as [_ Hbeq]. apply negb_true_iff in Hbeq.
  clear -Hbeq. induction f as [|ch fl IHf]; cbn [append has_char] in Hbeq.
  - rewrite Ascii.eqb_refl in Hbeq. discriminate.
  - apply orb_false_iff in Hbeq. tauto.
Qed.

Lemma parse_opts_spec c os : opts_ctx c os -> forall opts fuel n,
  forallb (opt_ok c) opts = true ->
  length (flat_map (render_opt c) opts) < fuel ->
  parse_opts fuel os (flat_map (render_opt c) opts) n = Some (fold_left (set_opt c) opts n).
Proof.
  intros Hctx. induction opts as [|o r IH]; intros fuel n Hok Hfuel.
  - destruct fuel; reflexivity.
  - cbn [forallb] in Hok. apply andb_true_iff in Hok. destruct Hok as [Ho Hr].
    cbn [flat_map fold_left] in *. unfold opt_ok in Ho. unfold set_opt at 2.
    rewrite render_opt_eq in *.
    destruct (find_arg (oa_dest o) (c_args c)) as [a|] eqn:Hfa; [|discriminate].
    destruct (find_arg_In _ _ _ Hfa) as [Hain Hdest].
    apply andb_true_iff in Ho. destruct Ho as [Ho Hform].
    apply andb_true_iff in Ho. destruct Ho as [Hopt Hval].
    pose proof (optional_of c a Hain Hopt) as Haos. rewrite <- (oc_os _ _ Hctx) in Haos.
    pose proof (chosen_flag_in a (oa_form o) Hopt Hform) as Hflag.
    pose proof (arg_with_flag_unique os a _ (oc_nodup _ _ Hctx) Haos Hflag) as Hawf.
    pose proof (oc_flag_ok _ _ Hctx a _ Haos Hflag) as Hfok.
    unfold flag_ok in Hfok. apply andb_true_iff in Hfok. destruct Hfok as [Hnv Hneq].
    apply negb_true_iff in Hnv, Hneq.
    destruct (as_action a) eqn:Hact.
    + destruct (oa_form o) eqn:Hfm.
      * cbn [app length] in Hfuel. destruct fuel as [|fuel]; [lia|].
        cbn [app parse_opts]. rewrite Hawf, Hact, Hval. rewrite <- Hdest.
        apply IH; auto. lia.
      * cbn [app length] in Hfuel. destruct fuel as [|fuel]; [lia|].
        cbn [app parse_opts]. rewrite Hawf, Hact, Hval. rewrite <- Hdest.
        apply IH; auto. lia.
      * cbn [app length] in Hfuel. destruct fuel as [|fuel]; [lia|].
        cbn [app parse_opts].
        rewrite (token_not_flag c os _ _ Hctx), split_eq_app, Hawf, Hact by exact Hneq.
        rewrite <- Hdest. apply IH; auto. lia.
    + cbn [app length] in Hfuel. destruct fuel as [|fuel]; [lia|].
      cbn [app parse_opts]. rewrite Hawf, Hact. rewrite <- Hdest.
      apply IH; auto. lia.
Qed.

(** the first option token is a flag, hence not value-like *)
Lemma opts_head_not_value c os opts :
  opts_ctx c os -> forallb (opt_ok c) opts = true ->
  head_not_value (flat_map (render_opt c) opts).
Proof.
  intros Hctx Hok. destruct opts as [|o r]; [exact I|].
  cbn [forallb flat_map] in *. apply andb_true_iff in Hok. destruct Hok as [Ho _].
  unfold opt_ok in Ho. rewrite render_opt_eq.
  destruct (find_arg (oa_dest o) (c_args c)) as [a|] eqn:Hfa; [|discriminate].
  destruct (find_arg_In _ _ _ Hfa) as [Hain Hdest].
  apply andb_true_iff in Ho. destruct Ho as [Ho Hform].
  apply andb_true_iff in Ho. destruct Ho as [Hopt Hval].
  pose proof (optional_of c a Hain Hopt) as Haos. rewrite <- (oc_os _ _ Hctx) in Haos.
  pose proof (chosen_flag_in a (oa_form o) Hopt Hform) as Hflag.
  pose proof (oc_flag_ok _ _ Hctx a _ Haos Hflag) as Hfok.
  unfold flag_ok in Hfok. apply andb_true_iff in Hfok. destruct Hfok as [Hnv Hneq].
  apply negb_true_iff in Hnv, Hneq.
  destruct (as_action a); destruct (oa_form o); cbn [app head_not_value]; auto.
  apply flag_prefix_not_value; auto.
Qed.

Lemma cmd_parse_wf_ctx c : cmd_parse_wf c = true -> opts_ctx c (optionals c).
Proof.
  unfold cmd_parse_wf. intros H.
  apply andb_true_iff in H. destruct H as [H Hdest].
  apply andb_true_iff in H. destruct H as [Hnd Hfl].
  apply nodup_str_NoDup in Hnd. apply nodup_str_NoDup in Hdest.
  rewrite forallb_forall in Hfl. unfold option_strings in *.
  assert (Hsub : forall a, In a (optionals c) -> In a (c_args c))
    by (intros a Ha; unfold optionals in Ha; apply filter_In in Ha; tauto).
  constructor.
  - reflexivity.
  - (* the optionals' flags are the flags of all arguments (positionals have none) *)
    assert (Heq : flat_map as_flags (optionals c) = flat_map as_flags (c_args c)).
    { unfold optionals. clear. induction (c_args c) as [|a r IH]; [reflexivity|].
      cbn [filter flat_map]. destruct (as_flags a) eqn:Hf.
      - cbn [app]. exact IH.
      - cbn [flat_map]. rewrite Hf, IH. reflexivity. }
    rewrite Heq. exact Hnd.
  - intros a f Ha Hf. apply Hfl. apply in_flat_map. exists a. split; auto.
  - intros a b Ha Hb Hab.
    clear -Hdest Ha Hb Hab. induction (c_args c) as [|x xs IH]; [destruct Ha|].
    cbn [map] in Hdest. inversion Hdest as [|? ? Hx Hxs]; subst.
    destruct Ha as [->|Ha]; destruct Hb as [->|Hb]; auto.
    + exfalso. apply Hx. rewrite Hab. apply in_map. exact Hb.
    + exfalso. apply Hx. rewrite <- Hab. apply in_map. exact Ha.
Qed.

(** ** The round trip for one command *)
Theorem parse_render c k :
  cmd_parse_wf c = true -> call_ok c k = true ->
  parse_args c (k_pos k ++ k_var k ++ flat_map (render_opt c) (k_opts k)) = Some (expected_ns c k).
Proof.
  intros Hwf Hok. pose proof (cmd_parse_wf_ctx c Hwf) as Hctx.
  unfold call_ok in Hok.
  apply andb_true_iff in Hok. destruct Hok as [Hok Hfit].
  apply andb_true_iff in Hok. destruct Hok as [Hok Hopts].
  apply andb_true_iff in Hok. destruct Hok as [Hpos Hvar].
  unfold parse_args, expected_ns.
  rewrite (parse_pos_spec (positionals c) (k_pos k) (k_var k)
             (flat_map (render_opt c) (k_opts k)) (ns_init c) Hfit Hpos Hvar).
  - apply parse_opts_spec; auto.
  - eapply opts_head_not_value; eauto.
Qed.

(** ... and for a whole command line through the table. *)
Theorem parse_line_render cs c k :
  find_command cs (c_name c) = Some c ->
  cmd_parse_wf c = true -> call_ok c k = true ->
  parse_line cs (render c k) = Some (c, expected_ns c k).
Proof.
  intros Hfind Hwf Hok. unfold parse_line, render. rewrite Hfind.
  rewrite parse_render; auto.
Qed.

(** ** What the expected namespace holds *)
Lemma ns_get_set n d v d' :
  ns_get (ns_set n d v) d' = if String.eqb d' d then Some v else ns_get n d'.
Proof.
  induction n as [|[k w] r IH]; cbn [ns_set ns_get].
  - destruct (String.eqb d' d); reflexivity.
  - destruct (String.eqb_spec d k) as [->|Hdk]; cbn [ns_get].
    + destruct (String.eqb d' k); reflexivity.
    + destruct (String.eqb_spec d' k) as [->|Hd'k].
      * destruct (String.eqb_spec k d) as [->|_]; [congruence|reflexivity].
      * exact IH.
Qed.

Lemma set_opt_other c n o d : d <> oa_dest o -> ns_get (set_opt c n o) d = ns_get n d.
Proof.
  intros Hd. unfold set_opt. destruct (find_arg (oa_dest o) (c_args c)) as [a|]; [|reflexivity].
  destruct (as_action a); rewrite ns_get_set; destruct (String.eqb_spec d (oa_dest o)); congruence.
Qed.

Lemma fold_set_opt_other c opts : forall n d,
  ~ In d (map oa_dest opts) -> ns_get (fold_left (set_opt c) opts n) d = ns_get n d.
Proof.
  induction opts as [|o r IH]; intros n d Hd; cbn [fold_left]; [reflexivity|].
  cbn [map] in Hd.
  rewrite IH by (intros H; apply Hd; right; exact H).
  apply set_opt_other. intros ->. apply Hd. left; reflexivity.
Qed.

(** an option that was given holds the given value (a flag: true) *)
Lemma expected_given c k o a :
  NoDup (map oa_dest (k_opts k)) -> In o (k_opts k) ->
  find_arg (oa_dest o) (c_args c) = Some a ->
  ns_get (expected_ns c k) (oa_dest o)
  = Some (match as_action a with AStoreTrue => NFlag true | AStore => NStr (oa_val o) end).
Proof.
  unfold expected_ns. generalize (set_pos (positionals c) (k_pos k) (k_var k) (ns_init c)).
  induction (k_opts k) as [|o' r IH]; intros n Hnd Hin Hfa; [destruct Hin|].
  cbn [map] in Hnd. inversion Hnd as [|? ? Hnotin Hnd']; subst.
  cbn [fold_left]. destruct Hin as [->|Hin].
  - rewrite fold_set_opt_other by exact Hnotin.
    unfold set_opt. rewrite Hfa. destruct (as_action a); rewrite ns_get_set, String.eqb_refl; reflexivity.
  - apply IH; auto.
Qed.

(** an option that was omitted keeps what the positional phase left (for an optional argument:
    its default — the method's own default, or False for a flag) *)
Lemma expected_omitted c k d :
  ~ In d (map oa_dest (k_opts k)) ->
  ns_get (expected_ns c k) d
  = ns_get (set_pos (positionals c) (k_pos k) (k_var k) (ns_init c)) d.
Proof. intros H. unfold expected_ns. apply fold_set_opt_other. exact H. Qed.

Lemma set_pos_other ps : forall vals var n d,
  ~ In d (map as_dest ps) -> ns_get (set_pos ps vals var n) d = ns_get n d.
Proof.
  induction ps as [|a r IH]; intros vals var n d Hd; cbn [set_pos]; [reflexivity|].
  cbn [map] in Hd.
  assert (Hne : String.eqb d (as_dest a) = false)
    by (apply String.eqb_neq; intros ->; apply Hd; left; reflexivity).
  destruct (as_nargs a).
  - destruct vals; [reflexivity|]. rewrite IH by (intros H; apply Hd; right; exact H).
    rewrite ns_get_set, Hne. reflexivity.
  - rewrite IH by (intros H; apply Hd; right; exact H). rewrite ns_get_set, Hne. reflexivity.
  - destruct vals; rewrite IH by (intros H; apply Hd; right; exact H); [reflexivity|].
    rewrite ns_get_set, Hne. reflexivity.
Qed.

Lemma ns_get_init l a :
  NoDup (map as_dest l) -> In a l ->
  ns_get (map (fun a => (as_dest a, ns_default a)) l) (as_dest a) = Some (ns_default a).
Proof.
  induction l as [|b r IH]; intros Hnd Hin; [destruct Hin|].
  cbn [map ns_get]. cbn [map] in Hnd. inversion Hnd as [|? ? Hb Hr]; subst.
  destruct Hin as [->|Hin].
  - rewrite String.eqb_refl. reflexivity.
  - destruct (String.eqb_spec (as_dest a) (as_dest b)) as [Heq|_].
    + exfalso. apply Hb. rewrite <- Heq. apply in_map. exact Hin.
    + apply IH; auto.
Qed.

(** an omitted option holds its default *)
Theorem expected_default c k a :
  cmd_parse_wf c = true -> In a (c_args c) -> is_opt a = true ->
  ~ In (as_dest a) (map oa_dest (k_opts k)) ->
  ns_get (expected_ns c k) (as_dest a) = Some (ns_default a).
Proof.
  intros Hwf Hin Hopt Hom. rewrite expected_omitted by exact Hom.
  unfold cmd_parse_wf in Hwf. apply andb_true_iff in Hwf. destruct Hwf as [_ Hnd].
  apply nodup_str_NoDup in Hnd.
  rewrite set_pos_other.
  - unfold ns_init. apply ns_get_init; auto.
  - (* a is an optional, so its dest is not a positional's dest *)
    intros Hd. apply in_map_iff in Hd. destruct Hd as [b [Hb1 Hb2]].
    unfold positionals in Hb2. apply filter_In in Hb2. destruct Hb2 as [Hb2 Hb3].
    assert (a = b).
    { clear -Hnd Hin Hb2 Hb1. induction (c_args c) as [|x xs IH]; [destruct Hin|].
      cbn [map] in Hnd. inversion Hnd as [|? ? Hx Hxs]; subst.
      destruct Hin as [->|Hin]; destruct Hb2 as [->|Hb2]; auto.
      - exfalso. apply Hx. rewrite <- Hb1. apply in_map. exact Hb2.
      - exfalso. apply Hx. rewrite Hb1. apply in_map. exact Hin. }
    subst b. unfold is_opt in Hopt. destruct (as_flags a); discriminate.
Qed.
