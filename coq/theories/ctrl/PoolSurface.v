(** GENERATED on every run by lib/gensurface.py from /repo's pool classes (introspection).
    The Examples below are the instantiated obligations of C16/C17 for the real classes. *)
From TP Require Import CModel CProofs CRound.
Open Scope string_scope.

Definition taskpool_members : list member :=
  [ MOther "__annotations__";
    MOther "__class__";
    MOther "__delattr__";
    MOther "__dict__";
    MOther "__dir__";
    MOther "__doc__";
    MOther "__eq__";
    MOther "__format__";
    MOther "__ge__";
    MOther "__getattribute__";
    MOther "__getstate__";
    MOther "__gt__";
    MOther "__hash__";
    MFun "__init__" [{| pa_name := "pool_size"; pa_kind := PPos; pa_default := true; pa_ann := AFloat |}; {| pa_name := "name"; pa_kind := PPos; pa_default := true; pa_ann := AStr |}];
    MOther "__init_subclass__";
    MOther "__le__";
    MOther "__lt__";
    MOther "__module__";
    MOther "__ne__";
    MOther "__new__";
    MOther "__reduce__";
    MOther "__reduce_ex__";
    MOther "__repr__";
    MOther "__setattr__";
    MOther "__sizeof__";
    MFun "__str__" [];
    MOther "__subclasshook__";
    MOther "__weakref__";
    MOther "_add_pool";
    MFun "_apply_spawner" [{| pa_name := "group_name"; pa_kind := PPos; pa_default := false; pa_ann := AStr |}; {| pa_name := "func"; pa_kind := PPos; pa_default := false; pa_ann := APath |}; {| pa_name := "args"; pa_kind := PPos; pa_default := true; pa_ann := ALiteral |}; {| pa_name := "kwargs"; pa_kind := PPos; pa_default := true; pa_ann := ALiteral |}; {| pa_name := "num"; pa_kind := PPos; pa_default := true; pa_ann := AInt |}; {| pa_name := "end_callback"; pa_kind := PPos; pa_default := true; pa_ann := APath |}; {| pa_name := "cancel_callback"; pa_kind := PPos; pa_default := true; pa_ann := APath |}];
    MFun "_arg_consumer" [{| pa_name := "group_name"; pa_kind := PPos; pa_default := false; pa_ann := AStr |}; {| pa_name := "num_concurrent"; pa_kind := PPos; pa_default := false; pa_ann := AInt |}; {| pa_name := "func"; pa_kind := PPos; pa_default := false; pa_ann := APath |}; {| pa_name := "arg_iter"; pa_kind := PPos; pa_default := false; pa_ann := ALiteral |}; {| pa_name := "arg_stars"; pa_kind := PPos; pa_default := false; pa_ann := AUnknown |}; {| pa_name := "end_callback"; pa_kind := PPos; pa_default := true; pa_ann := APath |}; {| pa_name := "cancel_callback"; pa_kind := PPos; pa_default := true; pa_ann := APath |}];
    MFun "_cancel_and_remove_all_from_group" [{| pa_name := "group_name"; pa_kind := PPos; pa_default := false; pa_ann := AStr |}; {| pa_name := "group_reg"; pa_kind := PPos; pa_default := false; pa_ann := AUnknown |}; {| pa_name := "cancel_kw"; pa_kind := PVarKw; pa_default := false; pa_ann := AUnknown |}];
    MFun "_cancel_group_meta_tasks" [{| pa_name := "group_name"; pa_kind := PPos; pa_default := false; pa_ann := AStr |}];
    MFun "_cancel_task" [{| pa_name := "task_id"; pa_kind := PPos; pa_default := false; pa_ann := AInt |}; {| pa_name := "task"; pa_kind := PPos; pa_default := false; pa_ann := AUnknown |}; {| pa_name := "cancel_kw"; pa_kind := PVarKw; pa_default := false; pa_ann := AUnknown |}];
    MFun "_check_start" [{| pa_name := "awaitable"; pa_kind := PKwOnly; pa_default := true; pa_ann := AUnknown |}; {| pa_name := "function"; pa_kind := PKwOnly; pa_default := true; pa_ann := APath |}; {| pa_name := "ignore_lock"; pa_kind := PKwOnly; pa_default := true; pa_ann := ABool |}];
    MFun "_generate_group_name" [{| pa_name := "prefix"; pa_kind := PPos; pa_default := false; pa_ann := AStr |}; {| pa_name := "coroutine_function"; pa_kind := PPos; pa_default := false; pa_ann := APath |}];
    MFun "_get_cancel_kw" [{| pa_name := "msg"; pa_kind := PPos; pa_default := false; pa_ann := AStr |}];
    MFun "_get_map_end_callback" [{| pa_name := "map_semaphore"; pa_kind := PPos; pa_default := false; pa_ann := AUnknown |}; {| pa_name := "actual_end_callback"; pa_kind := PPos; pa_default := false; pa_ann := APath |}];
    MFun "_get_running_task" [{| pa_name := "task_id"; pa_kind := PPos; pa_default := false; pa_ann := AInt |}];
    MFun "_map" [{| pa_name := "group_name"; pa_kind := PPos; pa_default := false; pa_ann := AStr |}; {| pa_name := "num_concurrent"; pa_kind := PPos; pa_default := false; pa_ann := AInt |}; {| pa_name := "func"; pa_kind := PPos; pa_default := false; pa_ann := APath |}; {| pa_name := "arg_iter"; pa_kind := PPos; pa_default := false; pa_ann := ALiteral |}; {| pa_name := "arg_stars"; pa_kind := PPos; pa_default := false; pa_ann := AUnknown |}; {| pa_name := "end_callback"; pa_kind := PPos; pa_default := true; pa_ann := APath |}; {| pa_name := "cancel_callback"; pa_kind := PPos; pa_default := true; pa_ann := APath |}];
    MOther "_pools";
    MFun "_pop_ended_meta_tasks" [];
    MFun "_start_task" [{| pa_name := "awaitable"; pa_kind := PPos; pa_default := false; pa_ann := AUnknown |}; {| pa_name := "group_name"; pa_kind := PPos; pa_default := true; pa_ann := AStr |}; {| pa_name := "ignore_lock"; pa_kind := PKwOnly; pa_default := true; pa_ann := ABool |}; {| pa_name := "end_callback"; pa_kind := PKwOnly; pa_default := true; pa_ann := APath |}; {| pa_name := "cancel_callback"; pa_kind := PKwOnly; pa_default := true; pa_ann := APath |}];
    MFun "_task_cancellation" [{| pa_name := "task_id"; pa_kind := PPos; pa_default := false; pa_ann := AInt |}; {| pa_name := "custom_callback"; pa_kind := PPos; pa_default := true; pa_ann := APath |}];
    MFun "_task_ending" [{| pa_name := "task_id"; pa_kind := PPos; pa_default := false; pa_ann := AInt |}; {| pa_name := "custom_callback"; pa_kind := PPos; pa_default := true; pa_ann := APath |}];
    MFun "_task_name" [{| pa_name := "task_id"; pa_kind := PPos; pa_default := false; pa_ann := AInt |}];
    MFun "_task_wrapper" [{| pa_name := "awaitable"; pa_kind := PPos; pa_default := false; pa_ann := AUnknown |}; {| pa_name := "task_id"; pa_kind := PPos; pa_default := false; pa_ann := AInt |}; {| pa_name := "end_callback"; pa_kind := PPos; pa_default := true; pa_ann := APath |}; {| pa_name := "cancel_callback"; pa_kind := PPos; pa_default := true; pa_ann := APath |}];
    MFun "apply" [{| pa_name := "func"; pa_kind := PPos; pa_default := false; pa_ann := APath |}; {| pa_name := "args"; pa_kind := PPos; pa_default := true; pa_ann := ALiteral |}; {| pa_name := "kwargs"; pa_kind := PPos; pa_default := true; pa_ann := ALiteral |}; {| pa_name := "num"; pa_kind := PPos; pa_default := true; pa_ann := AInt |}; {| pa_name := "group_name"; pa_kind := PPos; pa_default := true; pa_ann := AStr |}; {| pa_name := "end_callback"; pa_kind := PPos; pa_default := true; pa_ann := APath |}; {| pa_name := "cancel_callback"; pa_kind := PPos; pa_default := true; pa_ann := APath |}];
    MFun "cancel" [{| pa_name := "task_ids"; pa_kind := PVarPos; pa_default := false; pa_ann := AInt |}; {| pa_name := "msg"; pa_kind := PKwOnly; pa_default := true; pa_ann := AStr |}];
    MFun "cancel_all" [{| pa_name := "msg"; pa_kind := PPos; pa_default := true; pa_ann := AStr |}];
    MFun "cancel_group" [{| pa_name := "group_name"; pa_kind := PPos; pa_default := false; pa_ann := AStr |}; {| pa_name := "msg"; pa_kind := PPos; pa_default := true; pa_ann := AStr |}];
    MFun "doublestarmap" [{| pa_name := "func"; pa_kind := PPos; pa_default := false; pa_ann := APath |}; {| pa_name := "kwargs_iter"; pa_kind := PPos; pa_default := false; pa_ann := ALiteral |}; {| pa_name := "num_concurrent"; pa_kind := PPos; pa_default := true; pa_ann := AInt |}; {| pa_name := "group_name"; pa_kind := PPos; pa_default := true; pa_ann := AStr |}; {| pa_name := "end_callback"; pa_kind := PPos; pa_default := true; pa_ann := APath |}; {| pa_name := "cancel_callback"; pa_kind := PPos; pa_default := true; pa_ann := APath |}];
    MFun "flush" [{| pa_name := "return_exceptions"; pa_kind := PPos; pa_default := true; pa_ann := ABool |}];
    MFun "gather_and_close" [{| pa_name := "return_exceptions"; pa_kind := PPos; pa_default := true; pa_ann := ABool |}];
    MFun "get_group_ids" [{| pa_name := "group_names"; pa_kind := PVarPos; pa_default := false; pa_ann := AStr |}];
    MProp "is_full" None;
    MProp "is_locked" None;
    MFun "lock" [];
    MFun "map" [{| pa_name := "func"; pa_kind := PPos; pa_default := false; pa_ann := APath |}; {| pa_name := "arg_iter"; pa_kind := PPos; pa_default := false; pa_ann := ALiteral |}; {| pa_name := "num_concurrent"; pa_kind := PPos; pa_default := true; pa_ann := AInt |}; {| pa_name := "group_name"; pa_kind := PPos; pa_default := true; pa_ann := AStr |}; {| pa_name := "end_callback"; pa_kind := PPos; pa_default := true; pa_ann := APath |}; {| pa_name := "cancel_callback"; pa_kind := PPos; pa_default := true; pa_ann := APath |}];
    MProp "num_cancelled" None;
    MProp "num_ended" None;
    MProp "num_running" None;
    MProp "pool_size" (Some {| pa_name := "value"; pa_kind := PPos; pa_default := false; pa_ann := AInt |});
    MFun "starmap" [{| pa_name := "func"; pa_kind := PPos; pa_default := false; pa_ann := APath |}; {| pa_name := "args_iter"; pa_kind := PPos; pa_default := false; pa_ann := ALiteral |}; {| pa_name := "num_concurrent"; pa_kind := PPos; pa_default := true; pa_ann := AInt |}; {| pa_name := "group_name"; pa_kind := PPos; pa_default := true; pa_ann := AStr |}; {| pa_name := "end_callback"; pa_kind := PPos; pa_default := true; pa_ann := APath |}; {| pa_name := "cancel_callback"; pa_kind := PPos; pa_default := true; pa_ann := APath |}];
    MFun "unlock" [];
    MFun "until_closed" [] ].

Example taskpool_members_wf : wf_surface taskpool_members = true.
Proof. vm_compute. reflexivity. Qed.
Example taskpool_members_handshake : handshake_ok taskpool_members = true.
Proof. apply wf_surface_handshake_ok. exact taskpool_members_wf. Qed.
Example taskpool_members_commands : map c_name (build_commands taskpool_members) = ["apply"; "cancel"; "cancel-all"; "cancel-group"; "doublestarmap"; "flush"; "gather-and-close"; "get-group-ids"; "is-full"; "is-locked"; "lock"; "map"; "num-cancelled"; "num-ended"; "num-running"; "pool-size"; "starmap"; "unlock"; "until-closed"].
Proof. vm_compute. reflexivity. Qed.
Example taskpool_members_parse_wf : forallb cmd_parse_wf (build_commands taskpool_members) = true.
Proof. vm_compute. reflexivity. Qed.

Definition simplepool_members : list member :=
  [ MOther "__annotations__";
    MOther "__class__";
    MOther "__delattr__";
    MOther "__dict__";
    MOther "__dir__";
    MOther "__doc__";
    MOther "__eq__";
    MOther "__format__";
    MOther "__ge__";
    MOther "__getattribute__";
    MOther "__getstate__";
    MOther "__gt__";
    MOther "__hash__";
    MFun "__init__" [{| pa_name := "func"; pa_kind := PPos; pa_default := false; pa_ann := APath |}; {| pa_name := "args"; pa_kind := PPos; pa_default := true; pa_ann := ALiteral |}; {| pa_name := "kwargs"; pa_kind := PPos; pa_default := true; pa_ann := ALiteral |}; {| pa_name := "end_callback"; pa_kind := PPos; pa_default := true; pa_ann := APath |}; {| pa_name := "cancel_callback"; pa_kind := PPos; pa_default := true; pa_ann := APath |}; {| pa_name := "pool_size"; pa_kind := PPos; pa_default := true; pa_ann := AFloat |}; {| pa_name := "name"; pa_kind := PPos; pa_default := true; pa_ann := AStr |}];
    MOther "__init_subclass__";
    MOther "__le__";
    MOther "__lt__";
    MOther "__module__";
    MOther "__ne__";
    MOther "__new__";
    MOther "__reduce__";
    MOther "__reduce_ex__";
    MOther "__repr__";
    MOther "__setattr__";
    MOther "__sizeof__";
    MFun "__str__" [];
    MOther "__subclasshook__";
    MOther "__weakref__";
    MOther "_add_pool";
    MFun "_cancel_and_remove_all_from_group" [{| pa_name := "group_name"; pa_kind := PPos; pa_default := false; pa_ann := AStr |}; {| pa_name := "group_reg"; pa_kind := PPos; pa_default := false; pa_ann := AUnknown |}; {| pa_name := "cancel_kw"; pa_kind := PVarKw; pa_default := false; pa_ann := AUnknown |}];
    MFun "_cancel_group_meta_tasks" [{| pa_name := "group_name"; pa_kind := PPos; pa_default := false; pa_ann := AStr |}];
    MFun "_cancel_task" [{| pa_name := "task_id"; pa_kind := PPos; pa_default := false; pa_ann := AInt |}; {| pa_name := "task"; pa_kind := PPos; pa_default := false; pa_ann := AUnknown |}; {| pa_name := "cancel_kw"; pa_kind := PVarKw; pa_default := false; pa_ann := AUnknown |}];
    MFun "_check_start" [{| pa_name := "awaitable"; pa_kind := PKwOnly; pa_default := true; pa_ann := AUnknown |}; {| pa_name := "function"; pa_kind := PKwOnly; pa_default := true; pa_ann := APath |}; {| pa_name := "ignore_lock"; pa_kind := PKwOnly; pa_default := true; pa_ann := ABool |}];
    MFun "_get_cancel_kw" [{| pa_name := "msg"; pa_kind := PPos; pa_default := false; pa_ann := AStr |}];
    MFun "_get_running_task" [{| pa_name := "task_id"; pa_kind := PPos; pa_default := false; pa_ann := AInt |}];
    MOther "_pools";
    MFun "_pop_ended_meta_tasks" [];
    MFun "_start_num" [{| pa_name := "num"; pa_kind := PPos; pa_default := false; pa_ann := AInt |}; {| pa_name := "group_name"; pa_kind := PPos; pa_default := false; pa_ann := AStr |}];
    MFun "_start_task" [{| pa_name := "awaitable"; pa_kind := PPos; pa_default := false; pa_ann := AUnknown |}; {| pa_name := "group_name"; pa_kind := PPos; pa_default := true; pa_ann := AStr |}; {| pa_name := "ignore_lock"; pa_kind := PKwOnly; pa_default := true; pa_ann := ABool |}; {| pa_name := "end_callback"; pa_kind := PKwOnly; pa_default := true; pa_ann := APath |}; {| pa_name := "cancel_callback"; pa_kind := PKwOnly; pa_default := true; pa_ann := APath |}];
    MFun "_task_cancellation" [{| pa_name := "task_id"; pa_kind := PPos; pa_default := false; pa_ann := AInt |}; {| pa_name := "custom_callback"; pa_kind := PPos; pa_default := true; pa_ann := APath |}];
    MFun "_task_ending" [{| pa_name := "task_id"; pa_kind := PPos; pa_default := false; pa_ann := AInt |}; {| pa_name := "custom_callback"; pa_kind := PPos; pa_default := true; pa_ann := APath |}];
    MFun "_task_name" [{| pa_name := "task_id"; pa_kind := PPos; pa_default := false; pa_ann := AInt |}];
    MFun "_task_wrapper" [{| pa_name := "awaitable"; pa_kind := PPos; pa_default := false; pa_ann := AUnknown |}; {| pa_name := "task_id"; pa_kind := PPos; pa_default := false; pa_ann := AInt |}; {| pa_name := "end_callback"; pa_kind := PPos; pa_default := true; pa_ann := APath |}; {| pa_name := "cancel_callback"; pa_kind := PPos; pa_default := true; pa_ann := APath |}];
    MFun "cancel" [{| pa_name := "task_ids"; pa_kind := PVarPos; pa_default := false; pa_ann := AInt |}; {| pa_name := "msg"; pa_kind := PKwOnly; pa_default := true; pa_ann := AStr |}];
    MFun "cancel_all" [{| pa_name := "msg"; pa_kind := PPos; pa_default := true; pa_ann := AStr |}];
    MFun "cancel_group" [{| pa_name := "group_name"; pa_kind := PPos; pa_default := false; pa_ann := AStr |}; {| pa_name := "msg"; pa_kind := PPos; pa_default := true; pa_ann := AStr |}];
    MFun "flush" [{| pa_name := "return_exceptions"; pa_kind := PPos; pa_default := true; pa_ann := ABool |}];
    MProp "func_name" None;
    MFun "gather_and_close" [{| pa_name := "return_exceptions"; pa_kind := PPos; pa_default := true; pa_ann := ABool |}];
    MFun "get_group_ids" [{| pa_name := "group_names"; pa_kind := PVarPos; pa_default := false; pa_ann := AStr |}];
    MProp "is_full" None;
    MProp "is_locked" None;
    MFun "lock" [];
    MProp "num_cancelled" None;
    MProp "num_ended" None;
    MProp "num_running" None;
    MProp "pool_size" (Some {| pa_name := "value"; pa_kind := PPos; pa_default := false; pa_ann := AInt |});
    MFun "start" [{| pa_name := "num"; pa_kind := PPos; pa_default := false; pa_ann := AInt |}];
    MFun "stop" [{| pa_name := "num"; pa_kind := PPos; pa_default := false; pa_ann := AInt |}];
    MFun "stop_all" [];
    MFun "unlock" [];
    MFun "until_closed" [] ].

Example simplepool_members_wf : wf_surface simplepool_members = true.
Proof. vm_compute. reflexivity. Qed.
Example simplepool_members_handshake : handshake_ok simplepool_members = true.
Proof. apply wf_surface_handshake_ok. exact simplepool_members_wf. Qed.
Example simplepool_members_commands : map c_name (build_commands simplepool_members) = ["cancel"; "cancel-all"; "cancel-group"; "flush"; "func-name"; "gather-and-close"; "get-group-ids"; "is-full"; "is-locked"; "lock"; "num-cancelled"; "num-ended"; "num-running"; "pool-size"; "start"; "stop"; "stop-all"; "unlock"; "until-closed"].
Proof. vm_compute. reflexivity. Qed.
Example simplepool_members_parse_wf : forallb cmd_parse_wf (build_commands simplepool_members) = true.
Proof. vm_compute. reflexivity. Qed.
