(** C14 — SimpleTaskPool.stop is LIFO and exact.  Property theorems only. *)
From TP Require Import PSpecStep PRun PWF PStep_A PStep_A_inv PStep_B_mr PExamples.

Theorem C14 : forall s n, C14_op (reset s) n.
Proof. intros s n. apply C14_op_holds. reflexivity. Qed.

(** newest first: the running registry is kept in start order along every clean run *)
Theorem C14_newest_first : forall c tr n, clean (run c tr) ->
  let s := run c tr in
  StronglySorted (fun a b => b < a) (firstn n (rev (t_running s))) /\
  (forall t u, In t (firstn n (rev (t_running s))) -> In u (t_running s) ->
               ~ In u (firstn n (rev (t_running s))) -> u < t).
Proof.
  intros c tr n Hc. destruct (WFx_run c tr Hc). apply PStep_A.C14_newest_first. assumption.
Qed.

Example C14_example :
  let s := run cfgS tr_simple in res s = RIds [2; 1] /\
  map p_fw (ptasks s) = [Some FPending; Some FCancelled; Some FCancelled].
Proof. vm_compute. repeat split; reflexivity. Qed.

(** Monitor soundness: the extracted monitor for C14 (all three clauses) never rejects a stream of the model. *)
From TP Require PMonSound14_C14 PObs PMon.
Theorem mon_sound : forall c tr, clean (run c tr) -> PMon.ok_C14 c (PObs.observe c tr) = true.
Proof. exact PMonSound14_C14.mon_C14_sound. Qed.

Print Assumptions C14.
Print Assumptions C14_newest_first.
Print Assumptions mon_sound.
