(** C09 — Rejected requests leave no trace; lock/unlock gate new requests.  Property theorem only.
    It holds for EVERY state (no invariant is needed): pure case analysis of the operations. *)
From TP Require Import PSpecStep PStep_B_c09 PStep_B_mr PExamples.

Theorem C09 : forall s, C09_op s.
Proof. exact C09_op_holds. Qed.

Theorem C09_is_step : forall s o, step s (LOp o) =
  (if op_enabled (reset s) o then do_op (reset s) o else reset s).
Proof. intros s o. unfold step, reset. cbn [enabled]. destruct (op_enabled _ o); reflexivity. Qed.

Example C09_example :
  let s := step (run cfg2 tr_full) (LOp OpLock) in
  res (step s (LOp (OpApply 1 [] false w_sp CbNone CbNone None))) = RErr ErrPoolIsLocked /\
  res (step s (LOp (OpApply 1 [] true w_sp CbNone CbNone None))) = RErr ErrNotCoroutineFunction /\
  res (step (run cfg2 tr_full) (LOp (OpApply 1 [] false w_sp CbNone CbNone (Some (GGen 0 0)))))
  = RErr ErrGroupExists.
Proof. vm_compute. repeat split; reflexivity. Qed.

(** Monitor soundness: the extracted monitor for C09 (all three clauses) never rejects a stream of the model. *)
From TP Require PMonSound9_C09 PObs PMon.
Theorem mon_sound : forall c tr, clean (run c tr) -> PMon.ok_C09 c (PObs.observe c tr) = true.
Proof. exact PMonSound9_C09.mon_C09_sound. Qed.

Print Assumptions C09.
Print Assumptions mon_sound.
