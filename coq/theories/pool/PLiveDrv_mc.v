(** Waiting API calls return — the spawner invariant [MC]: a spawner whose [_must_cancel] flag is
    set does not wait on a pending future ([Task.cancel] sets the flag only when there is no
    pending future to cancel; a suspension with the flag set cancels the fresh future at once).
    Per spawner record, inductive on its own (same traversal as PRest_nc.v).

    Consequence ([stuck_dead_done], PLiveDrv_flush.v): at rest a spawner whose group was cancelled
    has finished — it cannot be the one that waits for room for ever. *)
From TP Require Import PInv PInv_P_base PRest_nc.

Unset Implicit Arguments.

Definition mcp (y : mtask) : Prop := m_mc y = true -> m_fw y <> Some FPending.

Definition MC (s : state) : Prop := forall m y, get_m s m = Some y -> mcp y.

Lemma mcp_mc_false y : m_mc y = false -> mcp y.
Proof. intros E H. congruence. Qed.

Lemma mcp_fw y f : f <> Some FPending -> mcp (set_m_fw y f).
Proof. intros E _. exact E. Qed.

Lemma MC_mt s s' : mtasks s' = mtasks s -> MC s -> MC s'.
Proof. intros E H m y. unfold get_m. rewrite E. apply H. Qed.

Lemma MC_put_m s m x : MC s -> mcp x -> MC (put_m s m x).
Proof.
  intros H Hx m' y. unfold get_m, put_m. cbn [mtasks set_mtasks]. rewrite nth_error_upd.
  destruct (Nat.eqb m m').
  - destruct (Nat.ltb _ _); [|discriminate]. intros [= <-]. auto.
  - apply H.
Qed.

Ltac frm := eapply MC_mt; [reflexivity|].

Lemma MC_sched s h : MC s -> MC (sched s h).
Proof. apply MC_mt, mt_sched. Qed.

Lemma MC_fold {A} (f : state -> A -> state) :
  (forall s a, MC s -> MC (f s a)) ->
  forall l s, MC s -> MC (fold_left f l s).
Proof. intros H l. induction l; simpl; auto. Qed.

Lemma MC_sched_cbs s r : MC s -> MC (sched_cbs s r).
Proof. unfold sched_cbs. apply MC_fold. intros; now apply MC_sched. Qed.

Lemma MC_know s g : MC s -> MC (know s g).
Proof. unfold know. destruct (existsb _ _); auto. Qed.

Lemma MC_wake_next s : MC s -> MC (wake_next s).
Proof.
  intros H. unfold wake_next. destruct (first_pending _ _) as [m|]; auto.
  destruct (get_m s m) as [x|] eqn:Ex; auto.
  apply MC_sched, MC_put_m; [now frm|]. apply mcp_fw. discriminate.
Qed.

Lemma MC_sem_release s : MC s -> MC (sem_release s).
Proof. intros H. unfold sem_release. apply MC_wake_next. now frm. Qed.

Lemma MC_map_release s m : MC s -> MC (map_release s m).
Proof.
  intros H. unfold map_release. destruct (get_m s m) as [x|] eqn:Ex; auto.
  pose proof (H m x Ex) as Hx.
  destruct (m_pc x); try (apply MC_put_m; [auto|exact Hx]);
    destruct (m_fw x) as [[]|]; try (apply MC_put_m; [auto|exact Hx]).
  apply MC_sched, MC_put_m; auto. apply mcp_fw. discriminate.
Qed.

Lemma MC_finish_p s t x : MC s -> MC (finish_p s t x).
Proof. intros H. unfold finish_p. frm. apply MC_sched_cbs. now frm. Qed.

Lemma MC_finish_m s m x e : MC s -> MC (finish_m s m x e).
Proof.
  intros H. unfold finish_m. frm. apply MC_sched_cbs, MC_put_m; auto.
  apply mcp_mc_false. reflexivity.
Qed.

Lemma MC_suspend_p s t x pc : MC s -> MC (suspend_p s t x pc).
Proof.
  intros H. unfold suspend_p. destruct (p_mc x); frm; [apply MC_sched|]; now frm.
Qed.

Lemma MC_suspend_m s m x pc : MC s -> MC (suspend_m s m x pc).
Proof.
  intros H. unfold suspend_m. destruct (m_mc x) eqn:E; frm; [apply MC_sched|]; apply MC_put_m; auto.
  - apply mcp_fw. discriminate.
  - apply mcp_mc_false. exact E.
Qed.

Lemma MC_enter_end s t x : MC s -> MC (enter_end s t x).
Proof.
  intros H. unfold enter_end.
  assert (Hm : forall s1, MC s1 ->
     MC (let s2 := set_t_ended s1 (dict_add (t_ended s1) t) in
               let s3 := sem_release s2 in
               let x0 := set_p_nrel x (S (p_nrel x)) in
               let s4 := if p_ismap x0 then map_release s3 (p_req x0) else s3 in
               match p_ecb x0 with
               | CbNone => finish_p s4 t x0
               | _ => set_ctl (emit (put_p s4 t (set_p_pc (set_p_necb x0 (S (p_necb x0))) PUEndCb))
                                    (EvCbBegin KEnd t (classify s4 t))) (CUser (TP t))
               end)).
  { intros s1 H1. cbv zeta.
    assert (H4 : MC (if p_ismap (set_p_nrel x (S (p_nrel x)))
                           then map_release (sem_release (set_t_ended s1 (dict_add (t_ended s1) t)))
                                            (p_req (set_p_nrel x (S (p_nrel x))))
                           else sem_release (set_t_ended s1 (dict_add (t_ended s1) t)))).
    { destruct (p_ismap _); [apply MC_map_release|]; apply MC_sem_release; now frm. }
    destruct (p_ecb _); [now apply MC_finish_p|now frm|now frm]. }
  destruct (mem t (t_running s)); [|destruct (mem t (t_cancelled s))].
  - apply Hm. now frm.
  - apply Hm. now frm.
  - now apply MC_finish_p.
Qed.

Lemma MC_enter_cancel s t x : MC s -> MC (enter_cancel s t x).
Proof.
  intros H. unfold enter_cancel. destruct (mem t (t_running s)).
  - cbv zeta. destruct (p_ccb x); [apply MC_enter_end|..]; now frm.
  - now apply MC_enter_end.
Qed.

Lemma MC_emit s e : MC s -> MC (emit s e).
Proof. intros H. now frm. Qed.

Ltac mcleaf :=
  first [ assumption
        | apply MC_enter_end | apply MC_enter_cancel | apply MC_finish_p | apply MC_suspend_p
        | apply MC_emit | (frm; assumption) ].

Lemma MC_run_p s t : MC s -> MC (run_p s t).
Proof.
  intros H. unfold run_p. cbv zeta.
  repeat (first [assumption | dmatch]); repeat mcleaf.
Qed.

Lemma MC_continue_p s t : MC s -> MC (continue_p s t).
Proof.
  intros H. unfold continue_p.
  repeat (first [assumption | dmatch]); repeat mcleaf.
Qed.

(** spawners *)
Lemma MC_register s m x : MC s -> mcp x -> MC (register s m x).
Proof.
  intros H Hx. unfold register. apply MC_put_m; auto. apply MC_sched. exact H.
Qed.

Lemma MC_try_start s m x : MC s -> mcp x -> MC (fst (try_start s m x)).
Proof.
  intros H Hx. unfold try_start. destruct (closed s); [|destruct (sem_locked s)]; cbn [fst].
  - now apply MC_finish_m.
  - apply MC_suspend_m; auto.
  - apply MC_register; auto.
Qed.

Lemma MC_apply_loop rem m : forall s, MC s -> MC (apply_loop rem s m).
Proof.
  induction rem as [|r IH]; intros s H; simpl.
  - destruct (get_m s m) as [x|] eqn:Ex; auto. apply MC_finish_m; auto.
  - destruct (get_m s m) as [x|] eqn:Ex; auto. pose proof (H m x Ex) as Hx. destruct (nth (m_idx x) (m_bad x) false).
    + apply IH. apply MC_put_m; [auto|exact Hx].
    + pose proof (MC_try_start s m x H Hx) as H1.
      destruct (try_start s m x) as [s' cont]. cbn [fst] in H1. destruct cont; auto.
Qed.

Lemma MC_to_iter s m : MC s -> MC (to_iter s m).
Proof.
  intros H. unfold to_iter. destruct (get_m s m) as [x|] eqn:Ex; auto.
  frm. apply MC_put_m; auto. exact (H m x Ex).
Qed.

Lemma MC_spawn_next s m : MC s -> MC (spawn_next s m).
Proof.
  intros H. unfold spawn_next. destruct (get_m s m) as [x|]; auto.
  destruct (m_kind x); auto using MC_apply_loop, MC_to_iter.
Qed.

Lemma MC_start_then_next s m x : MC s -> mcp x -> MC (start_then_next s m x).
Proof.
  intros H Hx. unfold start_then_next. pose proof (MC_try_start s m x H Hx) as H1.
  destruct (try_start s m x) as [s' cont]. cbn [fst] in H1. destruct cont; auto.
  now apply MC_spawn_next.
Qed.

Lemma MC_continue_m s m : MC s -> MC (continue_m s m).
Proof.
  intros H. unfold continue_m. destruct (get_m s m) as [x|] eqn:Ex; auto.
  pose proof (H m x Ex) as Hx.
  destruct (m_pc x); auto. destruct (nth_error _ _) as [e|].
  - destruct (e_bad e).
    + apply MC_to_iter, MC_put_m; [auto|exact Hx].
    + destruct (m_mapval x).
      * now apply MC_suspend_m.
      * apply MC_start_then_next; [auto|exact Hx].
  - now apply MC_finish_m.
Qed.

Lemma MC_run_m s m : MC s -> MC (run_m s m).
Proof.
  intros H. unfold run_m. destruct (get_m s m) as [x0|] eqn:Ex; auto.
  assert (Hx : mcp (set_m_mc (set_m_fw x0 None) false)) by (apply mcp_mc_false; reflexivity).
  destruct (m_pc x0); auto.
  - destruct (task_input _ _).
    + apply MC_spawn_next, MC_put_m; [auto|exact Hx].
    + now apply MC_finish_m.
    + now apply MC_finish_m.
  - destruct (task_input _ _).
    + apply MC_start_then_next; [auto|exact Hx].
    + now apply MC_finish_m.
    + now apply MC_finish_m.
  - assert (H0 : MC (put_m (set_sem_waiters s (remove1 m (sem_waiters s))) m
                                 (set_m_mc (set_m_fw x0 None) false))).
    { apply MC_put_m; auto. }
    cbv zeta.
    destruct (task_input _ _).
    + apply MC_spawn_next, MC_register; [|exact Hx].
      destruct (ninf_pos _); auto. now apply MC_wake_next.
    + apply MC_finish_m.
      destruct (match m_fw x0 with Some FCancelled => true | _ => false end); auto.
      now apply MC_sem_release.
    + apply MC_finish_m.
      destruct (match m_fw x0 with Some FCancelled => true | _ => false end); auto.
      now apply MC_sem_release.
Qed.

(** operations *)
Lemma MC_cancel_m s m : MC s -> MC (cancel_m s m).
Proof.
  intros H. unfold cancel_m. destruct (get_m s m) as [x|] eqn:Ex; auto.
  pose proof (H m x Ex) as Hx. destruct (m_final x); auto.
  assert (H1 : MC (if is_current s (TM m) then set_taint_iter s true else s))
    by (destruct (is_current _ _); auto).
  destruct (fut_pending (m_fw x)) eqn:Ep; [apply MC_sched|]; apply MC_put_m; auto.
  - apply mcp_fw. discriminate.
  - intros _ E. cbn in E. rewrite E in Ep. discriminate.
Qed.

Lemma MC_cancel_group_metas s g : MC s -> MC (cancel_group_metas s g).
Proof.
  intros H. unfold cancel_group_metas. destruct (glookup _ _); auto.
  frm. apply MC_fold; auto. intros; now apply MC_cancel_m.
Qed.

Lemma MC_mark_dead s g : MC s -> MC (mark_dead s g).
Proof.
  intros H m y. unfold get_m, mark_dead. cbn [mtasks set_mtasks]. rewrite nth_error_map.
  destruct (nth_error (mtasks s) m) as [x|] eqn:Ex; [|discriminate]. cbn.
  intros [= <-]. pose proof (H m x Ex) as Hx. destruct (gname_eqb _ _); exact Hx.
Qed.

Lemma MC_cancel_group_body s g ids : MC s -> MC (cancel_group_body s g ids).
Proof.
  intros H. unfold cancel_group_body. apply MC_fold.
  - intros s0 t H0. destruct (mem t (t_running s0)); auto. eapply MC_mt; [apply mt_cancel_p|auto].
  - now apply MC_mark_dead, MC_cancel_group_metas.
Qed.

Lemma MC_cancel_all_groups gs : forall s, MC s -> MC (cancel_all_groups s gs).
Proof.
  induction gs as [|[g ids] r IH]; simpl; intros s H; auto.
  apply IH. now apply MC_cancel_group_body.
Qed.

Lemma MC_do_cancel s ids : MC s -> MC (do_cancel s ids).
Proof.
  intros H. unfold do_cancel. destruct (first_lookup_err s ids); auto.
  apply MC_fold; auto. intros s0 a H0. eapply MC_mt; [apply mt_cancel_p|auto].
Qed.

Lemma MC_new_meta s x : MC s -> mcp x -> MC (new_meta s x).
Proof.
  intros H Hx. unfold new_meta. apply MC_sched.
  intros m y. unfold get_m. cbn [mtasks set_gmeta set_mtasks]. rewrite nth_error_snoc.
  destruct (Nat.ltb _ _); [apply H|]. destruct (Nat.eqb _ _); [|discriminate].
  intros [= <-]. exact Hx.
Qed.

Lemma MC_stop_res s ids :
  MC s -> MC (match res s with RErr _ => s | _ => set_res s (RIds ids) end).
Proof. intros H. destruct (res s); auto. Qed.

Lemma MC_set_res s r : MC s -> MC (set_res s r).
Proof. intros H. exact H. Qed.
Lemma MC_set_groups s r : MC s -> MC (set_groups s r).
Proof. intros H. exact H. Qed.
Lemma MC_set_start_calls s r : MC s -> MC (set_start_calls s r).
Proof. intros H. exact H. Qed.

Lemma MC_op_apply s num bad noncoro w ecb ccb og :
  MC s -> MC (do_op s (OpApply num bad noncoro w ecb ccb og)).
Proof.
  intros H. unfold do_op.
  assert (H0 : MC (match og with Some g0 => know s g0 | None => s end))
    by (destruct og; auto using MC_know).
  destruct (check_start _ _); [now apply MC_set_res|].
  destruct (ghas _ _); [now apply MC_set_res|].
  apply MC_set_res, MC_new_meta; [|apply mcp_mc_false; reflexivity].
  apply MC_set_groups. now apply MC_know.
Qed.

Lemma MC_op_map s stars els nc noncoro ecb ccb og :
  MC s -> MC (do_op s (OpMap stars els nc noncoro ecb ccb og)).
Proof.
  intros H. unfold do_op.
  assert (H0 : MC (match og with Some g0 => know s g0 | None => s end))
    by (destruct og; auto using MC_know).
  destruct (check_start _ _); [now apply MC_set_res|].
  destruct (Nat.eqb nc 0) eqn:En; [now apply MC_set_res|].
  destruct (ghas _ _); [now apply MC_set_res|].
  apply MC_set_res, MC_new_meta.
  - apply MC_set_groups. now apply MC_know.
  - apply mcp_mc_false. reflexivity.
Qed.

Lemma MC_op_start s num : MC s -> MC (do_op s (OpStart num)).
Proof.
  intros H. unfold do_op. destruct (check_start s false); [now apply MC_set_res|].
  apply MC_set_res, MC_new_meta; [|apply mcp_mc_false; reflexivity].
  apply MC_set_groups, MC_set_start_calls. now apply MC_know.
Qed.

Lemma MC_do_op s o : MC s -> MC (do_op s o).
Proof.
  intros H. destruct o.
  - now apply MC_op_apply.
  - now apply MC_op_map.
  - now apply MC_op_start.
  - now apply MC_do_cancel.
  - unfold do_op. destruct (glookup _ _).
    + apply MC_cancel_group_body, MC_set_groups. now apply MC_know.
    + apply MC_set_res. now apply MC_know.
  - unfold do_op. apply MC_cancel_all_groups. exact H.
  - unfold do_op. apply MC_stop_res. now apply MC_do_cancel.
  - unfold do_op. apply MC_stop_res. now apply MC_do_cancel.
  - exact H.
  - unfold do_op. destruct (Nat.ltb _ _); exact H.
  - unfold do_op. destruct v; exact H.
  - unfold do_op. apply MC_set_res. apply MC_fold; auto. intros; now apply MC_know.
  - unfold do_op. apply MC_sched. destruct k; exact H.
  - unfold do_op. destruct (get_p s tid); auto. apply MC_sched. exact H.
  - unfold do_op. destruct (get_p s tid); auto. apply MC_sched. exact H.
Qed.


Lemma MC_init c : MC (init c).
Proof. intros m y H. unfold get_m in H. cbn in H. now destruct m. Qed.

Lemma MC_step s l : MC s -> MC (step s l).
Proof.
  intros H. unfold step.
  assert (H1 : MC (set_res (set_evs s []) RNone)) by exact H.
  destruct (negb _); auto.
  destruct l as [h| |o].
  - assert (H2 : MC (unsched (set_res (set_evs s []) RNone) h)) by exact H.
    destruct h as [[t|m|d]|d c]; cbn [run_handle].
    + now apply MC_run_p.
    + now apply MC_run_m.
    + eapply MC_mt; [apply mt_run_d|auto].
    + eapply MC_mt; [apply mt_run_g|auto].
  - destruct (ctl _) as [|[t|m|d]]; auto.
    + now apply MC_continue_p.
    + now apply MC_continue_m.
  - now apply MC_do_op.
Qed.

Lemma MC_fold_step tr : forall s, MC s -> MC (fold_left step tr s).
Proof. induction tr; simpl; auto. intros s Hs. apply IHtr. now apply MC_step. Qed.

Lemma MC_run c tr : MC (run c tr).
Proof. apply MC_fold_step, MC_init. Qed.
