(** WAITING API CALLS RETURN under a cooperative environment.

    If user code lets every worker finish and every slow callback complete — and asks for nothing
    else — then from ANY state reached by a clean run, every maximal cooperative run (and there
    is one, and all of them are finite: PLive.v) ends in a state where

      - every flush() call has returned — under NO precondition besides [clean]: whatever the
        pool size, whatever was assigned to [pool_size]   [C13_flush_eventually_returns];
      - every gather_and_close() call has returned; if it returned normally — always the case
        with return_exceptions=True — the pool is closed, no task is held (the three registries
        are empty, every pool task is done) and every until_closed() waiter has returned
                                                              [C08_eventually_closes];
      - an until_closed() call has returned iff the pool is closed  [drivers_settled].

    (A) is [drivers_done_when_stuck] (per state: a reachable clean state where no cooperative
    label is enabled), (B) the run-level corollaries.

    PRECONDITION, and why.  (A) is stated under [spawners_done s]: every spawner has finished.
    That is exactly what can go wrong: [stuck_drivers_exact] shows that in a stuck state a driver
    that is not done is either an until_closed() caller on a pool that is not closed, or waits
    in its FIRST gather for a spawner that has not finished.  Under [clean] alone a spawner can
    wait for room for ever — pool size 0, or the lost wake-up of the [pool_size] setter (D6) —
    and then a gather_and_close() waits for ever too: [size0_gac_waits], [resize_gac_waits].
    With pool size not 0 and no [pool_size] assignment every spawner has finished in a stuck
    state ([PRest.no_work_stranded]), hence the run-level theorems about gather_and_close()
    assume [taint_size = false] and [cf_size c <> Fin 0] — the preconditions of
    [C04_eventually_complete] minus [taint_iter].  The hypothesis is the weakest possible for
    gather_and_close(): if one has returned normally in a stuck state then every spawner has
    finished ([gac_return_needs_spawners_done]).  It is NOT needed for flush(): the first gather
    of a flush() only waits for finished spawners and spawners of cancelled groups, and those
    have finished in every stuck state ([flush_returns_when_stuck]; invariants [FL], [MC] of
    PLiveDrv_flush.v / PLiveDrv_mc.v; [size0_flush_returns]).

    WHAT IS FALSE.  "If a gather_and_close() was requested the pool ends closed" is false for
    return_exceptions=False: when a pool task raised (or was cancelled) the second gather fails,
    gather_and_close() propagates that exception BEFORE it sets the closed flag; the pool stays
    locked but not closed for ever, the finished tasks stay filed, and every until_closed()
    caller waits for ever: [gac_raise_never_closes].  The theorem therefore concludes "closed"
    only from a normal return ([re = true \/ d_final x' = Some OResult]). *)
From TP Require Import PInv PSpec PRun PWF PExamples PRest PRest_nc PStep_D_base PMonSound_C13_kd
  PLive.
From TP Require Export PLiveDrv_flush.
From Coq Require Import Lia.
Import ListNotations.

Unset Implicit Arguments.

(** ** driver records persist, with their kind *)
Lemma get_d_step s l d x :
  get_d s d = Some x -> exists x', get_d (step s l) d = Some x' /\ d_kind x' = d_kind x.
Proof.
  intros G. pose proof (KD_step s l) as E.
  assert (H : nth_error (map d_kind (dtasks (step s l))) d = Some (d_kind x)).
  { rewrite E. rewrite nth_error_app1.
    - apply map_nth_error. exact G.
    - rewrite map_length. apply nth_error_Some. unfold get_d in G. congruence. }
  rewrite nth_error_map in H. unfold get_d.
  destruct (nth_error (dtasks (step s l)) d) as [x'|]; [|discriminate].
  exists x'. split; [reflexivity|]. cbn in H. congruence.
Qed.

Lemma get_d_fold tr : forall s d x,
  get_d s d = Some x ->
  exists x', get_d (fold_left step tr s) d = Some x' /\ d_kind x' = d_kind x.
Proof.
  induction tr as [|l tr IH]; intros s d x G; cbn [fold_left].
  - exists x. auto.
  - destruct (get_d_step s l d x G) as (x1 & G1 & K1).
    destruct (IH (step s l) d x1 G1) as (x' & G' & K'). exists x'. split; [exact G'|congruence].
Qed.

(** ** (A) per state *)

(** the exact picture: a driver that is not done in a stuck state is an until_closed() caller on
    a pool that is not closed, or a gather_and_close() that waits in its first gather for a
    spawner that has not finished, whose group was not cancelled and which itself waits (for
    room) on a pending future *)
Theorem stuck_drivers_exact : forall c tr d x,
  clean (run c tr) -> stuck (run c tr) -> get_d (run c tr) d = Some x ->
  drv_done x \/
  (d_kind x = DUntilClosed /\ d_pc x = DWaitClosed /\ d_fw x = Some FPending /\
   closed (run c tr) = false /\ In d (closed_waiters (run c tr))) \/
  (exists re, d_kind x = DGatherClose re /\ d_pc x = DWaitG1 /\ d_fw x = Some FPending /\
   exists g m y, d_g1 x = Some g /\ In (TM m) (g_children g) /\
                 get_m (run c tr) m = Some y /\ m_final y = None /\ m_dead y = false /\
                 (m_pc y = MWaitPool \/ m_pc y = MWaitMap) /\ m_fw y = Some FPending).
Proof.
  intros c tr d x Hc St G. destruct (WFh_run c tr Hc) as (X & HG & HF).
  pose proof (MC_run c tr) as HM. pose proof (x_wf _ X) as W.
  destruct (stuck_driver_cases (run c tr) d x X HG St G) as [H|[H|H]]; auto.
  - right. left. tauto.
  - destruct H as (Hp & Hk & Hf & g & m & y & Eg & Hi & Gm & Fy).
    destruct (d_kind x) as [re|re|] eqn:K; [|clear Hk|congruence].
    + destruct (flush_done_when_stuck (run c tr) d x re X HG HF HM St G K) as [Hp' _]. congruence.
    + right. right. exists re. repeat split; auto.
      exists g, m, y. repeat split; auto.
      * destruct (m_dead y) eqn:D; auto. exfalso.
        exact (stuck_dead_done (run c tr) m y X HM St Gm D Fy).
      * destruct (stuck_at_rest _ W St) as [Q _].
        exact (proj1 (PProps_B.quiet_spawner _ m y W Q Gm Fy)).
      * destruct (stuck_at_rest _ W St) as [Q _].
        exact (proj2 (PProps_B.quiet_spawner _ m y W Q Gm Fy)).
Qed.

Theorem drivers_done_when_stuck : forall c tr,
  clean (run c tr) -> stuck (run c tr) -> spawners_done (run c tr) ->
  drivers_settled (run c tr).
Proof.
  intros c tr Hc St Hsp. destruct (WFg_run c tr Hc) as [X HG].
  apply drivers_settled_when_stuck; auto.
Qed.

(** pool size not 0, no [pool_size] assignment: the hypothesis holds *)
Theorem stuck_spawners_done_sized : forall c tr,
  clean (run c tr) -> taint_size (run c tr) = false -> cf_size c <> Fin 0 ->
  stuck (run c tr) -> spawners_done (run c tr).
Proof.
  intros c tr Hc Hts Hsz St. apply stuck_spawners_done; auto.
  - apply WFx_run; auto.
  - apply Extra_nc_run.
  - rewrite cfg_run. exact Hsz.
Qed.

Corollary drivers_done_when_stuck_sized : forall c tr,
  clean (run c tr) -> taint_size (run c tr) = false -> cf_size c <> Fin 0 ->
  stuck (run c tr) -> drivers_settled (run c tr).
Proof.
  intros c tr Hc Hts Hsz St. apply drivers_done_when_stuck; auto.
  apply stuck_spawners_done_sized; auto.
Qed.

(** flush(): no hypothesis on the spawners *)
Theorem flush_returns_when_stuck : forall c tr d x re,
  clean (run c tr) -> stuck (run c tr) ->
  get_d (run c tr) d = Some x -> d_kind x = DFlush re -> drv_done x.
Proof.
  intros c tr d x re Hc St G K. destruct (WFh_run c tr Hc) as (X & HG & HF).
  apply (flush_done_when_stuck (run c tr) d x re); auto. apply MC_run.
Qed.

(** gather_and_close(): the hypothesis of [drivers_done_when_stuck] is necessary *)
Theorem gac_return_needs_spawners_done : forall c tr d x re,
  clean (run c tr) -> stuck (run c tr) ->
  get_d (run c tr) d = Some x -> d_kind x = DGatherClose re -> d_final x = Some OResult ->
  spawners_done (run c tr).
Proof.
  intros c tr d x re Hc St G K F.
  apply (gac_return_spawners_done (run c tr) d x re); auto; [apply WFx_run; auto|apply MC_run].
Qed.

(** ** (B) maximal cooperative runs *)

(** a cooperative run that cannot be extended ends in a clean stuck state, same taints *)
Lemma maximal_final c tr0 tr :
  clean (run c tr0) -> coop_run (run c tr0) tr ->
  (forall l, ~ coop_run (run c tr0) (tr ++ [l])) ->
  clean (run c (tr0 ++ tr)) /\ stuck (run c (tr0 ++ tr)) /\
  taint_size (run c (tr0 ++ tr)) = taint_size (run c tr0).
Proof.
  intros Hc Hr Hmax. destruct (live_preserved c tr0 Hc tr Hr) as (Hc' & Es & _).
  split; [exact Hc'|]. split; [|exact Es].
  rewrite run_app. apply crun_maximal_stuck.
  - apply coop_run_crun. exact Hr.
  - intros l Hl. apply (Hmax l). apply coop_run_crun. exact Hl.
Qed.

(** conversely: a cooperative run that ends in a stuck state cannot be extended *)
Lemma stuck_maximal s tr :
  stuck (fold_left step tr s) -> forall l, ~ coop_run s (tr ++ [l]).
Proof.
  intros St l Hr. apply coop_run_crun in Hr. apply crun_app in Hr. destruct Hr as [_ Hl].
  cbn in Hl. destruct Hl as (Hcl & Hen & _). rewrite (St l Hcl) in Hen. discriminate.
Qed.

(** EVERY maximal cooperative run ends with the drivers settled *)
Theorem live_maximal_settled : forall c tr0,
  clean (run c tr0) -> taint_size (run c tr0) = false -> cf_size c <> Fin 0 ->
  forall tr, coop_run (run c tr0) tr -> (forall l, ~ coop_run (run c tr0) (tr ++ [l])) ->
  at_rest (run c (tr0 ++ tr)) /\
  (forall t x, get_p (run c (tr0 ++ tr)) t = Some x -> p_pc x = PDone) /\
  spawners_done (run c (tr0 ++ tr)) /\
  drivers_settled (run c (tr0 ++ tr)).
Proof.
  intros c tr0 Hc Hts Hsz tr Hr Hmax.
  destruct (maximal_final c tr0 tr Hc Hr Hmax) as (Hc' & St & Es).
  destruct (live_maximal_rest c tr0 Hc tr Hr Hmax) as [HR HP]. rewrite <- run_app in HR, HP.
  assert (Hts' : taint_size (run c (tr0 ++ tr)) = false) by congruence.
  split; [exact HR|]. split; [exact HP|]. split.
  - apply stuck_spawners_done_sized; auto.
  - apply drivers_done_when_stuck_sized; auto.
Qed.

(** ... and some cooperative run is maximal: the scheduler of PLive_run.v reaches such a state *)
Theorem live_settles : forall c tr0,
  clean (run c tr0) -> taint_size (run c tr0) = false -> cf_size c <> Fin 0 ->
  exists tr, coop_run (run c tr0) tr /\ (forall l, ~ coop_run (run c tr0) (tr ++ [l])) /\
             drivers_settled (run c (tr0 ++ tr)).
Proof.
  intros c tr0 Hc Hts Hsz. destruct (live_sched c tr0 Hc) as (Hr & St & _).
  set (tr := coop_sched (mu2 (run c tr0)) (run c tr0)) in *.
  assert (Hmax : forall l, ~ coop_run (run c tr0) (tr ++ [l])) by (apply stuck_maximal; exact St).
  exists tr. split; [exact Hr|]. split; [exact Hmax|].
  apply (live_maximal_settled c tr0 Hc Hts Hsz tr Hr Hmax).
Qed.

(** C08: a gather_and_close() that was requested returns in every maximal cooperative run; when
    it returns normally the pool is closed for good, no task is held and every until_closed()
    waiter has returned *)
Theorem C08_eventually_closes : forall c tr0 d x re,
  clean (run c tr0) -> taint_size (run c tr0) = false -> cf_size c <> Fin 0 ->
  get_d (run c tr0) d = Some x -> d_kind x = DGatherClose re ->
  forall tr, coop_run (run c tr0) tr -> (forall l, ~ coop_run (run c tr0) (tr ++ [l])) ->
  let s' := run c (tr0 ++ tr) in
  exists x', get_d s' d = Some x' /\ d_kind x' = DGatherClose re /\ drv_done x' /\
    (d_final x' = Some OResult \/
     (re = false /\ exists e, d_final x' = Some (final_of (Some e) false) /\ tsrc s' e)) /\
    (re = true \/ d_final x' = Some OResult ->
       d_final x' = Some OResult /\ closed s' = true /\ regs s' = [] /\
       (forall t y, get_p s' t = Some y -> p_pc y = PDone) /\
       (forall m y, get_m s' m = Some y -> m_final y <> None) /\
       (forall d' y, get_d s' d' = Some y -> d_kind y = DUntilClosed ->
                     drv_done y /\ d_final y = Some OResult)).
Proof.
  intros c tr0 d x re Hc Hts Hsz G K tr Hr Hmax s'.
  destruct (live_maximal_settled c tr0 Hc Hts Hsz tr Hr Hmax) as (_ & HP & HS & DS).
  destruct (get_d_fold tr (run c tr0) d x G) as (x' & G' & K'). rewrite <- run_app in G'.
  fold s' in G', HP, HS, DS. rewrite K in K'.
  exists x'. split; [exact G'|]. split; [exact K'|]. split; [exact (ds_gac _ DS d x' re G' K')|].
  split; [exact (ds_gac_how _ DS d x' re G' K')|].
  intros Hre. destruct (ds_closed _ DS d x' re G' K' Hre) as (F & Hcl & Hregs & Hu).
  split; [exact F|split; [exact Hcl|split; [exact Hregs|split; [exact HP|split; [exact HS|exact Hu]]]]].
Qed.

(** C13: every flush() call has returned in the final state of every maximal cooperative run —
    of ANY pool (size 0 and [pool_size] assignments included) *)
Theorem C13_flush_eventually_returns : forall c tr0 d x re,
  clean (run c tr0) ->
  get_d (run c tr0) d = Some x -> d_kind x = DFlush re ->
  forall tr, coop_run (run c tr0) tr -> (forall l, ~ coop_run (run c tr0) (tr ++ [l])) ->
  exists x', get_d (run c (tr0 ++ tr)) d = Some x' /\ d_kind x' = DFlush re /\ drv_done x'.
Proof.
  intros c tr0 d x re Hc G K tr Hr Hmax.
  destruct (maximal_final c tr0 tr Hc Hr Hmax) as (Hc' & St & _).
  destruct (get_d_fold tr (run c tr0) d x G) as (x' & G' & K'). rewrite <- run_app in G'.
  rewrite K in K'. exists x'. split; [exact G'|]. split; [exact K'|].
  exact (flush_returns_when_stuck c (tr0 ++ tr) d x' re Hc' St G' K').
Qed.

(** an until_closed() call returns in a maximal cooperative run iff the pool ends closed — in
    particular whenever some gather_and_close() returns normally *)
Theorem until_closed_eventually_returns : forall c tr0 d x,
  clean (run c tr0) ->
  get_d (run c tr0) d = Some x -> d_kind x = DUntilClosed ->
  forall tr, coop_run (run c tr0) tr -> (forall l, ~ coop_run (run c tr0) (tr ++ [l])) ->
  exists x', get_d (run c (tr0 ++ tr)) d = Some x' /\ d_kind x' = DUntilClosed /\
             (drv_done x' <-> closed (run c (tr0 ++ tr)) = true).
Proof.
  intros c tr0 d x Hc G K tr Hr Hmax.
  destruct (maximal_final c tr0 tr Hc Hr Hmax) as (Hc' & St & _).
  destruct (get_d_fold tr (run c tr0) d x G) as (x' & G' & K'). rewrite <- run_app in G'.
  rewrite K in K'. exists x'. split; [exact G'|]. split; [exact K'|].
  destruct (WFg_run c (tr0 ++ tr) Hc') as [X HG].
  exact (stuck_until_closed _ d x' X HG St G' K').
Qed.

(** ** Non-vacuity *)

Definition cb_slow : cbspec := CbAsync true false.

(** apply(num=3) on a size-2 pool, slow (async) end and cancel callbacks.  Tasks 0 and 1 reach
    their gates, the spawner waits for room.  An until_closed() caller waits.  Worker 0 is let go
    and suspends in its slow end callback (filed as ended, not finished).  A flush() then waits
    in its second gather for task 0; a gather_and_close(return_exceptions=True) locks the pool
    and waits in its first gather for the spawner. *)
Definition tr_pend : list label :=
  [ LOp (OpApply 3 [] false w_sp cb_slow cb_slow None);
    LRun (HT (TM 0)); LRun (HT (TP 0)); LGo; LRun (HT (TP 1)); LGo;
    LOp (OpDriver DUntilClosed); LRun (HT (TD 0));
    LOp (OpFinish 0 FinReturn); LRun (HT (TP 0)); LGo; LGo;
    LOp (OpDriver (DFlush false)); LRun (HT (TD 1));
    LOp (OpDriver (DGatherClose true)); LRun (HT (TD 2)) ].

(** task 0's end callback is released: the flush returns (and forgets task 0); the spawner gets
    the slot, creates task 2 and ends: gather_and_close moves on to its second gather (tasks 1
    and 2); worker 1 raises, worker 2 returns, their end callbacks are released in the other
    order; gather_and_close closes the pool, which releases the until_closed() caller. *)
Definition tr_coopD : list label :=
  [ LOp (OpReleaseCb 0); LRun (HT (TP 0)); LRun (HG 1 (TP 0)); LRun (HT (TD 1));
    LRun (HT (TM 0)); LRun (HT (TP 2)); LGo; LRun (HG 2 (TM 0)); LRun (HT (TD 2));
    LOp (OpFinish 1 FinRaise); LOp (OpFinish 2 FinReturn);
    LRun (HT (TP 1)); LGo; LGo; LRun (HT (TP 2)); LGo; LGo;
    LOp (OpReleaseCb 2); LOp (OpReleaseCb 1); LRun (HT (TP 1)); LRun (HT (TP 2));
    LRun (HG 2 (TP 1)); LRun (HG 2 (TP 2)); LRun (HT (TD 2)); LRun (HT (TD 0)) ].

Example drv_example :
  let s := run cfg2 tr_pend in
  let s' := fold_left step tr_coopD s in
  clean s /\ taint_size s = false /\
  map p_pc (ptasks s) = [PWaitEcb; PWaitGate] /\ map m_pc (mtasks s) = [MWaitPool] /\
  map d_kind (dtasks s) = [DUntilClosed; DFlush false; DGatherClose true] /\
  map d_pc (dtasks s) = [DWaitClosed; DWaitG2; DWaitG1] /\
  map d_fw (dtasks s) = [Some FPending; Some FPending; Some FPending] /\
  closed s = false /\ locked s = true /\ t_running s = [1] /\ t_ended s = [0] /\
  crun s tr_coopD /\ length tr_coopD = 25 /\
  next_coop s' = None /\ at_rest_b s' = true /\
  map p_pc (ptasks s') = [PDone; PDone; PDone] /\
  map p_final (ptasks s') = [Some OResult; Some (OExc (EUser 1 SWorker)); Some OResult] /\
  map m_final (mtasks s') = [Some OResult] /\
  map d_pc (dtasks s') = [DDone; DDone; DDone] /\
  map d_final (dtasks s') = [Some OResult; Some OResult; Some OResult] /\
  closed s' = true /\ regs s' = [] /\ n_forgotten s' = 3 /\
  (* the scheduler of PLive_run.v finds another run *)
  length (coop_sched (mu2 s) s) = 26 /\
  map d_final (dtasks (fold_left step (coop_sched (mu2 s) s) s)) =
    [Some OResult; Some OResult; Some OResult].
Proof. vm_compute. repeat split; reflexivity. Qed.

(** the theorems instantiated on that state and that run *)
Example drv_example_thm :
  let s := run cfg2 tr_pend in
  let s' := run cfg2 (tr_pend ++ tr_coopD) in
  coop_run s tr_coopD /\ (forall l, ~ coop_run s (tr_coopD ++ [l])) /\
  drivers_settled s' /\
  (exists x', get_d s' 2 = Some x' /\ d_kind x' = DGatherClose true /\ drv_done x' /\
              d_final x' = Some OResult /\ closed s' = true /\ regs s' = []) /\
  (exists x', get_d s' 1 = Some x' /\ d_kind x' = DFlush false /\ drv_done x') /\
  (exists x', get_d s' 0 = Some x' /\ d_kind x' = DUntilClosed /\ drv_done x').
Proof.
  assert (Hc : clean (run cfg2 tr_pend)) by (vm_compute; reflexivity).
  assert (Hts : taint_size (run cfg2 tr_pend) = false) by (vm_compute; reflexivity).
  assert (Hsz : cf_size cfg2 <> Fin 0) by discriminate.
  assert (Hr : coop_run (run cfg2 tr_pend) tr_coopD).
  { apply coop_run_crun. vm_compute. repeat split; reflexivity. }
  assert (Hmax : forall l, ~ coop_run (run cfg2 tr_pend) (tr_coopD ++ [l])).
  { apply stuck_maximal. apply next_coop_none. vm_compute. reflexivity. }
  assert (G2 : exists x, get_d (run cfg2 tr_pend) 2 = Some x /\ d_kind x = DGatherClose true)
    by (vm_compute; eauto).
  assert (G1 : exists x, get_d (run cfg2 tr_pend) 1 = Some x /\ d_kind x = DFlush false)
    by (vm_compute; eauto).
  assert (G0 : exists x, get_d (run cfg2 tr_pend) 0 = Some x /\ d_kind x = DUntilClosed)
    by (vm_compute; eauto).
  destruct G2 as (x2 & G2 & K2), G1 as (x1 & G1 & K1), G0 as (x0 & G0 & K0).
  cbv zeta. split; [exact Hr|]. split; [exact Hmax|].
  destruct (live_maximal_settled cfg2 tr_pend Hc Hts Hsz tr_coopD Hr Hmax) as (_ & _ & _ & DS).
  split; [exact DS|].
  destruct (C08_eventually_closes cfg2 tr_pend 2 x2 true Hc Hts Hsz G2 K2 tr_coopD Hr Hmax)
    as (x' & G' & K' & Hd & _ & Hcl).
  destruct (Hcl (or_introl eq_refl)) as (F & Cl & Rg & _).
  split; [exists x'; repeat split; auto; apply Hd|].
  split; [exact (C13_flush_eventually_returns cfg2 tr_pend 1 x1 false Hc G1 K1
                   tr_coopD Hr Hmax)|].
  destruct (until_closed_eventually_returns cfg2 tr_pend 0 x0 Hc G0 K0 tr_coopD Hr Hmax)
    as (y & Gy & Ky & Hy).
  exists y. split; [exact Gy|]. split; [exact Ky|]. apply Hy. exact Cl.
Qed.

(** ** The precondition is needed *)

(** Pool size 0: the accepted apply(1) waits for room for ever, and so does gather_and_close(),
    in its first gather, whose only child is that spawner — with the pool locked and every
    until_closed() caller waiting.  A flush() is not held up.  No cooperative label is enabled. *)
Definition tr_size0 : list label :=
  [ LOp (OpApply 1 [] false w_sp CbNone CbNone None); LRun (HT (TM 0));
    LOp (OpDriver (DGatherClose true)); LRun (HT (TD 0));
    LOp (OpDriver DUntilClosed); LRun (HT (TD 1));
    LOp (OpDriver (DFlush false)); LRun (HT (TD 2)) ].

Example size0_gac_waits :
  let s := run cfg0 tr_size0 in
  clean s /\ taint_size s = false /\ taint_iter s = false /\ taint_self s = false /\
  next_coop s = None /\ at_rest_b s = true /\
  map m_pc (mtasks s) = [MWaitPool] /\ map m_final (mtasks s) = [None] /\
  map d_pc (dtasks s) = [DWaitG1; DWaitClosed; DDone] /\
  map d_final (dtasks s) = [None; None; Some OResult] /\
  map (fun x => match d_g1 x with Some g => (g_children g, g_nfin g) | None => ([], 0) end)
      (dtasks s) = [([TM 0], 0); ([], 0); ([], 0)] /\
  closed s = false /\ locked s = true.
Proof. vm_compute. repeat split; reflexivity. Qed.

Example size0_stuck : stuck (run cfg0 tr_size0) /\ ~ drivers_settled (run cfg0 tr_size0).
Proof.
  split; [apply next_coop_none; vm_compute; reflexivity|].
  intros DS.
  assert (G : exists x, get_d (run cfg0 tr_size0) 0 = Some x /\ d_kind x = DGatherClose true /\
                        d_pc x = DWaitG1) by (vm_compute; eauto).
  destruct G as (x & G & K & P). destruct (ds_gac _ DS 0 x true G K) as [Hp _]. congruence.
Qed.

(** ... but a flush() returns on a pool of size 0 too, also when it has to wait: apply(1) in group
    user-1 (the spawner waits for room), cancel_group(user-1) (the spawner is cancelled, its handle
    is ready), flush() waits in its first gather for that spawner.  Three internal moves later it
    has returned. *)
Definition tr_size0_flush : list label :=
  [ LOp (OpApply 1 [] false w_sp CbNone CbNone (Some (GUser 1))); LRun (HT (TM 0));
    LOp (OpCancelGroup (GUser 1)); LOp (OpDriver (DFlush false)); LRun (HT (TD 0)) ].

Example size0_flush_returns :
  let s := run cfg0 tr_size0_flush in
  let tr := [ LRun (HT (TM 0)); LRun (HG 0 (TM 0)); LRun (HT (TD 0)) ] in
  let s' := fold_left step tr s in
  clean s /\ map m_pc (mtasks s) = [MWaitPool] /\ map m_fw (mtasks s) = [Some FCancelled] /\
  map m_dead (mtasks s) = [true] /\ meta_cancelled s = [0] /\
  map d_pc (dtasks s) = [DWaitG1] /\ map d_fw (dtasks s) = [Some FPending] /\
  crun s tr /\ next_coop s' = None /\
  map m_final (mtasks s') = [Some OResult] /\
  map d_pc (dtasks s') = [DDone] /\ map d_final (dtasks s') = [Some OResult].
Proof. vm_compute. repeat split; reflexivity. Qed.

(** The [pool_size] setter loses a wake-up (D6): three slots are free, the spawner waits for
    ever and so does gather_and_close().  Only [taint_size] tells this run from the runs of the
    theorems. *)
Definition tr_resize_gac : list label :=
  tr_resize ++ [ LOp (OpDriver (DGatherClose true)); LRun (HT (TD 0)) ].

Example resize_gac_waits :
  let s := run cfg1 tr_resize_gac in
  clean s /\ taint_size s = true /\ next_coop s = None /\ sem_value s = Fin 3 /\
  map m_pc (mtasks s) = [MWaitPool] /\ map d_pc (dtasks s) = [DWaitG1] /\
  map d_final (dtasks s) = [None] /\ closed s = false.
Proof. vm_compute. repeat split; reflexivity. Qed.

(** ** What is false: gather_and_close(return_exceptions=False) and a raising task *)

(** apply(1), the worker waits at its gate; gather_and_close(False) waits in its second gather,
    an until_closed() caller waits.  The worker raises: the gather fails, gather_and_close()
    propagates the exception and never sets the closed flag.  In the final state nothing more
    can happen: the pool is locked, not closed, the finished task is still filed as ended, the
    until_closed() caller waits for ever. *)
Definition tr_raise : list label :=
  [ LOp (OpApply 1 [] false w_sp CbNone CbNone None); LRun (HT (TM 0)); LRun (HT (TP 0)); LGo;
    LOp (OpDriver (DGatherClose false)); LRun (HT (TD 0));
    LOp (OpDriver DUntilClosed); LRun (HT (TD 1)) ].

Definition tr_raise_coop : list label :=
  [ LOp (OpFinish 0 FinRaise); LRun (HT (TP 0)); LGo; LRun (HG 0 (TP 0)); LRun (HT (TD 0)) ].

Example gac_raise_never_closes :
  let s := run cfg2 tr_raise in
  let s' := fold_left step tr_raise_coop s in
  clean s /\ taint_size s = false /\ taint_iter s = false /\ taint_self s = false /\
  map d_pc (dtasks s) = [DWaitG2; DWaitClosed] /\
  crun s tr_raise_coop /\ next_coop s' = None /\ at_rest_b s' = true /\
  map p_final (ptasks s') = [Some (OExc (EUser 0 SWorker))] /\
  map m_final (mtasks s') = [Some OResult] /\
  map d_pc (dtasks s') = [DDone; DWaitClosed] /\
  map d_final (dtasks s') = [Some (OExc (EUser 0 SWorker)); None] /\
  closed s' = false /\ locked s' = true /\ regs s' = [0].
Proof. vm_compute. repeat split; reflexivity. Qed.

(** ... in agreement with the theorem: the drivers are settled *)
Example gac_raise_settled :
  let s' := run cfg2 (tr_raise ++ tr_raise_coop) in
  stuck s' /\ drivers_settled s' /\ closed s' = false.
Proof.
  assert (Hc : clean (run cfg2 (tr_raise ++ tr_raise_coop))) by (vm_compute; reflexivity).
  assert (St : stuck (run cfg2 (tr_raise ++ tr_raise_coop)))
    by (apply next_coop_none; vm_compute; reflexivity).
  cbv zeta. split; [exact St|]. split; [|vm_compute; reflexivity].
  assert (Hts : taint_size (run cfg2 (tr_raise ++ tr_raise_coop)) = false)
    by (vm_compute; reflexivity).
  assert (Hsz : cf_size cfg2 <> Fin 0) by discriminate.
  exact (drivers_done_when_stuck_sized cfg2 _ Hc Hts Hsz St).
Qed.

Print Assumptions stuck_drivers_exact.
Print Assumptions drivers_done_when_stuck.
Print Assumptions drivers_done_when_stuck_sized.
Print Assumptions flush_returns_when_stuck.
Print Assumptions gac_return_needs_spawners_done.
Print Assumptions live_maximal_settled.
Print Assumptions live_settles.
Print Assumptions C08_eventually_closes.
Print Assumptions C13_flush_eventually_returns.
Print Assumptions until_closed_eventually_returns.
Print Assumptions drv_example_thm.
Print Assumptions size0_stuck.
Print Assumptions gac_raise_settled.
