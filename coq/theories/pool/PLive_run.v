(** Eventual completion — cooperative runs: the two presentations agree; along a cooperative run
    the invariant, cleanliness, the taint flags and the configuration are preserved and the
    measure [mu2] pays one unit per step; a state where no cooperative label is enabled
    ([stuck]) is at rest — every pool task is done; a scheduler ([coop_sched]: continue user code,
    else run the first ready handle, else open the gate of the task with the largest id that waits
    at one) that reaches such a state within [mu2] steps. *)
From TP Require Import PInv PRun PWF PProgress.
From TP Require Export PLive_step.

Unset Implicit Arguments.

(** ** cooperative runs: the two presentations agree *)
Lemma coop_run_crun tr : forall s, coop_run s tr <-> crun s tr.
Proof.
  induction tr as [|l tr IH]; intros s; simpl.
  - split; auto. intros _ [|k] l H; discriminate.
  - split.
    + intros H. destruct (H 0 l eq_refl) as [Hi He]. repeat split; auto.
      apply IH. intros k l' Hk. exact (H (S k) l' Hk).
    + intros (Hi & He & Hr) [|k] l' Hk.
      * injection Hk as <-. auto.
      * apply IH in Hr. exact (Hr k l' Hk).
Qed.

Lemma crun_app tr1 : forall s tr2,
  crun s (tr1 ++ tr2) <-> crun s tr1 /\ crun (fold_left step tr1 s) tr2.
Proof.
  induction tr1 as [|l tr1 IH]; intros s tr2; simpl; [tauto|].
  rewrite IH. tauto.
Qed.

Lemma internal_coop l : internal l = true -> coop l = true.
Proof. destruct l; simpl; auto; discriminate. Qed.

(** an internal run is a cooperative run *)
Lemma irun_crun tr : forall s, irun s tr -> crun s tr.
Proof.
  induction tr as [|l tr IH]; intros s; simpl; auto.
  intros (Hi & He & Hr). auto using internal_coop.
Qed.

Lemma cfg_fold tr : forall s, cfg (fold_left step tr s) = cfg s.
Proof. induction tr as [|l tr IH]; intros s; simpl; auto. rewrite IH. apply cfg_step. Qed.

(** ** along a cooperative run: invariant, cleanliness, taints; one unit of [mu2] per step *)
Lemma crun_measure tr : forall s,
  WFx s -> clean s -> crun s tr ->
  WFx (fold_left step tr s) /\ clean (fold_left step tr s) /\
  frt (fold_left step tr s) = frt s /\
  mu2 (fold_left step tr s) + length tr <= mu2 s.
Proof.
  induction tr as [|l tr IH]; intros s X Hc Hr; simpl.
  - split; [exact X|split; [exact Hc|split; [reflexivity|lia]]].
  - destruct Hr as (Hi & He & Hr).
    pose proof (wf5 _ (x_wf _ X)) as W5.
    pose proof (coop_decr s l W5 He Hi) as Hd.
    pose proof (coop_step_clean s l W5 He Hi Hc) as Hc'.
    destruct (coop_step_frame s l W5 He Hi) as [Ft _].
    pose proof (WFx_step s l X Hc') as X'.
    destruct (IH (step s l) X' Hc' Hr) as (A & B & C & D).
    split; [exact A|split; [exact B|split; [congruence|lia]]].
Qed.

(** ** a state where no cooperative label is enabled is at rest *)
Lemma stuck_quiet s : stuck s -> PProgress_def.quiet s.
Proof.
  intros St. destruct (not_quiet_enabled s) as [Q|[l [Hi He]]]; auto.
  rewrite (St l (internal_coop l Hi)) in He. discriminate.
Qed.

(** ... every pool task is done: otherwise its handle is ready, or it is the current task, or it
    waits at a gate that the environment can open *)
Lemma stuck_task_done s t x : I5 s -> stuck s -> get_p s t = Some x -> p_pc x = PDone.
Proof.
  intros W St G. destruct (stuck_quiet s St) as [Hctl Hrd].
  assert (Hnr : ~ In (HT (TP t)) (ready s)) by (rewrite Hrd; intros []).
  assert (Hnu : p_user (p_pc x) = true -> False).
  { intros U. apply (I5_puser _ W t x G) in U. congruence. }
  assert (Hwait : p_waiting (p_pc x) = true -> p_fw x = Some FPending).
  { intros Hw. destruct (p_fw x) as [[| | |]|] eqn:F; auto; exfalso; apply Hnr;
      apply (I5_p _ W t x G); right; split; auto; congruence. }
  destruct (p_pc x) eqn:Epc; auto; exfalso;
    try (apply Hnu; reflexivity).
  - apply Hnr. apply (I5_p _ W t x G). left. exact Epc.
  - pose proof (St (LOp (OpFinish t FinReturn)) eq_refl) as He.
    cbn in He. rewrite G, Epc, (Hwait eq_refl) in He. discriminate.
  - pose proof (St (LOp (OpReleaseCb t)) eq_refl) as He.
    cbn in He. rewrite G, Epc, (Hwait eq_refl) in He. discriminate.
  - pose proof (St (LOp (OpReleaseCb t)) eq_refl) as He.
    cbn in He. rewrite G, Epc, (Hwait eq_refl) in He. discriminate.
Qed.

Theorem stuck_at_rest s : WF s -> stuck s -> at_rest s.
Proof.
  intros W St. pose proof (wf5 _ W) as W5.
  destruct (stuck_quiet s St) as [Hctl Hrd].
  split; [split; [exact Hctl|split; [exact Hrd|]]|].
  - intros t x G. unfold PSpec.in_callbacks. rewrite (stuck_task_done s t x W5 St G). reflexivity.
  - destruct (t_running s) as [|t r] eqn:E; auto. exfalso.
    assert (Hin : In t (t_running s)) by (rewrite E; left; auto).
    assert (Hlt : t < length (ptasks s)).
    { rewrite <- (I1_len _ (wf1 _ W)). apply (I1_lt _ (wf1 _ W)). unfold regs.
      apply in_or_app. left. exact Hin. }
    destruct (get_p s t) as [x|] eqn:G.
    2:{ apply nth_error_None in G. lia. }
    apply (I2_run _ (wf2 _ W) t x G) in Hin.
    rewrite (stuck_task_done s t x W5 St G) in Hin. discriminate.
Qed.

(** ** a cooperative scheduler *)
Fixpoint find_gate (s : state) (n : nat) : option label :=
  match n with
  | O => None
  | S k =>
      if op_enabled s (OpFinish k FinReturn) then Some (LOp (OpFinish k FinReturn))
      else if op_enabled s (OpReleaseCb k) then Some (LOp (OpReleaseCb k))
      else find_gate s k
  end.

Definition next_coop (s : state) : option label :=
  match next_label s with
  | Some l => Some l
  | None => find_gate s (length (ptasks s))
  end.

Fixpoint coop_sched (n : nat) (s : state) : list label :=
  match n with
  | O => []
  | S k => match next_coop s with
           | None => []
           | Some l => l :: coop_sched k (step s l)
           end
  end.

Lemma find_gate_some s n l : find_gate s n = Some l -> coop l = true /\ enabled s l = true.
Proof.
  induction n as [|k IH]; cbn [find_gate]; [discriminate|].
  destruct (op_enabled s (OpFinish k FinReturn)) eqn:E1.
  - intros H. injection H as <-. split; auto.
  - destruct (op_enabled s (OpReleaseCb k)) eqn:E2; auto.
    intros H. injection H as <-. split; auto.
Qed.

Lemma find_gate_none s n : find_gate s n = None ->
  forall t, t < n -> op_enabled s (OpFinish t FinReturn) = false /\
                     op_enabled s (OpReleaseCb t) = false.
Proof.
  induction n as [|k IH]; cbn [find_gate]; intros H t Ht; [lia|].
  destruct (op_enabled s (OpFinish k FinReturn)) eqn:E1; [discriminate|].
  destruct (op_enabled s (OpReleaseCb k)) eqn:E2; [discriminate|].
  destruct (Nat.eq_dec t k) as [->|Hne]; auto. apply IH; auto. lia.
Qed.

Lemma next_coop_some s l : next_coop s = Some l -> coop l = true /\ enabled s l = true.
Proof.
  unfold next_coop. destruct (next_label s) as [l0|] eqn:E.
  - intros H. injection H as <-. destruct (next_label_some s l0 E). auto using internal_coop.
  - apply find_gate_some.
Qed.

Lemma next_coop_none s : next_coop s = None -> stuck s.
Proof.
  unfold next_coop. destruct (next_label s) as [l0|] eqn:E; [discriminate|].
  intros Hg. apply next_label_none in E. destruct E as [Hctl Hrd].
  pose proof (find_gate_none s _ Hg) as Hn.
  assert (Hout : forall t, length (ptasks s) <= t -> get_p s t = None).
  { intros t Ht. apply nth_error_None. exact Ht. }
  intros [h| |o] Hc; simpl.
  - rewrite Hctl. unfold is_ready. rewrite Hrd. reflexivity.
  - rewrite Hctl. reflexivity.
  - destruct o; try discriminate.
    + change (op_enabled s (OpFinish tid h)) with (op_enabled s (OpFinish tid FinReturn)).
      destruct (Nat.lt_ge_cases tid (length (ptasks s))) as [Hlt|Hge].
      * apply (Hn tid Hlt).
      * simpl. rewrite (Hout tid Hge). reflexivity.
    + destruct (Nat.lt_ge_cases tid (length (ptasks s))) as [Hlt|Hge].
      * apply (Hn tid Hlt).
      * simpl. rewrite (Hout tid Hge). reflexivity.
Qed.

Lemma coop_sched_settles n : forall s,
  WFx s -> clean s -> mu2 s <= n ->
  crun s (coop_sched n s) /\ stuck (fold_left step (coop_sched n s) s).
Proof.
  induction n as [|n IH]; intros s X Hc Hn; simpl.
  - destruct (next_coop s) as [l|] eqn:E.
    + exfalso. destruct (next_coop_some s l E) as [Hi He].
      pose proof (coop_decr s l (wf5 _ (x_wf _ X)) He Hi). lia.
    + split; auto. apply next_coop_none. exact E.
  - destruct (next_coop s) as [l|] eqn:E.
    + destruct (next_coop_some s l E) as [Hi He].
      pose proof (wf5 _ (x_wf _ X)) as W5.
      pose proof (coop_decr s l W5 He Hi) as Hd.
      pose proof (coop_step_clean s l W5 He Hi Hc) as Hc'.
      pose proof (WFx_step s l X Hc') as X'.
      assert (Hn' : mu2 (step s l) <= n) by lia.
      destruct (IH (step s l) X' Hc' Hn') as [A B].
      split; [simpl; split; [exact Hi|split; [exact He|exact A]]|exact B].
    + split; simpl; auto. apply next_coop_none. exact E.
Qed.

(** a run that cannot be extended ends in a stuck state *)
Lemma crun_maximal_stuck s tr :
  crun s tr -> (forall l, ~ crun s (tr ++ [l])) -> stuck (fold_left step tr s).
Proof.
  intros Hr Hmax l Hc.
  destruct (enabled (fold_left step tr s) l) eqn:He; auto.
  exfalso. apply (Hmax l). apply crun_app. split; auto. simpl. auto.
Qed.
