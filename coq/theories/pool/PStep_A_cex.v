(** [C06_op] and [C14_op] (PSpecStep.v) do not follow from [WF s] alone: they speak about
    [do_op s o] for an arbitrary [s], but [WF] says nothing about the result register [res s],
    and [cancel] never writes it / [stop] reads it.  A WF state with a stale error in [res]
    (as left by any failed operation) refutes both.  Not used by the other files. *)
From TP Require Import PSpecStep.

Definition cexA_cfg : config :=
  {| cf_size := Fin 1; cf_kind := KSimple; cf_bad := []; cf_w := default_w;
     cf_ecb := CbNone; cf_ccb := CbNone |}.

Definition cexA_s : state := set_res (init cexA_cfg) (RErr ErrTaskNotFound).

Ltac no_t := let t := fresh in let x := fresh in let H := fresh in
  intros t x H; destruct t; discriminate H.

Lemma cexA_WF : WF cexA_s.
Proof.
  constructor.
  - constructor; cbn; auto; try constructor; try (intros t []).
  - constructor; no_t.
  - constructor; try no_t. intros _. no_t.
  - constructor; cbn; auto; try discriminate.
  - constructor; cbn.
    + constructor.
    + intros m. split; [intros []|]. intros (x & Hx & _). destruct m; discriminate Hx.
    + no_t.
    + intros _ m [].
  - constructor; try no_t; cbn; try (intros; discriminate).
    + constructor.
    + intros h [].
  - constructor; try no_t; cbn.
    + intros m [].
    + constructor.
    + constructor.
    + intros _. no_t.
  - constructor; try (intros d x; intros; match goal with H : get_d _ _ = Some _ |- _ =>
        destruct d; discriminate H end); cbn.
    + intros d c [].
    + discriminate.
  - constructor; try no_t. intros t u x y H. destruct t; discriminate H.
  - constructor; try no_t; cbn.
    + constructor.
    + constructor.
    + intros t [].
    + intros g ids t x H. discriminate H.
    + intros t x y H. destruct t; discriminate H.
Qed.

Theorem C06_op_needs_res : exists s ids, WF s /\ ~ C06_op s ids.
Proof.
  exists cexA_s, []. split; [apply cexA_WF|]. intros [_ Hok].
  assert (Hall : forall u, In u [] -> classify cexA_s u = ClRunning) by (intros u []).
  destruct (Hok Hall) as [Hres _]. discriminate Hres.
Qed.

Theorem C14_op_needs_res : exists s n, WF s /\ ~ C14_op s n.
Proof.
  exists cexA_s, 0. split; [apply cexA_WF|]. intros [Hres _ _ _ _]. discriminate Hres.
Qed.
