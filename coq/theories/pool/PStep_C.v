(** C03 (transitions of a task's classification, callbacks' classification) and C13 (flush
    forgets finished tasks only) for one step of the model.

    [C03_transitions], [C03_cancel_cb_iff], [C03_end_cb_class] and the first clause of C13
    ([C13_forget]) hold as stated.  The second clause of [C13_step] is NOT provable from
    [WF] + [Extra_P] alone: nothing there ties the program counter [DWaitClosed] to the kind
    [DUntilClosed], and a (unreachable but WF) flush-kind driver sitting at [DWaitClosed] would,
    when resumed, emit [EvDriverDone d OResult] without flushing anything.  It is proved under the
    additional inductive fact [Extra_C] (PStep_C_drv.v; [Extra_C_init], [Extra_C_step] in
    PStep_C_xc.v) as [C13_step_holds']. *)
From TP Require Import PInv PInv_P_base PInv_P_view PInv_P_inv PInv_P_tok PInv_P_tok2
  PInv_P_chain PInv_P_step PInv_P_ed PInv_P PSpecStep
  PStep_C_ev PStep_C_rel PStep_C_run PStep_C_drv.
From TP Require Export PStep_C_xc.

Lemma PI_of_WF s : WF s -> Extra_P s -> PI s.
Proof.
  intros W [ET _]. split; [apply I1_iff, (wf1 _ W)|].
  apply TOK_intro; auto using (wf2 _ W), (wfh _ W).
Qed.

Lemma enabled_run s h : enabled (pre s) (LRun h) = true -> In h (ready s).
Proof.
  cbn [enabled]. destruct (ctl (pre s)); [|discriminate]. intros H.
  apply is_ready_In in H. exact H.
Qed.

(** the shape of a driver step from a WF state *)
Lemma run_d_shape s d x0 :
  WF s -> Extra_P s -> In (HT (TD d)) (ready s) -> get_d s d = Some x0 ->
  let s2 := unsched (pre s) (HT (TD d)) in
  (d_pc x0 = DWaitClosed /\ dsame s2 d (fun _ => True) (run_d s2 d)) \/
  dres s2 d (d_kind x0)
       (fun snap => (d_pc x0 = DWaitG2 /\ snap = d_snap x0) \/ cover_eager s2 (d_kind x0) snap)
       (run_d s2 d).
Proof.
  intros W [_ ED] Hr Hx s2. apply run_d_res; auto.
  intros Hpc. exact (ag2pre_ready s d x0 W ED Hr Hx Hpc).
Qed.

Lemma run_d_none s d : get_d s d = None -> run_d s d = s.
Proof. intros H. unfold run_d. now rewrite H. Qed.

Lemma VRel_pc s s' : pcore s' = pcore s -> VRel (pview s) (pview s').
Proof. intros E. apply R3_VRel, R3_pc, E. Qed.

(** ** registries before / after a step *)
Lemma step_VRel s l : WF s -> Extra_P s -> VRel (pview s) (pview (step s l)).
Proof.
  intros W EP. pose proof (PI_of_WF s W EP) as [H1 Hk]. pose proof (wf1 _ W) as HI1.
  unfold step. fold (pre s). destruct (negb (enabled (pre s) l)) eqn:En; [apply VRel_refl|].
  apply negb_false_iff in En.
  destruct l as [h| |o].
  - apply enabled_run in En.
    assert (HI2 : I1 (unsched (pre s) h)) by (eapply I1_pv; [|exact HI1]; reflexivity).
    destruct h as [[t|m|d]|d c]; cbn [run_handle].
    + apply (VRel_run_p (unsched (pre s) (HT (TP t))) t HI2).
    + apply (MQ_VRel (unsched (pre s) (HT (TM m)))); auto.
      apply (Q_run_m _ (MQ_Qpv _) (MQ_Qreg _)). apply MQ_refl.
    + destruct (get_d s d) as [x0|] eqn:Hx.
      * destruct (run_d_shape s d x0 W EP En Hx) as [[_ [Hc _]]|[[Hc _]|(snap & outer & Hf & _)]].
        -- apply (VRel_pc (unsched (pre s) (HT (TD d)))), Hc.
        -- apply (VRel_pc (unsched (pre s) (HT (TD d)))), Hc.
        -- destruct Hf as (Hp & Hc & _).
           apply VRel_core. change (VRel (pview s) (pcore (run_d (unsched (pre s) (HT (TD d))) d))).
           rewrite Hc. apply VRel_core. apply (VRel_after_g2 (pview s)); auto.
      * rewrite run_d_none by exact Hx. apply VRel_refl.
    + apply (VRel_pc (unsched (pre s) (HG d c))), pc_run_g.
  - assert (HI2 : I1 (pre s)) by (eapply I1_pv; [|exact HI1]; reflexivity).
    destruct (ctl (pre s)) as [|[t|m|d]]; try apply VRel_refl.
    + apply (VRel_continue_p (pre s) t HI2).
    + apply (MQ_VRel (pre s)); auto.
      apply (Q_continue_m _ (MQ_Qpv _) (MQ_Qreg _)). apply MQ_refl.
  - apply (R3_VRel (pre s)), R3_do_op.
Qed.

Theorem C03_transitions : forall s l t, WF s -> Extra_P s -> clean (step s l) ->
  class_succ s t (classify s t) (classify (step s l) t).
Proof.
  intros s l t W EP _. apply class_succ_csucc. rewrite !classify_loc.
  apply (step_VRel s l W EP t).
Qed.

Theorem C13_forget : forall s l, WF s -> Extra_P s -> clean (step s l) ->
  forall t x, In t (regs s) -> ~ In t (regs (step s l)) -> get_p s t = Some x -> p_pc x = PDone.
Proof.
  intros s l W EP _ t x Hi Hn Hx.
  destruct (step_VRel s l W EP t) as [_ H]. destruct (H Hi Hn) as (x' & Hx' & Hpc).
  change (get_p s t = Some x') in Hx'. congruence.
Qed.

(** ** callback events of a step *)
Lemma step_cb_events s l k t cl :
  WF s -> Extra_P s -> In (EvCbBegin k t cl) (evs (step s l)) ->
  ev_ok_p s t (EvCbBegin k t cl).
Proof.
  intros W EP. pose proof (wf1 _ W) as HI1.
  unfold step. fold (pre s). destruct (negb (enabled (pre s) l)) eqn:En; [intros []|].
  apply negb_false_iff in En.
  destruct l as [h| |o].
  - apply enabled_run in En.
    assert (HI2 : I1 (unsched (pre s) h)) by (eapply I1_pv; [|exact HI1]; reflexivity).
    destruct h as [[t0|m|d]|d c]; cbn [run_handle].
    + intros He. apply (ev_run_p (unsched (pre s) (HT (TP t0))) t0 _ HI2 eq_refl) in He.
      destruct k; cbn in He; destruct He as [-> He]; exact (conj eq_refl He).
    + intros He. apply op_run_m in He. destruct He as [[]|(m' & k' & He)]. discriminate.
    + destruct (get_d s d) as [x0|] eqn:Hx.
      * destruct (run_d_shape s d x0 W EP En Hx) as [[_ [_ Hc]]|[[_ Hc]|(snap & outer & Hf & _)]].
        -- intros He. apply Hc in He. destruct He as [[]|(o & He & _)]. discriminate.
        -- intros He. apply Hc in He. destruct He as [[]|(o & He & _)]. discriminate.
        -- destruct Hf as (_ & _ & Hc). rewrite Hc. simpl. intros [He|[]]. discriminate.
      * rewrite run_d_none by exact Hx. intros [].
    + rewrite ev_run_g. intros [].
  - assert (HI2 : I1 (pre s)) by (eapply I1_pv; [|exact HI1]; reflexivity).
    destruct (ctl (pre s)) as [|[t0|m|d]]; try (intros []).
    + intros He. apply (ev_continue_p (pre s) t0 _ HI2 eq_refl) in He.
      destruct k; cbn in He; destruct He as [-> He]; exact (conj eq_refl He).
    + intros He. apply op_continue_m in He. destruct He as [[]|(m' & k' & He)]. discriminate.
  - rewrite ev_do_op. intros [].
Qed.

Theorem C03_cancel_cb_iff : forall s l t cl, WF s -> Extra_P s -> clean (step s l) ->
  In (EvCbBegin KCancel t cl) (evs (step s l)) ->
  cl = ClCancelled /\
  exists x, get_p s t = Some x /\
    ((p_pc x = PUCancelled /\ w_cancel (p_w x) = WPropagate) \/
     (p_pc x = PCreated /\ p_unst x = UDeferred)).
Proof.
  intros s l t cl W EP _ He. apply (step_cb_events s l _ _ _ W EP) in He.
  cbn in He. tauto.
Qed.

Theorem C03_end_cb_class : forall s l t cl, WF s -> Extra_P s -> clean (step s l) ->
  In (EvCbBegin KEnd t cl) (evs (step s l)) -> cl = ClEnded.
Proof.
  intros s l t cl W EP _ He. apply (step_cb_events s l _ _ _ W EP) in He.
  cbn in He. tauto.
Qed.

(** ** C13, second clause *)
Lemma filter_all {A} (f : A -> bool) l : (forall a, In a l -> f a = true) -> filter f l = l.
Proof.
  induction l as [|h r IH]; simpl; intros H; auto.
  rewrite (H h) by auto. f_equal. apply IH. auto.
Qed.

Lemma out_of_result outer : out_of outer = OResult -> (forall e, outer <> FExc e) /\ outer <> FCancelled.
Proof.
  destruct outer as [| |e|]; cbn; intros H; try discriminate; try (split; congruence).
  destruct e; discriminate.
Qed.

Lemma no_driver_done_p s t d o : ~ ev_ok_p s t (EvDriverDone d o).
Proof. intros []. Qed.

Lemma flush_done s l d x re :
  WF s -> Extra_P s -> d_pc x <> DWaitClosed -> get_d s d = Some x -> d_kind x = DFlush re ->
  In (EvDriverDone d OResult) (evs (step s l)) ->
  t_running (step s l) = t_running s /\ t_cancelled (step s l) = t_cancelled s /\
  (forall t, In t (d_snap x) \/ ~ In t (t_ended s) -> ~ In t (t_ended (step s l))).
Proof.
  intros W EP Hnw Hx Hk. pose proof (wf1 _ W) as HI1.
  pose proof (PI_of_WF s W EP) as [_ Htok].
  unfold step. fold (pre s). destruct (negb (enabled (pre s) l)) eqn:En; [intros []|].
  apply negb_false_iff in En.
  destruct l as [h| |o].
  - apply enabled_run in En.
    assert (HI2 : I1 (unsched (pre s) h)) by (eapply I1_pv; [|exact HI1]; reflexivity).
    destruct h as [[t0|m|d']|d' c]; cbn [run_handle].
    + intros He. apply (ev_run_p (unsched (pre s) (HT (TP t0))) t0 _ HI2 eq_refl) in He.
      destruct He.
    + intros He. apply op_run_m in He. destruct He as [[]|(m' & k' & He)]. discriminate.
    + destruct (get_d s d') as [x0|] eqn:Hx0.
      * destruct (run_d_shape s d' x0 W EP En Hx0)
          as [[Hpc [_ Hc]]|[[_ Hc]|(snap & outer & Hf & Hcov)]].
        -- intros He. apply Hc in He. destruct He as [[]|(o & He & _)].
           injection He as E1 _. subst d'. assert (x0 = x) by congruence. subst x0.
           contradiction.
        -- intros He. apply Hc in He. destruct He as [[]|(o & He & Hn)].
           injection He as E1 E2. subst d' o. assert (x0 = x) by congruence. subst x0.
           exfalso. eapply (Hn eq_refl). exact Hk.
        -- destruct Hf as (Hp & Hc & He). rewrite He. simpl. intros [Hev|[]].
           injection Hev as E1 Ho. subst d'. assert (x0 = x) by congruence. subst x0.
           apply out_of_result in Ho. destruct Ho as (h1 & h2).
           destruct (Hp h1 h2) as (Hd & _).
           set (s' := run_d (unsched (pre s) (HT (TD d))) d) in *.
           assert (Hreg : t_running s' = t_running s /\
                          t_cancelled s' = filter (not_in snap) (t_cancelled s) /\
                          t_ended s' = filter (not_in snap) (t_ended s)).
           { change (vR (pcore s') = vR (pview s) /\
                     vC (pcore s') = filter (not_in snap) (vC (pview s)) /\
                     vE (pcore s') = filter (not_in snap) (vE (pview s))).
             rewrite Hc, Hk. unfold after_g2_v.
             destruct outer as [| |e|];
               [now repeat split|now repeat split|exfalso; eapply h1; reflexivity
               |exfalso; congruence]. }
           destruct Hreg as (r1 & r2 & r3). rewrite r1, r2, r3. split; [reflexivity|split].
           ++ apply filter_all. intros t Ht. unfold not_in.
              destruct (mem t snap) eqn:Em; auto. exfalso. apply mem_In in Em.
              destruct (Hd t Em) as (y & Hy & Hfin).
              destruct (done_nowhere (pview s) t y Htok Hy Hfin) as (_ & _ & nc). apply nc, Ht.
           ++ intros t Ht. rewrite filter_In. unfold not_in. intros [Hin Hns].
              apply negb_true_iff, mem_false_In in Hns.
              destruct Hcov as [[_ ->]|Hcov].
              ** tauto.
              ** apply Hns. eapply Hcov; eauto.
      * rewrite run_d_none by exact Hx0. intros [].
    + rewrite ev_run_g. intros [].
  - assert (HI2 : I1 (pre s)) by (eapply I1_pv; [|exact HI1]; reflexivity).
    destruct (ctl (pre s)) as [|[t0|m|d']]; try (intros []).
    + intros He. apply (ev_continue_p (pre s) t0 _ HI2 eq_refl) in He. destruct He.
    + intros He. apply op_continue_m in He. destruct He as [[]|(m' & k' & He)]. discriminate.
  - rewrite ev_do_op. intros [].
Qed.

Theorem C13_step_holds' : forall s l, WF s -> Extra_P s -> Extra_C s -> clean (step s l) ->
  C13_step s (step s l).
Proof.
  intros s l W EP XC Hc. split.
  - apply C13_forget; auto.
  - intros d x Hx [re Hk] He. eapply flush_done; eauto.
    intros Hpc. rewrite (XC d x Hx Hpc) in Hk. discriminate.
Qed.

(** The clause as stated, for drivers that are not (anomalously) waiting for the pool to close:
    no extra hypothesis is needed. *)
Theorem C13_step_weak : forall s l, WF s -> Extra_P s -> clean (step s l) ->
  (forall t x, In t (regs s) -> ~ In t (regs (step s l)) -> get_p s t = Some x -> p_pc x = PDone) /\
  (forall d x, get_d s d = Some x -> (exists re, d_kind x = DFlush re) -> d_pc x <> DWaitClosed ->
               In (EvDriverDone d OResult) (evs (step s l)) ->
               t_running (step s l) = t_running s /\ t_cancelled (step s l) = t_cancelled s /\
               (forall t, In t (d_snap x) \/ ~ In t (t_ended s) -> ~ In t (t_ended (step s l)))).
Proof.
  intros s l W EP Hc. split.
  - apply C13_forget; auto.
  - intros d x Hx [re Hk] Hnw He. eapply flush_done; eauto.
Qed.

