(** Monitor soundness, C10 — the model side of the label clauses (names returned by the spawning
    operations, get_group_ids) and of the state clause (the registers reported for the known
    names are pairwise disjoint). *)
From TP Require Import PInv PInv_Q PSpec PMon PRun PWF.
From TP Require Import PMonSound_kn PMonSound_C06_mod PMonSound_C06 PMonSound_C45_sc.
From TP Require Import PMonSound10_trk PMonSound10_free PMonSound10_known.

(** ** what a spawning operation that returns a name did *)
Lemma apply_name s num bad noncoro w ecb ccb og n :
  let s' := do_op s (OpApply num bad noncoro w ecb ccb og) in
  res s' = RName n ->
  ghas n (groups s) = false /\
  match og with Some u => u = n | None => n = gen_name s 0 end /\
  groups s' = gensure n (groups s).
Proof.
  cbv zeta. unfold do_op.
  set (s1 := match og with Some g0 => know s g0 | None => s end).
  assert (Eg : groups s1 = groups s) by (unfold s1; destruct og; [apply know_groups|reflexivity]).
  destruct (check_start s1 noncoro); [discriminate|].
  set (g := match og with Some g0 => g0 | None => gen_name s1 0 end).
  assert (Hg : match og with Some u => u = g | None => g = gen_name s 0 end)
    by (unfold g, s1; destruct og; reflexivity).
  clearbody g s1.
  destruct (ghas g (groups s1)) eqn:Hf; [discriminate|].
  cbn [res set_res]. intros [= <-]. rewrite <- Eg. split; [exact Hf|]. split; [exact Hg|].
  cbn [groups set_res]. rewrite (proj1 (proj2 (proj2 (new_meta_fields _ _)))).
  cbn [groups set_groups]. rewrite know_groups. reflexivity.
Qed.

Lemma map_name s stars els nc noncoro ecb ccb og n :
  let s' := do_op s (OpMap stars els nc noncoro ecb ccb og) in
  res s' = RName n ->
  ghas n (groups s) = false /\
  match og with Some u => u = n | None => n = gen_name s (S stars) end /\
  groups s' = gensure n (groups s).
Proof.
  cbv zeta. unfold do_op.
  set (s1 := match og with Some g0 => know s g0 | None => s end).
  assert (Eg : groups s1 = groups s) by (unfold s1; destruct og; [apply know_groups|reflexivity]).
  set (g := match og with Some g0 => g0 | None => gen_name s1 (meth_of_stars stars) end).
  assert (Hg : match og with Some u => u = g | None => g = gen_name s (S stars) end)
    by (unfold g, s1; destruct og; reflexivity).
  clearbody g s1.
  destruct (check_start s1 noncoro); [discriminate|].
  destruct (Nat.eqb nc 0); [discriminate|].
  destruct (ghas g (groups s1)) eqn:Hf; [discriminate|].
  cbn [res set_res]. intros [= <-]. rewrite <- Eg. split; [exact Hf|]. split; [exact Hg|].
  cbn [groups set_res]. rewrite (proj1 (proj2 (proj2 (new_meta_fields _ _)))).
  cbn [groups set_groups]. rewrite know_groups. reflexivity.
Qed.

Lemma accept_fields s0 x r :
  res (set_res (new_meta s0 x) r) = r /\
  groups (set_res (new_meta s0 x) r) = groups s0 /\
  start_calls (set_res (new_meta s0 x) r) = start_calls s0.
Proof.
  split; [reflexivity|]. split.
  - change (groups (new_meta s0 x) = groups s0). apply new_meta_fields.
  - change (start_calls (new_meta s0 x) = start_calls s0). apply sc_new_meta.
Qed.

Lemma start_name s num n :
  let s' := do_op s (OpStart num) in
  res s' = RName n ->
  n = GStart (start_calls s) /\ groups s' = gensure n (groups s) /\
  start_calls s' = S (start_calls s).
Proof.
  cbv zeta. unfold do_op. destruct (check_start s false); [discriminate|].
  match goal with |- res (set_res (new_meta ?s0 ?x) ?r) = _ -> _ =>
    destruct (accept_fields s0 x r) as (A & B & C); rewrite A, B, C end.
  intros [= <-]. split; [reflexivity|].
  cbn [groups start_calls set_groups set_start_calls]. rewrite know_groups, sc_know.
  split; reflexivity.
Qed.

Lemma start_noname s num :
  (forall n, res (do_op s (OpStart num)) <> RName n) ->
  start_calls (do_op s (OpStart num)) = start_calls s.
Proof.
  unfold do_op. destruct (check_start s false); [reflexivity|].
  cbn [res set_res]. intros H. exfalso. eapply H. reflexivity.
Qed.

(** ** the clauses of a spawning operation *)
Lemma group_live_obs s l en g : KN s -> group_live (obs_of s l en) g = ghas g (groups s).
Proof. intros HK. unfold group_live, ghas. rewrite group_ids_obs by exact HK. reflexivity. Qed.

Lemma spawn_cl10_nil c s k s' l en noncoro nc_bad og meth :
  prev_rel c s k -> KN s -> NoDup (map fst (groups s)) -> KN s' ->
  (forall n, res s' = RName n ->
     ghas n (groups s) = false /\
     match og with Some u => u = n | None => n = gen_name s meth end /\
     ghas n (groups s') = true) ->
  spawn_cl10 k (obs_of s' l en) (match k_prev k with None => true | Some _ => false end)
             noncoro nc_bad og meth = [].
Proof.
  intros HP HK Hnd HK' Hn. unfold spawn_cl10. cbv zeta. cbn [o_res obs_of].
  destruct (res s') as [|n|ids|e] eqn:Hr; auto.
  destruct (Hn n eq_refl) as (A & B & C).
  assert (L3 : group_live (obs_of s' l en) n = true) by (rewrite group_live_obs by exact HK'; exact C).
  rewrite L3.
  destruct HP as [[Hp _]|(lp & enp & Hp)]; rewrite Hp.
  - destruct og as [u|]; [rewrite B, geqb_refl|]; reflexivity.
  - unfold prev_or. rewrite Hp.
    assert (L1 : group_live (obs_of s lp enp) n = false)
      by (rewrite group_live_obs by exact HK; exact A).
    rewrite L1.
    assert (L2 : match og with
                 | Some u => gname_eqb u n
                 | None => gname_eqb n (GGen meth (least_free (obs_of s lp enp) meth
                             (S (length (o_groups (obs_of s lp enp)))) 0))
                 end = true).
    { destruct og as [u|]; [rewrite B; apply geqb_refl|].
      rewrite least_free_obs by assumption. rewrite B. apply geqb_refl. }
    rewrite L2.
    destruct (expected_spawn_err k (obs_of s lp enp) noncoro nc_bad og); reflexivity.
Qed.

(** ** get_group_ids *)
Definition mgo (gr : list (gname * list nat)) : list gname -> list nat -> result :=
  fix go (l : list gname) (acc : list nat) : result :=
    match l with
    | [] => RIds acc
    | g :: t =>
        match glookup g gr with
        | Some ids => go t (fold_left dict_add ids acc)
        | None => RErr ErrGroupNotFound
        end
    end.

Lemma get_ids_shape s gs :
  do_op s (OpGetGroupIds gs) =
  set_res (fold_left know gs s) (mgo (groups (fold_left know gs s)) gs []).
Proof. reflexivity. Qed.

Lemma want_mgo o gr : (forall g, group_ids o g = glookup g gr) ->
  forall gs acc acc', (forall t, In t acc <-> In t acc') ->
  match want_ids o gs acc, mgo gr gs acc' with
  | Some w, RIds ids => forall t, In t w <-> In t ids
  | None, RErr ErrGroupNotFound => True
  | _, _ => False
  end.
Proof.
  intros Hg. induction gs as [|g gs IH]; intros acc acc' Hacc; simpl; [exact Hacc|].
  rewrite Hg. destruct (glookup g gr) as [ids|]; [|exact I].
  apply IH. intros t. rewrite in_app_iff, PInv_G_Base.fold_dict_add_In, Hacc. tauto.
Qed.

Lemma getids_ok_obs s' l en gr gs :
  KN s' -> groups s' = gr -> res s' = mgo gr gs [] -> getids_ok (obs_of s' l en) gs = true.
Proof.
  intros HK Eg Er. unfold getids_ok. cbn [o_res obs_of]. rewrite Er.
  pose proof (want_mgo (obs_of s' l en) gr) as H.
  specialize (H (fun g => eq_trans (group_ids_obs s' l en g HK) (f_equal (glookup g) Eg))).
  specialize (H gs [] [] (fun t => iff_refl _)).
  destruct (want_ids (obs_of s' l en) gs []) as [w|]; destruct (mgo gr gs []) as [|n|ids|e];
    try contradiction.
  - apply andb_true_iff. split; apply forallb_forall; intros t Ht; apply mem_In; apply H; exact Ht.
  - destruct e; try contradiction. reflexivity.
Qed.

(** ** the state clause *)
Lemma regs_disjoint (gs : list (gname * list nat)) g ids g' ids' x :
  NoDup (concat (map snd gs)) -> In (g, ids) gs -> In (g', ids') gs -> g <> g' ->
  In x ids -> In x ids' -> False.
Proof.
  induction gs as [|[h v] r IH]; simpl; [tauto|]. intros Hnd H1 H2 Hne Hx Hx'.
  apply PInv_G_Base.NoDup_app_iff in Hnd. destruct Hnd as (Hv & Hr & Hd).
  assert (Hin : forall k w, In (k, w) r -> In x w -> In x (concat (map snd r))).
  { intros k w Hk Hw. apply in_concat. exists w. split; auto.
    apply in_map_iff. exists (k, w). auto. }
  destruct H1 as [E1|H1]; destruct H2 as [E2|H2].
  - congruence.
  - inversion E1; subst. apply (Hd x Hx). eapply Hin; eauto.
  - inversion E2; subst. apply (Hd x Hx'). eapply Hin; eauto.
  - eapply IH; eauto.
Qed.

Lemma part10_obs s l en :
  NoDup (known s) -> NoDup (map fst (groups s)) -> NoDup (concat (map snd (groups s))) ->
  part10 (obs_of s l en) = true.
Proof.
  intros Hk Hnd Hdj. unfold part10. cbn [o_groups obs_of].
  rewrite flat_map_concat_map, map_map, <- flat_map_concat_map. cbn [snd].
  induction (known s) as [|g ks IH]; [reflexivity|].
  inversion Hk as [|? ? Hnin Hk']; subst. cbn [flat_map].
  destruct (glookup g (groups s)) as [ids|] eqn:Hg; cbn [app]; [|apply IH; exact Hk'].
  cbn [pairwise_disjoint]. rewrite (IH Hk'), andb_true_r.
  apply forallb_forall. intros b Hb. apply in_flat_map in Hb. destruct Hb as (g' & Hg' & Hb).
  destruct (glookup g' (groups s)) as [ids'|] eqn:Hl'; [|destruct Hb].
  destruct Hb as [<-|[]].
  apply forallb_forall. intros x Hx. apply negb_true_iff. apply mem_false_In. intros Hx'.
  apply (regs_disjoint (groups s) g ids g' ids' x); auto using PMonSound_C06.glookup_In.
  intros ->. contradiction.
Qed.
