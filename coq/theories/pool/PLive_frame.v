(** Eventual completion — frames.  No internal move and neither of the two harness gates touches
    the ghost taint flags [taint_size], [taint_iter], [taint_self] (frame [frt]); drivers and
    gather callbacks touch neither the pool-task table nor the spawner table. *)
From TP Require Import PInv.
From TP Require Export PLive_pot PProgress_step.

Unset Implicit Arguments.

(** ** primitives *)
Lemma frt_sched s h : frt (sched s h) = frt s.
Proof. unfold sched. destruct (is_ready s h); reflexivity. Qed.

Lemma frt_set_ctl s c : frt (set_ctl s c) = frt s. Proof. reflexivity. Qed.
Lemma frt_emit s e : frt (emit s e) = frt s. Proof. reflexivity. Qed.
Lemma frt_put_p s t x : frt (put_p s t x) = frt s. Proof. reflexivity. Qed.
Lemma frt_put_m s t x : frt (put_m s t x) = frt s. Proof. reflexivity. Qed.
Lemma frt_put_d s t x : frt (put_d s t x) = frt s. Proof. reflexivity. Qed.

Lemma frt_fold {A} (f : state -> A -> state) :
  (forall s a, frt (f s a) = frt s) -> forall l s, frt (fold_left f l s) = frt s.
Proof. intros H l. induction l; simpl; intros; auto. now rewrite IHl, H. Qed.

Lemma frt_sched_cbs s r : frt (sched_cbs s r) = frt s.
Proof. unfold sched_cbs. apply frt_fold. apply frt_sched. Qed.

Lemma frt_wake_next s : frt (wake_next s) = frt s.
Proof.
  unfold wake_next. destruct (first_pending _ _); auto. destruct (get_m s n); auto.
  now rewrite frt_sched.
Qed.

Lemma frt_sem_release s : frt (sem_release s) = frt s.
Proof. unfold sem_release. now rewrite frt_wake_next. Qed.

Lemma frt_map_release s m : frt (map_release s m) = frt s.
Proof.
  unfold map_release. destruct (get_m s m) as [x|]; auto.
  destruct (m_pc x); auto; destruct (m_fw x) as [[]|]; auto; now rewrite frt_sched.
Qed.

Lemma frt_wake_closed ds : forall s, frt (wake_closed s ds) = frt s.
Proof.
  induction ds as [|d r IH]; simpl; intros s; auto. rewrite IH.
  destruct (get_d s d); auto. destruct (fut_pending _); auto.
  now rewrite frt_sched, frt_put_d.
Qed.

Ltac frts :=
  repeat first
    [ reflexivity
    | rewrite frt_set_ctl | rewrite frt_emit | rewrite frt_put_p | rewrite frt_put_m
    | rewrite frt_put_d | rewrite frt_sched | rewrite frt_sched_cbs | rewrite frt_sem_release
    | rewrite frt_wake_next | rewrite frt_map_release | rewrite frt_wake_closed
    | dmatch ].

(** ** pool tasks *)
Lemma frt_finish_p s t x : frt (finish_p s t x) = frt s.
Proof. unfold finish_p. frts. Qed.

Lemma frt_suspend_p s t x pc : frt (suspend_p s t x pc) = frt s.
Proof. unfold suspend_p. frts. Qed.

Lemma frt_enter_end s t x : frt (enter_end s t x) = frt s.
Proof. unfold enter_end. cbv zeta beta. frts; rewrite ?frt_finish_p; frts. Qed.

Lemma frt_enter_cancel s t x : frt (enter_cancel s t x) = frt s.
Proof. unfold enter_cancel. cbv zeta. frts; rewrite ?frt_enter_end; frts. Qed.

Lemma frt_continue_p s t : frt (continue_p s t) = frt s.
Proof.
  unfold continue_p.
  repeat first [ reflexivity | rewrite frt_enter_end | rewrite frt_enter_cancel
               | rewrite frt_finish_p | rewrite frt_suspend_p | rewrite frt_emit | dmatch ].
Qed.

Lemma frt_run_p s t : frt (run_p s t) = frt s.
Proof.
  unfold run_p. cbv zeta.
  repeat first [ reflexivity | rewrite frt_enter_end | rewrite frt_enter_cancel
               | rewrite frt_finish_p | rewrite frt_set_ctl | rewrite frt_emit | dmatch ].
Qed.

(** ** spawners *)
Lemma frt_finish_m s m x e : frt (finish_m s m x e) = frt s.
Proof. unfold finish_m. frts. Qed.

Lemma frt_suspend_m s m x pc : frt (suspend_m s m x pc) = frt s.
Proof. unfold suspend_m. frts. Qed.

Lemma frt_register s m x : frt (register s m x) = frt s.
Proof. unfold register. cbv zeta. frts. Qed.

Lemma frt_to_iter s m : frt (to_iter s m) = frt s.
Proof. unfold to_iter. frts. Qed.

Lemma frt_apply_loop rem : forall s m, frt (apply_loop rem s m) = frt s.
Proof.
  induction rem as [|r IH]; intros s m; simpl.
  - destruct (get_m s m); auto. apply frt_finish_m.
  - destruct (get_m s m) as [x|]; auto.
    destruct (nth (m_idx x) (m_bad x) false).
    + rewrite IH. reflexivity.
    + unfold try_start. destruct (closed s); [apply frt_finish_m|].
      destruct (sem_locked s).
      * rewrite frt_suspend_m. reflexivity.
      * rewrite IH, frt_register. reflexivity.
Qed.

Lemma frt_spawn_next s m : frt (spawn_next s m) = frt s.
Proof.
  unfold spawn_next. destruct (get_m s m) as [x|]; auto.
  destruct (m_kind x); [apply frt_apply_loop|apply frt_to_iter|apply frt_apply_loop].
Qed.

Lemma frt_start_then_next s m x : frt (start_then_next s m x) = frt s.
Proof.
  unfold start_then_next, try_start. destruct (closed s); [apply frt_finish_m|].
  destruct (sem_locked s).
  - rewrite frt_suspend_m. reflexivity.
  - rewrite frt_spawn_next, frt_register. reflexivity.
Qed.

Lemma frt_continue_m s m : frt (continue_m s m) = frt s.
Proof.
  unfold continue_m.
  repeat first [ reflexivity | rewrite frt_finish_m | rewrite frt_to_iter | rewrite frt_put_m
               | rewrite frt_suspend_m | rewrite frt_start_then_next | dmatch ].
Qed.

Lemma frt_run_m s m : frt (run_m s m) = frt s.
Proof.
  unfold run_m. cbv zeta.
  repeat first [ reflexivity | rewrite frt_finish_m | rewrite frt_spawn_next | rewrite frt_put_m
               | rewrite frt_register | rewrite frt_wake_next | rewrite frt_sem_release
               | rewrite frt_start_then_next | dmatch ].
Qed.

(** ** drivers and gather callbacks: the taints, the pool tasks and the spawners are untouched *)
Definition frd (s : state) : list ptask * list mtask * (bool * bool * bool) :=
  (ptasks s, mtasks s, frt s).

Lemma frd_sched s h : frd (sched s h) = frd s.
Proof. unfold sched. destruct (is_ready s h); reflexivity. Qed.

Lemma frd_put_d s t x : frd (put_d s t x) = frd s. Proof. reflexivity. Qed.

Lemma frd_wake_closed ds : forall s, frd (wake_closed s ds) = frd s.
Proof.
  induction ds as [|d r IH]; simpl; intros s; auto. rewrite IH.
  destruct (get_d s d); auto. destruct (fut_pending _); auto.
  now rewrite frd_sched, frd_put_d.
Qed.

Lemma frd_finish_d s d x e : frd (finish_d s d x e) = frd s.
Proof. reflexivity. Qed.

Lemma frd_after_g2 s d x outer : frd (after_g2 s d x outer) = frd s.
Proof.
  unfold after_g2. cbv zeta.
  repeat first [ reflexivity | rewrite frd_finish_d | rewrite frd_wake_closed | dmatch ].
Qed.

Lemma frd_start_g2 s d x cs re : frd (start_g2 s d x cs re) = frd s.
Proof.
  unfold start_g2. destruct (make_gather _ _ _) as [g outer].
  destruct outer; rewrite ?frd_after_g2; reflexivity.
Qed.

Lemma frd_after_g1 s d x outer : frd (after_g1 s d x outer) = frd s.
Proof.
  unfold after_g1. cbv zeta.
  repeat first [ reflexivity | rewrite frd_finish_d | rewrite frd_start_g2 | dmatch ].
Qed.

Lemma frd_start_g1 s d x cs re : frd (start_g1 s d x cs re) = frd s.
Proof.
  unfold start_g1. destruct (make_gather _ _ _) as [g outer].
  destruct outer; rewrite ?frd_after_g1; reflexivity.
Qed.

Lemma frd_run_d s d : frd (run_d s d) = frd s.
Proof.
  unfold run_d. cbv zeta.
  repeat first [ reflexivity | rewrite frd_finish_d | rewrite frd_start_g1 | rewrite frd_after_g1
               | rewrite frd_after_g2 | rewrite frd_put_d | dmatch ].
Qed.

Lemma frd_run_g s d c : frd (run_g s d c) = frd s.
Proof.
  unfold run_g.
  repeat first [ reflexivity | rewrite frd_sched | rewrite frd_put_d | dmatch ].
Qed.

Lemma frd_frt s s' : frd s' = frd s -> frt s' = frt s.
Proof. unfold frd. congruence. Qed.

Lemma frd_psi s s' : frd s' = frd s -> psi s' = psi s.
Proof. unfold frd, psi. intros H. injection H as H1 H2 _. now rewrite H1, H2. Qed.

(** ** the two gates *)
Lemma frt_do_finish s t h : frt (do_op s (OpFinish t h)) = frt s.
Proof. unfold do_op. destruct (get_p s t); auto. now rewrite frt_sched. Qed.

Lemma frt_do_release s t : frt (do_op s (OpReleaseCb t)) = frt s.
Proof. unfold do_op. destruct (get_p s t); auto. now rewrite frt_sched. Qed.

Lemma frv_do_finish s t h : frv (do_op s (OpFinish t h)) = frv s.
Proof. unfold do_op. destruct (get_p s t); auto. now rewrite frv_sched. Qed.

Lemma frv_do_release s t : frv (do_op s (OpReleaseCb t)) = frv s.
Proof. unfold do_op. destruct (get_p s t); auto. now rewrite frv_sched. Qed.

