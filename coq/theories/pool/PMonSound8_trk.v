(** Monitor soundness, C08 — the tracker side (pure facts about PMon.v): how the driver table
    [k_drvs] and the flag [k_closed] evolve, and which clauses of property 8 one monitor step can
    produce. *)
From TP Require Import PMon PMonSound_trk PMonSound_gen PMonSound_C13_trk.

Lemma map_upd8 {A B} (f : A -> B) l n x : map f (upd l n x) = upd (map f l) n (f x).
Proof. revert n. induction l as [|h t IH]; intros [|n]; simpl; auto. now rewrite IH. Qed.

Lemma fp_filter_keep pid (f : clause -> bool) l :
  (forall cl, clause_prop cl = pid -> f cl = true) -> fp pid (filter f l) = fp pid l.
Proof.
  intros H. induction l as [|c l IH]; simpl; auto.
  destruct (f c) eqn:Ef; simpl; rewrite IH; auto.
  destruct (Nat.eqb_spec (clause_prop c) pid) as [E|E]; auto. rewrite (H c E) in Ef. discriminate.
Qed.

(** the part of the tracker that property 8 reads besides requests and live workers *)
Definition d8 (k : trk) := (k_drvs k, k_closed k).

Definition is_gac (kd : dkind) : bool := match kd with DGatherClose _ => true | _ => false end.

(** ** labels *)
Definition spawn_lab (l : label) : bool :=
  match l with
  | LOp (OpApply _ _ _ _ _ _ _) | LOp (OpMap _ _ _ _ _ _ _) | LOp (OpStart _) => true
  | _ => false
  end.

Definition lcl8 (k : trk) (o : obs) : list clause :=
  if negb (o_enabled o) then [] else
  if spawn_lab (o_label o) then
    match o_res o with RName _ => fails (negb (k_closed k)) C08_closed_after | _ => [] end
  else [].

Definition new_drv (l : label) (en : bool) : list dkind :=
  match l with LOp (OpDriver kd) => if en then [kd] else [] | _ => [] end.

Definition dl8 (k k1 : trk) (o : obs) : Prop :=
  map v_kind (k_drvs k1) = map v_kind (k_drvs k) ++ new_drv (o_label o) (o_enabled o) /\
  map v_done (k_drvs k1) =
    map v_done (k_drvs k) ++ map (fun _ => None) (new_drv (o_label o) (o_enabled o)) /\
  k_closed k1 = k_closed k.

Lemma dl8_same k k1 o :
  new_drv (o_label o) (o_enabled o) = [] -> d8 k1 = d8 k -> dl8 k k1 o.
Proof.
  unfold d8, dl8. intros -> E. injection E as E1 E2. rewrite E1, E2, !app_nil_r. auto.
Qed.

Lemma on_spawn_8 k o first noncoro nc_bad g meth mk :
  (forall n, d8 (mk n) = d8 k) ->
  d8 (fst (on_spawn k o first noncoro nc_bad g meth mk)) = d8 k /\
  fp 8 (snd (on_spawn k o first noncoro nc_bad g meth mk)) =
    match o_res o with RName _ => fails (negb (k_closed k)) C08_closed_after | _ => [] end.
Proof.
  intros Hmk. unfold on_spawn. destruct (o_res o); cbn [fst snd]; split; auto;
    try (apply NCp_fp; ncp).
  fpsimp. reflexivity.
Qed.

Lemma on_label_8 c k o :
  dl8 k (fst (on_label c k o)) o /\ fp 8 (snd (on_label c k o)) = lcl8 k o.
Proof.
  unfold on_label, lcl8. destruct (o_enabled o) eqn:En; cbn [negb].
  2:{ split; [|reflexivity]. apply dl8_same; [rewrite En; destruct (o_label o) as [| |[]]|]; reflexivity. }
  destruct (o_label o) as [h| |op] eqn:El;
    try (split; [apply dl8_same; [rewrite El|]|]; reflexivity).
  destruct op; cbn [spawn_lab].
  - match goal with |- context [on_spawn ?a ?b ?c ?d ?e ?f ?g ?h] =>
      destruct (on_spawn_8 a b c d e f g h) as [A B]; [intros; reflexivity|] end.
    split; [apply dl8_same; [rewrite El; reflexivity|exact A]|exact B].
  - match goal with |- context [on_spawn ?a ?b ?c ?d ?e ?f ?g ?h] =>
      destruct (on_spawn_8 a b c d e f g h) as [A B]; [intros; reflexivity|] end.
    split; [apply dl8_same; [rewrite El; reflexivity|exact A]|exact B].
  - match goal with |- context [on_spawn ?a ?b ?c ?d ?e ?f ?g ?h] =>
      destruct (on_spawn_8 a b c d e f g h) as [A B]; [intros; reflexivity|];
      destruct (on_spawn a b c d e f g h) as [k1 cs] end.
    cbn [fst snd] in A, B. destruct (o_res o); cbn [fst snd];
      (split; [apply dl8_same; [rewrite El; reflexivity|exact A]|]); try exact B.
    rewrite fp_app. rewrite (fp_fails_other 8) by discriminate. rewrite app_nil_r.
    rewrite fp_filter_keep; [exact B|]. intros cl Hcl. destruct cl; try reflexivity; discriminate.
  - destruct (o_res o); cbn [fst snd]; (split; [apply dl8_same; [rewrite El|]; reflexivity|]);
      apply NCp_fp; ncp.
  - destruct (o_res o); cbn [fst snd]; (split; [apply dl8_same; [rewrite El|]; reflexivity|]);
      apply NCp_fp; ncp.
  - cbn [fst snd]. split; [apply dl8_same; [rewrite El|]; reflexivity|]. apply NCp_fp. ncp.
  - destruct (o_res o); cbn [fst snd]; (split; [apply dl8_same; [rewrite El|]; reflexivity|]);
      apply NCp_fp; ncp.
  - destruct (o_res o); cbn [fst snd]; (split; [apply dl8_same; [rewrite El|]; reflexivity|]);
      apply NCp_fp; ncp.
  - cbn [fst snd]. split; [apply dl8_same; [rewrite El|]; reflexivity|]. apply NCp_fp. ncp.
  - cbn [fst snd]. split; [apply dl8_same; [rewrite El|]; reflexivity|]. apply NCp_fp. ncp.
  - destruct v; cbn [fst snd]; (split; [apply dl8_same; [rewrite El|]; reflexivity|]);
      apply NCp_fp; ncp.
  - cbn [fst snd]. split; [apply dl8_same; [rewrite El|]; reflexivity|]. apply NCp_fp. ncp.
  - cbn [fst snd]. split; [|reflexivity]. unfold dl8. rewrite El, En. cbn [new_drv map].
    destruct k0; cbn [k_drvs set_k_drvs set_k_flags k_with k_closed]; rewrite !map_app; auto.
  - destruct h; cbn [fst snd]; (split; [apply dl8_same; [rewrite El|]; reflexivity|]); reflexivity.
  - split; [apply dl8_same; [rewrite El|]; reflexivity|reflexivity].
Qed.

(** ** events *)
Definition complete8 (o : obs) (x : req) : bool :=
  negb (r_before_gac x) || r_dead x ||
  match r_kind x with
  | MMap _ => Nat.eqb (r_pulls x) (S (length (r_els x)))
  | _ => match group_ids o (r_group x) with
         | Some ids => Nat.eqb (length ids) (expected_created x)
         | None => true
         end
  end.

Definition dcl8 (k : trk) (o : obs) (kd : dkind) (oc : outcome) : list clause :=
  match kd, oc with
  | DGatherClose _, OResult =>
      fails (match k_live k with [] => true | _ => false end) C08_no_live
      ++ fails (Nat.eqb (o_nr o + o_nc o + o_ne o) 0) C08_empty
      ++ fails (forallb (complete8 o) (k_reqs k)) C08_requests_complete
  | DGatherClose _, _ =>
      fails (match k_raised k with [] => false | _ => true end) C08_returns_normally
  | DUntilClosed, _ => fails (k_closed k) C08_until_not_early
  | DFlush _, _ => []
  end.

Definition set_done (v : drv) (oc : outcome) : drv :=
  {| v_kind := v_kind v; v_done := Some oc; v_quiet := v_quiet v; v_ne := v_ne v |}.

Lemma on_event_8_done k o d oc v :
  nth_error (k_drvs k) d = Some v ->
  fp 8 (snd (on_event k o (EvDriverDone d oc))) = dcl8 k o (v_kind v) oc /\
  k_drvs (fst (on_event k o (EvDriverDone d oc))) = upd (k_drvs k) d (set_done v oc) /\
  k_closed (fst (on_event k o (EvDriverDone d oc))) = k_closed k || (is_gac (v_kind v) && isres oc).
Proof.
  intros Hv. unfold on_event, dcl8. rewrite Hv. fold (set_done v oc). fold (complete8 o).
  destruct (v_kind v) eqn:Ek; destruct oc; cbn [fst snd is_gac isres andb];
    try (destruct (k_prev k) as [p|] eqn:Ep; cbn [fst snd]);
    cbn [k_drvs set_k_drvs set_k_flags k_with k_closed]; rewrite ?orb_false_r, ?orb_true_r;
    (split; [fpsimp; try reflexivity|split; reflexivity]).
Qed.

Lemma on_event_8_other k o e :
  is_done e = false -> fp 8 (snd (on_event k o e)) = [] /\ d8 (fst (on_event k o e)) = d8 k.
Proof.
  destruct e as [t r el|t|t|kd t cl|kd t raised|kd t|r n|d oc]; try discriminate; intros _;
    unfold on_event, d8.
  - destruct (nth_error (k_reqs k) r) as [x|]; cbn [fst snd]; split; auto;
      apply NCp_fp; try (destruct (is_map_kind (r_kind x))); ncp.
  - cbn [fst snd]. split; auto. apply NCp_fp. ncp.
  - cbn [fst snd]. split; auto. apply NCp_fp. ncp.
  - destruct kd; cbn [fst snd]; split; auto; apply NCp_fp; ncp.
  - cbn [fst snd]. split; auto. apply NCp_fp. ncp.
  - cbn [fst snd]. split; auto.
  - destruct (nth_error (k_reqs k) r) as [x|]; cbn [fst snd]; split; auto; apply NCp_fp; ncp.
Qed.

Lemma on_events_8_none es : forall k o,
  (forall e, In e es -> is_done e = false) ->
  fp 8 (snd (on_events k o es)) = [] /\ d8 (fst (on_events k o es)) = d8 k.
Proof.
  induction es as [|e es IH]; intros k o H; simpl; auto.
  destruct (on_event_8_other k o e (H e (or_introl eq_refl))) as [A1 A2].
  destruct (on_event k o e) as [k1 c1]. simpl in *.
  destruct (IH k1 o (fun e' He' => H e' (or_intror He'))) as [B1 B2].
  destruct (on_events k1 o es) as [k2 c2]. simpl in *.
  rewrite fp_app, A1, B1, B2, A2. auto.
Qed.

Lemma on_events_single k o e :
  on_events k o [e] = (fst (on_event k o e), snd (on_event k o e) ++ []).
Proof. simpl. destruct (on_event k o e) as [k1 c1]. reflexivity. Qed.

Lemma note_raising_8 es : forall k, d8 (note_raising_starts k es) = d8 k.
Proof.
  unfold note_raising_starts.
  induction es as [|e es IH]; intros k; simpl; auto.
  match goal with |- context [fold_left ?f es ?k1] => rewrite (IH k1) end.
  destruct e; auto.
  destruct (req_of k tid) as [[[r0 el0] x0]|]; auto.
  destruct (w_first _); auto.
Qed.

(** ** the state clause *)
Definition until_ok (v : drv) : bool :=
  match v_kind v, v_done v with DUntilClosed, None => false | _, _ => true end.

Definition ucl8 (k : trk) (o : obs) : list clause :=
  fails (negb (quiet k o) || negb (k_closed k) || forallb until_ok (k_drvs k)) C08_until_released.

Lemma state_clauses_8 c k o : fp 8 (state_clauses c k o) = ucl8 k o.
Proof.
  unfold state_clauses, ucl8. cbv zeta. fold until_ok.
  rewrite !fp_app.
  rewrite (fp_fails 8 _ C08_until_released) by reflexivity.
  repeat rewrite (fp_fails_other 8) by discriminate.
  rewrite (NCp_fp 8 (if negb (k_setsize k) then _ else _)) by (destruct (negb (k_setsize k)); ncp).
  rewrite (NCp_fp 8 (if k_setsize k then _ else _)) by (destruct (k_setsize k); ncp).
  rewrite (NCp_fp 8 (flat_map _ _)).
  - cbn [app]. rewrite app_nil_r. reflexivity.
  - apply NCp_flat_map. intros [r x]. destruct (r_kind x); ncp;
      try (destruct (group_ids o (r_group x)); ncp; destruct (r_dead x); ncp).
Qed.

(** ** one monitor step, as far as property 8 is concerned *)
Lemma mon_step_8 c k o :
  let k1 := fst (on_label c k o) in
  let k2 := fst (on_events k1 o (o_events o)) in
  let k' := fst (mon_step c k o) in
  exists kq,
    fp 8 (snd (mon_step c k o)) =
      lcl8 k o ++ fp 8 (snd (on_events k1 o (o_events o))) ++ ucl8 kq o /\
    d8 kq = d8 k2 /\ d8 k' = d8 k2 /\ dl8 k k1 o.
Proof.
  cbv zeta. unfold mon_step.
  pose proof (on_label_8 c k o) as (L1 & L2).
  destruct (on_label c k o) as [k1 c1]. simpl fst in *. simpl snd in *.
  destruct (on_events k1 o (o_events o)) as [k2 c2] eqn:Eo. simpl fst in *. simpl snd in *.
  pose proof (note_raising_8 (o_events o) k2) as N.
  set (k3 := note_raising_starts k2 (o_events o)) in *.
  exists (set_k_nids k3 (k_nids k)).
  cbn [snd fst]. rewrite !fp_app, L2, state_clauses_8.
  split; [reflexivity|]. split; [exact N|]. split; [exact N|exact L1].
Qed.

(** the request table, the live workers and the raised exceptions in a step whose label is a
    handle and whose only event is a driver completion *)
Lemma on_label_run c k o h : o_label o = LRun h -> on_label c k o = (k, []).
Proof. intros H. unfold on_label. rewrite H. destruct (negb (o_enabled o)); reflexivity. Qed.

Lemma on_event_done_same k o d oc :
  k_reqs (fst (on_event k o (EvDriverDone d oc))) = k_reqs k /\
  k_live (fst (on_event k o (EvDriverDone d oc))) = k_live k /\
  k_raised (fst (on_event k o (EvDriverDone d oc))) = k_raised k.
Proof.
  unfold on_event. destruct (nth_error (k_drvs k) d) as [v|]; [|auto].
  destruct (v_kind v); destruct oc; cbn [fst snd];
    try (destruct (k_prev k) as [p|]; cbn [fst snd]); auto.
Qed.
