(** Pool tasks: run_p / continue_p preserve IR and are weak-similar. *)
From TP Require Export PInv_Q_rel.
Set Implicit Arguments. Unset Strict Implicit.

Ltac frw := repeat (progress (autorewrite with fr; cbn)).

Definition moved (s1 : state) (t : nat) (x : ptask) : state :=
    let s2 := set_t_ended s1 (dict_add (t_ended s1) t) in
    let s3 := sem_release s2 in
    let x := set_p_nrel x (S (p_nrel x)) in
    let s4 := if p_ismap x then map_release s3 (p_req x) else s3 in
    match p_ecb x with
    | CbNone => finish_p s4 t x
    | _ =>
        set_ctl (emit (put_p s4 t (set_p_pc (set_p_necb x (S (p_necb x))) PUEndCb))
                      (EvCbBegin KEnd t (classify s4 t)))
                (CUser (TP t))
    end.

Lemma enter_end_eq s t x :
  enter_end s t x =
  if mem t (t_running s) then moved (set_t_running s (remove1 t (t_running s))) t x
  else if mem t (t_cancelled s) then moved (set_t_cancelled s (remove1 t (t_cancelled s))) t x
  else finish_p s t (set_p_exc x (Some EKeyError)).
Proof. reflexivity. Qed.

Definition good2 (s s' : state) : Prop := IR s' /\ wsim s s'.

Lemma good2_ssim s s' : IR s -> ssim s s' -> good2 s s'.
Proof. intros H S. split; [eapply ssim_IR; eauto | apply ssim_wsim; auto]. Qed.

Lemma waiters_pool_eq s s1 :
  mtasks s1 = mtasks s -> sem_waiters s1 = sem_waiters s -> waiters_pool s -> waiters_pool s1.
Proof. unfold waiters_pool, get_m. intros A B H. rewrite A, B. auto. Qed.

Lemma moved_good s s1 t x0 x :
  IR s -> waiters_pool s ->
  ptasks s1 = ptasks s -> mtasks s1 = mtasks s -> sem_waiters s1 = sem_waiters s ->
  groups s1 = groups s -> num_started s1 = num_started s -> taint_iter s1 = taint_iter s ->
  get_p s t = Some x0 -> psim x0 x -> p_nrel x0 = 0 ->
  good2 s (moved s1 t x).
Proof.
  intros HIR Hw Ep Em Ew Eg En Et Hx [Pi Pn] N0.
  set (s2 := set_t_ended s1 (dict_add (t_ended s1) t)).
  assert (ssim s (sem_release s2)) as Hs.
  { eapply ssim_trans; [|apply sem_release_ssim].
    - apply ssim_ceq; auto.
    - eapply waiters_pool_eq; [| |exact Hw]; auto. }
  set (s3 := sem_release s2) in *.
  assert (IR s3) as HIR3 by (eapply ssim_IR; eauto).
  assert (get_p s3 t = Some x0) as Hx3.
  { unfold get_p, s3, s2. autorewrite with fr. cbn. rewrite Ep. exact Hx. }
  destruct Pi as [P1 [P2 [P3 [P4 [P5 [P6 P7]]]]]].
  assert (forall s', ptasks s' = upd (ptasks (moved s1 t x)) t (set_p_nrel x 1) -> True) as _ by auto.
  cut (IR (moved s1 t x) /\ wsim s3 (moved s1 t x)).
  { intros [A B]. split; auto. eapply wsim_trans; [apply ssim_wsim; exact Hs | exact B]. }
  unfold moved. fold s2. fold s3. cbn [p_ismap p_req p_ecb set_p_nrel].
  assert (Hq : forall s4, s4 = (if p_ismap x then map_release s3 (p_req x) else s3) ->
     ptasks s4 = ptasks s3 /\ groups s4 = groups s3 /\ num_started s4 = num_started s3 /\
     taint_iter s4 = taint_iter s3 /\
     mtasks s4 = (if p_ismap x0 then mtasks (map_release s3 (p_req x0)) else mtasks s3)).
  { intros s4 ->. rewrite P7, P1. destruct (p_ismap x0); autorewrite with fr; auto 10. }
  set (s4 := if p_ismap x then map_release s3 (p_req x) else s3) in *.
  destruct (Hq s4 eq_refl) as [Q1 [Q2 [Q3 [Q4 Q5]]]]. clearbody s4. clear Hq.
  destruct (p_ecb x) eqn:Hecb;
    (eapply IR_release with (t := t) (x0 := x0);
      [exact HIR3 | exact Hx3 | exact N0 | | |
       unfold finish_p, put_p; frw; rewrite Q1; reflexivity | ..];
     [ unfold pimm; cbn; intuition congruence
     | cbn; rewrite Pn, N0; reflexivity
     | unfold finish_p, put_p; frw; auto .. ]).
Qed.

Definition feq (s s1 : state) : Prop :=
  ptasks s1 = ptasks s /\ mtasks s1 = mtasks s /\ sem_waiters s1 = sem_waiters s /\
  groups s1 = groups s /\ num_started s1 = num_started s /\ taint_iter s1 = taint_iter s.

Lemma feq_refl s : feq s s.
Proof. unfold feq; auto 10. Qed.

Lemma feq_emit s s1 e : feq s s1 -> feq s (emit s1 e).
Proof. unfold feq. frw. unfold emit. cbn. auto. Qed.

Lemma feq_ssim s s1 : feq s s1 -> ssim s s1.
Proof. intros [A [B [C [D [E F]]]]]. apply ssim_ceq; auto. Qed.

Lemma enter_end_good s s1 t x0 x :
  IR s -> waiters_pool s -> feq s s1 ->
  get_p s t = Some x0 -> psim x0 x -> p_nrel x0 = 0 ->
  good2 s (enter_end s1 t x).
Proof.
  intros HIR Hw [A [B [C [D [E F]]]]] Hx P N0. rewrite enter_end_eq.
  destruct (mem t (t_running s1)); [|destruct (mem t (t_cancelled s1))].
  - eapply moved_good; eauto.
  - eapply moved_good; eauto.
  - apply good2_ssim; auto.
    eapply ssim_trans; [apply ssim_ceq; eauto|].
    eapply finish_p_ssim with (x0 := x0).
    + unfold get_p. rewrite A. exact Hx.
    + eapply psim_trans; [exact P|psim_tac].
Qed.

Lemma enter_cancel_good s s1 t x0 x :
  IR s -> waiters_pool s -> feq s s1 ->
  get_p s t = Some x0 -> psim x0 x -> p_nrel x0 = 0 ->
  good2 s (enter_cancel s1 t x).
Proof.
  intros HIR Hw Hf Hx P N0. unfold enter_cancel.
  pose proof Hf as [A [B [C [D [E F]]]]].
  destruct (mem t (t_running s1)).
  - destruct (p_ccb x) eqn:Hc.
    + eapply enter_end_good; eauto.
    + apply good2_ssim; auto. unfold put_p. ssim_fin; try congruence.
      * rewrite A. eapply F2p_upd; [exact Hx|]. eapply psim_trans; [exact P|psim_tac].
      * rewrite B. apply F2m_refl.
    + apply good2_ssim; auto. unfold put_p. ssim_fin; try congruence.
      * rewrite A. eapply F2p_upd; [exact Hx|]. eapply psim_trans; [exact P|psim_tac].
      * rewrite B. apply F2m_refl.
  - eapply enter_end_good; eauto; try (eapply psim_trans; [exact P|psim_tac]).
Qed.

Lemma finish_p_ssim' s s1 t x0 x :
  feq s s1 -> get_p s t = Some x0 -> psim x0 x -> ssim s (finish_p s1 t x).
Proof.
  intros Hf Hx P. eapply ssim_trans; [apply feq_ssim; exact Hf|].
  eapply finish_p_ssim; [|exact P]. unfold get_p. destruct Hf as [A _]. rewrite A. exact Hx.
Qed.

Ltac psim_tac' :=
  unfold cb_raise;
  repeat match goal with |- context [if ?b then _ else _] => destruct b end;
  psim_tac.

Ltac feq_tac := repeat apply feq_emit; apply feq_refl.

Ltac pleaf HIR Hw Hx N0 :=
  first
  [ apply good2_ssim; [exact HIR|];
    first [ apply ssim_refl
          | eapply suspend_p_ssim; [exact Hx|psim_tac']
          | eapply finish_p_ssim'; [feq_tac|exact Hx|psim_tac'] ]
  | eapply enter_end_good; [exact HIR|exact Hw|feq_tac|exact Hx|psim_tac'|exact N0]
  | eapply enter_cancel_good; [exact HIR|exact Hw|feq_tac|exact Hx|psim_tac'|exact N0] ].

Definition counts_all (s : state) : Prop := forall t x, get_p s t = Some x -> counts_ok x.

Lemma continue_p_good s t :
  IR s -> waiters_pool s -> counts_all s -> good2 s (continue_p s t).
Proof.
  intros HIR Hw Hc. unfold continue_p.
  destruct (get_p s t) as [x|] eqn:Hx; [|apply good2_ssim; auto; apply ssim_refl].
  pose proof (Hc _ _ Hx) as [_ [_ [_ [_ Hpc]]]].
  destruct (p_pc x) eqn:Epc; try (apply good2_ssim; auto; apply ssim_refl).
  - assert (p_nrel x = 0) as N0 by tauto.
    destruct (w_first (p_w x)); pleaf HIR Hw Hx N0.
  - assert (p_nrel x = 0) as N0 by tauto.
    destruct (p_fin x); pleaf HIR Hw Hx N0.
  - assert (p_nrel x = 0) as N0 by tauto.
    destruct (w_cancel (p_w x)); pleaf HIR Hw Hx N0.
  - assert (p_nrel x = 0) as N0 by tauto.
    destruct (p_ccb x) as [|r|[] r]; pleaf HIR Hw Hx N0.
  - destruct (p_ecb x) as [|r|[] r]; pleaf HIR Hw Hx Hpc.
Qed.

Lemma ssim_putp s s' t x0 x :
  get_p s t = Some x0 -> psim x0 x ->
  ptasks s' = upd (ptasks s) t x -> mtasks s' = mtasks s -> groups s' = groups s ->
  num_started s' = num_started s -> taint_iter s' = taint_iter s -> ssim s s'.
Proof.
  intros Hx P A B C D E. constructor; auto; try congruence.
  - rewrite A. eapply F2p_upd; eauto.
  - rewrite B. apply F2m_refl.
Qed.

Ltac pleaf2 HIR Hw Hx N0 :=
  first
  [ pleaf HIR Hw Hx N0
  | apply good2_ssim; [exact HIR|];
    eapply ssim_putp; [exact Hx | | unfold put_p; frw; reflexivity ..]; psim_tac' ].

Lemma run_p_good s t :
  IR s -> waiters_pool s -> counts_all s -> good2 s (run_p s t).
Proof.
  intros HIR Hw Hc. unfold run_p.
  destruct (get_p s t) as [x|] eqn:Hx; [|apply good2_ssim; auto; apply ssim_refl].
  pose proof (Hc _ _ Hx) as [_ [_ [_ [_ Hpc]]]].
  cbv zeta.
  destruct (p_pc x) eqn:Epc; try (apply good2_ssim; auto; apply ssim_refl).
  - assert (p_nrel x = 0) as N0 by tauto.
    destruct (task_input (p_mc x) (p_fw x)); cbn [p_unst set_p_mc set_p_fw];
      try destruct (p_unst x); pleaf2 HIR Hw Hx N0.
  - destruct (task_input (p_mc x) (p_fw x)); pleaf2 HIR Hw Hx Hpc.
  - assert (p_nrel x = 0) as N0 by tauto.
    destruct (task_input (p_mc x) (p_fw x)); pleaf2 HIR Hw Hx N0.
  - destruct (task_input (p_mc x) (p_fw x)); pleaf2 HIR Hw Hx Hpc.
Qed.
