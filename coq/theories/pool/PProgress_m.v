(** Progress — spawners: [run_m] never increases the measure, [continue_m] strictly decreases it
    at the argument iterator's user point.  No invariant is needed: the potential of a spawner
    suspended inside an iteration already contains the price of the task that iteration creates
    ([it D (Rm x - 1)] plus a constant), so truncated subtraction does the case [Rm x = 0]. *)
From TP Require Import PInv.
From TP Require Export PProgress_p.

Unset Implicit Arguments.

(** ** frames *)
Lemma frv_finish_m s m x e : frv (finish_m s m x e) = frv s.
Proof. unfold finish_m. frs. Qed.

Lemma frv_suspend_m s m x pc : frv (suspend_m s m x pc) = frv s.
Proof. unfold suspend_m. frs. Qed.

Lemma frv_register s m x : frv (register s m x) = frv s.
Proof. unfold register. cbv zeta. frs. Qed.

Lemma frv_to_iter s m : frv (to_iter s m) = frv s.
Proof. unfold to_iter. frs. Qed.

Lemma frv_apply_loop rem : forall s m, frv (apply_loop rem s m) = frv s.
Proof.
  induction rem as [|r IH]; intros s m; simpl.
  - destruct (get_m s m); auto. apply frv_finish_m.
  - destruct (get_m s m) as [x|]; auto.
    destruct (nth (m_idx x) (m_bad x) false).
    + rewrite IH. reflexivity.
    + unfold try_start. destruct (closed s); [apply frv_finish_m|].
      destruct (sem_locked s).
      * rewrite frv_suspend_m. reflexivity.
      * rewrite IH, frv_register. reflexivity.
Qed.

Lemma frv_spawn_next s m : frv (spawn_next s m) = frv s.
Proof.
  unfold spawn_next. destruct (get_m s m) as [x|]; auto.
  destruct (m_kind x); [apply frv_apply_loop|apply frv_to_iter|apply frv_apply_loop].
Qed.

Lemma frv_start_then_next s m x : frv (start_then_next s m x) = frv s.
Proof.
  unfold start_then_next, try_start. destruct (closed s); [apply frv_finish_m|].
  destruct (sem_locked s).
  - rewrite frv_suspend_m. reflexivity.
  - rewrite frv_spawn_next, frv_register. reflexivity.
Qed.

Lemma frv_continue_m s m : frv (continue_m s m) = frv s.
Proof.
  unfold continue_m.
  repeat first [ reflexivity | rewrite frv_finish_m | rewrite frv_to_iter | rewrite frv_put_m
               | rewrite frv_suspend_m | rewrite frv_start_then_next | dmatch ].
Qed.

Lemma frv_run_m s m : frv (run_m s m) = frv s.
Proof.
  unfold run_m. cbv zeta.
  repeat first [ reflexivity | rewrite frv_finish_m | rewrite frv_spawn_next | rewrite frv_put_m
               | rewrite frv_register | rewrite frv_wake_next | rewrite frv_sem_release
               | rewrite frv_start_then_next | dmatch ].
Qed.

(** ** remaining iterations *)
Definition reg_x (x : mtask) : mtask :=
  set_m_holds (set_m_ncreated (set_m_idx (set_m_pc x MLoopHead) (S (m_idx x)))
                              (S (m_ncreated x))) false.

Lemma Rm_reg x : Rm (reg_x x) <= Rm x - 1.
Proof. unfold Rm, reg_x. cbn. lia. Qed.

Lemma Rm_idx x : Rm (set_m_idx x (S (m_idx x))) <= Rm x - 1.
Proof. unfold Rm. cbn. lia. Qed.

Lemma Rm_pos_num x r : S r = m_num x - m_idx x -> 1 <= Rm x.
Proof. unfold Rm. lia. Qed.

Lemma Rm_pos_els x e : nth_error (m_els x) (m_idx x) = Some e -> 1 <= Rm x.
Proof.
  intros H. assert (m_idx x < length (m_els x)) by (apply nth_error_Some; congruence).
  unfold Rm. lia.
Qed.

(** ** the measure *)
Lemma mu_finish_m D s m x e xs :
  get_m s m = Some xs -> Dn s <= D -> muD D (finish_m s m x e) + phi_m D xs <= muD D s + D.
Proof.
  intros G HD. unfold finish_m.
  set (x' := set_m_final _ _).
  rewrite mu_set_ctl.
  pose proof (mu_sched_cbs D (put_m s m x') (TM m)) as H1.
  assert (H0 : Dn (put_m s m x') = Dn s) by reflexivity.
  pose proof (mu_put_m D s m x' G) as H2.
  assert (H3 : phi_m D x' = 0) by reflexivity.
  lia.
Qed.

Lemma mu_suspend_m D s m x pc xs :
  get_m s m = Some xs ->
  muD D (suspend_m s m x pc) + phi_m D xs <= muD D s + phi_mc D pc (Rm x) + 1.
Proof.
  intros G. unfold suspend_m. destruct (m_mc x); rewrite mu_set_ctl.
  - set (x' := set_m_fw _ _).
    pose proof (mu_sched D (put_m s m x') (HT (TM m))) as H1.
    pose proof (mu_put_m D s m x' G) as H2.
    assert (H3 : phi_m D x' = 0 + phi_mc D pc (Rm x)) by reflexivity. lia.
  - set (x' := set_m_fw _ _).
    pose proof (mu_put_m D s m x' G) as H2.
    assert (H3 : phi_m D x' = 1 + phi_mc D pc (Rm x)) by reflexivity. lia.
Qed.

Lemma pend_le1 f : pend f <= 1.
Proof. unfold pend. destruct (fut_pending f); lia. Qed.

Lemma get_m_register s m x xs : get_m s m = Some xs -> get_m (register s m x) m = Some (reg_x x).
Proof.
  intros G. unfold register. cbv zeta.
  apply get_m_put_m. rewrite get_m_sched. unfold get_m in *. cbn. congruence.
Qed.

(** creating a task costs the task (D + 8), its ready handle, and leaves the spawner at the loop
    head with one iteration less *)
Lemma mu_register D s m x xs :
  get_m s m = Some xs ->
  muD D (register s m x) + phi_m D xs <=
  muD D s + (D + 9) + pend (m_fw x) + (D + 3) + it D (Rm x - 1).
Proof.
  intros G. unfold register. cbv zeta.
  match goal with |- context [put_m (sched ?s0 ?h) m ?y] =>
    set (s1 := s0); set (x' := y) end.
  assert (G1 : get_m (sched s1 (HT (TP (num_started s)))) m = Some xs).
  { rewrite get_m_sched. exact G. }
  pose proof (mu_put_m D _ m x' G1) as H1.
  pose proof (mu_sched D s1 (HT (TP (num_started s)))) as H2.
  assert (H3 : muD D s1 = muD D s + (D + 8)).
  { unfold muD, s1. cbn. rewrite lsum_app. unfold phi_p. cbn. lia. }
  assert (H4 : phi_m D x' = pend (m_fw x) + (D + 3 + it D (Rm (reg_x x)))) by reflexivity.
  pose proof (it_mono D _ _ (Rm_reg x)). lia.
Qed.

Lemma mu_to_iter D s m x :
  get_m s m = Some x ->
  muD D (to_iter s m) + phi_m D x = muD D s + pend (m_fw x) + (D + 2 + it D (Rm x)).
Proof.
  intros G. unfold to_iter. rewrite G. rewrite mu_set_ctl, mu_emit.
  pose proof (mu_put_m D s m (set_m_pc x MAtIter) G) as H.
  assert (phi_m D (set_m_pc x MAtIter) = pend (m_fw x) + (D + 2 + it D (Rm x))) by reflexivity.
  lia.
Qed.

Lemma phi_m_loophead D x :
  m_pc x = MLoopHead -> phi_m D x = pend (m_fw x) + (D + 3 + it D (Rm x)).
Proof. intros H. unfold phi_m. rewrite H. reflexivity. Qed.

(** [for i in range(num)] *)
Lemma mu_apply_loop D rem : forall s m x,
  get_m s m = Some x -> m_pc x = MLoopHead -> rem = m_num x - m_idx x -> Dn s <= D ->
  muD D (apply_loop rem s m) <= muD D s.
Proof.
  induction rem as [|r IH]; intros s m x G Hpc Hrem HD; simpl; rewrite G.
  - pose proof (mu_finish_m D s m x None x G HD). pose proof (phi_m_loophead D x Hpc). lia.
  - pose proof (phi_m_loophead D x Hpc) as HP.
    pose proof (it_S D (Rm x) (Rm_pos_num x r Hrem)) as HS.
    destruct (nth (m_idx x) (m_bad x) false).
    + set (x1 := set_m_idx x (S (m_idx x))).
      assert (G1 : get_m (put_m s m x1) m = Some x1) by (apply get_m_put_m; congruence).
      specialize (IH (put_m s m x1) m x1 G1 Hpc).
      assert (Hr : r = m_num x1 - m_idx x1) by (unfold x1; cbn; lia).
      specialize (IH Hr HD).
      pose proof (mu_put_m D s m x1 G) as H1.
      assert (H2 : phi_m D x1 = pend (m_fw x) + (D + 3 + it D (Rm x1))).
      { unfold phi_m. unfold x1 at 1 2. cbn [m_fw m_pc set_m_idx]. rewrite Hpc. reflexivity. }
      pose proof (it_mono D _ _ (Rm_idx x)). fold x1 in H. lia.
    + unfold try_start. destruct (closed s).
      * cbn [fst snd]. pose proof (mu_finish_m D s m x (Some EPoolIsClosed) x G HD). lia.
      * destruct (sem_locked s).
        -- pose proof (mu_suspend_m D (set_sem_waiters s (sem_waiters s ++ [m])) m x MWaitPool x G)
             as H1.
           cbn [phi_mc] in H1.
           assert (muD D (set_sem_waiters s (sem_waiters s ++ [m])) = muD D s) by reflexivity.
           lia.
        -- set (s1 := set_sem_value s (ninf_pred (sem_value s))).
           assert (G1 : get_m s1 m = Some x) by exact G.
           pose proof (get_m_register s1 m x x G1) as G2.
           pose proof (mu_register D s1 m x x G1) as H1.
           assert (muD D s1 = muD D s) by reflexivity.
           assert (HD2 : Dn (register s1 m x) <= D).
           { rewrite (frv_Dn _ _ (frv_register s1 m x)). exact HD. }
           specialize (IH (register s1 m x) m (reg_x x) G2 eq_refl).
           assert (Hr : r = m_num (reg_x x) - m_idx (reg_x x)) by (unfold reg_x; cbn; lia).
           specialize (IH Hr HD2). lia.
Qed.

Lemma mu_spawn_next D s m x :
  get_m s m = Some x -> m_pc x = MLoopHead -> Dn s <= D ->
  muD D (spawn_next s m) <= muD D s.
Proof.
  intros G Hpc HD. unfold spawn_next. rewrite G.
  destruct (m_kind x).
  - apply (mu_apply_loop D _ s m x G Hpc eq_refl HD).
  - pose proof (mu_to_iter D s m x G). pose proof (phi_m_loophead D x Hpc). lia.
  - apply (mu_apply_loop D _ s m x G Hpc eq_refl HD).
Qed.

(** [_start_task] and the next turn of the loop, whatever the stored record was worth *)
Lemma mu_start_then_next D s m x xs :
  get_m s m = Some xs -> Dn s <= D ->
  muD D (start_then_next s m x) + phi_m D xs <= muD D s + (2 * D + 15 + it D (Rm x - 1)).
Proof.
  intros G HD. unfold start_then_next, try_start. destruct (closed s).
  - pose proof (mu_finish_m D s m x (Some EPoolIsClosed) xs G HD). lia.
  - destruct (sem_locked s).
    + pose proof (mu_suspend_m D (set_sem_waiters s (sem_waiters s ++ [m])) m x MWaitPool xs G)
        as H1.
      cbn [phi_mc] in H1.
      assert (muD D (set_sem_waiters s (sem_waiters s ++ [m])) = muD D s) by reflexivity.
      lia.
    + set (s1 := set_sem_value s (ninf_pred (sem_value s))).
      assert (G1 : get_m s1 m = Some xs) by exact G.
      pose proof (get_m_register s1 m x xs G1) as G2.
      pose proof (mu_register D s1 m x xs G1) as H1.
      assert (muD D s1 = muD D s) by reflexivity.
      assert (HD2 : Dn (register s1 m x) <= D).
      { rewrite (frv_Dn _ _ (frv_register s1 m x)). exact HD. }
      pose proof (mu_spawn_next D (register s1 m x) m (reg_x x) G2 eq_refl HD2).
      pose proof (pend_le1 (m_fw x)). lia.
Qed.

(** A spawner inside its argument iterator: continuing strictly decreases the measure. *)
Lemma mu_continue_m D s m x :
  get_m s m = Some x -> m_pc x = MAtIter -> Dn s <= D ->
  muD D (continue_m s m) < muD D s.
Proof.
  intros G Hpc HD. unfold continue_m. rewrite G, Hpc.
  assert (HP : phi_m D x = pend (m_fw x) + (D + 2 + it D (Rm x))).
  { unfold phi_m. rewrite Hpc. reflexivity. }
  destruct (nth_error (m_els x) (m_idx x)) as [e|] eqn:E.
  - pose proof (it_S D (Rm x) (Rm_pos_els x e E)) as HS.
    destruct (e_bad e).
    + set (x1 := set_m_idx x (S (m_idx x))).
      assert (G1 : get_m (put_m s m x1) m = Some x1) by (apply get_m_put_m; congruence).
      pose proof (mu_to_iter D (put_m s m x1) m x1 G1) as H1.
      pose proof (mu_put_m D s m x1 G) as H2.
      assert (H3 : m_fw x1 = m_fw x) by reflexivity. rewrite H3 in H1.
      pose proof (it_mono D _ _ (Rm_idx x)) as H4. fold x1 in H4. lia.
    + destruct (m_mapval x) as [|v].
      * pose proof (mu_suspend_m D s m x MWaitMap x G) as H1. cbn [phi_mc] in H1. lia.
      * pose proof (mu_start_then_next D s m (set_m_holds (set_m_mapval x v) true) x G HD) as H1.
        assert (H2 : Rm (set_m_holds (set_m_mapval x v) true) = Rm x) by reflexivity.
        rewrite H2 in H1. lia.
  - pose proof (mu_finish_m D s m x None x G HD). lia.
Qed.

(** the hand-off does not touch a record whose future is not pending *)
Lemma get_m_wake_next s m x :
  get_m s m = Some x -> fut_pending (m_fw x) = false -> get_m (wake_next s) m = Some x.
Proof.
  intros G F. unfold wake_next.
  destruct (first_pending s (sem_waiters s)) as [m0|] eqn:E; auto.
  destruct (get_m s m0) as [y|] eqn:G0; auto.
  rewrite get_m_sched. unfold get_m, put_m. cbn.
  destruct (Nat.eq_dec m0 m) as [->|Hne].
  - apply first_pending_spec in E. unfold m_fw_of in E. rewrite G in E. congruence.
  - rewrite nth_error_upd_neq; auto.
Qed.

Lemma get_m_sem_release s m x :
  get_m s m = Some x -> fut_pending (m_fw x) = false -> get_m (sem_release s) m = Some x.
Proof. intros G F. unfold sem_release. apply get_m_wake_next; auto. Qed.

(** Running the ready handle of a spawner never increases the measure. *)
Lemma mu_run_m D s m : Dn s <= D -> muD D (run_m s m) <= muD D s.
Proof.
  intros HD. unfold run_m. destruct (get_m s m) as [x0|] eqn:G; [|lia]. cbv zeta.
  set (x := set_m_mc (set_m_fw x0 None) false).
  assert (HR : Rm x = Rm x0) by reflexivity.
  assert (HP : phi_m D x0 = pend (m_fw x0) + phi_mc D (m_pc x0) (Rm x0)) by reflexivity.
  destruct (m_pc x0) eqn:Epc; try lia; cbn [phi_mc] in HP.
  - (* MNotStarted *)
    destruct (task_input (m_mc x0) (m_fw x0)).
    + set (x1 := set_m_pc x MLoopHead).
      assert (G1 : get_m (put_m s m x1) m = Some x1) by (apply get_m_put_m; congruence).
      pose proof (mu_spawn_next D (put_m s m x1) m x1 G1 eq_refl HD) as H1.
      pose proof (mu_put_m D s m x1 G) as H2.
      assert (H3 : phi_m D x1 = 0 + (D + 3 + it D (Rm x0))) by reflexivity. lia.
    + pose proof (mu_finish_m D s m x (Some ECancelled) x0 G HD). lia.
    + pose proof (mu_finish_m D s m x (Some ECancelled) x0 G HD). lia.
  - (* MWaitMap *)
    destruct (task_input (m_mc x0) (m_fw x0)).
    + pose proof (mu_start_then_next D s m (set_m_holds x true) x0 G HD) as H1.
      assert (H2 : Rm (set_m_holds x true) = Rm x0) by reflexivity. rewrite H2 in H1. lia.
    + match goal with |- context [finish_m s m ?y None] =>
        pose proof (mu_finish_m D s m y None x0 G HD) end. lia.
    + match goal with |- context [finish_m s m ?y None] =>
        pose proof (mu_finish_m D s m y None x0 G HD) end. lia.
  - (* MWaitPool *)
    set (s1 := put_m (set_sem_waiters s (remove1 m (sem_waiters s))) m x).
    assert (G1 : get_m s1 m = Some x).
    { unfold s1. apply get_m_put_m. unfold get_m in *. cbn. congruence. }
    assert (M1 : muD D s1 + phi_m D x0 = muD D s + phi_m D x).
    { unfold s1. apply (mu_put_m D (set_sem_waiters s (remove1 m (sem_waiters s))) m x G). }
    assert (P1 : phi_m D x = 0 + (2 * D + 14 + it D (Rm x0 - 1))).
    { unfold phi_m. unfold x at 1 2. cbn [m_fw m_pc set_m_mc set_m_fw]. rewrite Epc. reflexivity. }
    assert (HD1 : Dn s1 <= D) by exact HD.
    assert (F1 : fut_pending (m_fw x) = false) by reflexivity.
    clearbody s1.
    destruct (task_input (m_mc x0) (m_fw x0)).
    + set (s2 := if ninf_pos (sem_value s1) then wake_next s1 else s1).
      assert (M2 : muD D s2 <= muD D s1).
      { unfold s2. destruct (ninf_pos (sem_value s1)); [apply mu_wake_next|lia]. }
      assert (G2 : get_m s2 m = Some x).
      { unfold s2. destruct (ninf_pos (sem_value s1)); auto. apply get_m_wake_next; auto. }
      assert (HD2 : Dn s2 <= D).
      { unfold s2. destruct (ninf_pos (sem_value s1)); auto.
        rewrite (frv_Dn _ _ (frv_wake_next s1)). exact HD1. }
      clearbody s2.
      pose proof (get_m_register s2 m x x G2) as G3.
      pose proof (mu_register D s2 m x x G2) as H3.
      assert (HD3 : Dn (register s2 m x) <= D).
      { rewrite (frv_Dn _ _ (frv_register s2 m x)). exact HD2. }
      pose proof (mu_spawn_next D (register s2 m x) m (reg_x x) G3 eq_refl HD3) as H4.
      assert (H5 : pend (m_fw x) = 0) by reflexivity.
      rewrite HR in H3. lia.
    + set (s2 := if match m_fw x0 with Some FCancelled => true | _ => false end
                 then s1 else sem_release s1).
      assert (M2 : muD D s2 <= muD D s1).
      { unfold s2. destruct (match m_fw x0 with Some FCancelled => true | _ => false end);
          [lia|apply mu_sem_release]. }
      assert (G2 : get_m s2 m = Some x).
      { unfold s2. destruct (match m_fw x0 with Some FCancelled => true | _ => false end); auto.
        apply get_m_sem_release; auto. }
      assert (HD2 : Dn s2 <= D).
      { unfold s2. destruct (match m_fw x0 with Some FCancelled => true | _ => false end); auto.
        rewrite (frv_Dn _ _ (frv_sem_release s1)). exact HD1. }
      clearbody s2.
      match goal with |- context [finish_m s2 m ?y None] =>
        pose proof (mu_finish_m D s2 m y None x G2 HD2) end. lia.
    + set (s2 := if match m_fw x0 with Some FCancelled => true | _ => false end
                 then s1 else sem_release s1).
      assert (M2 : muD D s2 <= muD D s1).
      { unfold s2. destruct (match m_fw x0 with Some FCancelled => true | _ => false end);
          [lia|apply mu_sem_release]. }
      assert (G2 : get_m s2 m = Some x).
      { unfold s2. destruct (match m_fw x0 with Some FCancelled => true | _ => false end); auto.
        apply get_m_sem_release; auto. }
      assert (HD2 : Dn s2 <= D).
      { unfold s2. destruct (match m_fw x0 with Some FCancelled => true | _ => false end); auto.
        rewrite (frv_Dn _ _ (frv_sem_release s1)). exact HD1. }
      clearbody s2.
      match goal with |- context [finish_m s2 m ?y None] =>
        pose proof (mu_finish_m D s2 m y None x G2 HD2) end. lia.
Qed.
