(** Monitor soundness: the executable monitor of PMon.v never reports a violated clause of
    property C02 on the model's own observation stream (for every clean run). *)
From TP Require Import PSpec PMon PRun PWF PProps_A PInv_R_base PMonSound_trk PMonSound_C01
  PMonSound2_def PMonSound2_tk PMonSound2_trk PMonSound2_ev PMonSound2_op PMonSound2_lbl
  PMonSound2_rel.

Definition RR2 (c : config) (s : state) (k : trk) : Prop :=
  (exists tr0, s = run c tr0) /\
  exists TG, InvA (map imm_req (k_reqs k)) TG (aview_of k) s None /\
             map imm_m (mtasks s) = map imm_req (k_reqs k).

Lemma InvA_init c RI TG : InvA RI TG (aview_of (trk_init c)) (init c) None.
Proof.
  split; [constructor|]. split; [|intros a g E; discriminate E].
  intros u. unfold st_at, get_p. cbn.
  assert (E : nth_error (@nil ptask) u = None) by (destruct u; reflexivity).
  rewrite E. cbn. repeat split; auto; try (intros k []).
Qed.

Lemma RR2_init c : RR2 c (init c) (trk_init c).
Proof.
  split; [exists []; reflexivity|]. exists []. split; [apply InvA_init|reflexivity].
Qed.

(** ** the state clauses of property 2 *)
Lemma ph_real_cb x : in_callbacks x = false -> ph_of (p_pc x) <> PhCan /\ ph_of (p_pc x) <> PhEnd.
Proof. unfold in_callbacks. destruct (p_pc x); simpl; intros H; split; congruence. Qed.

Lemma quiet2_sound RI TG s kk l en :
  InvA RI TG (aview_of kk) s None -> PMon.quiet kk (obs_of s l en) = true -> PSpec.quiet s.
Proof.
  intros (_ & T & _) Hq. unfold PMon.quiet in Hq. cbn [o_ctl o_ready_empty obs_of] in Hq.
  destruct (ctl_obs s) eqn:Hc; [|discriminate]. apply ctl_obs_idle in Hc.
  apply andb_true_iff in Hq. destruct Hq as [Hr Hcb].
  split; [exact Hc|]. split.
  - destruct (ready s); [reflexivity|discriminate].
  - intros t x Hx. specialize (T t). unfold st_at in T. rewrite Hx in T. cbn [option_map] in T.
    destruct T as (_ & _ & _ & _ & _ & _ & H7 & H8 & _).
    cbn [aview_of a_cbs] in H7, H8. destruct (k_cbs kk); [|discriminate].
    unfold in_callbacks.
    destruct (cancel_pc (p_pc x)) eqn:Hcp.
    + exfalso. apply (proj2 H7). cbn. destruct (p_pc x); simpl in *; congruence.
    + destruct (endcb_pc (p_pc x)) eqn:Hep; [|reflexivity].
      exfalso. apply (proj2 H8). cbn. destruct (p_pc x); simpl in *; congruence.
Qed.

Lemma ph_live_running p : live_ph (ph_of p) -> running_pc p = true.
Proof. unfold live_ph. destruct p; simpl; intros [H|H]; congruence. Qed.

Lemma c02_part_nil TG s kk l en :
  WF s -> InvA (map imm_req (k_reqs kk)) TG (aview_of kk) s None ->
  c02_part kk (obs_of s l en) = [].
Proof.
  intros W HI. unfold c02_part.
  destruct (PMon.quiet kk (obs_of s l en)) eqn:Hq; [|reflexivity]. simpl negb. simpl orb.
  pose proof (quiet2_sound _ _ _ _ _ _ HI Hq) as Q.
  pose proof (C02_of_WF s W) as [C1 C2 _ _ _ _].
  destruct HI as (N & T & _).
  cbn [o_nr o_nc obs_of].
  assert (B1 : Nat.eqb (length (t_running s)) (length (k_live kk)) = true).
  { apply Nat.eqb_eq. apply Nat.le_antisymm.
    - apply NoDup_incl_length.
      + pose proof (I1_nodup s (wf1 s W)) as Hnd. unfold regs in Hnd.
        apply NoDup_app_l in Hnd. exact Hnd.
      + intros u Hu. destruct (C1 Q u Hu) as (x & Hx & Hpc & _).
        specialize (T u). unfold st_at in T. rewrite Hx in T. cbn [option_map] in T.
        apply (proj2 (proj1 T)). cbn. rewrite Hpc. left. reflexivity.
    - apply NoDup_incl_length; [exact N|].
      intros u Hu. specialize (T u). unfold st_at in T.
      destruct (get_p s u) as [x|] eqn:Hx; cbn [option_map] in T.
      + apply (I2_run s (wf2 s W) u x Hx). apply ph_live_running.
        apply (proj1 (proj1 T)). exact Hu.
      + exfalso. apply (proj1 T). exact Hu. }
  assert (B2 : Nat.eqb (length (t_cancelled s)) 0 = true) by (rewrite (C2 Q); reflexivity).
  assert (B3 : forallb (fun t => match req_of kk t with
                                 | Some (_, _, x) => cb_is_none (r_ecb x) || mem t (k_ecb kk)
                                 | None => true end) (k_exited kk) = true).
  { apply forallb_forall. intros t Ht. specialize (T t). unfold st_at in T.
    destruct (get_p s t) as [x|] eqn:Hx; cbn [option_map] in T.
    2:{ exfalso. destruct T as (_ & _ & T3 & _). apply T3. exact Ht. }
    destruct T as (_ & _ & H3 & H4 & _ & _ & _ & _ & _ & H10 & _).
    destruct (H4 Ht) as (Hns & Hnl & Hnn).
    destruct (H3 Hns) as [Ha (ri & R1 & R2 & _)].
    cbn [aview_of a_task a_ecb st_of s_req s_el s_ecb s_nec s_ph] in *.
    unfold req_of. rewrite Ha. rewrite nth_error_map in R1.
    destruct (nth_error (k_reqs kk) (p_req x)) as [xr|]; [|discriminate].
    injection R1 as <-. cbn in R2.
    destruct Q as (_ & _ & Qc). destruct (ph_real_cb x (Qc t x Hx)) as [Hc1 Hc2].
    assert (Hd : p_pc x = PDone).
    { unfold live_ph in Hnl. destruct (p_pc x); simpl in *; try tauto; congruence. }
    pose proof (IH_counts s (wfh s W) t x Hx) as Hco. unfold counts_ok in Hco.
    rewrite Hd in Hco. destruct Hco as (_ & _ & _ & _ & He & _).
    rewrite R2. destruct (p_ecb x) eqn:Hecb; [reflexivity| |];
      (simpl; apply mem_In; apply H10; rewrite He; simpl; discriminate). }
  rewrite B1, B2, B3. reflexivity.
Qed.

(** ** one observation *)
Lemma seq_all n u : u < n -> In u (seq 0 n).
Proof. intros H. apply in_seq. lia. Qed.

Lemma mon_step_sound2 c s k l :
  RR2 c s k -> clean (step s l) ->
  let o := obs_of (step s l) l (enabled (set_res (set_evs s []) RNone) l) in
  filter is_p2 (snd (mon_step c k o)) = [] /\
  RR2 c (step s l) (fst (mon_step c k o)).
Proof.
  intros ((tr0 & Hs) & TG & HI & HM) Hc o.
  destruct (mon_step_23 c k o) as (kk & K1 & K2 & K3 & K4 & K5 & K6 & K7 & _).
  cbv zeta in *.
  destruct (on_label_same c k o) as (A & B & C & D).
  set (k1 := fst (on_label c k o)) in *.
  assert (Hrun : step s l = run c (tr0 ++ [l])) by (rewrite run_snoc, Hs; reflexivity).
  assert (Hcs : clean s) by (eapply clean_step_inv'; eauto).
  assert (W : WF s) by (rewrite Hs; apply WF_run; rewrite <- Hs; exact Hcs).
  assert (W' : WF (step s l)) by (rewrite Hrun; apply WF_run; rewrite <- Hrun; exact Hc).
  assert (Hcfg : cfg s = c) by (rewrite Hs; apply cfg_run).
  (* the invariant after the step, for some target list *)
  assert (Hstep : exists TG',
            InvA (map imm_req (k_reqs k1)) TG' (aview_of kk) (step s l) None /\
            map imm_m (mtasks (step s l)) = map imm_req (k_reqs k1) /\
            snd (fst (avrun (map imm_req (k_reqs k1)) (k_target k1) (o_events o) (aview_of k1)))
            = true).
  { destruct l as [h| |op].
    - (* LRun *)
      assert (Hex : lbl_extra c o = []) by (unfold lbl_extra, o; cbn [o_enabled o_label obs_of]; destruct (enabled _ _); reflexivity).
      rewrite Hex, app_nil_r in C.
      destruct (InvA_step_rg _ TG (aview_of k) False s (LRun h)
                  ltac:(intros o0; discriminate) HI HM (pfacts_of_WF s _ W HM))
        as (I1 & I2 & _ & I4).
      exists TG. rewrite K1, C, A.
      change (o_events o) with (evs (step s (LRun h))).
      rewrite (avrun_TG _ (k_target k1) TG). auto.
    - (* LGo *)
      assert (Hex : lbl_extra c o = []) by (unfold lbl_extra, o; cbn [o_enabled o_label obs_of]; destruct (enabled _ _); reflexivity).
      rewrite Hex, app_nil_r in C.
      destruct (InvA_step_rg _ TG (aview_of k) False s LGo
                  ltac:(intros o0; discriminate) HI HM (pfacts_of_WF s _ W HM))
        as (I1 & I2 & _ & I4).
      exists TG. rewrite K1, C, A.
      change (o_events o) with (evs (step s LGo)).
      rewrite (avrun_TG _ (k_target k1) TG). auto.
    - (* LOp *)
      destruct (step_op_summary s op) as (E1 & E2 & E3). cbv zeta in E1, E2, E3.
      assert (Hex : map imm_m (mtasks (step s (LOp op))) = map imm_req (k_reqs k1)).
      { rewrite E3, C, <- HM. f_equal. unfold lbl_extra, o. cbn [o_enabled o_label o_res obs_of].
        rewrite Hcfg. reflexivity. }
      exists (TG ++ seq 0 (length (ptasks (step s (LOp op))))).
      change (o_events o) with (evs (step s (LOp op))). rewrite E1. simpl avrun.
      rewrite K1. change (o_events o) with (evs (step s (LOp op))). rewrite E1. simpl avrun.
      cbn [fst snd]. rewrite A, C. split; [|split; [rewrite <- C; exact Hex|reflexivity]].
      eapply InvA_op; [exact HI|exact E2|apply incl_appl, incl_refl|].
      intros u x' Hx' _. apply in_or_app. right. apply seq_all. eapply get_p_lt; eauto. }
  destruct Hstep as (TG' & HI' & HM' & Ha).
  assert (HIk : InvA (map imm_req (k_reqs kk)) TG' (aview_of kk) (step s l) None).
  { destruct K2 as (S1 & _). rewrite S1. exact HI'. }
  split.
  - rewrite (K7 Ha). unfold o. rewrite (c02_part_nil TG' (step s l) kk l _ W' HIk). reflexivity.
  - split; [exists (tr0 ++ [l]); exact Hrun|].
    exists TG'. rewrite K3, K4. split; [exact HI'|exact HM'].
Qed.

Lemma mon_run_sound2 c : forall tr s k i,
  RR2 c s k -> clean (fold_left step tr s) -> mon_run c 2 k i (observe_from s tr) = None.
Proof.
  induction tr as [|l tr IH]; intros s k i HR Hc; simpl; auto.
  simpl in Hc.
  assert (Hc1 : clean (step s l)) by (eapply clean_fold_inv; eauto).
  destruct (mon_step_sound2 c s k l HR Hc1) as [Hf HR'].
  cbv zeta in Hf, HR'.
  destruct (mon_step c k _) as [k' cs]. simpl in Hf, HR'.
  change (fun cl => Nat.eqb (clause_prop cl) 2) with is_p2. rewrite Hf.
  apply IH; auto.
Qed.

Theorem mon_C02_sound : forall c tr, clean (run c tr) -> PMon.ok_C02 c (observe c tr) = true.
Proof.
  intros c tr Hc. unfold ok_C02, ok_prop, observe.
  rewrite (mon_run_sound2 c tr (init c) (trk_init c) 0); auto. apply RR2_init.
Qed.
