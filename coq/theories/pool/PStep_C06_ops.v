(** C06, "no other task": spawners, drivers and operations. *)
From TP Require Import PInv PInv_P_base PInv_P_view PInv_P_inv PInv_P_tok PInv_P_leaf
  PInv_P_chain PInv_P_step PSpecStep PStep_C_ev PStep_C_rel PStep_C_run PStep_C06_rec.

(** ** spawners: old records are untouched, new records are unmarked *)
Definition MR (s0 s' : state) : Prop :=
  length (ptasks s0) <= length (ptasks s') /\
  forall t y, get_p s' t = Some y ->
    get_p s0 t = Some y \/ (get_p s0 t = None /\ ~ cancel_marked y).

Lemma MR_refl s : MR s s.
Proof. split; auto. Qed.

Lemma MR_Qpv s0 : Qpv (MR s0).
Proof.
  intros s s' E [a b]. apply pcore_of_pview in E. pose proof (pcore_inv _ _ E) as (_ & _ & _ & _ & Hp & _).
  split; [now rewrite Hp|]. intros t y. rewrite (pv_get_p _ _ t E). apply b.
Qed.

Lemma MR_Qreg s0 : Qreg (MR s0).
Proof.
  intros s m x [a b].
  assert (Hp : ptasks (register s m x) = ptasks s ++ [new_pt m x]).
  { change (vpts (pview (register s m x)) = vpts (pview s) ++ [new_pt m x]).
    now rewrite pv_register. }
  split.
  - rewrite Hp, app_length. lia.
  - intros t y. unfold get_p at 1. rewrite Hp, nth_error_snoc.
    destruct (Nat.ltb_spec t (length (ptasks s))).
    + apply b.
    + destruct (Nat.eqb_spec t (length (ptasks s))) as [->|]; [|discriminate].
      intros [= <-]. right. split.
      * apply nth_error_None. lia.
      * unfold cancel_marked, new_pt. cbn. intuition discriminate.
Qed.

(** ** drivers: task records are untouched *)
Definition SP (s0 s' : state) : Prop := ptasks s' = ptasks s0.

Lemma SP_Qpc s0 : Qpc (SP s0).
Proof.
  intros s s' E H. pose proof (pcore_inv _ _ E) as (_ & _ & _ & _ & Hp & _).
  unfold SP in *. congruence.
Qed.

Lemma SP_after_g2 s0 s d x outer : SP s0 s -> SP s0 (after_g2 s d x outer).
Proof.
  unfold SP. intros <-. change (vpts (pcore (after_g2 s d x outer)) = vpts (pview s)).
  rewrite pc_after_g2. unfold after_g2_v. repeat (first [reflexivity | dmatch]).
Qed.

Lemma SP_run_d s d : ptasks (run_d s d) = ptasks s.
Proof.
  apply (Q_run_d (SP s) (SP_Qpc s)).
  - intros s1 d1 x outer H _. now apply SP_after_g2.
  - reflexivity.
  - intros x0 _ _. now apply SP_after_g2.
Qed.

(** ** cancellation touches only the named records *)
Lemma vget_cancel_p_other v cur t u : u <> t -> vget (cancel_p_v v cur t) u = vget v u.
Proof.
  intros Hne. unfold cancel_p_v.
  repeat (first [reflexivity | dmatch]);
    unfold vget, vput; cbn [vpts]; apply nth_error_upd_neq; auto.
Qed.

Lemma get_cancel_p_other s t u : u <> t -> get_p (cancel_p s t) u = get_p s u.
Proof.
  intros Hne. change (vget (pview (cancel_p s t)) u = vget (pview s) u).
  rewrite pv_cancel_p. now apply vget_cancel_p_other.
Qed.

Lemma get_fold_cancel ids u : forall s,
  ~ In u ids -> get_p (fold_left cancel_p ids s) u = get_p s u.
Proof.
  induction ids as [|t r IH]; simpl; intros s H; auto.
  rewrite IH by tauto. apply get_cancel_p_other. intros ->. tauto.
Qed.

Lemma get_fold_cancel_if ids u : forall s,
  ~ In u ids ->
  get_p (fold_left (fun s t => if mem t (t_running s) then cancel_p s t else s) ids s) u
  = get_p s u.
Proof.
  induction ids as [|t r IH]; simpl; intros s H; auto.
  rewrite IH by tauto. destruct (mem t (t_running s)); auto.
  apply get_cancel_p_other. intros ->. tauto.
Qed.

Lemma get_pv s s' u : pview s' = pview s -> get_p s' u = get_p s u.
Proof. intros E. apply pv_get_p. now apply pcore_of_pview. Qed.

Lemma get_do_cancel s ids u : ~ In u ids -> get_p (do_cancel s ids) u = get_p s u.
Proof.
  intros H. unfold do_cancel. destruct (first_lookup_err s ids); [reflexivity|].
  now apply get_fold_cancel.
Qed.

Lemma get_cancel_group_body s g ids u :
  ~ In u ids -> get_p (cancel_group_body s g ids) u = get_p s u.
Proof.
  intros H. unfold cancel_group_body. rewrite get_fold_cancel_if by auto.
  apply get_pv. rewrite pv_mark_dead. apply pv_cancel_group_metas.
Qed.

Lemma get_cancel_all_groups gs u : forall s,
  ~ In u (concat (map snd gs)) -> get_p (cancel_all_groups s gs) u = get_p s u.
Proof.
  induction gs as [|[g ids] r IH]; simpl; intros s H; auto.
  rewrite in_app_iff in H. rewrite IH by tauto. apply get_cancel_group_body. tauto.
Qed.

Lemma In_firstn_in {A} (x : A) n l : In x (firstn n l) -> In x l.
Proof.
  revert l. induction n; intros [|h r]; simpl; try tauto. intros [?|?]; auto.
Qed.

Lemma In_concat_snd_rev (gs : list (gname * list nat)) u :
  In u (concat (map snd (rev gs))) -> In u (concat (map snd gs)).
Proof.
  rewrite !in_concat. intros (l & Hl & Hu). exists l. split; auto.
  rewrite in_map_iff in *. destruct Hl as (p & <- & Hp). exists p. split; auto.
  now apply in_rev.
Qed.

Lemma groups_know s g : groups (know s g) = groups s.
Proof. unfold know. destruct (existsb _ _); reflexivity. Qed.

Definition targets (s : state) (l : label) (t : nat) : Prop :=
  match l with
  | LOp (OpCancel ids) => In t ids
  | LOp (OpCancelGroup g) => exists ids, glookup g (groups s) = Some ids /\ In t ids
  | LOp OpCancelAll => In t (concat (map snd (groups s)))
  | LOp (OpStop (Some n)) => In t (firstn n (rev (t_running s)))
  | LOp OpStopAll => In t (t_running s)
  | _ => False
  end.

Lemma get_stop s ids u :
  get_p (match res (do_cancel s ids) with
         | RErr _ => do_cancel s ids | _ => set_res (do_cancel s ids) (RIds ids) end) u
  = get_p (do_cancel s ids) u.
Proof. destruct (res _); reflexivity. Qed.

Lemma keeps_finish x h : keeps x (set_p_fin (set_p_fw x (Some FOk)) h).
Proof. kbrute x. Qed.

Lemma keeps_release x : keeps x (set_p_fw x (Some FOk)).
Proof. kbrute x. Qed.

(** an operation either targets [u] or does not mark it *)
Lemma op_keeps s o u x x' :
  get_p s u = Some x -> get_p (do_op s o) u = Some x' ->
  keeps x x' \/ targets s (LOp o) u.
Proof.
  intros Hx Hx'.
  assert (Hsame : get_p (do_op s o) u = get_p s u -> keeps x x' \/ targets s (LOp o) u).
  { intros E. left. assert (x' = x) by congruence. subst. apply keeps_refl. }
  destruct (op_other o) eqn:Eo.
  { apply Hsame. apply pv_get_p, pc_do_op_other, Eo. }
  destruct o; try discriminate; unfold do_op in *.
  - destruct (in_dec Nat.eq_dec u ids) as [i|n]; [right; exact i|].
    apply Hsame, get_do_cancel; auto.
  - rewrite groups_know in *. destruct (glookup g (groups s)) as [ids|] eqn:Eg.
    + destruct (in_dec Nat.eq_dec u ids) as [i|n]; [right; cbn [targets]; eauto|]. apply Hsame.
      rewrite get_cancel_group_body by auto. apply get_pv.
      transitivity (pview (know s g)); [reflexivity|apply pv_know].
    + apply Hsame. apply get_pv. rewrite pv_set_res. apply pv_know.
  - destruct (in_dec Nat.eq_dec u (concat (map snd (groups s)))) as [i|n]; [right; exact i|].
    apply Hsame.
    rewrite get_cancel_all_groups; [reflexivity|]. intros H. apply n. now apply In_concat_snd_rev.
  - destruct n as [n|].
    + destruct (in_dec Nat.eq_dec u (firstn n (rev (t_running s)))) as [i|n0]; [right; exact i|].
      apply Hsame. rewrite get_stop. apply get_do_cancel. exact n0.
    + apply Hsame. rewrite get_stop. apply get_do_cancel. intros [].
  - destruct (in_dec Nat.eq_dec u (t_running s)) as [i|n]; [right; exact i|]. apply Hsame.
    rewrite get_stop. apply get_do_cancel. intros H. apply n. unfold firstn_rev in H.
    apply In_firstn_in in H. now apply in_rev.
  - destruct (get_p s tid) as [y|] eqn:Ey; [|auto].
    change (vget (pview (sched (put_p s tid (set_p_fin (set_p_fw y (Some FOk)) h)) (HT (TP tid)))) u
            = Some x') in Hx'.
    rewrite pv_sched, pv_put_p in Hx'. apply vget_vput in Hx'.
    destruct Hx' as [[_ H]|[-> ->]].
    + left. change (get_p s u = Some x') in H. assert (x' = x) by congruence. subst.
      apply keeps_refl.
    + left. assert (y = x) by congruence. subst. apply keeps_finish.
  - destruct (get_p s tid) as [y|] eqn:Ey; [|auto].
    change (vget (pview (sched (put_p s tid (set_p_fw y (Some FOk))) (HT (TP tid)))) u
            = Some x') in Hx'.
    rewrite pv_sched, pv_put_p in Hx'. apply vget_vput in Hx'.
    destruct Hx' as [[_ H]|[-> ->]].
    + left. change (get_p s u = Some x') in H. assert (x' = x) by congruence. subst.
      apply keeps_refl.
    + left. assert (y = x) by congruence. subst. apply keeps_release.
Qed.

(** operations never create task records *)
Definition PL (s s' : state) : Prop := length (ptasks s') = length (ptasks s).

Lemma PL_refl s : PL s s.
Proof. reflexivity. Qed.
Lemma PL_trans a b c : PL a b -> PL b c -> PL a c.
Proof. unfold PL. congruence. Qed.
Lemma PL_pc s s' : pcore s' = pcore s -> PL s s'.
Proof. intros E. pose proof (pcore_inv _ _ E) as (_ & _ & _ & _ & Hp & _). unfold PL. now rewrite Hp. Qed.
Lemma PL_pv s s' : pview s' = pview s -> PL s s'.
Proof. intros E. now apply PL_pc, pcore_of_pview. Qed.

Lemma PL_cancel_p s t : PL s (cancel_p s t).
Proof.
  unfold PL. change (length (vpts (pview (cancel_p s t))) = length (vpts (pview s))).
  rewrite pv_cancel_p. unfold cancel_p_v.
  repeat (first [reflexivity | dmatch]); cbn [vpts vput]; apply upd_length.
Qed.

Lemma PL_fold {A} (f : state -> A -> state) :
  (forall s a, PL s (f s a)) -> forall l s, PL s (fold_left f l s).
Proof.
  intros H l. induction l; simpl; intros s; [apply PL_refl|].
  eapply PL_trans; [apply H|apply IHl].
Qed.

Lemma PL_do_cancel s ids : PL s (do_cancel s ids).
Proof.
  unfold do_cancel. destruct (first_lookup_err s ids); [now apply PL_pv|].
  apply PL_fold, PL_cancel_p.
Qed.

Lemma PL_cancel_group_body s g ids : PL s (cancel_group_body s g ids).
Proof.
  unfold cancel_group_body. eapply PL_trans; [|apply PL_fold].
  - apply PL_pv. rewrite pv_mark_dead. apply pv_cancel_group_metas.
  - intros s0 t. destruct (mem t (t_running s0)); [apply PL_cancel_p|apply PL_refl].
Qed.

Lemma PL_cancel_all_groups gs : forall s, PL s (cancel_all_groups s gs).
Proof.
  induction gs as [|[g ids] r IH]; simpl; intros s; [apply PL_refl|].
  eapply PL_trans; [apply PL_cancel_group_body|apply IH].
Qed.

Lemma PL_do_op s o : PL s (do_op s o).
Proof.
  destruct (op_other o) eqn:Eo.
  { apply PL_pc, pc_do_op_other, Eo. }
  destruct o; try discriminate; unfold do_op.
  - apply PL_do_cancel.
  - destruct (glookup _ _).
    + eapply PL_trans; [|apply PL_cancel_group_body]. apply PL_pv.
      transitivity (pview (know s g)); [reflexivity|apply pv_know].
    + apply PL_pv. rewrite pv_set_res. apply pv_know.
  - eapply PL_trans; [|apply PL_cancel_all_groups]. now apply PL_pv.
  - destruct (res _); try apply PL_do_cancel;
      (eapply PL_trans; [apply PL_do_cancel|now apply PL_pv]).
  - destruct (res _); try apply PL_do_cancel;
      (eapply PL_trans; [apply PL_do_cancel|now apply PL_pv]).
  - destruct (get_p s tid); [|apply PL_refl]. unfold PL.
    change (length (vpts (pview (sched (put_p s tid (set_p_fin (set_p_fw p (Some FOk)) h))
                                       (HT (TP tid))))) = length (vpts (pview s))).
    rewrite pv_sched, pv_put_p. apply upd_length.
  - destruct (get_p s tid); [|apply PL_refl]. unfold PL.
    change (length (vpts (pview (sched (put_p s tid (set_p_fw p (Some FOk))) (HT (TP tid)))))
            = length (vpts (pview s))).
    rewrite pv_sched, pv_put_p. apply upd_length.
Qed.
