(** IR and IGr are preserved by [step] (given the extra invariant). *)
From TP Require Export PInv_Q_xdef.
Set Implicit Arguments. Unset Strict Implicit.

Lemma tref_eqb_eq a b : tref_eqb a b = true -> a = b.
Proof. destruct a, b; simpl; intros H; try discriminate; apply Nat.eqb_eq in H; congruence. Qed.

Lemma hid_eqb_eq a b : hid_eqb a b = true -> a = b.
Proof.
  destruct a, b; simpl; intros H; try discriminate.
  - apply tref_eqb_eq in H. congruence.
  - apply andb_true_iff in H. destruct H as [H1 H2].
    apply Nat.eqb_eq in H1. apply tref_eqb_eq in H2. congruence.
Qed.

Lemma is_ready_In s h : is_ready s h = true -> In h (ready s).
Proof.
  unfold is_ready. intros H. apply existsb_exists in H. destruct H as [x [Hi He]].
  apply hid_eqb_eq in He. congruence.
Qed.

Lemma eqf_reset s : eqf s (set_res (set_evs s []) RNone).
Proof. constructor; reflexivity. Qed.

Lemma eqf_unsched s s' h : eqf s s' -> eqf s (unsched s' h).
Proof. intros []. constructor; autorewrite with fr; auto. Qed.

Lemma do_op_good s o : IR s -> IGr s -> IR (do_op s o) /\ IGr (do_op s o).
Proof.
  intros HIR HG. destruct (simple_op o) eqn:E.
  - apply both_ssim with (s := s); auto. apply do_op_simple; auto.
  - destruct o; try discriminate.
    + apply do_op_apply; auto.
    + apply do_op_map; auto.
    + apply do_op_start; auto.
    + apply do_op_cancel_group; auto.
    + apply do_op_cancel_all; auto.
Qed.

Lemma good2_both s s' : IGr s -> good2 s s' -> IR s' /\ IGr s'.
Proof. intros HG [A B]. split; auto. eapply wsim_IGr; eauto. Qed.

Lemma continue_m_step s sa m :
  WF s -> Extra_IR s -> eqf s sa -> ctl s = CUser (TM m) -> SP (continue_m sa m).
Proof.
  intros HW HX He Hctl.
  pose proof (SP_of_WF HW He) as HSP.
  destruct (get_m sa m) as [x|] eqn:Hx.
  2:{ unfold continue_m. rewrite Hx. exact HSP. }
  pose proof Hx as Hx0. rewrite (eqf_get_m m He) in Hx0.
  assert (Hpc : m_pc x = MAtIter) by (apply (I5_muser _ (wf5 _ HW) _ _ Hx0); auto).
  assert (Hlive : m_final x = None) by (eapply live_of_pc; eauto; congruence).
  eapply continue_m_good with (x := x);
    [exact HSP | exact Hx | exact Hpc | | exact Hlive | | | ].
  - destruct (X_pc HX Hx0) as [P1 _]. auto.
  - destruct (m_holds x) eqn:E; auto.
    pose proof (IM_holds _ (wfm _ HW) _ _ Hx0 E). congruence.
  - intros Hmc. rewrite (ef_t He). apply (X_canc HX Hx0 Hlive). left; auto.
  - rewrite (ef_c He). destruct (closed s) eqn:Ec; auto.
    destruct (X_closed HX Ec Hx0 Hlive). contradiction.
Qed.

Theorem IR_IGr_step s l : WF s -> Extra_IR s -> IR (step s l) /\ IGr (step s l).
Proof.
  intros HW HX. unfold step.
  pose proof (eqf_reset s) as He.
  set (sa := set_res (set_evs s []) RNone) in *.
  pose proof (SP_of_WF HW He) as [HIRa HGa _].
  destruct (negb (enabled sa l)) eqn:Hen; [split; auto|].
  apply negb_false_iff in Hen.
  destruct l as [h| |o].
  - (* run a ready handle *)
    cbn in Hen. destruct (ctl s) eqn:Hctl; [|discriminate].
    apply is_ready_In in Hen. cbn in Hen.
    pose proof (eqf_unsched h He) as Hb.
    set (sb := unsched sa h) in *.
    pose proof (SP_of_WF HW Hb) as HSPb.
    destruct h as [[t|m|d]|d c]; cbn [run_handle].
    + eapply good2_both; [apply HSPb|].
      apply run_p_good; [apply HSPb | eapply waiters_pool_of_WF; eauto
                        | eapply counts_all_of_WF; eauto].
    + assert (SP (run_m sb m)) as [A B _]; [|split; auto].
      apply run_m_good; auto. intros x0 Hx0 Hpc.
      rewrite (eqf_get_m m Hb) in Hx0. eapply RunPre_of_WF; eauto.
    + apply both_ssim with (s := sb); try apply HSPb. apply run_d_ssim.
    + apply both_ssim with (s := sb); try apply HSPb. apply run_g_ssim.
  - (* continue from a user point *)
    cbn [ctl sa set_res set_evs]. change (ctl sa) with (ctl s).
    destruct (ctl s) as [|[t|m|d]] eqn:Hctl; [split; auto| | |split; auto].
    + eapply good2_both; [exact HGa|].
      apply continue_p_good; auto; [eapply waiters_pool_of_WF | eapply counts_all_of_WF]; eauto.
    + assert (SP (continue_m sa m)) as [A B _]; [|split; auto].
      eapply continue_m_step; eauto.
  - apply do_op_good; auto.
Qed.

(** ** Initial state *)
Lemma get_m_init c m : get_m (init c) m = None.
Proof. unfold get_m. cbn. destruct m; auto. Qed.
Lemma get_p_init c t : get_p (init c) t = None.
Proof. unfold get_p. cbn. destruct t; auto. Qed.

Lemma IR_init c : IR (init c).
Proof.
  constructor; intros; try (rewrite get_m_init in *; discriminate);
    try (rewrite get_p_init in *; discriminate).
Qed.

Lemma IGr_init c : IGr (init c).
Proof.
  constructor; cbn; try constructor; try tauto; intros;
    try (rewrite get_m_init in *; discriminate); try (rewrite get_p_init in *; discriminate).
Qed.

Lemma Extra_IR_init c : Extra_IR (init c).
Proof.
  constructor; intros; try (rewrite get_m_init in *; discriminate).
  - cbn in *. tauto.
  - unfold get_d in *. cbn in *. destruct d; discriminate.
Qed.
