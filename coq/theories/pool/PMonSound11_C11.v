(** Monitor soundness: the executable monitor of PMon.v never reports a violated clause of
    property C11 ([C11_dense], [C11_cb_id]) on the model's own observation stream, for every
    clean run.  No taint precondition is needed.

    Relation between the model state and the tracker: the relation [RR2] of the C02 proof (live
    workers, exited workers and callbacks in flight of the tracker agree with the program
    counters of the task records) together with [k_nids k = num_started s]: the ids seen by the
    observer are exactly the ids issued.  The latter is preserved because every id issued in a
    step is filed at once in the register of a group whose name the observer knows
    ([new_ids_step], invariant [KN]) and no step both issues an id and removes a group. *)
From TP Require Import PInv PSpec PSpecStep PMon PRun PWF PInv_R_base PInv_G_GL
  PMonSound_gen PMonSound_trk PMonSound_kn PMonSound_C06
  PMonSound2_def PMonSound2_tk PMonSound2_lbl PMonSound_C02
  PMonSound11_shape PMonSound11_ids PMonSound11_trk.

Definition RR11 (c : config) (s : state) (k : trk) : Prop :=
  RR2 c s k /\ k_nids k = num_started s.

Lemma RR11_init c : RR11 c (init c) (trk_init c).
Proof. split; [apply RR2_init|reflexivity]. Qed.

(** the head event of a step is accepted by the tracker *)
Lemma hdk_of_InvA RI TG k s e :
  InvA RI TG (aview_of k) s None -> hd_ok s e -> hdk k e.
Proof.
  intros (_ & T & _) H. destruct e as [t r el|t|t|kd t cl|kd t raised|kd t|r n|d oc]; simpl; auto.
  - destruct H as (x & Hx & Hpc). specialize (T t). unfold st_at in T. rewrite Hx in T.
    cbn [option_map] in T. destruct T as (T1 & _ & _ & T4 & _).
    cbn [aview_of a_live a_exited st_of s_ph s_ns] in T1, T4. rewrite Hpc in T1, T4.
    split; apply mem_false_of.
    + intros Hin. apply T1 in Hin. destruct Hin as [E|E]; discriminate E.
    + intros Hin. apply T4 in Hin. destruct Hin as (_ & _ & E). apply E. reflexivity.
  - destruct H as (x & Hx & Hph). specialize (T t). unfold st_at in T. rewrite Hx in T.
    cbn [option_map] in T. destruct T as (_ & _ & _ & _ & _ & _ & T7 & T8 & _).
    cbn [aview_of a_cbs st_of s_ph] in T7, T8. apply has_cb_In.
    destruct kd; simpl in Hph; [apply T8|apply T7]; exact Hph.
Qed.

Lemma Shk_of_Sh RI TG k s es : InvA RI TG (aview_of k) s None -> Sh s es -> Shk k es.
Proof.
  intros HI. destruct es as [|e rest]; [auto|]. intros [Hh Ht]. split; [|exact Ht].
  eapply hdk_of_InvA; eauto.
Qed.

Lemma In_starts t es : In t (starts es) -> exists r el, In (EvStart t r el) es.
Proof.
  unfold starts. rewrite in_flat_map. intros (e & He & Ht).
  destruct e; simpl in Ht; try contradiction. destruct Ht as [<-|[]]. eauto.
Qed.

(** a started task was created before the step *)
Lemma Sh_start_lt s es t r el :
  Sh s es -> In (EvStart t r el) es -> t < length (ptasks s).
Proof.
  destruct es as [|e rest]; [intros _ []|]. intros [Hh Ht] [->|Hin].
  - destruct Hh as (x & Hx & _). eapply get_p_lt; eauto.
  - rewrite Forall_forall in Ht. destruct (Ht _ Hin).
Qed.

(** ** one observation *)
Lemma mon_step_sound11 c s k l :
  RR11 c s k -> clean (step s l) ->
  let o := obs_of (step s l) l (enabled (set_res (set_evs s []) RNone) l) in
  fp 11 (snd (mon_step c k o)) = [] /\
  RR11 c (step s l) (fst (mon_step c k o)).
Proof.
  intros [HR Hn] Hc o.
  destruct (mon_step_sound2 c s k l HR Hc) as [_ HR']. cbv zeta in HR'. fold o in HR'.
  destruct HR as ((tr0 & Hs) & TG & HI & HM).
  assert (Hrun : step s l = run c (tr0 ++ [l])) by (rewrite run_snoc, Hs; reflexivity).
  assert (Hcs : clean s) by (eapply clean_step_inv'; eauto).
  assert (X : WFx s) by (rewrite Hs; apply WFx_run; rewrite <- Hs; exact Hcs).
  pose proof (x_wf s X) as W. pose proof (x_p s X) as EP.
  assert (W' : WF (step s l)) by (rewrite Hrun; apply WF_run; rewrite <- Hrun; exact Hc).
  assert (HKN : KN (step s l)) by (rewrite Hrun; apply KN_run).
  (* events *)
  pose proof (step_shape s l W EP) as HSh.
  destruct (on_label_same c k o) as (A & _).
  assert (HI1 : InvA (map imm_req (k_reqs k)) TG (aview_of (fst (on_label c k o))) s None)
    by (rewrite A; exact HI).
  pose proof (Shk_of_Sh _ _ _ _ _ HI1 HSh) as HShk.
  change (evs (step s l)) with (o_events o) in HShk.
  (* ids *)
  destruct (new_ids_step s l) as [Hle Hnew].
  pose proof (IGr_keys _ (wfgr _ W')) as Hkeys.
  pose proof (fun t => all_ids_obs (step s l) l (enabled (set_res (set_evs s []) RNone) l) t
                                    HKN Hkeys) as Hao.
  fold o in Hao.
  set (seen := all_ids o ++ starts (o_events o)).
  assert (Hub : forall t, In t seen -> t < num_started (step s l)).
  { intros t Ht. unfold seen in Ht. apply in_app_iff in Ht. destruct Ht as [Ht|Ht].
    - apply (IGr_lt _ (wfgr _ W')). apply (Hao t). exact Ht.
    - apply In_starts in Ht. destruct Ht as (r & el & Hin).
      pose proof (Sh_start_lt s _ t r el HSh Hin) as Hlt.
      rewrite <- (I1_len _ (wf1 _ W)) in Hlt. lia. }
  assert (Hall : forall t, num_started s <= t -> t < num_started (step s l) -> In t seen).
  { intros t H1 H2. unfold seen. apply in_or_app. left.
    apply (Hao t).
    destruct (Hnew t H1 H2) as (g & ids & Hg & Hin).
    exact (glookup_In_gvals g (groups (step s l)) ids t Hg Hin). }
  destruct (news_dense (num_started s) (num_started (step s l)) seen Hle Hub Hall) as [D1 D2].
  cbv zeta in D1, D2.
  destruct (mon_step_11 c k o) as [M1 M2].
  split.
  - rewrite M1, (NCp_fp 11 _ (on_events_11 _ o _ HShk)). cbn [app].
    unfold c11_part, news. fold seen. rewrite Hn, D2. reflexivity.
  - split; [exact HR'|]. rewrite M2. unfold news. fold seen. rewrite Hn. exact D1.
Qed.

Lemma mon_run_sound11 c : forall tr s k i,
  RR11 c s k -> clean (fold_left step tr s) -> mon_run c 11 k i (observe_from s tr) = None.
Proof.
  induction tr as [|l tr IH]; intros s k i HR Hc; simpl; auto.
  simpl in Hc.
  assert (Hc1 : clean (step s l)) by (eapply clean_fold_inv; eauto).
  destruct (mon_step_sound11 c s k l HR Hc1) as [Hf HR'].
  cbv zeta in Hf, HR'.
  destruct (mon_step c k _) as [k' cs]. simpl in Hf, HR'.
  unfold fp in Hf. rewrite Hf.
  apply IH; auto.
Qed.

Theorem mon_C11_sound : forall c tr, clean (run c tr) -> PMon.ok_C11 c (PObs.observe c tr) = true.
Proof.
  intros c tr Hc. unfold ok_C11, ok_prop, observe.
  rewrite (mon_run_sound11 c tr (init c) (trk_init c) 0); auto. apply RR11_init.
Qed.

Print Assumptions mon_C11_sound.
