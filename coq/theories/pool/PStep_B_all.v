(** C07 — cancel_all(): the operation does for every group what cancel_group_tasks does for one
    ([C07_all_holds], [C07_all_step]).  All conjuncts are proved as stated; each task id gets
    exactly one cancellation request because the groups' id lists are pairwise disjoint. *)
From TP Require Import PSpecStep PInv_R_base PInv_R_tr PStep_B_mr PStep_B_inv PStep_B_c09
                       PStep_B_c07 PStep_B.

(** ** One group, at an arbitrary state *)
Lemma get_p_mid s g t : get_p (mark_dead (cancel_group_metas s g) g) t = get_p s t.
Proof.
  unfold get_p. change (ptasks (mark_dead ?a g)) with (ptasks a).
  rewrite ptasks_cancel_group_metas. reflexivity.
Qed.

Lemma t_running_mid s g : t_running (mark_dead (cancel_group_metas s g) g) = t_running s.
Proof.
  change (t_running (mark_dead ?a g)) with (t_running a).
  pose proof (pf_cancel_group_metas s g) as Hq. unfold pf in Hq. injection Hq. auto.
Qed.

Lemma get_p_cancel_group_body_notin s g ids t :
  ~ In t ids -> get_p (cancel_group_body s g ids) t = get_p s t.
Proof.
  intros Hn. rewrite cancel_group_body_eq, get_p_fold_cancel_running by auto. apply get_p_mid.
Qed.

Lemma cancel_group_body_req s g ids t x :
  NoDup ids -> In t ids -> In t (t_running s) -> get_p s t = Some x -> p_final x = None ->
  exists x', get_p (cancel_group_body s g ids) t = Some x' /\ cancel_requested x x'.
Proof.
  intros Hnd Hin Hr Hx Hf. rewrite cancel_group_body_eq.
  apply fold_cancel_running_req; auto.
  - rewrite t_running_mid. auto.
  - rewrite get_p_mid. auto.
Qed.

Lemma t_running_cancel_group_body s g ids : t_running (cancel_group_body s g ids) = t_running s.
Proof.
  pose proof (pf_cancel_group_body s g ids) as Hq. unfold pf in Hq. injection Hq. auto.
Qed.

(** ** All groups *)
Lemma pf_cancel_all_groups gs : forall s, pf (cancel_all_groups s gs) = pf s.
Proof.
  induction gs as [|[g ids] r IH]; intros s; simpl; auto.
  rewrite IH. apply pf_cancel_group_body.
Qed.

Lemma get_p_cancel_all_groups_notin gs : forall s t,
  ~ In t (concat (map snd gs)) -> get_p (cancel_all_groups s gs) t = get_p s t.
Proof.
  induction gs as [|[g ids] r IH]; intros s t Hn; simpl in *; auto.
  rewrite IH by (intros H; apply Hn; apply in_app_iff; auto).
  apply get_p_cancel_group_body_notin. intros H; apply Hn; apply in_app_iff; auto.
Qed.

Lemma len_cancel_all_groups gs s :
  length (mtasks (cancel_all_groups s gs)) = length (mtasks s).
Proof.
  assert (H : MR None true s (cancel_all_groups s gs))
    by (apply MR_cancel_all_groups, MR_refl).
  apply (MR_len _ _ _ _ H).
Qed.

Definition has_name (g : gname) (gs : list (gname * list nat)) : bool :=
  existsb (fun p => gname_eqb (fst p) g) gs.

Lemma cancel_all_groups_rec gs : forall s m y,
  get_m s m = Some y ->
  exists y', get_m (cancel_all_groups s gs) m = Some y' /\
             m_group y' = m_group y /\ m_dead y' = (has_name (m_group y) gs || m_dead y).
Proof.
  induction gs as [|[g ids] r IH]; intros s m y Hy; simpl.
  - exists y. auto.
  - destruct (cancel_group_body_rec s g ids m y Hy) as (y1 & Hy1 & Hg1 & _ & Hd1).
    destruct (IH _ m y1 Hy1) as (y' & Hy' & Hg' & Hd').
    exists y'. split; auto. split; [congruence|].
    rewrite Hd', Hd1, Hg1. destruct (has_name (m_group y) r), (gname_eqb g (m_group y)); reflexivity.
Qed.

(** ** Pairwise disjoint id lists *)
Definition disj_groups (gs : list (gname * list nat)) : Prop :=
  forall g ids g' ids' t, In (g, ids) gs -> In (g', ids') gs -> g <> g' ->
                          In t ids -> In t ids' -> False.

Lemma NoDup_app_disjoint {A} (a b : list A) x : NoDup (a ++ b) -> In x a -> In x b -> False.
Proof.
  induction a as [|h t IH]; simpl; intros H Ha Hb; [destruct Ha|].
  inversion H as [|? ? Hn Hd]; subst. destruct Ha as [->|Ha]; [|eauto].
  apply Hn. apply in_app_iff. auto.
Qed.

Lemma disj_of_NoDup l : NoDup (map fst l) -> NoDup (concat (map snd l)) -> disj_groups l.
Proof.
  induction l as [|[h v] r IH]; simpl; intros Hk Hd g ids g' ids' t H1 H2 Hne Ht Ht'.
  - destruct H1.
  - inversion Hk as [|? ? Hnin Hk']; subst.
    destruct H1 as [[= <- <-]|H1], H2 as [[= <- <-]|H2].
    + congruence.
    + eapply NoDup_app_disjoint; [exact Hd|exact Ht|]. apply (In_concat_snd r g' ids' t); auto.
    + eapply NoDup_app_disjoint; [exact Hd|exact Ht'|]. apply (In_concat_snd r g ids t); auto.
    + apply (IH Hk' (NoDup_app_right _ _ Hd) g ids g' ids' t); auto.
Qed.

Lemma disj_rev l : disj_groups l -> disj_groups (rev l).
Proof.
  intros H g ids g' ids' t H1 H2. apply in_rev in H1. apply in_rev in H2. eapply H; eauto.
Qed.

Lemma In_concat_snd_inv (l : list (gname * list nat)) t :
  In t (concat (map snd l)) -> exists g ids, In (g, ids) l /\ In t ids.
Proof.
  intros H. apply in_concat in H. destruct H as (ids & Hin & Ht).
  apply in_map_iff in Hin. destruct Hin as ([g ids'] & <- & Hin). eauto.
Qed.

Lemma In_concat_rev (l : list (gname * list nat)) t :
  In t (concat (map snd (rev l))) <-> In t (concat (map snd l)).
Proof.
  split; intros H; apply In_concat_snd_inv in H; destruct H as (g & ids & Hin & Ht).
  - apply in_rev in Hin. eapply In_concat_snd; eauto.
  - apply in_rev in Hin. eapply In_concat_snd; eauto.
Qed.

(** every unfinished running task of any of the groups gets exactly one request *)
Lemma cancel_all_groups_req gs : forall s t x,
  NoDup (map fst gs) -> disj_groups gs -> (forall g ids, In (g, ids) gs -> NoDup ids) ->
  In t (concat (map snd gs)) -> In t (t_running s) -> get_p s t = Some x -> p_final x = None ->
  exists x', get_p (cancel_all_groups s gs) t = Some x' /\ cancel_requested x x'.
Proof.
  induction gs as [|[g ids] r IH]; intros s t x Hk Hdj Hnd Hin Hr Hx Hf; simpl in *.
  - destruct Hin.
  - inversion Hk as [|? ? Hnin Hk']; subst.
    assert (Hdj' : disj_groups r).
    { intros g1 i1 g2 i2 u H1 H2 H3 H4 H5. apply (Hdj g1 i1 g2 i2 u); simpl; auto. }
    assert (Hdec : In t ids \/ ~ In t ids).
    { destruct (in_dec Nat.eq_dec t ids); auto. }
    destruct Hdec as [Hi|Hn].
    + destruct (cancel_group_body_req s g ids t x (Hnd g ids (or_introl eq_refl)) Hi Hr Hx Hf)
        as (x' & Hx' & Hreq).
      exists x'. split; auto.
      rewrite get_p_cancel_all_groups_notin; auto.
      intros Hc. apply In_concat_snd_inv in Hc. destruct Hc as (g' & ids' & Hin' & Ht').
      apply (Hdj g ids g' ids' t); simpl; auto.
      intros <-. apply Hnin. change g with (fst (g, ids')). apply in_map; auto.
    + apply in_app_iff in Hin. destruct Hin as [Hin|Hin]; [contradiction|].
      apply IH; auto.
      * intros g' ids' H'. apply (Hnd g' ids'). auto.
      * rewrite t_running_cancel_group_body. auto.
      * rewrite get_p_cancel_group_body_notin; auto.
Qed.

Lemma has_name_rev_ghas g l : ghas g l = true -> has_name g (rev l) = true.
Proof.
  unfold ghas, has_name. destruct (glookup g l) as [ids|] eqn:Hl; [|discriminate]. intros _.
  apply existsb_exists. exists (g, ids). split.
  - apply in_rev. rewrite rev_involutive. apply glookup_In; auto.
  - simpl. destruct (gname_eqb_spec g g); congruence.
Qed.

Theorem C07_all_holds : forall s, WF s -> PStep_B_inv.Extra_C s -> res s = RNone ->
  let s' := do_op s OpCancelAll in
  res s' = RNone /\
  groups s' = [] /\
  (forall m y, get_m s' m = Some y -> ghas (m_group y) (groups s) = true -> m_dead y = true) /\
  (forall t x, In t (t_running s) -> In t (concat (map snd (groups s))) ->
               get_p s t = Some x -> p_final x = None ->
               exists x', get_p s' t = Some x' /\ cancel_requested x x') /\
  (forall t, ~ In t (concat (map snd (groups s))) -> get_p s' t = get_p s t) /\
  t_running s' = t_running s /\ t_cancelled s' = t_cancelled s /\ t_ended s' = t_ended s /\
  sem_value s' = sem_value s.
Proof.
  intros s W _ Hres. cbv zeta. unfold do_op.
  set (s0 := set_groups s []). set (gs := rev (groups s)).
  pose proof (pf_cancel_all_groups gs s0) as Hpf. unfold pf in Hpf. cbn in Hpf.
  injection Hpf as E1 E2 E3 E4 E5 E6.
  destruct (wfgr _ W) as [Hkeys Hdisj _ _ _ _].
  split; [congruence|]. split; [auto|]. split; [|split; [|split]].
  - (* dead *)
    intros m y Hy Hg.
    assert (Hlt : m < length (mtasks s0)).
    { apply get_m_lt in Hy. rewrite len_cancel_all_groups in Hy. exact Hy. }
    destruct (lt_get_m _ _ Hlt) as [y0 Hy0].
    destruct (cancel_all_groups_rec gs s0 m y0 Hy0) as (y' & Hy' & Hg' & Hd').
    rewrite Hy in Hy'. injection Hy' as <-. rewrite Hd'. rewrite Hg' in Hg.
    unfold gs. rewrite has_name_rev_ghas; auto.
  - (* requests *)
    intros t x Hr Hin Hx Hf.
    apply cancel_all_groups_req; auto.
    + unfold gs. rewrite map_rev. apply NoDup_rev. exact Hkeys.
    + apply disj_rev. apply disj_of_NoDup; auto.
    + intros g ids Hgi. unfold gs in Hgi. apply in_rev in Hgi.
      apply (NoDup_concat_In (map snd (groups s))); auto.
      change ids with (snd (g, ids)). apply in_map; auto.
    + apply In_concat_rev. exact Hin.
  - (* other tasks *)
    intros t Hn. rewrite get_p_cancel_all_groups_notin; auto.
    intros Hc. apply Hn. apply In_concat_rev. exact Hc.
  - auto.
Qed.

Theorem C07_all_step : forall s, WF s -> PStep_B_inv.Extra_C s ->
  step s (LOp OpCancelAll) = do_op (reset s) OpCancelAll /\
  let s' := do_op (reset s) OpCancelAll in
  res s' = RNone /\
  groups s' = [] /\
  (forall m y, get_m s' m = Some y -> ghas (m_group y) (groups s) = true -> m_dead y = true) /\
  (forall t x, In t (t_running s) -> In t (concat (map snd (groups s))) ->
               get_p s t = Some x -> p_final x = None ->
               exists x', get_p s' t = Some x' /\ cancel_requested x x') /\
  (forall t, ~ In t (concat (map snd (groups s))) -> get_p s' t = get_p s t) /\
  t_running s' = t_running s /\ t_cancelled s' = t_cancelled s /\ t_ended s' = t_ended s /\
  sem_value s' = sem_value s.
Proof.
  intros s W XC. split; [reflexivity|].
  apply (C07_all_holds (reset s)); [apply WF_reset; auto|apply Extra_C_reset; auto|reflexivity].
Qed.
