(** C01, C02, C03 at one state, as consequences of the invariant [WF] (PInv.v).
    No induction over steps here.  [Extra_R] (PInv_R.v) turned out not to be needed. *)
From TP Require Import PSpec.

(** ** List lemmas *)
Lemma count_le_nodup {A} (p : A -> bool) (l : list A) :
  forall ids, NoDup ids ->
    (forall i x, nth_error l i = Some x -> p x = true -> In i ids) ->
    count p l <= length ids.
Proof.
  induction l as [|a l IH] using rev_ind; intros ids Hnd H.
  - simpl. lia.
  - rewrite count_app. simpl.
    assert (Hl : forall i y, nth_error l i = Some y -> p y = true -> In i ids /\ i <> length l).
    { intros i y Hi Hy.
      assert (Hlt : i < length l) by (apply nth_error_Some; congruence).
      split; [|lia]. apply (H i y); auto. rewrite nth_error_app1; auto. }
    destruct (p a) eqn:Hp.
    + assert (Hin : In (length l) ids).
      { apply (H (length l) a); auto.
        rewrite nth_error_app2 by lia. rewrite Nat.sub_diag. reflexivity. }
      assert (Hc : count p l <= length (remove1 (length l) ids)).
      { apply IH.
        - apply NoDup_remove1; auto.
        - intros i y Hi Hy. destruct (Hl i y Hi Hy) as [H1 H2].
          apply In_remove1_neq; auto. }
      rewrite <- (remove1_length_In _ _ Hin). lia.
    + assert (Hc : count p l <= length ids).
      { apply IH; auto. intros i y Hi Hy. apply (Hl i y Hi Hy). }
      lia.
Qed.

Lemma NoDup_app_disj {A} (l1 l2 : list A) x : NoDup (l1 ++ l2) -> In x l1 -> In x l2 -> False.
Proof.
  induction l1 as [|a l1 IH]; simpl; intros Hnd H1 H2; [tauto|].
  inversion Hnd as [|? ? Hnin Hnd']; subst.
  destruct H1 as [->|H1].
  - apply Hnin. apply in_or_app; auto.
  - apply IH; auto.
Qed.

Lemma NoDup_app_l {A} (l1 l2 : list A) : NoDup (l1 ++ l2) -> NoDup l1.
Proof.
  induction l1 as [|a l1 IH]; simpl; intros Hnd; [constructor|].
  inversion Hnd as [|? ? Hnin Hnd']; subst. constructor; auto.
  intros Hin. apply Hnin. apply in_or_app; auto.
Qed.

Lemma NoDup_app_r {A} (l1 l2 : list A) : NoDup (l1 ++ l2) -> NoDup l2.
Proof.
  induction l1 as [|a l1 IH]; simpl; intros Hnd; auto.
  inversion Hnd; subst; auto.
Qed.

Lemma count_zero {A} (p : A -> bool) (l : list A) :
  (forall a, In a l -> p a = false) -> count p l = 0.
Proof.
  induction l as [|a l IH]; simpl; intros H; auto.
  rewrite (H a) by auto. rewrite IH; auto.
Qed.

(** ** Registries *)
Lemma regs_get_p s t : I1 s -> In t (regs s) -> exists x, get_p s t = Some x.
Proof.
  intros [_ Hlt Hlen _] Hin. apply Hlt in Hin. rewrite Hlen in Hin.
  unfold get_p. destruct (nth_error (ptasks s) t) eqn:Hn; eauto.
  apply nth_error_None in Hn. lia.
Qed.

Lemma in_running_regs s t : In t (t_running s) -> In t (regs s).
Proof. intros. unfold regs. apply in_or_app; auto. Qed.
Lemma in_cancelled_regs s t : In t (t_cancelled s) -> In t (regs s).
Proof. intros. unfold regs. apply in_or_app; right. apply in_or_app; auto. Qed.
Lemma in_ended_regs s t : In t (t_ended s) -> In t (regs s).
Proof. intros. unfold regs. apply in_or_app; right. apply in_or_app; auto. Qed.

Lemma regs_disj_rc s t : NoDup (regs s) -> In t (t_running s) -> In t (t_cancelled s) -> False.
Proof.
  unfold regs. intros Hnd H1 H2. eapply NoDup_app_disj; eauto. apply in_or_app; auto.
Qed.
Lemma regs_disj_re s t : NoDup (regs s) -> In t (t_running s) -> In t (t_ended s) -> False.
Proof.
  unfold regs. intros Hnd H1 H2. eapply NoDup_app_disj; eauto. apply in_or_app; auto.
Qed.
Lemma regs_disj_ce s t : NoDup (regs s) -> In t (t_cancelled s) -> In t (t_ended s) -> False.
Proof.
  unfold regs. intros Hnd H1 H2. apply NoDup_app_r in Hnd. eapply NoDup_app_disj; eauto.
Qed.

Lemma regs_length s :
  length (regs s) = length (t_running s) + length (t_cancelled s) + length (t_ended s).
Proof. unfold regs. rewrite !app_length. lia. Qed.

(** ** Quiet states *)
Lemma quiet_cancelled s : WF s -> quiet s -> t_cancelled s = [].
Proof.
  intros W (Hc & Hr & Hq). destruct W as [w1 w2 _ _ _ _ _ _ _ _].
  destruct (t_cancelled s) as [|t l] eqn:Hl; auto. exfalso.
  assert (Hin : In t (t_cancelled s)) by (rewrite Hl; left; auto).
  destruct (regs_get_p s t w1 (in_cancelled_regs s t Hin)) as [x Hx].
  pose proof (proj2 (I2_can s w2 t x Hx) Hin) as Hcp.
  pose proof (Hq t x Hx) as Hic. unfold in_callbacks in Hic. rewrite Hcp in Hic. discriminate.
Qed.

Lemma quiet_waiters s :
  WF s -> quiet s -> forall m, In m (sem_waiters s) -> m_fw_of s m = Some FPending.
Proof.
  intros W (Hc & Hr & Hq) m Hin. destruct W as [_ _ _ _ w4 w5 _ _ _ _].
  apply (I4_in s w4) in Hin. destruct Hin as (x & Hx & Hpc).
  unfold m_fw_of. rewrite Hx.
  pose proof (I5_m s w5 m x Hx) as Hm. rewrite Hr in Hm.
  destruct (m_fw x) as [[| |e|]|] eqn:Hf; auto; exfalso;
    apply (proj2 Hm); right; (split; [auto|congruence]).
Qed.

Lemma waiters_count0 s :
  (forall m, In m (sem_waiters s) -> m_fw_of s m <> Some FOk) ->
  count (fun m => match m_fw_of s m with Some FOk => true | _ => false end) (sem_waiters s) = 0.
Proof.
  intros H. apply count_zero. intros m Hin. specialize (H m Hin).
  destruct (m_fw_of s m) as [[| | |]|]; auto. congruence.
Qed.

Lemma quiet_in_use s : WF s -> quiet s -> in_use s = length (t_running s).
Proof.
  intros W Q. unfold in_use. rewrite (quiet_cancelled s W Q). simpl.
  rewrite waiters_count0; [lia|].
  intros m Hin. rewrite (quiet_waiters s W Q m Hin). discriminate.
Qed.

(** ** C01 *)
Lemma live_le_running s : WF s -> live_workers s <= length (t_running s).
Proof.
  intros W. destruct W as [w1 w2 _ _ _ _ _ _ _ _]. unfold live_workers.
  apply count_le_nodup.
  - pose proof (I1_nodup s w1) as Hnd. unfold regs in Hnd. apply NoDup_app_l in Hnd. exact Hnd.
  - intros t x Hx Hl. apply (I2_run s w2 t x Hx).
    unfold worker_live in Hl. destruct (p_pc x); simpl; congruence.
Qed.

Theorem C01_of_WF : forall s, WF s -> taint_size s = false -> C01_spec s.
Proof.
  intros s W Hts. pose proof W as W'.
  destruct W' as [w1 w2 wh w3 w4 w5 wm wg wr wgr].
  pose proof (I3_slots s w3) as Hsl. pose proof (I3_cap s w3 Hts) as Hcap.
  unfold slots_ok in Hsl. rewrite Hcap in Hsl.
  constructor.
  - (* c01_running *)
    destruct (cf_size (cfg s)) as [c|]; simpl; auto.
    destruct (sem_value s) as [v|]; [|tauto]. apply Nat.leb_le.
    unfold in_use in Hsl. lia.
  - (* c01_live *)
    pose proof (live_le_running s W) as Hlive.
    destruct (cf_size (cfg s)) as [c|]; simpl; auto.
    destruct (sem_value s) as [v|]; [|tauto]. apply Nat.leb_le.
    unfold in_use in Hsl. lia.
  - (* c01_inf *)
    intros Hinf. rewrite Hinf in Hsl.
    destruct (sem_value s) as [v|] eqn:Hv; [tauto|].
    unfold sem_locked. rewrite Hv. rewrite (I3_inf s w3 Hts Hv). reflexivity.
  - (* c01_full_iff *)
    intros Q. pose proof (quiet_in_use s W Q) as Hiu.
    pose proof (quiet_waiters s W Q) as Hw.
    assert (Hzero : sem_locked s = true -> sem_value s = Fin 0).
    { unfold sem_locked. intros Hl. apply orb_true_iff in Hl. destruct Hl as [Hl|Hl].
      - destruct (sem_value s) as [[|v]|]; simpl in Hl; congruence.
      - apply existsb_exists in Hl. destruct Hl as (m & Hin & _).
        destruct (I4_wake s w4 Hts m Hin (Hw m Hin)) as [Hv|(m' & Hin' & Hok)]; auto.
        rewrite (Hw m' Hin') in Hok. discriminate. }
    split.
    + intros Hl. apply Hzero in Hl. rewrite Hl in Hsl.
      destruct (cf_size (cfg s)) as [c|]; [|tauto]. rewrite Hiu in Hsl. simpl in Hsl. congruence.
    + intros Hsz. rewrite Hsz in Hsl. destruct (sem_value s) as [v|] eqn:Hv; [|tauto].
      rewrite Hiu in Hsl. assert (v = 0) by lia. subst v.
      unfold sem_locked. rewrite Hv. reflexivity.
Qed.

(** ** C02 *)
Theorem C02_of_WF : forall s, WF s -> C02_spec s.
Proof.
  intros s W. pose proof W as W'.
  destruct W' as [w1 w2 wh w3 w4 w5 wm wg wr wgr].
  constructor.
  - (* c02_inflight *)
    intros Q t Hin. pose proof Q as (Hc & Hr & Hq).
    destruct (regs_get_p s t w1 (in_running_regs s t Hin)) as [x Hx].
    exists x. split; auto.
    pose proof (proj2 (I2_run s w2 t x Hx) Hin) as Hrun.
    pose proof (I5_p s w5 t x Hx) as Hp. rewrite Hr in Hp.
    pose proof (I5_puser s w5 t x Hx) as Hu. rewrite Hc in Hu.
    destruct (p_pc x) eqn:Hpc; simpl in Hrun; try discriminate;
      try (exfalso; apply (proj2 Hp); left; reflexivity);
      try (exfalso; assert (Hd : CIdle = CUser (TP t)) by (apply Hu; reflexivity);
           discriminate).
    split; auto.
    destruct (p_fw x) as [[| |e|]|] eqn:Hf; auto; exfalso;
      apply (proj2 Hp); right; (split; [reflexivity|congruence]).
  - (* c02_none_cancelled *)
    intros Q. apply quiet_cancelled; auto.
  - (* c02_slots *)
    intros Q. pose proof (I3_slots s w3) as Hsl. unfold slots_ok in Hsl.
    rewrite (quiet_in_use s W Q) in Hsl. exact Hsl.
  - (* c02_release_once *)
    intros t x Hx. pose proof (IH_counts s wh t x Hx) as Hco.
    unfold counts_ok in Hco. destruct Hco as (_ & _ & _ & Hrel & Hm).
    split; auto. intros Hpc. rewrite Hpc in Hm. tauto.
  - (* c02_left_running *)
    intros t x Hx Hpc. split; intros Hin.
    + apply (I2_run s w2 t x Hx) in Hin. rewrite Hpc in Hin. discriminate.
    + apply (I2_can s w2 t x Hx) in Hin. rewrite Hpc in Hin. discriminate.
  - (* c02_capacity *)
    intros Hts Hr Hcn Hnw. pose proof (I3_slots s w3) as Hsl. unfold slots_ok in Hsl.
    rewrite (I3_cap s w3 Hts) in Hsl.
    assert (Hiu : in_use s = 0).
    { unfold in_use. rewrite Hr, Hcn. simpl. apply waiters_count0. exact Hnw. }
    rewrite Hiu in Hsl.
    destruct (sem_value s) as [v|], (cf_size (cfg s)) as [c|]; try tauto.
    f_equal. lia.
Qed.

(** ** C03 *)
Lemma mem_true_In n l : In n l -> mem n l = true.
Proof. apply mem_In. Qed.
Lemma mem_false_nIn n l : ~ In n l -> mem n l = false.
Proof. apply mem_false_In. Qed.

Theorem C03_of_WF : forall s, WF s -> C03_spec s.
Proof.
  intros s W. destruct W as [w1 w2 wh w3 w4 w5 wm wg wr wgr].
  pose proof (I1_nodup s w1) as Hnd.
  constructor.
  - exact Hnd.
  - pose proof (I1_forgotten s w1) as Hf. rewrite regs_length in Hf. lia.
  - intros t x Hx Hpc.
    destruct (p_pc x) eqn:Hp; try congruence;
      try (apply in_running_regs; apply (I2_run s w2 t x Hx); rewrite Hp; reflexivity);
      try (apply in_cancelled_regs; apply (I2_can s w2 t x Hx); rewrite Hp; reflexivity);
      try (apply in_ended_regs; apply (I2_endcb s w2 t x Hx); rewrite Hp; reflexivity).
  - intros t x Hx. apply (IH_counts s wh t x Hx).
  - intros t x Hx Hpc. apply (I2_can s w2 t x Hx) in Hpc.
    unfold classify.
    rewrite (mem_false_nIn t (t_running s)) by (intros Hin; eapply regs_disj_rc; eauto).
    rewrite (mem_true_In t (t_cancelled s) Hpc). reflexivity.
  - intros t x Hx Hpc. apply (I2_endcb s w2 t x Hx) in Hpc.
    unfold classify.
    rewrite (mem_false_nIn t (t_running s)) by (intros Hin; eapply regs_disj_re; eauto).
    rewrite (mem_false_nIn t (t_cancelled s)) by (intros Hin; eapply regs_disj_ce; eauto).
    rewrite (mem_true_In t (t_ended s) Hpc). reflexivity.
  - intros Hts t x Hx. apply (IH_late s wh Hts t x Hx).
Qed.
