(** Extra invariant, part 2: pool tasks and simple operations only make quiet changes. *)
From TP Require Export PInv_Q_x1.
Set Implicit Arguments. Unset Strict Implicit.

Ltac pq_fld :=
  unfold put_p, finish_p, suspend_p; repeat (progress (autorewrite with fr; cbn)); reflexivity.

Ltac pq_core :=
  match goal with
  | |- PQ _ ?t => tryif is_var t then fail else (eapply PQ_core; [ | pq_fld ..])
  end.

Ltac pq :=
  repeat first
    [ eassumption | apply PQ_refl
    | match goal with
      | |- PQ _ (match ?x with _ => _ end) => destruct x eqn:?
      | |- PQ _ (if ?x then _ else _) => destruct x eqn:?
      end
    | apply PQ_wake_next | apply PQ_sem_release | apply PQ_map_release | apply PQ_taint
    | pq_core ].

Lemma PQ_enter_end s s1 t x : PQ s s1 -> PQ s (enter_end s1 t x).
Proof. intros H. rewrite enter_end_eq. unfold moved. cbv zeta. pq. Qed.

Lemma PQ_enter_cancel s s1 t x : PQ s s1 -> PQ s (enter_cancel s1 t x).
Proof.
  intros H. unfold enter_cancel.
  repeat first [ apply PQ_enter_end | match goal with
      | |- PQ _ (match ?x with _ => _ end) => destruct x eqn:?
      | |- PQ _ (if ?x then _ else _) => destruct x eqn:? end ]; pq.
Qed.

Ltac pq2 :=
  repeat first
    [ eassumption | apply PQ_refl | apply PQ_enter_end | apply PQ_enter_cancel
    | match goal with
      | |- PQ _ (match ?x with _ => _ end) => destruct x eqn:?
      | |- PQ _ (if ?x then _ else _) => destruct x eqn:?
      end
    | apply PQ_wake_next | apply PQ_sem_release | apply PQ_map_release | apply PQ_taint
    | pq_core ].

Lemma PQ_continue_p s t : PQ s (continue_p s t).
Proof. unfold continue_p. pq2. Qed.

Lemma PQ_run_p s s1 t : PQ s s1 -> PQ s (run_p s1 t).
Proof. intros H. unfold run_p. cbv zeta. pq2. Qed.

Lemma xfile_F2 s s' :
  Forall2 qsim (mtasks s) (mtasks s') -> gmeta s' = gmeta s -> xfile s -> xfile s'.
Proof.
  intros HF Hg H g ms m Hi Hm. rewrite Hg in Hi. destruct (H _ _ _ Hi Hm) as [y [Hy Hgr]].
  unfold get_m in *. destruct (Forall2_nth_l HF Hy) as [y' [Hy' [[_ [M2 _]] _]]].
  exists y'. split; auto. congruence.
Qed.

Lemma xgac_same s s' : dtasks s' = dtasks s -> xgac s -> xgac s'.
Proof. intros E H d x Hd. unfold get_d in Hd. rewrite E in Hd. apply (H _ _ Hd). Qed.

Lemma Extra_PQ s s' : Extra_IR s -> PQ s s' -> Extra_IR s'.
Proof.
  intros HX []. destruct (Extra_parts HX) as [A [B C]].
  apply Extra_of_parts.
  - eapply XS_F2; eauto.
  - eapply xfile_F2; eauto.
  - eapply xgac_same; eauto.
Qed.

Lemma PQ_cancel_p s s1 t : PQ s s1 -> PQ s (cancel_p s1 t).
Proof. intros H. unfold cancel_p. pq. Qed.

Lemma PQ_fold {A} (f : state -> A -> state) l :
  (forall s s1 a, PQ s s1 -> PQ s (f s1 a)) -> forall s s1, PQ s s1 -> PQ s (fold_left f l s1).
Proof.
  intros H. induction l as [|a l IH]; intros s s1 Hs; simpl; auto.
Qed.

Lemma PQ_do_cancel s s1 ids : PQ s s1 -> PQ s (do_cancel s1 ids).
Proof.
  intros H. unfold do_cancel. destruct (first_lookup_err s1 ids); [pq|].
  apply PQ_fold; auto. intros; apply PQ_cancel_p; auto.
Qed.

Lemma PQ_fold_know gs : forall s s1, PQ s s1 -> PQ s (fold_left know gs s1).
Proof. apply PQ_fold. intros. pq. Qed.

Lemma PQ_do_op_simple s o :
  simple_op o = true -> (forall k, o <> OpDriver k) -> PQ s (do_op s o).
Proof.
  destruct o; simpl; try discriminate; intros _ Hk.
  - apply PQ_do_cancel, PQ_refl.
  - destruct (res (do_cancel s _)); pq; apply PQ_do_cancel, PQ_refl.
  - destruct (res (do_cancel s _)); pq; apply PQ_do_cancel, PQ_refl.
  - pq.
  - pq.
  - pq.
  - eapply PQ_core; [apply PQ_fold_know, PQ_refl|reflexivity ..].
  - exfalso. eapply Hk; eauto.
  - pq.
  - pq.
Qed.
