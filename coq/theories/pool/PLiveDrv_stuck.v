(** Waiting API calls return — the drivers in a state where the cooperative environment can do
    nothing more ([stuck], PLive_def.v).

    [stuck_driver_cases] (the exact picture): in such a state a driver is done, or it is an
    [until_closed()] caller on a pool that is not closed, or it waits in its FIRST gather for a
    spawner that has not finished (and that, the state being at rest, waits for room for ever).
    Nobody is stuck in a second gather (all pool tasks are done), nobody is stuck unstarted.

    [drivers_settled]: what follows when every spawner has finished ([spawners_done]; this is
    the case whenever the pool size is not 0 and [pool_size] was never assigned,
    [stuck_spawners_done]): every flush() and every gather_and_close() has returned, an
    until_closed() has returned iff the pool is closed, and a gather_and_close() that returned
    normally — always the case with return_exceptions=True — has closed the pool, holds no task
    and has released every until_closed() waiter.  A gather_and_close(return_exceptions=False)
    that propagates the exception of a task does NOT close the pool (see the counterexamples in
    PLiveDrv.v). *)
From TP Require Import PInv PRun PWF PStep_D_base PRest PLive_run.
From TP Require Export PLiveDrv_inv.
From Coq Require Import Lia.
Import ListNotations.

Unset Implicit Arguments.

Lemma count_lt_ex {A} (p : A -> bool) l :
  count p l < length l -> exists a, In a l /\ p a = false.
Proof.
  induction l as [|h t IH]; cbn [count length]; [lia|].
  destruct (p h) eqn:E.
  - intros H. destruct IH as (a & Ha & Hp); [lia|]. exists a. split; [right; exact Ha|exact Hp].
  - intros _. exists h. split; [left; reflexivity|exact E].
Qed.

Definition drv_done (x : dtask) : Prop := d_pc x = DDone /\ d_final x <> None.

(** a pending gather has a child that is not done, once no callback handle is ready *)
Lemma quiet_gather_open s d g :
  ready s = [] -> gather_ok s d g -> g_open g ->
  exists c, In c (g_children g) /\ tref_done s c = false.
Proof.
  intros Hr (_ & _ & _ & Hn) Ho. unfold g_open in Ho. rewrite Hn in Ho.
  destruct (count_lt_ex _ _ Ho) as (c & Hc & Hp). exists c. split; [exact Hc|].
  unfold cb_ran in Hp. rewrite Hr in Hp. cbn in Hp. rewrite andb_true_r in Hp. exact Hp.
Qed.

Theorem stuck_driver_cases s d x :
  WFx s -> GPR s -> stuck s -> get_d s d = Some x ->
  drv_done x \/
  (d_pc x = DWaitClosed /\ d_kind x = DUntilClosed /\ d_fw x = Some FPending /\
   closed s = false /\ In d (closed_waiters s)) \/
  (d_pc x = DWaitG1 /\ d_kind x <> DUntilClosed /\ d_fw x = Some FPending /\
   exists g m y, d_g1 x = Some g /\ In (TM m) (g_children g) /\
                 get_m s m = Some y /\ m_final y = None).
Proof.
  intros X HG St G. pose proof (x_wf _ X) as W. pose proof (wf5 _ W) as W5.
  destruct (stuck_quiet s St) as [Hctl Hrd].
  destruct (x_d _ X) as (_ & HD & _). pose proof (HD d x G) as Dx.
  destruct (HG d x G) as ((A1 & A2) & B & C).
  assert (Hnr : ~ In (HT (TD d)) (ready s)) by (rewrite Hrd; intros []).
  assert (Hpend : d_pc x = DWaitG1 \/ d_pc x = DWaitG2 \/ d_pc x = DWaitClosed ->
                  d_fw x <> None -> d_fw x = Some FPending).
  { intros Hp Hn. destruct (d_fw x) as [[| | |]|] eqn:F; auto; try congruence; exfalso;
      apply Hnr; apply (I5_d _ W5 d x G); right; split; auto; congruence. }
  destruct (d_pc x) eqn:Epc.
  - exfalso. apply Hnr. apply (I5_d _ W5 d x G). left. exact Epc.
  - (* DWaitG1 *)
    right. right.
    assert (F : d_fw x = Some FPending) by (apply Hpend; auto; apply (df_some Dx); auto).
    destruct (d_g1 x) as [g|] eqn:Eg.
    2:{ exfalso. apply (IG_has1 _ (wfg _ W) d x G Epc). exact Eg. }
    pose proof (IG_g1 _ (wfg _ W) d x g G Epc F Eg) as Hok.
    destruct (quiet_gather_open s d g Hrd Hok (A1 eq_refl F g eq_refl)) as (c & Hc & Hnd).
    destruct (B g c Eg Hc) as (m & -> & Hlt).
    destruct (get_m s m) as [y|] eqn:Gm.
    2:{ apply nth_error_None in Gm. lia. }
    split; [reflexivity|]. split; [apply (dk_g Dx); auto|]. split; [exact F|].
    exists g, m, y. split; [reflexivity|]. split; [exact Hc|]. split; [exact Gm|].
    unfold tref_done, tref_final in Hnd. rewrite Gm in Hnd. destruct (m_final y); [discriminate|auto].
  - (* DWaitG2: every pool task is done *)
    exfalso.
    assert (F : d_fw x = Some FPending) by (apply Hpend; auto; apply (df_some Dx); auto).
    destruct (IG_has2 _ (wfg _ W) d x G Epc) as (g & Eg & _).
    pose proof (IG_g2 _ (wfg _ W) d x g G Epc F Eg) as Hok.
    destruct (quiet_gather_open s d g Hrd Hok (A2 eq_refl F g Eg)) as (c & Hc & Hnd).
    destruct (C g c Eg Hc) as (t & -> & Hlt).
    destruct (get_p s t) as [y|] eqn:Gp.
    2:{ apply nth_error_None in Gp. lia. }
    pose proof (stuck_task_done s t y W5 St Gp) as Hdone.
    apply (I2_final _ (wf2 _ W) t y Gp) in Hdone.
    unfold tref_done, tref_final in Hnd. rewrite Gp in Hnd. destruct (p_final y); [discriminate|auto].
  - (* DWaitClosed *)
    right. left. destruct (dwc Dx Epc) as [Hin [[Hc Hf]|[Hc Hf]]].
    + repeat split; auto. apply (dk_wc Dx); auto.
    + exfalso. apply Hnr. apply (I5_d _ W5 d x G). right. split; auto. congruence.
  - left. split; [exact Epc|]. apply (I5_dfinal _ W5 d x G). exact Epc.
Qed.

(** ** when every spawner has finished *)
Definition spawners_done (s : state) : Prop :=
  forall m y, get_m s m = Some y -> m_final y <> None.

Record drivers_settled (s : state) : Prop := {
  (* every flush() has returned *)
  ds_flush : forall d x re, get_d s d = Some x -> d_kind x = DFlush re -> drv_done x;
  (* every gather_and_close() has returned ... *)
  ds_gac : forall d x re, get_d s d = Some x -> d_kind x = DGatherClose re -> drv_done x;
  (* ... normally, unless it propagates the exception of a pool task
     (return_exceptions=False) *)
  ds_gac_how : forall d x re, get_d s d = Some x -> d_kind x = DGatherClose re ->
      d_final x = Some OResult \/
      (re = false /\ exists e, d_final x = Some (final_of (Some e) false) /\ tsrc s e);
  (* an until_closed() has returned iff the pool is closed *)
  ds_until : forall d x, get_d s d = Some x -> d_kind x = DUntilClosed ->
      (drv_done x <-> closed s = true);
  ds_until_res : forall d x, get_d s d = Some x -> d_kind x = DUntilClosed -> drv_done x ->
      d_final x = Some OResult;
  (* a gather_and_close() that returned normally has closed the pool for good: no task is
     held, every until_closed() waiter has returned *)
  ds_closed : forall d x re, get_d s d = Some x -> d_kind x = DGatherClose re ->
      (re = true \/ d_final x = Some OResult) ->
      d_final x = Some OResult /\ closed s = true /\ regs s = [] /\
      forall d' x', get_d s d' = Some x' -> d_kind x' = DUntilClosed ->
                    drv_done x' /\ d_final x' = Some OResult
}.

Lemma until_closed_result s d x :
  WFx s -> get_d s d = Some x -> d_kind x = DUntilClosed -> drv_done x -> d_final x = Some OResult.
Proof.
  intros X G K [_ Hf]. destruct (x_d _ X) as (_ & HD & _). pose proof (HD d x G) as Dx.
  destruct (d_final x) as [o|] eqn:F; [|congruence].
  destruct (dfin Dx o F) as [->|[Hk _]]; auto. rewrite K in Hk. discriminate.
Qed.

Lemma stuck_until_closed s d x :
  WFx s -> GPR s -> stuck s -> get_d s d = Some x -> d_kind x = DUntilClosed ->
  (drv_done x <-> closed s = true).
Proof.
  intros X HG St G K. destruct (x_d _ X) as (_ & HD & _). pose proof (HD d x G) as Dx.
  split.
  - intros [Hp _]. apply (duc Dx K Hp).
  - intros Hc. destruct (stuck_driver_cases s d x X HG St G) as [H|[H|H]]; auto.
    + destruct H as (_ & _ & _ & Hc' & _). congruence.
    + destruct H as (_ & Hk & _). congruence.
Qed.

Theorem drivers_settled_when_stuck s :
  WFx s -> GPR s -> stuck s -> spawners_done s -> drivers_settled s.
Proof.
  intros X HG St Hsp. pose proof (x_wf _ X) as W.
  destruct (x_d _ X) as (_ & HD & _).
  assert (Hnu : forall d x, get_d s d = Some x -> d_kind x <> DUntilClosed -> drv_done x).
  { intros d x G K. destruct (stuck_driver_cases s d x X HG St G) as [H|[H|H]]; auto.
    - destruct H as (_ & Hk & _). congruence.
    - destruct H as (_ & _ & _ & g & m & y & _ & _ & Gm & Hf). exfalso. exact (Hsp m y Gm Hf). }
  assert (Hhow : forall d x re, get_d s d = Some x -> d_kind x = DGatherClose re ->
      d_final x = Some OResult \/
      (re = false /\ exists e, d_final x = Some (final_of (Some e) false) /\ tsrc s e)).
  { intros d x re G K. destruct (Hnu d x G) as [_ Hf]; [rewrite K; discriminate|].
    destruct (d_final x) as [o|] eqn:F; [|congruence].
    destruct (dfin (HD d x G) o F) as [->|[Hk (e & -> & Hs)]]; auto.
    right. rewrite K in Hk. cbn in Hk. split; [congruence|]. exists e. auto. }
  constructor.
  - intros d x re G K. apply (Hnu d x G). rewrite K. discriminate.
  - intros d x re G K. apply (Hnu d x G). rewrite K. discriminate.
  - exact Hhow.
  - intros d x G K. apply (stuck_until_closed s d x); auto.
  - intros d x G K. apply (until_closed_result s d x); auto.
  - intros d x re G K Hre.
    assert (F : d_final x = Some OResult).
    { destruct Hre as [->|F]; auto. destruct (Hhow d x true G K) as [F|[E _]]; auto. discriminate. }
    assert (Hc : closed s = true) by exact (dgac (HD d x G) re K F).
    split; [exact F|]. split; [exact Hc|]. split; [exact (IG_closed _ (wfg _ W) Hc)|].
    intros d' x' G' K'.
    assert (Hd : drv_done x') by (apply (stuck_until_closed s d' x'); auto).
    split; [exact Hd|]. apply (until_closed_result s d' x'); auto.
Qed.

(** pool size not 0, [pool_size] never assigned: at rest every spawner has finished *)
Lemma stuck_spawners_done s :
  WFx s -> Extra_nc s -> taint_size s = false -> cf_size (cfg s) <> Fin 0 -> stuck s ->
  spawners_done s.
Proof.
  intros X NC Hts Hsz St m y. apply rest_spawner_done; auto.
  apply stuck_at_rest; [exact (x_wf _ X)|exact St].
Qed.

(** conversely, a stuck driver of a sized, never re-sized pool does not exist: the spawner it
    would wait for has finished *)
Corollary drivers_settled_sized s :
  WFx s -> GPR s -> Extra_nc s -> taint_size s = false -> cf_size (cfg s) <> Fin 0 -> stuck s ->
  drivers_settled s.
Proof.
  intros X HG NC Hts Hsz St. apply drivers_settled_when_stuck; auto.
  apply stuck_spawners_done; auto.
Qed.
