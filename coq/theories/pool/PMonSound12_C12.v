(** Monitor soundness for C12: on the model's own observation stream — clean run, no
    self-cancellation from a final segment — the monitor never reports a clause of property 12
    ([C12_provenance], [C12_no_cancelled_driver], [C12_re_never_raises]). *)
From TP Require Import PInv PInv_P_base PInv_P PSpec PSpecStep PStep_C_drv PStep_C PMon PRun PWF
  PMonSound_trk PMonSound_gen PMonSound_C13_kd PMonSound_C13_mod PMonSound_C13_trk PMonSound_C13.
From TP Require Import PMonSound_C45_trk PMonSound_C45_trk2 PMonSound_C45_ev PMonSound_C45_mir
  PMonSound_C45 PMonSound12_trk PMonSound12_mod PMonSound12_rel.
From TP Require PStep_D_base PStep_D.

Definition RR12 (c : config) (s : state) (k : trk) : Prop :=
  (exists tr0, s = run c tr0) /\
  map (fun i => fst (fst i)) (dinfo k) = map d_kind (dtasks s) /\
  Inv5 (length (k_reqs k)) (tview5 k) s None /\
  MIR (k_reqs k) s /\ WM (k_reqs k) s /\ J (k_raised k) s.

Lemma RR12_init c : RR12 c (init c) (trk_init c).
Proof.
  split; [exists []; reflexivity|]. split; [reflexivity|]. split; [apply Inv5_init|].
  split; [|split].
  - split; [reflexivity|]. intros r x y H. destruct r; discriminate H.
  - intros r x y H. destruct r; discriminate H.
  - apply J_init.
Qed.

(** a driver's recorded outcome, under P-self: a normal result, or the user exception stored in
    a task record — and then the driver does not use return_exceptions=True *)
Lemma driver_outcome s d x oc :
  WFx s -> taint_self s = false -> get_d s d = Some x -> d_final x = Some oc ->
  oc = OResult \/
  (PStep_D_base.kind_re (d_kind x) = Some false /\
   exists t y st, oc = OExc (EUser t st) /\ get_p s t = Some y /\ p_exc y = Some (EUser t st)).
Proof.
  intros X Ts Hx Hf. pose proof (x_wf _ X) as W. pose proof (x_d _ X) as ED.
  destruct ED as (HP & HD & HC).
  destruct (PStep_D_base.dfin (HD d x Hx) oc Hf) as [->|(Hk & e & Ho & t & y & Gy & Fy)]; auto.
  right. split; auto.
  assert (Fy' : p_final y = Some (OExc e)).
  { destruct Fy as [Fy|[_ Fy]]; auto. exfalso.
    destruct (PStep_D.task_outcome s t y OCancelled W (conj HP (conj HD HC)) Ts Gy Fy)
      as [Hc|(st & Hc & _)]; discriminate. }
  destruct (PStep_D.task_outcome s t y (OExc e) W (conj HP (conj HD HC)) Ts Gy Fy')
    as [Hc|(st & Hc & _)]; [discriminate|]. injection Hc as ->.
  exists t, y, st. split; [rewrite Ho; reflexivity|]. split; auto.
  destruct (HP t y Gy) as (_ & _ & P3). destruct (P3 _ Fy') as (mc & Hmc).
  destruct (p_exc y) as [e'|]; simpl in Hmc.
  - destruct e'; try discriminate; congruence.
  - destruct mc; discriminate.
Qed.

Lemma prov12_in R t st : In (t, st) R -> prov12 R (OExc (EUser t st)) = true.
Proof.
  intros H. unfold prov12. apply existsb_exists. exists (t, st). split; auto.
  cbn [fst snd]. rewrite Nat.eqb_refl. destruct st; reflexivity.
Qed.

Lemma mon_step_sound12 c s k l :
  RR12 c s k -> clean (step s l) -> taint_self (step s l) = false ->
  let o := obs_of (step s l) l (enabled (set_res (set_evs s []) RNone) l) in
  fp 12 (snd (mon_step c k o)) = [] /\ RR12 c (step s l) (fst (mon_step c k o)).
Proof.
  intros ((tr0 & Hs) & HK & HI & HM & HW & HJ) Hc Hts o.
  assert (Hcs : clean s) by (eapply clean_step_inv'; eauto).
  assert (Hcfg : cfg s = c) by (rewrite Hs; apply cfg_run).
  assert (Hrun : step s l = run c (tr0 ++ [l])) by (rewrite run_snoc, Hs; reflexivity).
  assert (WX : WFx s) by (rewrite Hs; apply WFx_run; rewrite <- Hs; exact Hcs).
  assert (WX' : WFx (step s l)) by (rewrite Hrun; apply WFx_run; rewrite <- Hrun; exact Hc).
  pose proof (x_wf _ WX) as W. pose proof (x_p _ WX) as EP. pose proof (x_wf _ WX') as W'.
  destruct (mon_step_12 c k o)
    as (Hf & (A1 & A2 & A3 & A4) & (B1 & B2 & B3 & B4) & (C1 & C2 & C3 & C4)).
  cbv zeta in *.
  set (k1 := fst (on_label c k o)) in *.
  set (k2 := fst (on_events k1 o (o_events o))) in *.
  set (k' := fst (mon_step c k o)) in *.
  set (s' := step s l) in *.
  change (o_events o) with (evs s') in *.
  set (rs := k_reqs k) in *. set (b := negb (k_gac_req k)) in *.
  set (rs1 := lab_reqs c rs b o) in *.
  (* the request table and the task view after the step *)
  assert (HM1 : MIR rs1 s') by (apply (MIR_label c s l rs b WX Hcfg HM)).
  assert (HW1 : WM rs1 s') by (apply (WM_label c s l rs b WX Hcfg HM HW)).
  assert (Hlen : length (mtasks s) <= length rs1).
  { destruct HM as [HL _]. rewrite <- HL. apply lab_reqs_length. }
  assert (HI1 : Inv5 (length rs1) (fold_left (vev5 (length rs1)) (evs s') (tview5 k)) s' None).
  { apply Inv5_step; auto. eapply Inv5_mono; [|exact HI]. destruct HM as [HL _].
    fold rs. rewrite HL. exact Hlen. }
  rewrite A1 in B1, B2. rewrite A2 in B2.
  assert (Hlf : length (k_reqs k2) = length rs1) by (rewrite B1; apply fold_rq_ev_length).
  assert (HI2 : Inv5 (length (k_reqs k2)) (tview5 k2) s' None) by (rewrite Hlf, B2; exact HI1).
  assert (HM2 : MIR (k_reqs k2) s') by (rewrite B1; apply MIR_events; exact HM1).
  assert (HW2 : WM (k_reqs k2) s') by (rewrite B1; apply WM_events; exact HW1).
  (* the exceptions known to the tracker *)
  assert (HX : X (k_raised k1) s').
  { apply X_step.
    - eapply J_incl; [|exact HJ]. intros p Hp. rewrite A3. apply lab_raised_incl. exact Hp.
    - intros t -> En. rewrite A3. unfold lab_raised, o. cbn [o_enabled o_label obs_of].
      rewrite En. left. reflexivity. }
  assert (HJ' : J (k_raised k') s').
  { eapply J_close; [exact HX|..].
    - intros p Hp. rewrite C4. apply nrs_fold_incl. rewrite B3. apply rz_fold_incl. exact Hp.
    - intros kd t Hin. rewrite C4. apply nrs_fold_incl. rewrite B3. apply rz_fold_cbend. exact Hin.
    - intros t x r el Hx Hpc Hw Hin. rewrite C4. eapply nrs_fold_start; [exact Hin|].
      eapply ras_sound; eauto. }
  split.
  - rewrite Hf.
    destruct (existsb is_done (evs s')) eqn:Eex.
    + apply existsb_exists in Eex. destruct Eex as (e0 & Hin0 & He0).
      destruct e0 as [| | | | | | |d oc0]; try discriminate.
      destruct (step_driver_done s l d oc0 W EP Hin0) as (El & _).
      assert (Hall : forall e, In e (evs s') -> exists oc, e = EvDriverDone d oc).
      { intros e He. unfold s' in He. rewrite El in He. apply (step_driver_events s d e W EP He). }
      rewrite on_events_12_done.
      2:{ intros e He. destruct (Hall e He) as (oc & ->). reflexivity. }
      unfold dcls12.
      assert (Hnil : forall e, In e (evs s') ->
                match e with
                | EvDriverDone d1 oc => dcl12 (dinfo k1) (k_raised k1) d1 oc
                | _ => [] end = []).
      { intros e He. destruct (Hall e He) as (oc & ->).
        destruct (step_driver_done s l d oc W EP He) as (_ & x & x' & Hx & Hx' & Hfin & Hkind).
        assert (Hnew : dnew k o = []).
        { unfold dnew, o. cbn [o_label obs_of]. rewrite El.
          match goal with |- (if ?cnd then _ else _) = _ => destruct cnd end; reflexivity. }
        rewrite A4, Hnew, app_nil_r. unfold dcl12.
        destruct (nth_error (dinfo k) d) as [[[kd q] ne]|] eqn:En.
        2:{ exfalso. apply nth_error_None in En.
            assert (Hl : length (dinfo k) = length (dtasks s))
              by (rewrite <- (map_length (fun i => fst (fst i))), HK, map_length; reflexivity).
            assert (d < length (dtasks s)) by (apply nth_error_Some; unfold get_d in Hx; congruence).
            lia. }
        assert (Hkd : kd = d_kind x).
        { assert (E : nth_error (map (fun i => fst (fst i)) (dinfo k)) d = Some kd)
            by (rewrite nth_error_map, En; reflexivity).
          rewrite HK, nth_error_map in E. unfold get_d in Hx. rewrite Hx in E. simpl in E.
          congruence. }
        destruct (driver_outcome s' d x' oc WX' Hts Hx' Hfin)
          as [->|(Hre & t & y & st & -> & Hy & Hey)].
        - cbn [prov12 fails app isres]. destruct kd as [re|re|]; try reflexivity.
          rewrite orb_true_r. reflexivity.
        - assert (Hin : In (t, st) (k_raised k1)).
          { destruct (HX t y Hy) as (A & _). destruct (A t st Hey) as [Hr|(kd0 & _ & _ & Hr)]; auto.
            destruct (Hall _ Hr) as (oc' & Hoc). discriminate. }
          rewrite (prov12_in _ _ _ Hin). cbn [fails app isres].
          rewrite Hkind, <- Hkd in Hre.
          destruct kd as [re|re|]; try reflexivity.
          simpl in Hre. injection Hre as ->. reflexivity. }
      clear - Hnil. induction (evs s') as [|e es IH]; simpl; auto.
      rewrite (Hnil e (or_introl eq_refl)). apply IH. intros e' He'. apply Hnil. right. exact He'.
    + apply on_events_12_none. intros e He. destruct (is_done e) eqn:Ed; auto.
      assert (existsb is_done (evs s') = true) by (apply existsb_exists; eauto). congruence.
  - split; [exists (tr0 ++ [l]); exact Hrun|]. split; [|split; [|split; [|split]]].
    + rewrite C3, B4, A4, map_app, HK. unfold s'. rewrite KD_step. f_equal. apply dnew_kinds.
    + rewrite C1, C2. exact HI2.
    + rewrite C1. exact HM2.
    + rewrite C1. exact HW2.
    + exact HJ'.
Qed.

Lemma mon_run_sound12 c : forall tr s k i,
  RR12 c s k -> clean (fold_left step tr s) -> taint_self (fold_left step tr s) = false ->
  mon_run c 12 k i (observe_from s tr) = None.
Proof.
  induction tr as [|l tr IH]; intros s k i HR Hc Ht; simpl; auto.
  simpl in Hc, Ht.
  assert (Hc1 : clean (step s l)) by (eapply clean_fold_inv; eauto).
  assert (Ht1 : taint_self (step s l) = false)
    by (eapply (taint_fold_inv taint_self taint_self_step_inv'); eauto).
  destruct (mon_step_sound12 c s k l HR Hc1 Ht1) as [Hf HR'].
  cbv zeta in Hf, HR'.
  destruct (mon_step c k _) as [k' cs]. simpl in Hf, HR'. unfold fp in Hf.
  rewrite Hf. apply IH; auto.
Qed.

(** the monitor never reports a violated clause of C12 on a clean model run without
    self-cancellation from a final segment *)
Theorem mon_C12_sound : forall c tr,
  clean (run c tr) -> taint_self (run c tr) = false ->
  PMon.ok_C12 c (PObs.observe c tr) = true.
Proof.
  intros c tr Hc Ht. unfold ok_C12, ok_prop, observe.
  rewrite (mon_run_sound12 c tr (init c) (trk_init c) 0); auto. apply RR12_init.
Qed.

Print Assumptions mon_C12_sound.
