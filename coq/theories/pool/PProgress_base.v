(** Progress — effect of the primitive state transformers on the measure [muD], and the frame
    [frv] (number of drivers, unlock taint) that every internal move preserves. *)
From TP Require Export PProgress_def.

Unset Implicit Arguments.

Arguments it : simpl never.

Ltac dmatch :=
  match goal with
  | |- context [match ?x with _ => _ end] => destruct x eqn:?
  | |- context [if ?x then _ else _] => destruct x eqn:?
  end.

(** ** sums *)
Lemma lsum_app {A} (f : A -> nat) l1 l2 : lsum f (l1 ++ l2) = lsum f l1 + lsum f l2.
Proof. induction l1 as [|h t IH]; simpl; auto. rewrite IH. lia. Qed.

Lemma lsum_upd {A} (f : A -> nat) l n x y :
  nth_error l n = Some y -> lsum f (upd l n x) + f y = lsum f l + f x.
Proof.
  revert n; induction l as [|h t IH]; intros [|n] H; simpl in *; try discriminate.
  - injection H as ->. lia.
  - specialize (IH n H). lia.
Qed.

Lemma upd_none {A} (l : list A) n x : nth_error l n = None -> upd l n x = l.
Proof. intros H. apply upd_out. apply nth_error_None. exact H. Qed.

Lemma it_S D n : 1 <= n -> it D n = it D (n - 1) + (D + 20).
Proof. intros H. unfold it. destruct n as [|n]; [lia|]. simpl. rewrite Nat.sub_0_r. lia. Qed.

Lemma it_0 D : it D 0 = 0.
Proof. reflexivity. Qed.

Lemma it_mono D n k : n <= k -> it D n <= it D k.
Proof. intros H. unfold it. apply Nat.mul_le_mono_r. exact H. Qed.

(** ** the frame *)
Definition frv (s : state) : nat * bool := (length (dtasks s), taint_unlock s).

Lemma frv_Dn s s' : frv s' = frv s -> Dn s' = Dn s.
Proof. unfold frv, Dn. congruence. Qed.

Lemma frv_tu s s' : frv s' = frv s -> taint_unlock s' = taint_unlock s.
Proof. unfold frv. congruence. Qed.

Lemma frv_sched s h : frv (sched s h) = frv s.
Proof. unfold sched. destruct (is_ready s h); reflexivity. Qed.

Lemma frv_put_d s d x : frv (put_d s d x) = frv s.
Proof. unfold frv, put_d. cbn. now rewrite upd_length. Qed.

Lemma frv_fold {A} (f : state -> A -> state) :
  (forall s a, frv (f s a) = frv s) -> forall l s, frv (fold_left f l s) = frv s.
Proof. intros H l. induction l; simpl; intros; auto. now rewrite IHl, H. Qed.

Lemma frv_sched_cbs s r : frv (sched_cbs s r) = frv s.
Proof. unfold sched_cbs. apply frv_fold. apply frv_sched. Qed.

Lemma frv_wake_next s : frv (wake_next s) = frv s.
Proof.
  unfold wake_next. destruct (first_pending _ _); auto. destruct (get_m s n); auto.
  now rewrite frv_sched.
Qed.

Lemma frv_sem_release s : frv (sem_release s) = frv s.
Proof. unfold sem_release. now rewrite frv_wake_next. Qed.

Lemma frv_map_release s m : frv (map_release s m) = frv s.
Proof.
  unfold map_release. destruct (get_m s m) as [x|]; auto.
  destruct (m_pc x); auto; destruct (m_fw x) as [[]|]; auto; now rewrite frv_sched.
Qed.

Lemma frv_wake_closed ds : forall s, frv (wake_closed s ds) = frv s.
Proof.
  induction ds as [|d r IH]; simpl; intros s; auto. rewrite IH.
  destruct (get_d s d); auto. destruct (fut_pending _); auto.
  now rewrite frv_sched, frv_put_d.
Qed.

(** ** task tables are not touched by the scheduler primitives *)
Lemma ptasks_sched s h : ptasks (sched s h) = ptasks s.
Proof. unfold sched. destruct (is_ready s h); reflexivity. Qed.
Lemma mtasks_sched s h : mtasks (sched s h) = mtasks s.
Proof. unfold sched. destruct (is_ready s h); reflexivity. Qed.
Lemma dtasks_sched s h : dtasks (sched s h) = dtasks s.
Proof. unfold sched. destruct (is_ready s h); reflexivity. Qed.

Lemma get_p_sched s h t : get_p (sched s h) t = get_p s t.
Proof. unfold get_p. now rewrite ptasks_sched. Qed.
Lemma get_m_sched s h m : get_m (sched s h) m = get_m s m.
Proof. unfold get_m. now rewrite mtasks_sched. Qed.
Lemma get_d_sched s h d : get_d (sched s h) d = get_d s d.
Proof. unfold get_d. now rewrite dtasks_sched. Qed.

(** ** the measure under the primitives *)
Lemma mu_sched D s h : muD D (sched s h) <= muD D s + 1.
Proof.
  unfold sched. destruct (is_ready s h); [lia|].
  unfold muD. cbn. rewrite app_length. simpl. lia.
Qed.

Lemma filter_neg_lt h l :
  existsb (hid_eqb h) l = true ->
  length (filter (fun x => negb (hid_eqb h x)) l) < length l.
Proof.
  induction l as [|a l IH]; simpl; [discriminate|].
  destruct (hid_eqb h a); simpl.
  - intros _.
    assert (length (filter (fun x => negb (hid_eqb h x)) l) <= length l); [|lia].
    clear. induction l as [|b l IH]; simpl; auto. destruct (negb (hid_eqb h b)); simpl; lia.
  - intros H. specialize (IH H). lia.
Qed.

Lemma mu_unsched D s h : is_ready s h = true -> muD D (unsched s h) + 1 <= muD D s.
Proof.
  intros H. unfold is_ready in H. apply filter_neg_lt in H.
  unfold muD, unsched. cbn. lia.
Qed.

Lemma mu_put_p D s t x {xs} :
  get_p s t = Some xs -> muD D (put_p s t x) + phi_p D xs = muD D s + phi_p D x.
Proof.
  intros H. unfold muD, put_p. cbn.
  pose proof (lsum_upd (phi_p D) (ptasks s) t x xs H). lia.
Qed.

Lemma mu_put_m D s m x {xs} :
  get_m s m = Some xs -> muD D (put_m s m x) + phi_m D xs = muD D s + phi_m D x.
Proof.
  intros H. unfold muD, put_m. cbn.
  pose proof (lsum_upd (phi_m D) (mtasks s) m x xs H). lia.
Qed.

Lemma mu_put_d D s d x {xs} :
  get_d s d = Some xs -> muD D (put_d s d x) + phi_d xs = muD D s + phi_d x.
Proof.
  intros H. unfold muD, put_d. cbn.
  pose proof (lsum_upd phi_d (dtasks s) d x xs H). lia.
Qed.

Lemma mu_put_d_none D s d x : get_d s d = None -> muD D (put_d s d x) = muD D s.
Proof. intros H. unfold muD, put_d. cbn. now rewrite (upd_none _ _ _ H). Qed.

Lemma mu_put_m_none D s m x : get_m s m = None -> muD D (put_m s m x) = muD D s.
Proof. intros H. unfold muD, put_m. cbn. now rewrite (upd_none _ _ _ H). Qed.

(** writing a finished record never increases the measure *)
Lemma mu_put_d_zero D s d x : phi_d x = 0 -> muD D (put_d s d x) <= muD D s.
Proof.
  intros H. destruct (get_d s d) as [xs|] eqn:G.
  - pose proof (mu_put_d D s d x G). lia.
  - rewrite mu_put_d_none; auto.
Qed.

Lemma get_p_put_p s t x : get_p s t <> None -> get_p (put_p s t x) t = Some x.
Proof.
  intros H. unfold get_p, put_p in *. cbn. apply nth_error_upd_eq.
  apply nth_error_Some. exact H.
Qed.

Lemma get_m_put_m s m x : get_m s m <> None -> get_m (put_m s m x) m = Some x.
Proof.
  intros H. unfold get_m, put_m in *. cbn. apply nth_error_upd_eq.
  apply nth_error_Some. exact H.
Qed.

Lemma mu_fold_sched D l : forall s, muD D (fold_left sched l s) <= muD D s + length l.
Proof.
  induction l as [|h l IH]; simpl; intros s; [lia|].
  specialize (IH (sched s h)). pose proof (mu_sched D s h). lia.
Qed.

Lemma cbs_of_length r ds : forall d, length (cbs_of ds d r) <= length ds.
Proof.
  induction ds as [|x ds IH]; simpl; intros d; auto.
  rewrite app_length. specialize (IH (S d)).
  destruct (gather_has_cb (d_g1 x) r || gather_has_cb (d_g2 x) r); simpl; lia.
Qed.

(** completion schedules at most one gather callback per driver *)
Lemma mu_sched_cbs D s r : muD D (sched_cbs s r) <= muD D s + Dn s.
Proof.
  unfold sched_cbs. pose proof (mu_fold_sched D (cbs_of (dtasks s) 0 r) s).
  pose proof (cbs_of_length r (dtasks s) 0). unfold Dn. lia.
Qed.

Lemma phi_m_set_fw D x f : phi_m D (set_m_fw x f) + pend (m_fw x) = phi_m D x + pend f.
Proof. unfold phi_m, Rm. cbn. lia. Qed.

Lemma phi_d_set_fw x f : phi_d (set_d_fw x f) + pend (d_fw x) = phi_d x + pend f.
Proof. unfold phi_d. cbn. lia. Qed.

Lemma phi_m_wake D x f :
  fut_pending (m_fw x) = true -> fut_pending f = false -> phi_m D (set_m_fw x f) + 1 = phi_m D x.
Proof.
  intros H1 H2. pose proof (phi_m_set_fw D x f) as H. unfold pend in H. rewrite H1, H2 in H. lia.
Qed.

Lemma phi_d_wake x f :
  fut_pending (d_fw x) = true -> fut_pending f = false -> phi_d (set_d_fw x f) + 1 = phi_d x.
Proof.
  intros H1 H2. pose proof (phi_d_set_fw x f) as H. unfold pend in H. rewrite H1, H2 in H. lia.
Qed.

Lemma first_pending_spec s l m : first_pending s l = Some m -> fut_pending (m_fw_of s m) = true.
Proof.
  induction l as [|a l IH]; simpl; [discriminate|].
  destruct (fut_pending (m_fw_of s a)) eqn:E; auto. intros H. injection H as <-. exact E.
Qed.

(** the semaphore hand-off pays for itself: the woken waiter's future was pending *)
Lemma mu_wake_next D s : muD D (wake_next s) <= muD D s.
Proof.
  unfold wake_next. destruct (first_pending s (sem_waiters s)) as [m|] eqn:E; [|lia].
  destruct (get_m s m) as [x|] eqn:G; [|lia].
  apply first_pending_spec in E. unfold m_fw_of in E. rewrite G in E.
  set (s1 := set_sem_value s (ninf_pred (sem_value s))).
  assert (G1 : get_m s1 m = Some x) by exact G.
  pose proof (mu_sched D (put_m s1 m (set_m_fw x (Some FOk))) (HT (TM m))) as H1.
  pose proof (mu_put_m D s1 m (set_m_fw x (Some FOk)) G1) as H2.
  pose proof (phi_m_wake D x (Some FOk) E eq_refl) as H3.
  assert (H4 : muD D s1 = muD D s) by reflexivity.
  lia.
Qed.

Lemma mu_sem_release D s : muD D (sem_release s) <= muD D s.
Proof.
  unfold sem_release. pose proof (mu_wake_next D (set_sem_value s (ninf_succ (sem_value s)))) as H.
  assert (muD D (set_sem_value s (ninf_succ (sem_value s))) = muD D s) by reflexivity. lia.
Qed.

Lemma mu_map_release D s m : muD D (map_release s m) <= muD D s.
Proof.
  unfold map_release. destruct (get_m s m) as [x|] eqn:G; [|lia].
  assert (Hdef : muD D (put_m s m (set_m_mapval x (S (m_mapval x)))) <= muD D s).
  { pose proof (mu_put_m D s m (set_m_mapval x (S (m_mapval x))) G) as H.
    assert (phi_m D (set_m_mapval x (S (m_mapval x))) = phi_m D x) by reflexivity. lia. }
  destruct (m_pc x); auto. destruct (m_fw x) as [[| | |]|] eqn:F; auto.
  pose proof (mu_sched D (put_m s m (set_m_fw x (Some FOk))) (HT (TM m))) as H1.
  pose proof (mu_put_m D s m (set_m_fw x (Some FOk)) G) as H2.
  assert (F' : fut_pending (m_fw x) = true) by (rewrite F; reflexivity).
  pose proof (phi_m_wake D x (Some FOk) F' eq_refl) as H3. lia.
Qed.

Lemma mu_wake_closed D ds : forall s, muD D (wake_closed s ds) <= muD D s.
Proof.
  induction ds as [|d r IH]; simpl; intros s; [lia|].
  destruct (get_d s d) as [x|] eqn:G; [|apply IH].
  destruct (fut_pending (d_fw x)) eqn:F; [|apply IH].
  specialize (IH (sched (put_d s d (set_d_fw x (Some FOk))) (HT (TD d)))).
  pose proof (mu_sched D (put_d s d (set_d_fw x (Some FOk))) (HT (TD d))) as H1.
  pose proof (mu_put_d D s d (set_d_fw x (Some FOk)) G) as H2.
  pose proof (phi_d_wake x (Some FOk) F eq_refl) as H3. lia.
Qed.
