(** Extra invariant, part 5: the run of a spawner. *)
From TP Require Export PInv_Q_x4.
Set Implicit Arguments. Unset Strict Implicit.

Record MQ (m : nat) (s s' : state) : Prop := {
  mq_len : length (mtasks s') = length (mtasks s);
  mq_oth : forall k y y', k <> m -> get_m s k = Some y -> get_m s' k = Some y' -> qsim y y';
  mq_own : forall y y', get_m s m = Some y -> get_m s' m = Some y' -> mimm y y';
  mq_gm : gmeta s' = gmeta s;
  mq_d : dtasks s' = dtasks s;
  mq_c : closed s' = closed s;
  mq_t : taint_iter s' = taint_iter s
}.

Lemma MQ_refl m s : MQ m s s.
Proof.
  constructor; auto.
  - intros k y y' _ A B. assert (y' = y) by congruence. subst. apply qsim_refl.
  - intros y y' A B. assert (y' = y) by congruence. subst. apply mimm_refl.
Qed.

Lemma get_m_len s k y : get_m s k = Some y -> k < length (mtasks s).
Proof. unfold get_m. intros H. apply nth_error_Some. congruence. Qed.

Lemma get_m_ex s k : k < length (mtasks s) -> exists y, get_m s k = Some y.
Proof.
  unfold get_m. intros H. destruct (nth_error (mtasks s) k) eqn:E; eauto.
  apply nth_error_None in E. lia.
Qed.

Lemma MQ_trans m s1 s2 s3 : MQ m s1 s2 -> MQ m s2 s3 -> MQ m s1 s3.
Proof.
  intros [A1 A2 A3 A4 A5 A6 A7] [B1 B2 B3 B4 B5 B6 B7]. constructor; try congruence.
  - intros k y y'' Hk Hy Hy''.
    destruct (@get_m_ex s2 k) as [y' Hy']; [rewrite A1; eapply get_m_len; eauto|].
    eapply qsim_trans; eauto.
  - intros y y'' Hy Hy''.
    destruct (@get_m_ex s2 m) as [y' Hy']; [rewrite A1; eapply get_m_len; eauto|].
    eapply mimm_trans; eauto.
Qed.

Lemma F2_length {A} (R : A -> A -> Prop) l l' : Forall2 R l l' -> length l = length l'.
Proof. induction 1; simpl; auto. Qed.

Lemma MQ_of_PQ m s s' : PQ s s' -> taint_iter s' = taint_iter s -> MQ m s s'.
Proof.
  intros [F Gm Dt Cl _] Tt.
  assert (L : length (mtasks s') = length (mtasks s)) by (symmetry; eapply F2_length; eauto).
  constructor; auto.
  - intros k y y' _ A B. unfold get_m in *. destruct (Forall2_nth_l F A) as [z [Hz Q]]. congruence.
  - intros y y' A B. unfold get_m in *. destruct (Forall2_nth_l F A) as [z [Hz Q]].
    replace y' with z by congruence. apply Q.
Qed.

Lemma MQ_same m s s' :
  mtasks s' = mtasks s -> gmeta s' = gmeta s -> dtasks s' = dtasks s -> closed s' = closed s ->
  taint_iter s' = taint_iter s -> MQ m s s'.
Proof.
  intros A B C D E. apply MQ_of_PQ; auto. constructor; auto; try congruence.
  rewrite A. apply Forall2_refl, qsim_refl.
Qed.

(** writing spawner [m]'s own record *)
Lemma MQ_upd m s0 s1 s' x' :
  MQ m s0 s1 -> mtasks s' = upd (mtasks s1) m x' -> gmeta s' = gmeta s1 ->
  dtasks s' = dtasks s1 -> closed s' = closed s1 -> taint_iter s' = taint_iter s1 ->
  (forall y, get_m s0 m = Some y -> mimm y x') -> m < length (mtasks s1) ->
  MQ m s0 s' /\ get_m s' m = Some x'.
Proof.
  intros [A1 A2 A3 A4 A5 A6 A7] Em Eg Ed Ec Et Hi Hlt. split.
  - constructor; try congruence.
    + rewrite Em, upd_length. auto.
    + intros k y y' Hk Hy Hy'. unfold get_m in Hy'. rewrite Em, nth_error_upd_neq in Hy' by auto.
      eapply A2; eauto.
    + intros y y' Hy Hy'. unfold get_m in Hy'. rewrite Em, nth_error_upd_eq in Hy' by auto.
      inversion Hy'; subst. auto.
  - unfold get_m. rewrite Em. apply nth_error_upd_eq; auto.
Qed.

Definition G (m : nat) (s0 s' : state) : Prop :=
  MQ m s0 s' /\ forall x', get_m s' m = Some x' -> xs_ok s' x'.

Definition pend (s0 : state) (m : nat) (x : mtask) : Prop :=
  forall y, get_m s0 m = Some y -> mimm y x.

Lemma finish_m_gd s m x e :
  gmeta (finish_m s m x e) = gmeta s /\ dtasks (finish_m s m x e) = dtasks s.
Proof. unfold finish_m, put_m. split; frw; reflexivity. Qed.

Lemma suspend_m_gd s m x pc :
  gmeta (suspend_m s m x pc) = gmeta s /\ dtasks (suspend_m s m x pc) = dtasks s.
Proof. unfold suspend_m, put_m. destruct (m_mc x); split; frw; reflexivity. Qed.

Lemma to_iter_gd s m :
  gmeta (to_iter s m) = gmeta s /\ dtasks (to_iter s m) = dtasks s.
Proof. unfold to_iter, put_m. destruct (get_m s m); split; frw; reflexivity. Qed.

Lemma register_gd s m x :
  gmeta (register s m x) = gmeta s /\ dtasks (register s m x) = dtasks s.
Proof. unfold register, put_m. cbv zeta. split; frw; reflexivity. Qed.

Lemma pend_trans s0 m x x' : pend s0 m x -> mimm x x' -> pend s0 m x'.
Proof. intros H Hi y Hy. eapply mimm_trans; eauto. Qed.

Lemma G_finish m s0 s1 x e :
  MQ m s0 s1 -> pend s0 m x -> m < length (mtasks s1) -> G m s0 (finish_m s1 m x e).
Proof.
  intros HM Hp Hlt.
  destruct (finish_m_fields s1 m x e) as [Em [_ [_ [_ [Et Ec]]]]].
  destruct (finish_m_gd s1 m x e) as [Eg Ed].
  assert (Hp' : pend s0 m (fin_x x e)).
  { eapply pend_trans; eauto. unfold mimm, fin_x; cbn; tauto. }
  destruct (@MQ_upd m s0 s1 (finish_m s1 m x e) (fin_x x e) HM Em Eg Ed Ec Et Hp' Hlt) as [A B].
  split; auto. intros x' Hx'. rewrite B in Hx'. inversion Hx'; subst x'.
  unfold xs_ok, xpc, fin_x. cbn. split; [|split; [|split]]; try (intros; discriminate).
  split; [|split]; intros; discriminate.
Qed.

Lemma G_suspend m s0 s1 x pc :
  MQ m s0 s1 -> pend s0 m x -> m < length (mtasks s1) -> closed s1 = false ->
  m_final x = None -> mc_ok s1 x -> (m_dead x = true -> m_mc x = true) ->
  (pc = MWaitPool /\ can_start x /\ m_holds x = is_map x \/
   pc = MWaitMap /\ is_map x = true /\ can_start x) ->
  G m s0 (suspend_m s1 m x pc).
Proof.
  intros HM Hp Hlt Hcl Hlive Hmc Hdm Hpc.
  destruct (suspend_m_fields s1 m x pc) as [Em [_ [_ [_ [Et Ec]]]]].
  destruct (suspend_m_gd s1 m x pc) as [Eg Ed].
  assert (Hfld : forall A (f : mtask -> A),
            (forall y v, f (set_m_fw y v) = f y) -> (forall y v, f (set_m_mc y v) = f y) ->
            (forall y v, f (set_m_pc y v) = f y) -> f (susp_x x pc) = f x).
  { intros A f F1 F2 F3. unfold susp_x. destruct (m_mc x); rewrite ?F1, ?F2, ?F3; auto. }
  assert (Hp' : pend s0 m (susp_x x pc)).
  { eapply pend_trans; eauto. unfold mimm. rewrite !Hfld by reflexivity. apply mimm_refl. }
  destruct (@MQ_upd m s0 s1 (suspend_m s1 m x pc) (susp_x x pc) HM Em Eg Ed Ec Et Hp' Hlt)
    as [A B].
  split; auto. intros x' Hx'. rewrite B in Hx'. inversion Hx'; subst x'.
  assert (Epc : m_pc (susp_x x pc) = pc) by (unfold susp_x; destruct (m_mc x); reflexivity).
  assert (Ecan : cancelled (susp_x x pc) <-> m_mc x = true).
  { unfold susp_x, cancelled. destruct (m_mc x) eqn:E0; cbn; rewrite ?E0.
    - split; auto.
    - split; [intros [E|E]; discriminate|discriminate]. }
  unfold xs_ok. rewrite Ec, Hcl, Et. split; [|split; [|split]].
  - unfold xpc. rewrite Epc. unfold is_map, can_start. rewrite !Hfld by reflexivity.
    fold (is_map x). fold (can_start x).
    destruct Hpc as [[-> [C1 C2]]|[-> [C1 C2]]]; (split; [|split]); try (intros; discriminate); auto.
  - intros _ Hc. apply Ecan in Hc. rewrite Hfld by reflexivity. apply Hmc; auto.
  - rewrite (@Hfld _ m_dead) by reflexivity. intros _ Hd. apply Ecan. auto.
  - intros; discriminate.
Qed.

Definition dead_mc (x : mtask) : Prop := m_dead x = true -> m_mc x = true.

Lemma G_to_iter m s0 s1 x :
  MQ m s0 s1 -> get_m s1 m = Some x -> pend s0 m x -> closed s1 = false ->
  is_map x = true -> m_fw x = None -> mc_ok s1 x -> dead_mc x -> G m s0 (to_iter s1 m).
Proof.
  intros HM Hx Hp Hcl Hmap Hfw Hmc Hdm.
  destruct (to_iter_fields Hx) as [Em [_ [_ [_ [Et Ec]]]]].
  destruct (to_iter_gd s1 m) as [Eg Ed].
  assert (Hp' : pend s0 m (set_m_pc x MAtIter)).
  { eapply pend_trans; eauto. unfold mimm; cbn; tauto. }
  destruct (@MQ_upd m s0 s1 (to_iter s1 m) _ HM Em Eg Ed Ec Et Hp' (get_m_len Hx)) as [A B].
  split; auto. intros x' Hx'. rewrite B in Hx'. inversion Hx'; subst x'.
  unfold xs_ok, xpc, cancelled. cbn. rewrite Ec, Hcl, Et, Hfw.
  split; [|split; [|split]].
  - split; [|split]; auto; intros; discriminate.
  - intros _ [E|E]; [|discriminate]. apply Hmc; auto.
  - intros _ Hd. left. apply Hdm; auto.
  - intros; discriminate.
Qed.

Lemma T_try_start m s0 s x :
  MQ m s0 s -> pend s0 m x -> m < length (mtasks s) -> closed s = false ->
  m_final x = None -> m_fw x = None -> mc_ok s x -> dead_mc x ->
  can_start x -> m_holds x = is_map x ->
  MQ m s0 (fst (try_start s m x)) /\ closed (fst (try_start s m x)) = false /\
  (snd (try_start s m x) = true -> get_m (fst (try_start s m x)) m = Some (reg_x x)) /\
  (snd (try_start s m x) = false ->
     forall x', get_m (fst (try_start s m x)) m = Some x' -> xs_ok (fst (try_start s m x)) x').
Proof.
  intros HM Hp Hlt Hcl Hlive Hfw Hmc Hdm Hcs Hh. unfold try_start. rewrite Hcl.
  destruct (sem_locked s); cbn [fst snd].
  - set (s1 := set_sem_waiters s (sem_waiters s ++ [m])).
    assert (HM1 : MQ m s0 s1) by (eapply MQ_trans; [exact HM|apply MQ_same; reflexivity]).
    destruct (@G_suspend m s0 s1 x MWaitPool HM1 Hp Hlt Hcl Hlive Hmc Hdm) as [A B]; auto.
    split; auto. split; [|split; [discriminate|auto]].
    destruct (suspend_m_fields s1 m x MWaitPool) as [_ [_ [_ [_ [_ Ec]]]]]. rewrite Ec. exact Hcl.
  - set (s1 := set_sem_value s (ninf_pred (sem_value s))).
    assert (HM1 : MQ m s0 s1) by (eapply MQ_trans; [exact HM|apply MQ_same; reflexivity]).
    destruct (register_fields s1 m x) as [_ [R2 [_ [_ [R5 R6]]]]].
    destruct (register_gd s1 m x) as [Rg Rd].
    assert (Hp' : pend s0 m (reg_x x)) by (eapply pend_trans; eauto; apply reg_x_mimm).
    destruct (@MQ_upd m s0 s1 (register s1 m x) _ HM1 R2 Rg Rd R6 R5 Hp' Hlt) as [A B].
    split; auto. split; [rewrite R6; exact Hcl|]. split; auto. discriminate.
Qed.

Lemma mc_ok_taint s s' x : taint_iter s' = taint_iter s -> mc_ok s x -> mc_ok s' x.
Proof. unfold mc_ok. intros ->. auto. Qed.

Lemma mc_ok_MQ m s0 s x : MQ m s0 s -> mc_ok s0 x -> mc_ok s x.
Proof. intros H. apply mc_ok_taint. apply (mq_t H). Qed.

Definition lh (s0 : state) (m : nat) (x : mtask) : Prop :=
  m_final x = None /\ m_fw x = None /\ mc_ok s0 x /\ dead_mc x /\ pend s0 m x.

Lemma G_none m s0 s : MQ m s0 s -> get_m s m = None -> G m s0 s.
Proof. intros H E. split; auto. intros x' Hx'. congruence. Qed.

Lemma T_apply_loop m s0 rem : forall s,
  MQ m s0 s -> closed s = false ->
  (forall x, get_m s m = Some x ->
     lh s0 m x /\ is_map x = false /\ m_holds x = false /\ rem = m_num x - m_idx x) ->
  G m s0 (apply_loop rem s m).
Proof.
  induction rem as [|r IH]; intros s HM Hcl Hpre; simpl;
    destruct (get_m s m) as [x|] eqn:Hx; try solve [apply G_none; auto];
    destruct (Hpre _ eq_refl) as [[Hlive [Hfw [Hmc [Hdm Hp]]]] [Hnm [Hho Hrem]]];
    pose proof (get_m_len Hx) as Hlt.
  - apply G_finish; auto.
  - destruct (nth (m_idx x) (m_bad x) false) eqn:Hbad.
    + set (x' := set_m_idx x (S (m_idx x))).
      assert (Hp' : pend s0 m x') by (eapply pend_trans; eauto; unfold mimm; cbn; tauto).
      destruct (@MQ_upd m s0 s (put_m s m x') x' HM eq_refl eq_refl eq_refl eq_refl eq_refl Hp' Hlt)
        as [A B].
      apply IH; auto. intros x1 Hx1. rewrite B in Hx1. inversion Hx1; subst x1.
      split; [|split; [|split]]; auto.
      * unfold lh, mc_ok, dead_mc in *. cbn. auto.
      * cbn. lia.
    + assert (Hcs : can_start x).
      { unfold can_start, is_map in *. destruct (m_kind x); try discriminate; split; auto; lia. }
      destruct (@T_try_start m s0 s x HM Hp Hlt Hcl Hlive Hfw (mc_ok_MQ HM Hmc) Hdm Hcs)
        as [A [B [C D]]]; [congruence|].
      destruct (try_start s m x) as [s' cont]. cbn [fst snd] in *.
      destruct cont.
      * apply IH; auto. intros x1 Hx1. rewrite (C eq_refl) in Hx1. inversion Hx1; subst x1.
        split; [|split; [|split]]; auto.
        -- unfold lh, mc_ok, dead_mc in *. cbn. split; [|split; [|split; [|split]]]; auto.
        -- cbn. lia.
      * split; auto.
Qed.

Lemma T_spawn_next m s0 s :
  MQ m s0 s -> closed s = false ->
  (forall x, get_m s m = Some x -> lh s0 m x /\ m_holds x = false) ->
  G m s0 (spawn_next s m).
Proof.
  intros HM Hcl Hpre. unfold spawn_next.
  destruct (get_m s m) as [x|] eqn:Hx; [|apply G_none; auto].
  destruct (Hpre _ eq_refl) as [[Hlive [Hfw [Hmc [Hdm Hp]]]] Hho].
  destruct (m_kind x) eqn:K.
  - apply T_apply_loop; auto. intros x' Hx'. rewrite Hx in Hx'. inversion Hx'; subst x'.
    unfold lh, is_map. rewrite K. auto 10.
  - eapply G_to_iter; eauto. unfold is_map. rewrite K. auto. eapply mc_ok_MQ; eauto.
  - apply T_apply_loop; auto. intros x' Hx'. rewrite Hx in Hx'. inversion Hx'; subst x'.
    unfold lh, is_map. rewrite K. auto 10.
Qed.

Lemma T_start_then_next m s0 s x :
  MQ m s0 s -> pend s0 m x -> m < length (mtasks s) -> closed s = false ->
  m_final x = None -> m_fw x = None -> mc_ok s0 x -> dead_mc x ->
  can_start x -> m_holds x = is_map x -> G m s0 (start_then_next s m x).
Proof.
  intros HM Hp Hlt Hcl Hlive Hfw Hmc Hdm Hcs Hh.
  destruct (@T_try_start m s0 s x HM Hp Hlt Hcl Hlive Hfw (mc_ok_MQ HM Hmc) Hdm Hcs Hh)
    as [A [B [C D]]].
  unfold start_then_next. destruct (try_start s m x) as [s' cont]. cbn [fst snd] in *.
  destruct cont; [|split; auto].
  apply T_spawn_next; auto. intros x1 Hx1. rewrite (C eq_refl) in Hx1. inversion Hx1; subst x1.
  split; [|reflexivity]. unfold lh, mc_ok, dead_mc in *. cbn.
  split; [|split; [|split; [|split]]]; auto.
Qed.

Lemma T_continue_m m s x :
  get_m s m = Some x -> m_pc x = MAtIter -> is_map x = true -> m_final x = None ->
  m_fw x = None -> mc_ok s x -> dead_mc x -> m_holds x = false -> closed s = false ->
  G m s (continue_m s m).
Proof.
  intros Hx Hpc Hmap Hlive Hfw Hmc Hdm Hho Hcl. unfold continue_m. rewrite Hx, Hpc.
  pose proof (MQ_refl m s) as HM. pose proof (get_m_len Hx) as Hlt.
  assert (Hp : pend s m x) by (intros y Hy; replace y with x by congruence; apply mimm_refl).
  assert (Hk : exists st, m_kind x = MMap st)
    by (unfold is_map in Hmap; destruct (m_kind x); try discriminate; eauto).
  destruct Hk as [st Hk].
  destruct (nth_error (m_els x) (m_idx x)) as [e|] eqn:He; [|apply G_finish; auto].
  destruct (e_bad e) eqn:Hbad.
  { set (x' := set_m_idx x (S (m_idx x))).
    assert (Hp' : pend s m x') by (eapply pend_trans; eauto; unfold mimm; cbn; tauto).
    destruct (@MQ_upd m s s (put_m s m x') x' HM eq_refl eq_refl eq_refl eq_refl eq_refl Hp' Hlt)
      as [A B].
    eapply G_to_iter; eauto. }
  assert (Hcs : can_start x) by (unfold can_start; rewrite Hk; eauto).
  destruct (m_mapval x) as [|v] eqn:Hmv.
  - apply G_suspend; auto.
  - apply T_start_then_next; auto.
Qed.

Lemma pend_self s m x : get_m s m = Some x -> pend s m x.
Proof. intros Hx y Hy. replace y with x by congruence. apply mimm_refl. Qed.

Lemma T_run_m_notstarted m s x0 :
  get_m s m = Some x0 -> RunPre s m x0 -> (m_dead x0 = true -> cancelled x0) ->
  m_pc x0 = MNotStarted -> G m s (run_m s m).
Proof.
  intros Hx HR Hdc Hpc. rewrite (run_m_eq Hx). cbv zeta. rewrite Hpc.
  pose proof (MQ_refl m s) as HM. pose proof (get_m_len Hx) as Hlt.
  pose proof (pend_self Hx) as Hp.
  assert (Hfw : m_fw x0 = None).
  { destruct (m_fw x0) eqn:E; auto. exfalso.
    assert (m_pc x0 = MWaitPool \/ m_pc x0 = MWaitMap) as [H|H]
      by (apply (rp_mfw HR); congruence); congruence. }
  rewrite Hfw. unfold task_input. destruct (m_mc x0) eqn:Hmc.
  - apply G_finish; auto.
  - assert (Hcl : closed s = false).
    { destruct (closed s) eqn:E; auto. destruct (rp_closed HR E); congruence. }
    assert (Hnd : m_dead x0 = false).
    { destruct (m_dead x0) eqn:E; auto. destruct (Hdc eq_refl); congruence. }
    set (x1 := set_m_pc (clr x0) MLoopHead).
    assert (Hp' : pend s m x1) by (eapply pend_trans; eauto; unfold mimm; cbn; tauto).
    destruct (@MQ_upd m s s (put_m s m x1) x1 HM eq_refl eq_refl eq_refl eq_refl eq_refl Hp' Hlt)
      as [A B].
    apply T_spawn_next; auto. intros x' Hx'. rewrite B in Hx'. inversion Hx'; subst x'.
    split.
    + unfold lh, mc_ok, dead_mc. cbn. split; [exact (rp_live HR)|].
      split; [reflexivity|]. split; [discriminate|]. split; [congruence|exact Hp'].
    + cbn. destruct (m_holds x0) eqn:E; auto. pose proof (rp_holds HR E). congruence.
Qed.

Lemma T_run_m_waitmap m s x0 :
  get_m s m = Some x0 -> RunPre s m x0 -> (m_dead x0 = true -> cancelled x0) ->
  m_pc x0 = MWaitMap -> G m s (run_m s m).
Proof.
  intros Hx HR Hdc Hpc. rewrite (run_m_eq Hx). cbv zeta. rewrite Hpc.
  pose proof (MQ_refl m s) as HM. pose proof (get_m_len Hx) as Hlt.
  pose proof (pend_self Hx) as Hp.
  destruct (rp_xpc_map HR Hpc) as [Hmap Hcs].
  assert (Hfin : forall x e, mimm x0 x -> G m s (finish_m s m x e)).
  { intros x e Hi. apply G_finish; auto. eapply pend_trans; eauto. }
  destruct (wait_fw HR (or_intror Hpc)) as [Hfw|Hfw]; rewrite Hfw; unfold task_input;
    destruct (m_mc x0) eqn:Hmc; try (apply Hfin; unfold mimm; cbn; tauto).
  assert (Hcl : closed s = false).
  { destruct (closed s) eqn:E; auto. destruct (rp_closed HR E); congruence. }
  assert (Hnd : m_dead x0 = false).
  { destruct (m_dead x0) eqn:E; auto. destruct (Hdc eq_refl); congruence. }
  apply T_start_then_next;
    [ exact HM | eapply pend_trans; [exact Hp|unfold mimm; cbn; tauto] | exact Hlt | exact Hcl
    | exact (rp_live HR) | reflexivity | unfold mc_ok; cbn; discriminate
    | unfold dead_mc; cbn; congruence | exact Hcs | unfold is_map in *; cbn; congruence ].
Qed.

Lemma T_run_m_waitpool m s x0 :
  get_m s m = Some x0 -> RunPre s m x0 -> (m_dead x0 = true -> cancelled x0) ->
  m_pc x0 = MWaitPool -> G m s (run_m s m).
Proof.
  intros Hx HR Hdc Hpc. rewrite (run_m_eq Hx). cbv zeta. rewrite Hpc.
  pose proof (get_m_len Hx) as Hlt. pose proof (pend_self Hx) as Hp.
  set (x := clr x0).
  assert (Hpx : pend s m x) by (eapply pend_trans; eauto; unfold mimm; cbn; tauto).
  set (sw := set_sem_waiters s (remove1 m (sem_waiters s))).
  destruct (@MQ_upd m s sw (put_m sw m x) x (MQ_same m (s:=s) (s':=sw) eq_refl eq_refl eq_refl
              eq_refl eq_refl) eq_refl eq_refl eq_refl eq_refl eq_refl Hpx Hlt) as [HM1 Hx1].
  set (s1 := put_m sw m x) in *.
  assert (Hlt1 : m < length (mtasks s1)) by (eapply get_m_len; eauto).
  assert (Hrel : MQ m s (sem_release s1)).
  { eapply MQ_trans; [exact HM1|]. apply MQ_of_PQ; [apply PQ_sem_release, PQ_refl|].
    autorewrite with fr. auto. }
  assert (Hwk : MQ m s (wake_next s1)).
  { eapply MQ_trans; [exact HM1|]. apply MQ_of_PQ; [apply PQ_wake_next, PQ_refl|].
    autorewrite with fr. auto. }
  assert (Hfin : forall s2 x2 e, MQ m s s2 -> mimm x0 x2 -> G m s (finish_m s2 m x2 e)).
  { intros s2 x2 e H2 Hi. apply G_finish; auto.
    - eapply pend_trans; eauto.
    - rewrite (mq_len H2). exact Hlt. }
  assert (Hfin2 : forall s2, MQ m s s2 ->
    G m s (finish_m s2 m (if m_holds x then set_m_holds (set_m_mapval x (S (m_mapval x))) false
                          else x) None)).
  { intros s2 H2. apply Hfin; auto. destruct (m_holds x); unfold mimm; cbn; tauto. }
  destruct (wait_fw HR (or_introl Hpc)) as [Hfw|Hfw]; rewrite Hfw; unfold task_input;
    destruct (m_mc x0) eqn:Hmc; try (apply Hfin2; auto).
  assert (Hcl : closed s = false).
  { destruct (closed s) eqn:E; auto. destruct (rp_closed HR E); congruence. }
  assert (Hnd : m_dead x0 = false).
  { destruct (m_dead x0) eqn:E; auto. destruct (Hdc eq_refl); congruence. }
  set (s2 := if ninf_pos (sem_value s1) then wake_next s1 else s1).
  assert (HM2 : MQ m s s2) by (unfold s2; destruct (ninf_pos (sem_value s1)); auto).
  destruct (register_fields s2 m x) as [_ [R2 [_ [_ [R5 R6]]]]].
  destruct (register_gd s2 m x) as [Rg Rd].
  assert (Hp' : pend s m (reg_x x)) by (eapply pend_trans; eauto; apply reg_x_mimm).
  assert (Hlt2 : m < length (mtasks s2)) by (rewrite (mq_len HM2); exact Hlt).
  destruct (@MQ_upd m s s2 (register s2 m x) _ HM2 R2 Rg Rd R6 R5 Hp' Hlt2) as [A B].
  apply T_spawn_next; auto.
  - rewrite (mq_c A). exact Hcl.
  - intros x' Hx'. rewrite B in Hx'. inversion Hx'; subst x'. split; [|reflexivity].
    unfold lh, mc_ok, dead_mc. cbn. split; [exact (rp_live HR)|].
    split; [reflexivity|]. split; [discriminate|]. split; [congruence|exact Hp'].
Qed.

Lemma T_run_m m s :
  (forall x0, get_m s m = Some x0 ->
     m_pc x0 = MNotStarted \/ m_pc x0 = MWaitPool \/ m_pc x0 = MWaitMap ->
     RunPre s m x0 /\ (m_dead x0 = true -> cancelled x0)) ->
  (forall x0, get_m s m = Some x0 -> xs_ok s x0) ->
  G m s (run_m s m).
Proof.
  intros H Hxs. destruct (get_m s m) as [x0|] eqn:Hx.
  - destruct (m_pc x0) eqn:Hpc;
      try (rewrite (run_m_eq Hx); cbv zeta; rewrite Hpc; split; [apply MQ_refl|];
           intros x' Hx'; apply Hxs; congruence).
    + destruct (H _ eq_refl) as [A B]; auto. apply T_run_m_notstarted with (x0 := x0); auto.
    + destruct (H _ eq_refl) as [A B]; auto. apply T_run_m_waitmap with (x0 := x0); auto.
    + destruct (H _ eq_refl) as [A B]; auto. apply T_run_m_waitpool with (x0 := x0); auto.
  - unfold run_m. rewrite Hx. apply G_none; auto. apply MQ_refl.
Qed.

Lemma Extra_of_G m s s' : Extra_IR s -> G m s s' -> Extra_IR s'.
Proof.
  intros HX [HM Hown]. destruct (Extra_parts HX) as [A [B C]].
  pose proof HM as [L Ho Hm Gm Dt Cl Tt].
  apply Extra_of_parts.
  - intros k y' Hy'. destruct (Nat.eq_dec k m) as [->|Ne]; [apply Hown; auto|].
    destruct (@get_m_ex s k) as [y Hy]; [rewrite <- L; eapply get_m_len; eauto|].
    eapply xs_ok_qsim; [eapply Ho; eauto| | |apply (A _ _ Hy)]; auto. congruence.
  - intros g ms k Hi Hk. rewrite Gm in Hi. destruct (B _ _ _ Hi Hk) as [y [Hy Hg]].
    destruct (@get_m_ex s' k) as [y' Hy']; [rewrite L; eapply get_m_len; eauto|].
    exists y'. split; auto. destruct (Nat.eq_dec k m) as [->|Ne].
    + destruct (Hm _ _ Hy Hy') as [_ [M2 _]]. congruence.
    + destruct (Ho _ _ _ Ne Hy Hy') as [[_ [M2 _]] _]. congruence.
  - eapply xgac_same; eauto.
Qed.
