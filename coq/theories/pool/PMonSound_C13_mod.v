(** Monitor soundness, C13 — model side: a driver that logs [EvDriverDone d o] has recorded the
    outcome [o]. *)
From TP Require Import PInv PInv_P_base PInv_P_view PInv_P_inv PInv_P_tok PInv_P_tok2
  PInv_P_chain PInv_P_step PInv_P_ed PInv_P PSpecStep
  PStep_C_ev PStep_C_rel PStep_C_run PStep_C_drv PStep_C PMonSound_C13_kd.

Definition DF (d : nat) (k : dkind) (s0 s' : state) : Prop :=
  forall o, In (EvDriverDone d o) (evs s') ->
    In (EvDriverDone d o) (evs s0) \/
    exists x', get_d s' d = Some x' /\ d_final x' = Some o /\ d_kind x' = k.

Lemma DF_same d k s s' : evs s' = evs s -> DF d k s s'.
Proof. intros E o. rewrite E. auto. Qed.

Lemma len_KD s s' : KD (map d_kind (dtasks s)) s' -> length (dtasks s') = length (dtasks s).
Proof. unfold KD. intros H. rewrite <- (map_length d_kind), H, map_length. reflexivity. Qed.

Lemma DF_finish_d s d x e :
  d < length (dtasks s) -> DF d (d_kind x) s (finish_d s d x e).
Proof.
  intros Hd o. rewrite ev_finish_d, in_app_iff. simpl. intros [H|[H|[]]]; auto.
  injection H as Ho. subst o. right. eexists. split.
  - unfold finish_d, get_d. cbn [dtasks set_ctl emit set_evs put_d set_dtasks].
    apply nth_error_upd_eq. exact Hd.
  - split; reflexivity.
Qed.

Lemma DF_finish_after s s1 d x :
  d < length (dtasks s) -> evs s1 = evs s -> length (dtasks s1) = length (dtasks s) ->
  DF d (d_kind x) s (finish_d s1 d x None).
Proof.
  intros Hd He Hl o Ho. rewrite <- Hl in Hd.
  destruct (DF_finish_d s1 d x None Hd o Ho) as [H|H]; [left; rewrite <- He; exact H|right; exact H].
Qed.

Lemma DF_after_g2 s d x outer :
  d < length (dtasks s) -> DF d (d_kind x) s (after_g2 s d x outer).
Proof.
  intros Hd. unfold after_g2.
  destruct outer; try (now apply DF_finish_d); destruct (d_kind x) eqn:Ek;
    try (rewrite <- Ek; now apply DF_finish_d); rewrite <- Ek.
  - apply DF_finish_after; auto.
  - apply DF_finish_after; auto.
    + now rewrite ev_wake_closed.
    + apply len_KD. apply XC_wake_closed. reflexivity.
  - apply DF_finish_after; auto.
  - apply DF_finish_after; auto.
    + now rewrite ev_wake_closed.
    + apply len_KD. apply XC_wake_closed. reflexivity.
Qed.

Lemma DF_start_g2 s d x cs re :
  d < length (dtasks s) -> DF d (d_kind x) s (start_g2 s d x cs re).
Proof.
  intros Hd. unfold start_g2. destruct (make_gather _ _ _) as [g outer].
  destruct outer; try (apply (DF_after_g2 s d (set_d_snap (set_d_g2 x (Some g)) cs)); exact Hd).
  now apply DF_same.
Qed.

Lemma DF_after_g1 s d x outer :
  d < length (dtasks s) -> DF d (d_kind x) s (after_g1 s d x outer).
Proof.
  intros Hd. unfold after_g1. destruct (d_kind x) eqn:Ek; rewrite <- Ek.
  - assert (Hgo : forall cs, DF d (d_kind x) s (start_g2 (set_meta_cancelled s []) d x cs re))
      by (intros cs; apply (DF_start_g2 (set_meta_cancelled s []) d x cs re Hd)).
    destruct outer as [| |e|]; auto. destruct e; auto using DF_finish_d.
  - destruct (if re then None else _); [now apply DF_finish_d|].
    apply (DF_start_g2 (set_gmeta (set_meta_cancelled s []) []) d x _ re Hd).
  - now apply DF_finish_d.
Qed.

Lemma DF_start_g1 s d x cs re :
  d < length (dtasks s) -> DF d (d_kind x) s (start_g1 s d x cs re).
Proof.
  intros Hd. unfold start_g1. destruct (make_gather _ _ _) as [g outer].
  destruct outer; try (apply (DF_after_g1 s d (set_d_g1 x (Some g))); exact Hd).
  now apply DF_same.
Qed.

Lemma DF_run_d s d x0 : get_d s d = Some x0 -> DF d (d_kind x0) s (run_d s d).
Proof.
  intros Hx. assert (Hd : d < length (dtasks s)) by (apply nth_error_Some; unfold get_d in Hx; congruence).
  unfold run_d. rewrite Hx. destruct (d_pc x0).
  - change (d_kind x0) with (d_kind (set_d_fw x0 None)).
    destruct (d_kind (set_d_fw x0 None)) eqn:Ek; rewrite <- Ek.
    + destruct (pop_ended s (gmeta s)) as [gm ended].
      apply (DF_start_g1 (set_gmeta s gm) d (set_d_fw x0 None)). exact Hd.
    + apply (DF_start_g1 (set_locked s true) d (set_d_fw x0 None)). exact Hd.
    + destruct (closed s); [now apply DF_finish_d|]. now apply DF_same.
  - apply (DF_after_g1 s d (set_d_fw x0 None)). exact Hd.
  - apply (DF_after_g2 s d (set_d_fw x0 None)). exact Hd.
  - apply (DF_finish_d (set_closed_waiters s (remove1 d (closed_waiters s))) d (set_d_fw x0 None)).
    exact Hd.
  - now apply DF_same.
Qed.

(** which step logs [EvDriverDone d o], and what it records *)
Lemma step_driver_done s l d oc :
  WF s -> Extra_P s -> In (EvDriverDone d oc) (evs (step s l)) ->
  l = LRun (HT (TD d)) /\
  exists x x', get_d s d = Some x /\ get_d (step s l) d = Some x' /\
               d_final x' = Some oc /\ d_kind x' = d_kind x.
Proof.
  intros W EP. pose proof (wf1 _ W) as HI1.
  unfold step. fold (pre s). destruct (negb (enabled (pre s) l)) eqn:En; [intros []|].
  apply negb_false_iff in En.
  destruct l as [h| |o].
  - apply enabled_run in En.
    assert (HI2 : I1 (unsched (pre s) h)) by (eapply I1_pv; [|exact HI1]; reflexivity).
    destruct h as [[t0|m|d']|d' c]; cbn [run_handle].
    + intros He. apply (ev_run_p (unsched (pre s) (HT (TP t0))) t0 _ HI2 eq_refl) in He.
      destruct He.
    + intros He. apply op_run_m in He. destruct He as [[]|(m' & k' & He)]. discriminate.
    + destruct (get_d s d') as [x0|] eqn:Hx0.
      * intros He.
        assert (d = d').
        { destruct (run_d_shape s d' x0 W EP En Hx0)
            as [[_ [_ Hc]]|[[_ Hc]|(snap & outer & (_ & _ & Hc) & _)]].
          - apply Hc in He. destruct He as [[]|(o & He & _)]. congruence.
          - apply Hc in He. destruct He as [[]|(o & He & _)]. congruence.
          - rewrite Hc in He. simpl in He. destruct He as [He|[]]. congruence. }
        subst d'. split; auto.
        destruct (DF_run_d (unsched (pre s) (HT (TD d))) d x0 Hx0 oc He) as [[]|(x' & a & b & c)].
        exists x0, x'. auto.
      * rewrite run_d_none by exact Hx0. intros [].
    + rewrite ev_run_g. intros [].
  - assert (HI2 : I1 (pre s)) by (eapply I1_pv; [|exact HI1]; reflexivity).
    destruct (ctl (pre s)) as [|[t0|m|d']]; try (intros []).
    + intros He. apply (ev_continue_p (pre s) t0 _ HI2 eq_refl) in He. destruct He.
    + intros He. apply op_continue_m in He. destruct He as [[]|(m' & k' & He)]. discriminate.
  - rewrite ev_do_op. intros [].
Qed.

(** in such a step every event is an [EvDriverDone] of that driver *)
Lemma step_driver_events s d e :
  WF s -> Extra_P s -> In e (evs (step s (LRun (HT (TD d))))) -> exists o, e = EvDriverDone d o.
Proof.
  intros W EP. unfold step. fold (pre s).
  destruct (negb (enabled (pre s) (LRun (HT (TD d))))) eqn:En; [intros []|].
  apply negb_false_iff in En. apply enabled_run in En. cbn [run_handle].
  destruct (get_d s d) as [x0|] eqn:Hx0.
  - destruct (run_d_shape s d x0 W EP En Hx0)
      as [[_ [_ Hc]]|[[_ Hc]|(snap & outer & (_ & _ & Hc) & _)]].
    + intros He. apply Hc in He. destruct He as [[]|(o & He & _)]. eauto.
    + intros He. apply Hc in He. destruct He as [[]|(o & He & _)]. eauto.
    + rewrite Hc. simpl. intros [He|[]]. eauto.
  - rewrite run_d_none by exact Hx0. intros [].
Qed.
