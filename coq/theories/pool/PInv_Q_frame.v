(** Frame lemmas: how the helper functions of the model act on the fields the IR / IGr layers read. *)
From TP Require Export PInv_Q_base.

Ltac fr_tac := intros; cbn; repeat (match goal with |- context [if ?b then _ else _] => destruct b end; cbn); try reflexivity.

Lemma emit_ptasks s e : ptasks (emit s e) = ptasks s.
Proof. unfold emit; fr_tac. Qed.
Lemma emit_mtasks s e : mtasks (emit s e) = mtasks s.
Proof. unfold emit; fr_tac. Qed.
Lemma emit_groups s e : groups (emit s e) = groups s.
Proof. unfold emit; fr_tac. Qed.
Lemma emit_num_started s e : num_started (emit s e) = num_started s.
Proof. unfold emit; fr_tac. Qed.
Lemma emit_taint_iter s e : taint_iter (emit s e) = taint_iter s.
Proof. unfold emit; fr_tac. Qed.
Lemma emit_closed s e : closed (emit s e) = closed s.
Proof. unfold emit; fr_tac. Qed.
Lemma emit_gmeta s e : gmeta (emit s e) = gmeta s.
Proof. unfold emit; fr_tac. Qed.
Lemma emit_dtasks s e : dtasks (emit s e) = dtasks s.
Proof. unfold emit; fr_tac. Qed.
#[export] Hint Rewrite emit_ptasks emit_mtasks emit_groups emit_num_started emit_taint_iter emit_closed emit_gmeta emit_dtasks : fr.

Lemma sched_ptasks s h : ptasks (sched s h) = ptasks s.
Proof. unfold sched; fr_tac. Qed.
Lemma sched_mtasks s h : mtasks (sched s h) = mtasks s.
Proof. unfold sched; fr_tac. Qed.
Lemma sched_groups s h : groups (sched s h) = groups s.
Proof. unfold sched; fr_tac. Qed.
Lemma sched_num_started s h : num_started (sched s h) = num_started s.
Proof. unfold sched; fr_tac. Qed.
Lemma sched_taint_iter s h : taint_iter (sched s h) = taint_iter s.
Proof. unfold sched; fr_tac. Qed.
Lemma sched_closed s h : closed (sched s h) = closed s.
Proof. unfold sched; fr_tac. Qed.
Lemma sched_gmeta s h : gmeta (sched s h) = gmeta s.
Proof. unfold sched; fr_tac. Qed.
Lemma sched_dtasks s h : dtasks (sched s h) = dtasks s.
Proof. unfold sched; fr_tac. Qed.
#[export] Hint Rewrite sched_ptasks sched_mtasks sched_groups sched_num_started sched_taint_iter sched_closed sched_gmeta sched_dtasks : fr.

Lemma unsched_ptasks s h : ptasks (unsched s h) = ptasks s.
Proof. unfold unsched; fr_tac. Qed.
Lemma unsched_mtasks s h : mtasks (unsched s h) = mtasks s.
Proof. unfold unsched; fr_tac. Qed.
Lemma unsched_groups s h : groups (unsched s h) = groups s.
Proof. unfold unsched; fr_tac. Qed.
Lemma unsched_num_started s h : num_started (unsched s h) = num_started s.
Proof. unfold unsched; fr_tac. Qed.
Lemma unsched_taint_iter s h : taint_iter (unsched s h) = taint_iter s.
Proof. unfold unsched; fr_tac. Qed.
Lemma unsched_closed s h : closed (unsched s h) = closed s.
Proof. unfold unsched; fr_tac. Qed.
Lemma unsched_gmeta s h : gmeta (unsched s h) = gmeta s.
Proof. unfold unsched; fr_tac. Qed.
Lemma unsched_dtasks s h : dtasks (unsched s h) = dtasks s.
Proof. unfold unsched; fr_tac. Qed.
#[export] Hint Rewrite unsched_ptasks unsched_mtasks unsched_groups unsched_num_started unsched_taint_iter unsched_closed unsched_gmeta unsched_dtasks : fr.

Lemma know_ptasks s g : ptasks (know s g) = ptasks s.
Proof. unfold know; fr_tac. Qed.
Lemma know_mtasks s g : mtasks (know s g) = mtasks s.
Proof. unfold know; fr_tac. Qed.
Lemma know_groups s g : groups (know s g) = groups s.
Proof. unfold know; fr_tac. Qed.
Lemma know_num_started s g : num_started (know s g) = num_started s.
Proof. unfold know; fr_tac. Qed.
Lemma know_taint_iter s g : taint_iter (know s g) = taint_iter s.
Proof. unfold know; fr_tac. Qed.
Lemma know_closed s g : closed (know s g) = closed s.
Proof. unfold know; fr_tac. Qed.
Lemma know_gmeta s g : gmeta (know s g) = gmeta s.
Proof. unfold know; fr_tac. Qed.
Lemma know_dtasks s g : dtasks (know s g) = dtasks s.
Proof. unfold know; fr_tac. Qed.
#[export] Hint Rewrite know_ptasks know_mtasks know_groups know_num_started know_taint_iter know_closed know_gmeta know_dtasks : fr.

Lemma put_d_ptasks s d x : ptasks (put_d s d x) = ptasks s.
Proof. unfold put_d; fr_tac. Qed.
Lemma put_d_mtasks s d x : mtasks (put_d s d x) = mtasks s.
Proof. unfold put_d; fr_tac. Qed.
Lemma put_d_groups s d x : groups (put_d s d x) = groups s.
Proof. unfold put_d; fr_tac. Qed.
Lemma put_d_num_started s d x : num_started (put_d s d x) = num_started s.
Proof. unfold put_d; fr_tac. Qed.
Lemma put_d_taint_iter s d x : taint_iter (put_d s d x) = taint_iter s.
Proof. unfold put_d; fr_tac. Qed.
Lemma put_d_closed s d x : closed (put_d s d x) = closed s.
Proof. unfold put_d; fr_tac. Qed.
Lemma put_d_gmeta s d x : gmeta (put_d s d x) = gmeta s.
Proof. unfold put_d; fr_tac. Qed.
#[export] Hint Rewrite put_d_ptasks put_d_mtasks put_d_groups put_d_num_started put_d_taint_iter put_d_closed put_d_gmeta : fr.

Lemma fold_sched_ptasks l s : ptasks (fold_left sched l s) = ptasks s.
Proof. revert s; induction l as [|h t IH]; intros s; simpl; auto. rewrite IH. apply sched_ptasks. Qed.
Lemma fold_sched_mtasks l s : mtasks (fold_left sched l s) = mtasks s.
Proof. revert s; induction l as [|h t IH]; intros s; simpl; auto. rewrite IH. apply sched_mtasks. Qed.
Lemma fold_sched_groups l s : groups (fold_left sched l s) = groups s.
Proof. revert s; induction l as [|h t IH]; intros s; simpl; auto. rewrite IH. apply sched_groups. Qed.
Lemma fold_sched_num_started l s : num_started (fold_left sched l s) = num_started s.
Proof. revert s; induction l as [|h t IH]; intros s; simpl; auto. rewrite IH. apply sched_num_started. Qed.
Lemma fold_sched_taint_iter l s : taint_iter (fold_left sched l s) = taint_iter s.
Proof. revert s; induction l as [|h t IH]; intros s; simpl; auto. rewrite IH. apply sched_taint_iter. Qed.
Lemma fold_sched_closed l s : closed (fold_left sched l s) = closed s.
Proof. revert s; induction l as [|h t IH]; intros s; simpl; auto. rewrite IH. apply sched_closed. Qed.
Lemma fold_sched_gmeta l s : gmeta (fold_left sched l s) = gmeta s.
Proof. revert s; induction l as [|h t IH]; intros s; simpl; auto. rewrite IH. apply sched_gmeta. Qed.
Lemma fold_sched_dtasks l s : dtasks (fold_left sched l s) = dtasks s.
Proof. revert s; induction l as [|h t IH]; intros s; simpl; auto. rewrite IH. apply sched_dtasks. Qed.
#[export] Hint Rewrite fold_sched_ptasks fold_sched_mtasks fold_sched_groups fold_sched_num_started fold_sched_taint_iter fold_sched_closed fold_sched_gmeta fold_sched_dtasks : fr.

Lemma sched_cbs_ptasks s r : ptasks (sched_cbs s r) = ptasks s.
Proof. unfold sched_cbs. rewrite fold_sched_ptasks. auto. Qed.
Lemma sched_cbs_mtasks s r : mtasks (sched_cbs s r) = mtasks s.
Proof. unfold sched_cbs. rewrite fold_sched_mtasks. auto. Qed.
Lemma sched_cbs_groups s r : groups (sched_cbs s r) = groups s.
Proof. unfold sched_cbs. rewrite fold_sched_groups. auto. Qed.
Lemma sched_cbs_num_started s r : num_started (sched_cbs s r) = num_started s.
Proof. unfold sched_cbs. rewrite fold_sched_num_started. auto. Qed.
Lemma sched_cbs_taint_iter s r : taint_iter (sched_cbs s r) = taint_iter s.
Proof. unfold sched_cbs. rewrite fold_sched_taint_iter. auto. Qed.
Lemma sched_cbs_closed s r : closed (sched_cbs s r) = closed s.
Proof. unfold sched_cbs. rewrite fold_sched_closed. auto. Qed.
Lemma sched_cbs_gmeta s r : gmeta (sched_cbs s r) = gmeta s.
Proof. unfold sched_cbs. rewrite fold_sched_gmeta. auto. Qed.
Lemma sched_cbs_dtasks s r : dtasks (sched_cbs s r) = dtasks s.
Proof. unfold sched_cbs. rewrite fold_sched_dtasks. auto. Qed.
#[export] Hint Rewrite sched_cbs_ptasks sched_cbs_mtasks sched_cbs_groups sched_cbs_num_started sched_cbs_taint_iter sched_cbs_closed sched_cbs_gmeta sched_cbs_dtasks : fr.

Lemma finish_d_ptasks s d x e : ptasks (finish_d s d x e) = ptasks s.
Proof. unfold finish_d, emit, put_d; fr_tac. Qed.
Lemma finish_d_mtasks s d x e : mtasks (finish_d s d x e) = mtasks s.
Proof. unfold finish_d, emit, put_d; fr_tac. Qed.
Lemma finish_d_groups s d x e : groups (finish_d s d x e) = groups s.
Proof. unfold finish_d, emit, put_d; fr_tac. Qed.
Lemma finish_d_num_started s d x e : num_started (finish_d s d x e) = num_started s.
Proof. unfold finish_d, emit, put_d; fr_tac. Qed.
Lemma finish_d_taint_iter s d x e : taint_iter (finish_d s d x e) = taint_iter s.
Proof. unfold finish_d, emit, put_d; fr_tac. Qed.
Lemma finish_d_closed s d x e : closed (finish_d s d x e) = closed s.
Proof. unfold finish_d, emit, put_d; fr_tac. Qed.
Lemma finish_d_gmeta s d x e : gmeta (finish_d s d x e) = gmeta s.
Proof. unfold finish_d, emit, put_d; fr_tac. Qed.
#[export] Hint Rewrite finish_d_ptasks finish_d_mtasks finish_d_groups finish_d_num_started finish_d_taint_iter finish_d_closed finish_d_gmeta : fr.

Lemma wake_closed_ptasks ds s : ptasks (wake_closed s ds) = ptasks s.
Proof. revert s; induction ds as [|d t IH]; intros s; simpl; auto. rewrite IH.
  destruct (get_d s d); auto. destruct (fut_pending (d_fw d0)); auto. rewrite sched_ptasks. reflexivity. Qed.
Lemma wake_closed_mtasks ds s : mtasks (wake_closed s ds) = mtasks s.
Proof. revert s; induction ds as [|d t IH]; intros s; simpl; auto. rewrite IH.
  destruct (get_d s d); auto. destruct (fut_pending (d_fw d0)); auto. rewrite sched_mtasks. reflexivity. Qed.
Lemma wake_closed_groups ds s : groups (wake_closed s ds) = groups s.
Proof. revert s; induction ds as [|d t IH]; intros s; simpl; auto. rewrite IH.
  destruct (get_d s d); auto. destruct (fut_pending (d_fw d0)); auto. rewrite sched_groups. reflexivity. Qed.
Lemma wake_closed_num_started ds s : num_started (wake_closed s ds) = num_started s.
Proof. revert s; induction ds as [|d t IH]; intros s; simpl; auto. rewrite IH.
  destruct (get_d s d); auto. destruct (fut_pending (d_fw d0)); auto. rewrite sched_num_started. reflexivity. Qed.
Lemma wake_closed_taint_iter ds s : taint_iter (wake_closed s ds) = taint_iter s.
Proof. revert s; induction ds as [|d t IH]; intros s; simpl; auto. rewrite IH.
  destruct (get_d s d); auto. destruct (fut_pending (d_fw d0)); auto. rewrite sched_taint_iter. reflexivity. Qed.
Lemma wake_closed_closed ds s : closed (wake_closed s ds) = closed s.
Proof. revert s; induction ds as [|d t IH]; intros s; simpl; auto. rewrite IH.
  destruct (get_d s d); auto. destruct (fut_pending (d_fw d0)); auto. rewrite sched_closed. reflexivity. Qed.
Lemma wake_closed_gmeta ds s : gmeta (wake_closed s ds) = gmeta s.
Proof. revert s; induction ds as [|d t IH]; intros s; simpl; auto. rewrite IH.
  destruct (get_d s d); auto. destruct (fut_pending (d_fw d0)); auto. rewrite sched_gmeta. reflexivity. Qed.
#[export] Hint Rewrite wake_closed_ptasks wake_closed_mtasks wake_closed_groups wake_closed_num_started wake_closed_taint_iter wake_closed_closed wake_closed_gmeta : fr.

Global Arguments emit : simpl never.
Global Arguments sched : simpl never.
Global Arguments unsched : simpl never.
Global Arguments know : simpl never.
Global Arguments sched_cbs : simpl never.
Global Arguments finish_d : simpl never.
Global Arguments wake_closed : simpl never.
Global Arguments put_d : simpl never.
