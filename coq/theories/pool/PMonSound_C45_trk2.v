(** Tracker side, part 2: when does [evs_ok45] hold; the tracker-internal invariant linking
    [r_started] with [k_task]. *)
From TP Require Import PMon PMonSound_trk PMonSound_C45_trk PMonSound_C45_pull.

Lemma nth_upd_cases {A} (l : list A) r x r' z :
  nth_error (upd l r x) r' = Some z ->
  (r' = r /\ z = x /\ r < length l) \/ (r' <> r /\ nth_error l r' = Some z).
Proof.
  rewrite nth_error_upd. destruct (Nat.eqb_spec r r') as [->|Ne].
  - destruct (Nat.ltb r' (length l)) eqn:E; [|discriminate].
    intros H; inversion H. left. apply Nat.ltb_lt in E. auto.
  - intros H. right. split; auto.
Qed.

(** ** pull-only event lists *)
Lemma evs_ok_pulls o es : forall rs,
  (forall e, In e es -> exists r n, e = EvPull r n) ->
  (forall r x, nth_error rs r = Some x -> pseq (r_pulls x) r es) ->
  (forall r n, In (EvPull r n) es ->
     exists x, nth_error rs r = Some x /\ Nat.leb n (length (r_els x)) = true /\ lazy_ok x o n = true) ->
  evs_ok45 rs o es = true.
Proof.
  induction es as [|e es IH]; intros rs Hall Hseq Hst; simpl; auto.
  destruct (Hall e (or_introl eq_refl)) as (r & n & ->).
  destruct (Hst r n (or_introl eq_refl)) as (x & Hx & Hn & Hl).
  pose proof (Hseq r x Hx) as Hp. simpl in Hp. rewrite Nat.eqb_refl in Hp. destruct Hp as [Hp1 Hp2].
  apply andb_true_iff. split.
  - unfold ev_ok45, pull_ok. rewrite Hx. subst n. rewrite Nat.eqb_refl, Hn, Hl. reflexivity.
  - simpl rq_ev. rewrite Hx. apply IH.
    + intros e He. apply Hall. right. exact He.
    + intros r' x' Hx'. apply nth_upd_cases in Hx'. destruct Hx' as [(-> & -> & _)|(Ne & Hx')].
      * exact Hp2.
      * pose proof (Hseq r' x' Hx') as H. simpl in H.
        destruct (Nat.eqb_spec r r'); [congruence|exact H].
    + intros r' n' Hin. destruct (Hst r' n' (or_intror Hin)) as (x' & Hx' & A & B).
      destruct (Nat.eq_dec r' r) as [->|Ne].
      * exists (req_pull x). rewrite nth_error_upd_eq by (apply nth_error_Some; congruence).
        split; auto. replace x' with x in * by congruence. split; [exact A|exact B].
      * exists x'. rewrite nth_error_upd_neq by auto. auto.
Qed.

(** ** lists without EvPull *)
Definition starts (es : list event) : list (nat * nat) :=
  flat_map (fun e => match e with EvStart t r el => [(r, el)] | _ => [] end) es.

Lemma elem_ok_start x el' el : elem_ok (req_start x el') el = elem_ok x el.
Proof. reflexivity. Qed.

Lemma evs_ok_starts o es : forall rs,
  (forall r n, ~ In (EvPull r n) es) ->
  (forall t r el, In (EvStart t r el) es ->
     exists x, nth_error rs r = Some x /\ elem_ok x el = true) ->
  NoDup (starts es) ->
  (forall r el x, In (r, el) (starts es) -> nth_error rs r = Some x -> ~ In el (r_started x)) ->
  evs_ok45 rs o es = true.
Proof.
  induction es as [|e es IH]; intros rs Hnp Hst Hnd Hfresh; simpl; auto.
  assert (Hnp' : forall r n, ~ In (EvPull r n) es) by (intros r n H; apply (Hnp r n); right; exact H).
  assert (Hst' : forall t r el, In (EvStart t r el) es ->
            exists x, nth_error rs r = Some x /\ elem_ok x el = true)
    by (intros; eapply Hst; right; eauto).
  destruct e as [t r el|t|t|kd t cl|kd t raised|kd t|r n|d oc];
    try (simpl in Hnd, Hfresh; apply IH; auto; fail).
  - (* EvStart *)
    destruct (Hst t r el (or_introl eq_refl)) as (x & Hx & Hok).
    simpl in Hnd. inversion Hnd as [|? ? Hnin Hnd']; subst.
    apply andb_true_iff. split.
    + unfold ev_ok45, start_ok. rewrite Hx, Hok.
      assert (Hm : mem el (r_started x) = false).
      { apply mem_false_In. apply (Hfresh r el x); [left; reflexivity|exact Hx]. }
      rewrite Hm. reflexivity.
    + simpl rq_ev. rewrite Hx. apply IH; auto.
      * intros t' r' el' Hin. destruct (Hst' _ _ _ Hin) as (x' & Hx' & Hok').
        destruct (Nat.eq_dec r' r) as [->|Ne].
        -- exists (req_start x el). rewrite nth_error_upd_eq by (apply nth_error_Some; congruence).
           split; auto. replace x' with x in * by congruence. exact Hok'.
        -- exists x'. rewrite nth_error_upd_neq by auto. auto.
      * intros r' el' x' Hin Hx'. apply nth_upd_cases in Hx'.
        destruct Hx' as [(-> & -> & _)|(Ne & Hx')].
        -- simpl. intros [E|E].
           ++ subst el'. apply Hnin. exact Hin.
           ++ apply (Hfresh r el' x); [right; exact Hin|exact Hx|exact E].
        -- apply (Hfresh r' el' x'); [right; exact Hin|exact Hx'].
  - exfalso. apply (Hnp r n). left. reflexivity.
Qed.

(** ** folds over an event list *)
Lemma rq_ev_length rs e : length (rq_ev rs e) = length rs.
Proof.
  destruct e; simpl; auto; destruct (nth_error rs req); auto; apply upd_length.
Qed.

Lemma fold_rq_ev_length es : forall rs, length (fold_left rq_ev es rs) = length rs.
Proof. induction es as [|e es IH]; intros rs; simpl; auto. rewrite IH. apply rq_ev_length. Qed.

Lemma task_fold n es : forall V,
  (forall t r el, In (EvStart t r el) es -> r < n) ->
  map snd (v_task (fold_left (vev5 n) es V)) = rev (starts es) ++ map snd (v_task V).
Proof.
  induction es as [|e es IH]; intros V Hr; simpl; auto.
  rewrite IH by (intros; eapply Hr; right; eauto).
  destruct e as [t r el|t|t|kd t cl|kd t raised|kd t|r k|d oc]; simpl; auto.
  assert (Hlt : Nat.ltb r n = true) by (apply Nat.ltb_lt; eapply Hr; left; reflexivity).
  rewrite Hlt. unfold v_task. cbn [snd map]. rewrite <- app_assoc. reflexivity.
Qed.

Lemma NoDup_app_inv {A} (a b : list A) :
  NoDup (a ++ b) -> NoDup a /\ NoDup b /\ forall x, In x a -> ~ In x b.
Proof.
  induction a as [|h t IH]; simpl; intros H.
  - split; [constructor|]. split; auto.
  - inversion H as [|? ? Hn Hd]; subst. destruct (IH Hd) as (A1 & A2 & A3).
    split; [constructor; auto; intros Hin; apply Hn; apply in_app_iff; auto|].
    split; auto. intros x [<-|Hx]; auto. intros Hb. apply Hn. apply in_app_iff. auto.
Qed.

Lemma NoDup_rev_inv {A} (a : list A) : NoDup (rev a) -> NoDup a.
Proof. intros H. rewrite <- (rev_involutive a). apply NoDup_rev. exact H. Qed.

(** the tracker-internal invariant: every started element has an entry in the task table *)
Definition TI (rs : list req) (task : list (nat * (nat * nat))) : Prop :=
  forall r x el, nth_error rs r = Some x -> In el (r_started x) -> exists t, In (t, (r, el)) task.

Lemma TI_event rs V e :
  TI rs (v_task V) -> TI (rq_ev rs e) (v_task (vev5 (length rs) V e)).
Proof.
  intros H. destruct e as [t r el|t|t|kd t cl|kd t raised|kd t|r k|d oc]; simpl; auto.
  - pose proof (nth_error_ltb rs r) as Hl. destruct (nth_error rs r) as [x|] eqn:Hx; rewrite Hl; auto.
    intros r' x' el' Hx' Hin. unfold v_task. cbn [snd].
    apply nth_upd_cases in Hx'. destruct Hx' as [(-> & -> & _)|(Ne & Hx')].
    + simpl in Hin. destruct Hin as [<-|Hin]; [exists t; left; reflexivity|].
      destruct (H _ _ _ Hx Hin) as [t' Ht']. exists t'. right. exact Ht'.
    + destruct (H _ _ _ Hx' Hin) as [t' Ht']. exists t'. right. exact Ht'.
  - destruct (nth_error rs r) as [x|] eqn:Hx; auto.
    intros r' x' el' Hx' Hin. apply nth_upd_cases in Hx'. destruct Hx' as [(-> & -> & _)|(Ne & Hx')].
    + simpl in Hin. eapply H; eauto.
    + eapply H; eauto.
Qed.

Lemma TI_events es : forall rs V,
  TI rs (v_task V) ->
  TI (fold_left rq_ev es rs) (v_task (fold_left (vev5 (length rs)) es V)).
Proof.
  induction es as [|e es IH]; intros rs V H; simpl; auto.
  rewrite <- (rq_ev_length rs e). apply IH. rewrite rq_ev_length. apply TI_event. exact H.
Qed.

Definition rstat (x x' : req) : Prop :=
  r_kind x' = r_kind x /\ r_num x' = r_num x /\ r_bad x' = r_bad x /\ r_els x' = r_els x /\
  r_nc x' = r_nc x /\ r_group x' = r_group x /\ r_dead x' = r_dead x.

Lemma rstat_refl x : rstat x x.
Proof. unfold rstat. repeat split. Qed.

Lemma rstat_trans x y z : rstat x y -> rstat y z -> rstat x z.
Proof. unfold rstat. intuition congruence. Qed.

Lemma rq_ev_nth rs e r x' :
  nth_error (rq_ev rs e) r = Some x' ->
  exists x, nth_error rs r = Some x /\ rstat x x' /\
            r_pulls x' = r_pulls x + (if is_pull r e then 1 else 0).
Proof.
  assert (Hsame : nth_error rs r = Some x' ->
            exists x, nth_error rs r = Some x /\ rstat x x' /\ r_pulls x' = r_pulls x + 0).
  { intros H. exists x'. split; auto. split; [apply rstat_refl|lia]. }
  destruct e as [t q el|t|t|kd t cl|kd t raised|kd t|q k|d oc]; simpl;
    try (intros H; destruct (Hsame H) as (x & A & B & C); exists x; rewrite Nat.add_0_r in C;
         rewrite Nat.add_0_r; auto; fail).
  - destruct (nth_error rs q) as [xq|] eqn:Hq.
    + intros H. apply nth_upd_cases in H. destruct H as [(-> & -> & _)|(Ne & H)].
      * exists xq. split; auto. split; [unfold rstat; cbn; repeat split|cbn; lia].
      * exists x'. split; auto. split; [apply rstat_refl|lia].
    + intros H. exists x'. split; auto. split; [apply rstat_refl|lia].
  - destruct (nth_error rs q) as [xq|] eqn:Hq.
    + intros H. apply nth_upd_cases in H. destruct H as [(-> & -> & _)|(Ne & H)].
      * exists xq. split; auto. split; [unfold rstat; cbn; repeat split|].
        rewrite Nat.eqb_refl. cbn. lia.
      * exists x'. split; auto. split; [apply rstat_refl|].
        destruct (Nat.eqb_spec q r); [congruence|lia].
    + intros H. exists x'. split; auto. split; [apply rstat_refl|].
      destruct (Nat.eqb_spec q r) as [->|]; [congruence|lia].
Qed.

Lemma fold_rq_ev_nth es : forall rs r x',
  nth_error (fold_left rq_ev es rs) r = Some x' ->
  exists x, nth_error rs r = Some x /\ rstat x x' /\ r_pulls x' = r_pulls x + npulls r es.
Proof.
  induction es as [|e es IH]; intros rs r x' H; simpl in *.
  - exists x'. split; auto. split; [apply rstat_refl|]. unfold npulls. simpl. lia.
  - destruct (IH _ _ _ H) as (x1 & H1 & S1 & P1).
    destruct (rq_ev_nth _ _ _ _ H1) as (x & H0 & S0 & P0).
    exists x. split; auto. split; [eapply rstat_trans; eauto|].
    unfold npulls in *. simpl. destruct (is_pull r e); lia.
Qed.
