(** Layer I5 — API operations. *)
From TP Require Import PInv PInv_R_base PInv_R_tr.

Lemma J_fold {A} (f : state -> A -> state) (E : tref -> Prop) :
  (forall s a, J s E -> J (f s a) E) -> forall l s, J s E -> J (fold_left f l s) E.
Proof. intros Hf. induction l as [|a l IH]; simpl; intros s H; auto. Qed.

Lemma J_know s E g : J s E -> J (know s g) E.
Proof. intros H. unfold know. destruct (existsb (gname_eqb g) (known s)); exact H. Qed.

Lemma fut_pending_true f : fut_pending f = true -> f = Some FPending.
Proof. destruct f as [[| | |]|]; simpl; congruence. Qed.

(** ** cancel *)
Lemma J_cancel_m s E m : J s E -> J (cancel_m s m) E.
Proof.
  intros H. unfold cancel_m.
  destruct (get_m s m) as [x|] eqn:Hx; auto.
  destruct (m_final x); auto.
  set (s1 := if is_current s (TM m) then set_taint_iter s true else s).
  assert (H1 : J s1 E) by (unfold s1; destruct (is_current s (TM m)); exact H).
  assert (Hx1 : get_m s1 m = Some x) by (unfold s1; destruct (is_current s (TM m)); exact Hx).
  clearbody s1.
  destruct (fut_pending (m_fw x)) eqn:Hp.
  - apply fut_pending_true in Hp.
    eapply J_wake_m with (x := x) (f := FCancelled); eauto; try reflexivity. congruence.
  - eapply J_put_m_same; eauto; reflexivity.
Qed.

Lemma J_cancel_p s E t : J s E -> J (cancel_p s t) E.
Proof.
  intros H. unfold cancel_p.
  destruct (get_p s t) as [x|] eqn:Hx; auto.
  destruct (p_unst x); try (eapply J_put_p_same; eauto; reflexivity).
  destruct (p_final x); auto.
  set (s1 := if is_current s (TP t) && final_segment x then set_taint_self s true else s).
  assert (H1 : J s1 E)
    by (unfold s1; destruct (is_current s (TP t) && final_segment x); exact H).
  assert (Hx1 : get_p s1 t = Some x)
    by (unfold s1; destruct (is_current s (TP t) && final_segment x); exact Hx).
  clearbody s1.
  destruct (fut_pending (p_fw x)) eqn:Hp.
  - apply fut_pending_true in Hp.
    eapply J_wake_p with (x := x) (f := FCancelled); eauto; try reflexivity. congruence.
  - eapply J_put_p_same; eauto; reflexivity.
Qed.

Lemma J_do_cancel s E ids : J s E -> J (do_cancel s ids) E.
Proof.
  intros H. unfold do_cancel. destruct (first_lookup_err s ids); [exact H|].
  apply J_fold; auto. intros; apply J_cancel_p; auto.
Qed.

Lemma J_cancel_group_metas s E g : J s E -> J (cancel_group_metas s g) E.
Proof.
  intros H. unfold cancel_group_metas. destruct (glookup g (gmeta s)) as [ms|]; auto.
  match goal with |- J (set_meta_cancelled ?s' _) E => change (J s' E) end.
  apply J_fold; [intros; apply J_cancel_m; auto|]. exact H.
Qed.

Lemma J5_map_m rd ps ms ds c E (f : mtask -> mtask) :
  (forall x, m_pc (f x) = m_pc x /\ m_fw (f x) = m_fw x /\ m_final (f x) = m_final x) ->
  J5 rd ps ms ds c E -> J5 rd ps (map f ms) ds c E.
Proof.
  intros Hf [Hnd Hrg Hp Hm Hd Hc]. constructor; auto; try rewrite map_length; auto.
  intros m x Hx Hne. rewrite nth_error_map in Hx.
  destruct (nth_error ms m) as [y|] eqn:Hy; [|discriminate]. injection Hx as <-.
  destruct (Hf y) as (H1 & H2 & H3). eapply okm_same; eauto.
Qed.

Lemma J_mark_dead s E g : J s E -> J (mark_dead s g) E.
Proof.
  intros [H Hn]. split; [|exact Hn]. unfold mark_dead; cbn.
  apply J5_map_m; auto. intros x. destruct (gname_eqb g (m_group x)); auto.
Qed.

Lemma J_cancel_group_body s E g ids : J s E -> J (cancel_group_body s g ids) E.
Proof.
  intros H. unfold cancel_group_body. apply J_fold.
  - intros s' t H'. destruct (mem t (t_running s')); auto. apply J_cancel_p; auto.
  - apply J_mark_dead, J_cancel_group_metas; auto.
Qed.

Lemma J_cancel_all_groups gs : forall s E, J s E -> J (cancel_all_groups s gs) E.
Proof.
  induction gs as [|[g ids] gs IH]; simpl; intros s E H; auto.
  apply IH. apply J_cancel_group_body; auto.
Qed.

(** ** new tasks *)
Lemma J_new_meta s E x :
  J s E -> m_pc x = MNotStarted -> m_fw x = None -> m_final x = None -> J (new_meta s x) E.
Proof.
  intros [H Hn] Hpc Hfw Hfin. unfold new_meta.
  apply J_del with (r := TM (length (mtasks s))).
  - apply J_sched.
    + split; cbn; [|exact Hn]. apply J5_app_m. exact H.
    + simpl. rewrite app_length. simpl. lia.
    + intros r [= <-]. auto.
  - intros _ y Hy. rewrite get_m_sched in Hy. unfold get_m in Hy. cbn in Hy.
    rewrite nth_error_snoc_eq in Hy. injection Hy as <-.
    rewrite ctl_sched. cbn [ctl set_gmeta set_mtasks].
    unfold okm. rewrite Hpc, Hfw, Hfin. split; [|split; [|split; [|split]]].
    + split; auto. intros _. apply ready_sched_In. auto.
    + split; [intros [?|?]; discriminate|congruence].
    + split; [discriminate|]. intros Hc. pose proof (J_c H) as Hok.
      rewrite Hc in Hok. simpl in Hok. lia.
    + discriminate.
    + split; [congruence|discriminate].
Qed.

Lemma J_new_driver s E k :
  J s E ->
  J (sched (set_dtasks s (dtasks s ++ [mk_dtask k DNotStarted None None None None []]))
           (HT (TD (length (dtasks s))))) E.
Proof.
  intros [H Hn].
  apply J_del with (r := TD (length (dtasks s))).
  - apply J_sched.
    + split; cbn; [|exact Hn]. apply J5_app_d. exact H.
    + simpl. rewrite app_length. simpl. lia.
    + intros r [= <-]. auto.
  - intros _ y Hy. rewrite get_d_sched in Hy. unfold get_d in Hy. cbn in Hy.
    rewrite nth_error_snoc_eq in Hy. injection Hy as <-.
    unfold okd, dwaiting; cbn. split; [|split].
    + split; auto. intros _. apply ready_sched_In. auto.
    + split; [congruence|discriminate].
    + discriminate.
Qed.

(** ** frame setters (by conversion) *)
Lemma J_set_res s E r : J s E -> J (set_res s r) E.
Proof. exact (fun H => H). Qed.
Lemma J_set_groups s E r : J s E -> J (set_groups s r) E.
Proof. exact (fun H => H). Qed.
Lemma J_set_start_calls s E r : J s E -> J (set_start_calls s r) E.
Proof. exact (fun H => H). Qed.

(** ** do_op *)
Lemma J_do_op s E o : J s E -> op_enabled s o = true -> J (do_op s o) E.
Proof.
  intros H Hen. destruct o; unfold do_op; cbv zeta.
  - (* OpApply *)
    set (s1 := match g with Some g0 => know s g0 | None => s end).
    assert (H1 : J s1 E) by (unfold s1; destruct g; [apply J_know|]; exact H).
    clearbody s1.
    destruct (check_start s1 noncoro); [exact H1|].
    match goal with |- J (if ?b then _ else _) E => destruct b end; [exact H1|].
    apply J_set_res, J_new_meta; try reflexivity.
    apply J_set_groups, J_know; exact H1.
  - (* OpMap *)
    set (s1 := match g with Some g0 => know s g0 | None => s end).
    assert (H1 : J s1 E) by (unfold s1; destruct g; [apply J_know|]; exact H).
    clearbody s1.
    destruct (check_start s1 noncoro); [exact H1|].
    destruct (nc =? 0); [exact H1|].
    match goal with |- J (if ?b then _ else _) E => destruct b end; [exact H1|].
    apply J_set_res, J_new_meta; try reflexivity.
    apply J_set_groups, J_know; exact H1.
  - (* OpStart *)
    destruct (check_start s false); [exact H|].
    apply J_set_res, J_new_meta; try reflexivity.
    apply J_set_groups, J_set_start_calls, J_know; exact H.
  - (* OpCancel *)
    apply J_do_cancel; auto.
  - (* OpCancelGroup *)
    pose proof (J_know s E g H) as H1.
    destruct (glookup g (groups (know s g))); [|exact H1].
    apply J_cancel_group_body. exact H1.
  - (* OpCancelAll *)
    apply J_cancel_all_groups. exact H.
  - (* OpStop *)
    match goal with |- J (match res ?s' with _ => _ end) E =>
      assert (H1 : J s' E) by (apply J_do_cancel; exact H); destruct (res s'); exact H1 end.
  - (* OpStopAll *)
    match goal with |- J (match res ?s' with _ => _ end) E =>
      assert (H1 : J s' E) by (apply J_do_cancel; exact H); destruct (res s'); exact H1 end.
  - exact H.
  - destruct (0 <? n_gac s); exact H.
  - destruct v; exact H.
  - match goal with |- J (set_res ?s' _) E => change (J s' E) end.
    apply J_fold; auto. intros; apply J_know; auto.
  - (* OpDriver *)
    set (s1 := match k with DGatherClose _ => set_n_gac s (S (n_gac s)) | _ => s end).
    assert (H1 : J s1 E) by (unfold s1; destruct k; exact H).
    clearbody s1. apply J_new_driver. exact H1.
  - (* OpFinish *)
    simpl in Hen. destruct (get_p s tid) as [x|] eqn:Hx; [|exact H].
    destruct (p_pc x) eqn:Hpc; try discriminate.
    apply fut_pending_true in Hen.
    eapply J_wake_p with (x := x) (f := FOk); eauto; try reflexivity. congruence.
  - (* OpReleaseCb *)
    simpl in Hen. destruct (get_p s tid) as [x|] eqn:Hx; [|exact H].
    destruct (p_pc x) eqn:Hpc; try discriminate;
      apply fut_pending_true in Hen;
      (eapply J_wake_p with (x := x) (f := FOk); eauto; try reflexivity; congruence).
Qed.
