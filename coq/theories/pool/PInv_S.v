(** Layer S — preservation of I3 (slot conservation of the pool semaphore) and I4 (the semaphore's
    waiter queue vs. the spawners, no lost wake-up).

    [I3]/[I4] are NOT inductive relative to [WF] alone: [WF] allows a driver in state [DWaitG2]
    whose wait future is [None] (such a driver is ready by [I5_d] and no [IG] clause applies to
    it); running it makes [after_g2] clear the registries while tasks still hold slots.  The
    extra invariant [Extra_S] (a driver waiting on its second gather has a wait future) closes the
    gap; it is itself inductive ([Extra_S_init], [Extra_S_step]). *)
From TP Require Import PInv PInv_S_base PInv_S_sem PInv_S_rest.
From Coq Require Import Lia.
Import ListNotations.

#[local] Arguments I4_nodup {s}.
#[local] Arguments I4_in {s}.
#[local] Arguments I4_fut {s}.
#[local] Arguments I4_wake {s}.
#[local] Arguments I3_slots {s}.
#[local] Arguments I3_cap {s}.
#[local] Arguments I3_inf {s}.
#[local] Arguments I1_lt {s}.
#[local] Arguments I1_nodup {s}.
#[local] Arguments I2_final {s}.
#[local] Arguments I2_run {s}.
#[local] Arguments I2_can {s}.
#[local] Arguments IG_has2 {s}.
#[local] Arguments IG_ok2 {s}.
#[local] Arguments IG_gac2 {s}.
#[local] Arguments I5_d {s}.
#[local] Arguments I5_m {s}.
#[local] Arguments wf1 {s}.
#[local] Arguments wf2 {s}.
#[local] Arguments wf3 {s}.
#[local] Arguments wf4 {s}.
#[local] Arguments wf5 {s}.
#[local] Arguments wfg {s}.

Definition Extra_S (s : state) : Prop :=
  forall d x, get_d s d = Some x -> d_pc x = DWaitG2 -> d_fw x <> None.

(** ** [J s None 0] is I3 + I4 + Extra_S (+ a fragment of I1) *)
Lemma J_of_WF s : I1 s -> I3 s -> I4 s -> Extra_S s -> J s None 0.
Proof.
  intros H1 H3 H4 HE. split.
  - constructor.
    + apply (I4_nodup H4).
    + intros m Hm. split; [discriminate|].
      apply (I4_in H4) in Hm. destruct Hm as [x [G P]].
      exists (m_fw x). split.
      * unfold mview. rewrite G, P. auto.
      * apply (I4_fut H4 m x G). auto.
    + intros m f Hv _. apply (I4_in H4). unfold mview in Hv.
      destruct (get_m s m) as [x|]; [|discriminate]. exists x. split; auto. congruence.
    + intros m f Hv _. unfold mview in Hv.
      destruct (get_m s m) as [x|] eqn:G; [|discriminate]. inversion Hv; subst.
      apply (I4_fut H4 m x G). auto.
    + pose proof (I3_slots H3) as Hs. unfold slots_ok, slots_k in *.
      destruct (sem_value s), (cap s); auto. lia.
    + apply (I3_cap H3).
    + apply (I3_inf H3).
    + intros t Ht. apply (I1_lt H1). unfold regs. apply in_app_iff. auto.
    + exact HE.
  - exact (I4_wake H4).
Qed.

Lemma J_I3 s : J s None 0 -> I3 s.
Proof.
  intros [H W]. constructor.
  - pose proof (Jsl H) as Hs. unfold slots_ok, slots_k in *.
    destruct (sem_value s), (cap s); auto. lia.
  - apply (Jcap H).
  - apply (Jinf H).
Qed.

Lemma J_I4 s : J s None 0 -> I4 s.
Proof.
  intros [H W]. constructor.
  - apply (Jn H).
  - intros m. split.
    + intros Hm. destruct (Ji1 H m Hm) as [_ [f [Hv _]]]. unfold mview in Hv.
      destruct (get_m s m) as [x|]; [|discriminate]. exists x. split; auto. congruence.
    + intros [x [G P]]. apply (Ji2 H m (m_fw x)); [|discriminate].
      unfold mview. rewrite G, P. auto.
  - intros m x G [P|P].
    + assert (Hv : mview s m = Some (MWaitPool, m_fw x)) by (unfold mview; rewrite G, P; auto).
      assert (Hi : In m (sem_waiters s)) by (apply (Ji2 H m (m_fw x)); [auto|discriminate]).
      destruct (Ji1 H m Hi) as [_ [f [Hv' Hw]]]. congruence.
    + apply (Jmap H m (m_fw x)); [|discriminate]. unfold mview. rewrite G, P. auto.
  - exact W.
Qed.

Lemma J_Extra s : J s None 0 -> Extra_S s.
Proof. intros [H _]. exact (Jd H). Qed.

(** ** facts drawn from the other layers of WF *)
Lemma disj_of_I1 s : I1 s -> disj s.
Proof.
  intros H t Hr Hc. pose proof (I1_nodup H) as N. unfold regs in N.
  revert N Hr. generalize (t_running s). intros l1.
  induction l1 as [|h l1 IH]; simpl; intros N Hr; [tauto|].
  inversion N; subst. destruct Hr as [->|Hr].
  - apply H2. apply in_app_iff. right. apply in_app_iff. auto.
  - apply IH; auto.
Qed.

Lemma no_active_of_I2 s : I2 s -> no_active s.
Proof.
  intros H t Ht. unfold tref_done, tref_final.
  destruct (get_p s t) as [x|] eqn:G; auto.
  destruct (p_final x) eqn:F; auto. exfalso.
  assert (P : p_pc x = PDone) by (apply (I2_final H t x G); congruence).
  destruct Ht as [Ht|Ht].
  - apply (I2_run H t x G) in Ht. rewrite P in Ht. discriminate.
  - apply (I2_can H t x G) in Ht. rewrite P in Ht. discriminate.
Qed.

Lemma g2h_of_WF s d : WF s -> Extra_S s -> In (HT (TD d)) (ready s) -> g2h s d.
Proof.
  intros W HE Hr x G P Hf.
  destruct Hf as [Hf|[Hf|Hf]].
  - exfalso. eapply HE; eauto.
  - destruct (IG_has2 (wfg W) d x G P) as [g [Hg Hc]].
    split.
    + intros t Ht. apply (IG_ok2 (wfg W) d x g G P Hf Hg). rewrite Hc. apply in_map; auto.
    + intros re K t Ht. destruct (IG_gac2 (wfg W) d x re G K P) as [_ [_ Hs]].
      apply Hs. unfold regs. rewrite !in_app_iff. tauto.
  - exfalso. apply (I5_d (wf5 W) d x G) in Hr. destruct Hr as [Hr|[_ Hr]]; congruence.
Qed.

(** ** the step *)
Lemma J_step s l : WF s -> Extra_S s -> J (step s l) None 0.
Proof.
  intros W HE.
  pose proof (J_of_WF s (wf1 W) (wf3 W) (wf4 W) HE) as J0.
  pose proof (disj_of_I1 s (wf1 W)) as D.
  pose proof (no_active_of_I2 s (wf2 W)) as NA.
  unfold step. cbv zeta.
  set (s' := set_res (set_evs s []) RNone).
  assert (J' : J s' None 0) by (unfold s'; jframe; exact J0).
  destruct (negb (enabled s' l)) eqn:En; [exact J'|].
  apply negb_false_iff in En.
  destruct l as [h| |o].
  - (* LRun *)
    simpl in En. destruct (ctl s); try discriminate.
    assert (Hr : In h (ready s)) by (apply is_ready_In; exact En).
    assert (JU : J (unsched s' h) None 0) by (jframe; exact J').
    destruct h as [[t|m|d]|d c]; simpl run_handle.
    + apply J_run_p; [exact JU|exact D].
    + apply J_run_m; [exact JU|].
      intros x G P Hp. change (get_m s m = Some x) in G.
      apply (I5_m (wf5 W) m x G) in Hr. destruct Hr as [Hr|[_ Hr]]; congruence.
    + apply J_run_d; [exact JU|exact NA|].
      exact (g2h_of_WF s d W HE Hr).
    + apply J_run_g. exact JU.
  - (* LGo *)
    change (ctl s') with (ctl s). destruct (ctl s) as [|[t|m|d]]; auto.
    + apply J_continue_p; [exact J'|exact D].
    + apply J_continue_m. exact J'.
  - apply J_do_op. exact J'.
Qed.

(** ** deliverables *)
Lemma I3_init : forall c, I3 (init c).
Proof.
  intros c. constructor; cbn; auto.
  unfold slots_ok. cbn. destruct (cf_size c); auto.
Qed.

Lemma I4_init : forall c, I4 (init c).
Proof.
  intros c. constructor; cbn.
  - constructor.
  - intros m. split; [tauto|]. intros [x [G _]]. unfold get_m in G. cbn in G.
    destruct m; discriminate.
  - intros m x G. unfold get_m in G. cbn in G. destruct m; discriminate.
  - intros _ m [].
Qed.

Lemma Extra_S_init : forall c, Extra_S (init c).
Proof. intros c d x G. unfold get_d in G. cbn in G. destruct d; discriminate. Qed.

Lemma Extra_S_step : forall s l, WF s -> Extra_S s -> clean (step s l) -> Extra_S (step s l).
Proof. intros s l W HE _. apply J_Extra, J_step; auto. Qed.

Lemma I3_step : forall s l, WF s -> Extra_S s -> clean (step s l) -> I3 (step s l).
Proof. intros s l W HE _. apply J_I3, J_step; auto. Qed.

Lemma I4_step : forall s l, WF s -> Extra_S s -> clean (step s l) -> I4 (step s l).
Proof. intros s l W HE _. apply J_I4, J_step; auto. Qed.

(** aliases under the per-record naming scheme *)
Definition Extra_I3 := Extra_S.
Definition Extra_I4 := Extra_S.
Lemma Extra_I3_init : forall c, Extra_I3 (init c). Proof. exact Extra_S_init. Qed.
Lemma Extra_I4_init : forall c, Extra_I4 (init c). Proof. exact Extra_S_init. Qed.
Lemma Extra_I3_step : forall s l, WF s -> Extra_I3 s -> clean (step s l) -> Extra_I3 (step s l).
Proof. exact Extra_S_step. Qed.
Lemma Extra_I4_step : forall s l, WF s -> Extra_I4 s -> clean (step s l) -> Extra_I4 (step s l).
Proof. exact Extra_S_step. Qed.

Print Assumptions I3_step.
Print Assumptions I4_step.
Print Assumptions Extra_S_step.
Print Assumptions I3_init.
Print Assumptions I4_init.
