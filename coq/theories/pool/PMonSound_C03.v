(** Monitor soundness: the executable monitor of PMon.v never reports a violated clause of
    property C03 on the model's own observation stream, for every clean run in which no worker
    cancels itself from its final segment (P-self, ghost [taint_self]). *)
From TP Require Import PSpec PSpecStep PMon PRun PWF PProps_A PInv_R_base PInv_P PStep_C
  PMonSound_trk PMonSound_C01
  PMonSound2_def PMonSound2_tk PMonSound2_trk PMonSound2_ev PMonSound2_op PMonSound2_lbl
  PMonSound2_rel PMonSound_C02 PMonSound3_fg PMonSound3_kn PMonSound3_tg PMonSound3_tg2.

Definition RR3 (c : config) (s : state) (k : trk) : Prop :=
  (exists tr0, s = run c tr0) /\
  InvA (map imm_req (k_reqs k)) (k_target k) (aview_of k) s None /\
  map imm_m (mtasks s) = map imm_req (k_reqs k) /\
  prevrel k s.

Lemma RR3_init c : RR3 c (init c) (trk_init c).
Proof.
  split; [exists []; reflexivity|]. split; [apply InvA_init|]. split; reflexivity.
Qed.

Lemma KN_run c tr : KN (run c tr).
Proof.
  induction tr as [|l tr IH] using rev_ind; [apply KN_init|].
  rewrite run_snoc. apply KN_step. exact IH.
Qed.

Lemma InvA_incl RI TG TG' V s :
  incl TG TG' -> InvA RI TG V s None -> InvA RI TG' V s None.
Proof.
  intros Hi (N & T & L). split; [exact N|]. split; [|exact L].
  intros u. specialize (T u). apply (taskok_mono RI [] TG TG') in T; auto.
  rewrite app_nil_r in T. exact T.
Qed.

Lemma pfacts3_of_WF s RI :
  WF s -> Extra_P s -> taint_self s = false -> map imm_m (mtasks s) = RI -> pfacts RI True s.
Proof.
  intros W [[ET _] _] Hts HM t x Hx. split; [apply (IH_counts s (wfh s W) t x Hx)|].
  split; [eapply matches_of_WF; eauto|]. split.
  - intros Hpc. apply (I2_run s (wf2 s W) t x Hx). destruct Hpc as [-> | ->]; reflexivity.
  - intros _ Hpc. pose proof (IH_late s (wfh s W) Hts t x Hx) as Hl.
    pose proof (ET t x Hx) as He. unfold not_cancelled_late in Hl.
    assert (Hmf : p_mc x = false /\ p_fw x <> Some FCancelled)
      by (destruct Hpc as [E|E]; rewrite E in Hl; exact Hl).
    destruct Hmf as [Hm Hf]. unfold task_input. rewrite Hm.
    destruct (p_fw x) as [[| |e|]|]; try reflexivity.
    + exfalso. apply (He e). reflexivity.
    + exfalso. apply Hf. reflexivity.
Qed.

Lemma class_ok_step s l :
  WF s -> Extra_P s -> clean (step s l) -> Forall class_ok (evs (step s l)).
Proof.
  intros W EP Hc. apply Forall_forall. intros e He.
  destruct e as [| | |kd t cl| | | |]; try exact I. destruct kd; simpl.
  - exact (PStep_C.C03_end_cb_class s l t cl W EP Hc He).
  - exact (proj1 (PStep_C.C03_cancel_cb_iff s l t cl W EP Hc He)).
Qed.

Lemma c03_part_nil kk s l en :
  I1 s ->
  match k_prev kk with
  | None => True
  | Some p => o_nr p + o_nc p + o_ne p = length (regs s)
  end ->
  c03_part kk (obs_of (step s l) l en) = [].
Proof.
  intros HI Hp. unfold c03_part. destruct (k_prev kk) as [p|]; [|reflexivity].
  cbn [o_nr o_nc o_ne o_events obs_of]. rewrite Hp.
  destruct (forget_step s l HI) as [Hle|(d & o & Hin)].
  - rewrite (regs_length (step s l)) in Hle. apply Nat.leb_le in Hle. rewrite Hle. reflexivity.
  - assert (E : existsb (fun e => match e with EvDriverDone _ _ => true | _ => false end)
                        (evs (step s l)) = true).
    { apply existsb_exists. exists (EvDriverDone d o). split; auto. }
    rewrite E, orb_true_r. reflexivity.
Qed.

(** ** one observation *)
Lemma mon_step_sound3 c s k l :
  RR3 c s k -> clean (step s l) -> taint_self (step s l) = false ->
  let o := obs_of (step s l) l (enabled (set_res (set_evs s []) RNone) l) in
  filter is_p3 (snd (mon_step c k o)) = [] /\
  RR3 c (step s l) (fst (mon_step c k o)).
Proof.
  intros ((tr0 & Hs) & HI & HM & HP) Hc Hts o.
  destruct (mon_step_23 c k o) as (kk & K1 & K2 & K3 & K4 & K5 & K6 & _ & K8).
  cbv zeta in *.
  destruct (on_label_same c k o) as (A & B & C & D).
  set (k1 := fst (on_label c k o)) in *.
  assert (Hrun : step s l = run c (tr0 ++ [l])) by (rewrite run_snoc, Hs; reflexivity).
  assert (Hcs : clean s) by (eapply clean_step_inv'; eauto).
  assert (X : WFx s) by (rewrite Hs; apply WFx_run; rewrite <- Hs; exact Hcs).
  pose proof (x_wf s X) as W. pose proof (x_p s X) as EP.
  assert (W' : WF (step s l)) by (rewrite Hrun; apply WF_run; rewrite <- Hrun; exact Hc).
  assert (Hcfg : cfg s = c) by (rewrite Hs; apply cfg_run).
  assert (Hts0 : taint_self s = false) by (eapply taint_self_step_inv'; eauto).
  assert (HKN : KN s) by (rewrite Hs; apply KN_run).
  pose proof (IGr_keys s (wfgr s W)) as Hkeys.
  assert (HI1 : InvA (map imm_req (k_reqs k)) (k_target k1) (aview_of k) s None)
    by (eapply InvA_incl; eauto).
  assert (Hstep :
            InvA (map imm_req (k_reqs k1)) (k_target k1) (aview_of kk) (step s l) None /\
            map imm_m (mtasks (step s l)) = map imm_req (k_reqs k1) /\
            snd (avrun (map imm_req (k_reqs k1)) (k_target k1) (o_events o) (aview_of k1)) = true).
  { destruct l as [h| |op].
    - assert (Hex : lbl_extra c o = [])
        by (unfold lbl_extra, o; cbn [o_enabled o_label obs_of]; destruct (enabled _ _); reflexivity).
      rewrite Hex, app_nil_r in C.
      destruct (InvA_step_rg _ (k_target k1) (aview_of k) True s (LRun h)
                  ltac:(intros o0; discriminate) HI1 HM (pfacts3_of_WF s _ W EP Hts0 HM))
        as (I1' & _ & I3 & I4).
      rewrite K1, C, A. change (o_events o) with (evs (step s (LRun h))). auto.
    - assert (Hex : lbl_extra c o = [])
        by (unfold lbl_extra, o; cbn [o_enabled o_label obs_of]; destruct (enabled _ _); reflexivity).
      rewrite Hex, app_nil_r in C.
      destruct (InvA_step_rg _ (k_target k1) (aview_of k) True s LGo
                  ltac:(intros o0; discriminate) HI1 HM (pfacts3_of_WF s _ W EP Hts0 HM))
        as (I1' & _ & I3 & I4).
      rewrite K1, C, A. change (o_events o) with (evs (step s LGo)). auto.
    - destruct (step_op_summary s op) as (E1 & E2 & E3). cbv zeta in E1, E2, E3.
      assert (Hex : map imm_m (mtasks (step s (LOp op))) = map imm_req (k_reqs k1)).
      { rewrite E3, C, <- HM. f_equal. unfold lbl_extra, o. cbn [o_enabled o_label o_res obs_of].
        rewrite Hcfg. reflexivity. }
      change (o_events o) with (evs (step s (LOp op))). rewrite E1. simpl avrun.
      rewrite K1. change (o_events o) with (evs (step s (LOp op))). rewrite E1. simpl avrun.
      cbn [fst snd]. rewrite A, C. split; [|split; [rewrite <- C; exact Hex|reflexivity]].
      eapply InvA_op; [exact HI|exact E2|exact D|].
      intros u x' Hx' Hd.
      assert (Hdef : p_unst x' = UDeferred) by (destruct (p_unst x'); try discriminate; reflexivity).
      pose proof (target_covers c k s op (enabled (set_res (set_evs s []) RNone) (LOp op))
                    (res (step s (LOp op))) HP HKN Hkeys o eq_refl eq_refl eq_refl) as Hcov.
      fold k1 in Hcov.
      rewrite step_op_shape in Hx', Hcov. cbv zeta in Hx', Hcov. cbn [enabled] in Hcov.
      set (s1 := set_res (set_evs s []) RNone) in *.
      assert (Hold : P0_of s1 u -> In u (k_target k1)).
      { intros (x & Hx & Hu). apply D.
        destruct HI as (_ & T & _). specialize (T u). unfold st_at in T.
        change (get_p s1 u) with (get_p s u) in Hx. rewrite Hx in T. cbn [option_map] in T.
        apply T. cbn. rewrite Hu. reflexivity. }
      destruct (op_enabled s1 op).
      + destruct (do_op_deferred s1 op eq_refl u x' Hx' Hdef) as [Hp0|Hin]; auto.
      + apply Hold. exists x'. auto. }
  destruct Hstep as (HI' & HM' & Hb).
  destruct K2 as (S1 & S2 & S3).
  split.
  - rewrite (K8 Hb (class_ok_step s l W EP Hc)). unfold o.
    rewrite (c03_part_nil kk s l _ (wf1 s W)); [reflexivity|].
    rewrite S3, B. unfold prevrel in HP. destruct (k_prev k); [tauto|exact I].
  - split; [exists (tr0 ++ [l]); exact Hrun|].
    rewrite K3, K4, K5. split; [exact HI'|]. split; [exact HM'|].
    unfold prevrel. rewrite K6. split; [reflexivity|].
    unfold o. cbn [o_nr o_nc o_ne obs_of]. rewrite regs_length. reflexivity.
Qed.

Lemma mon_run_sound3 c : forall tr s k i,
  RR3 c s k -> clean (fold_left step tr s) -> taint_self (fold_left step tr s) = false ->
  mon_run c 3 k i (observe_from s tr) = None.
Proof.
  induction tr as [|l tr IH]; intros s k i HR Hc Ht; simpl; auto.
  simpl in Hc, Ht.
  assert (Hc1 : clean (step s l)) by (eapply clean_fold_inv; eauto).
  assert (Ht1 : taint_self (step s l) = false)
    by (eapply (taint_fold_inv taint_self taint_self_step_inv'); eauto).
  destruct (mon_step_sound3 c s k l HR Hc1 Ht1) as [Hf HR'].
  cbv zeta in Hf, HR'.
  destruct (mon_step c k _) as [k' cs]. simpl in Hf, HR'.
  change (fun cl => Nat.eqb (clause_prop cl) 3) with is_p3. rewrite Hf.
  apply IH; auto.
Qed.

Theorem mon_C03_sound : forall c tr,
  clean (run c tr) -> taint_self (run c tr) = false -> PMon.ok_C03 c (observe c tr) = true.
Proof.
  intros c tr Hc Ht. unfold ok_C03, ok_prop, observe.
  rewrite (mon_run_sound3 c tr (init c) (trk_init c) 0); auto. apply RR3_init.
Qed.
