(** Monitor soundness, C08 — the worker behaviour recorded in the tracker's request table is the
    one of the model's spawner record (needed to know that the tracker notes a worker that
    raises at once). *)
From TP Require Import PMon PMonSound_trk PMonSound_C45_trk PMonSound_C45_trk2.
From TP Require Import PInv_Q PRun PWF PStep_B_mr PMonSound_C45_gistep PMonSound_C45_lab
  PMonSound_C45_mir.

Definition MW (rs : list req) (s : state) : Prop :=
  length rs = length (mtasks s) /\
  forall r x y, nth_error rs r = Some x -> get_m s r = Some y -> r_w x = m_w y.

Lemma mimm_w y y' : mimm y y' -> m_w y' = m_w y.
Proof. intros (_ & _ & _ & _ & _ & M6 & _). exact M6. Qed.

Lemma MW_mimm rs s s' :
  MW rs s -> length (mtasks s') = length (mtasks s) ->
  (forall k y y', get_m s k = Some y -> get_m s' k = Some y' -> mimm y y') -> MW rs s'.
Proof.
  intros [L H] L' H'. split; [congruence|].
  intros r x y' Hx Hy'.
  destruct (@get_m_ex s r) as [y Hy]; [rewrite <- L; apply nth_error_Some; congruence|].
  rewrite (mimm_w _ _ (H' _ _ _ Hy Hy')). eapply H; eauto.
Qed.

Lemma MW_mt_same rs s s' : MW rs s -> mt_same s s' -> MW rs s'.
Proof. intros H [L' H']. eapply MW_mimm; eauto. intros k y y' A B. apply (H' k y y' A B). Qed.

Lemma MW_eq rs s s' : mtasks s' = mtasks s -> MW rs s -> MW rs s'.
Proof. intros E H. eapply MW_mt_same; eauto. apply mt_same_eq; auto. Qed.

Lemma MW_app rs s s' x y :
  MW rs s -> mtasks s' = mtasks s ++ [y] -> r_w x = m_w y -> MW (rs ++ [x]) s'.
Proof.
  intros [L H] E Hm. split; [rewrite E, !app_length; simpl; lia|].
  intros r x' y' Hx' Hy'. unfold get_m in Hy'. rewrite E in Hy'.
  apply nth_error_snoc_inv in Hx'. apply nth_error_snoc_inv in Hy'.
  destruct Hx' as [Hx'|[-> ->]]; destruct Hy' as [Hy'|[E2 ->]].
  - eapply H; eauto.
  - exfalso. assert (r < length rs) by (apply nth_error_Some; congruence). lia.
  - exfalso. assert (length rs < length (mtasks s)) by (apply nth_error_Some; congruence). lia.
  - exact Hm.
Qed.

Lemma MW_map rs s (f : req -> req) : (forall x, r_w (f x) = r_w x) -> MW rs s -> MW (map f rs) s.
Proof.
  intros Hf [L H]. split; [rewrite map_length; exact L|].
  intros r x' y Hx' Hy. rewrite nth_error_map in Hx'.
  destruct (nth_error rs r) as [x|] eqn:Hx; [|discriminate]. simpl in Hx'. injection Hx' as <-.
  rewrite Hf. eapply H; eauto.
Qed.

Lemma MW_rq_ev rs e s : MW rs s -> MW (rq_ev rs e) s.
Proof.
  intros [L H].
  assert (Hupd : forall r x x', nth_error rs r = Some x -> r_w x' = r_w x -> MW (upd rs r x') s).
  { intros r x x' Hx Hw. split; [rewrite upd_length; exact L|].
    intros r' x1 y Hx1 Hy. rewrite nth_error_upd in Hx1.
    destruct (Nat.eqb_spec r r') as [->|Ne].
    - destruct (Nat.ltb r' (length rs)); [|discriminate]. injection Hx1 as <-.
      rewrite Hw. eapply H; eauto.
    - eapply H; eauto. }
  destruct e as [t r el|t|t|kd t cl|kd t raised|kd t|r n|d oc]; simpl; try exact (conj L H).
  - destruct (nth_error rs r) as [x|] eqn:Hx; [|exact (conj L H)]. eapply Hupd; eauto.
  - destruct (nth_error rs r) as [x|] eqn:Hx; [|exact (conj L H)]. eapply Hupd; eauto.
Qed.

Lemma MW_events es : forall rs s, MW rs s -> MW (fold_left rq_ev es rs) s.
Proof. induction es as [|e es IH]; intros rs s H; simpl; auto. apply IH. apply MW_rq_ev. exact H. Qed.

Lemma MW_spawned rs s s' (xm : gname -> mtask) (xr : gname -> req) :
  MW rs s -> spawned s s' xm -> (forall g, r_w (xr g) = m_w (xm g)) ->
  MW (match res s' with RName n => rs ++ [xr n] | _ => rs end) s'.
Proof.
  intros HM [(g & Hr & Em)|(Hr & Em)] Hx.
  - rewrite Hr. eapply MW_app; eauto.
  - destruct (res s') eqn:E; try (eapply MW_eq; eauto). exfalso. eapply Hr; eauto.
Qed.

Theorem MW_label c s l rs b :
  WFx s -> cfg s = c -> MW rs s ->
  MW (lab_reqs c rs b (obs_of (step s l) l (enabled (set_res (set_evs s []) RNone) l))) (step s l).
Proof.
  intros X Hc HM. unfold lab_reqs. cbn [o_enabled o_label o_res obs_of].
  set (sa := set_res (set_evs s []) RNone).
  destruct (enabled sa l) eqn:Hen; cbn [negb].
  2:{ unfold step. fold sa. rewrite Hen. cbn [negb]. eapply MW_eq; eauto. }
  assert (Hrun : (forall o, l <> LOp o) -> MW rs (step s l)).
  { intros. eapply MW_mt_same; [exact HM|]. apply mt_same_step_run; auto. }
  destruct l as [h| |o]; try (apply Hrun; intros; discriminate).
  assert (Hst : step s (LOp o) = do_op sa o) by (unfold step; fold sa; rewrite Hen; reflexivity).
  assert (HMa : MW rs sa) by (eapply MW_eq; [|exact HM]; reflexivity).
  rewrite Hst.
  destruct o; try (eapply MW_mt_same; [exact HMa|apply simple_op_mt_same; reflexivity]).
  - apply (MW_spawned rs sa _ _ (fun n => mk_req MApply num bad [] 0 w ecb ccb n b) HMa
             (spawned_apply sa num bad noncoro w ecb ccb g)).
    intros n. reflexivity.
  - apply (MW_spawned rs sa _ _ (fun n => mk_req (MMap stars) 0 [] els nc default_w ecb ccb n b)
             HMa (spawned_map sa stars els nc noncoro ecb ccb g)).
    intros n. reflexivity.
  - subst c.
    apply (MW_spawned rs sa _ _
             (fun n => mk_req MStart num (cf_bad (cfg s)) [] 0 (cf_w (cfg s)) (cf_ecb (cfg s)) (cf_ccb (cfg s)) n b)
             HMa (spawned_start sa num)).
    intros n. reflexivity.
  - destruct (cancel_group_cases sa g) as [[Hr Hk]|[[e Hr] Em]]; cbv zeta in *.
    + rewrite Hr, res_know. cbn [res sa set_res].
      apply MW_map; [intros x; destruct (gname_eqb g (r_group x)); reflexivity|].
      destruct Hk as [L' H']. eapply MW_mimm; eauto. intros k y y' A B. apply (H' k y y' A B).
    + rewrite Hr. eapply MW_eq; eauto.
  - destruct (cancel_all_cases sa) as [L H]. cbv zeta in *.
    apply MW_map; [reflexivity|]. eapply MW_mimm; eauto.
Qed.
