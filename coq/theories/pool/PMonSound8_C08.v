(** Monitor soundness for C08: the executable monitor of PMon.v never reports a violated clause of
    property C08 on the model's own observation stream — clean runs in which no request was
    cancelled from inside its own argument iterator (P-iter) and no worker cancelled itself from
    a final segment (P-self, open finding D11). *)
From TP Require Import PInv PInv_P PSpec PSpecStep PMon PRun PWF PStep_D_base PStep_D.
From TP Require Import PMonSound_trk PMonSound_gen PMonSound_C45_trk PMonSound_C45_ev
  PMonSound_C45_mir PMonSound_C45 PMonSound_C13_kd PMonSound_C13_mod PMonSound_C13_trk.
From TP Require Import PInv_Q PInv_Q_drv.
From TP Require Import PMonSound8_trk PMonSound8_mod PMonSound8_spec PMonSound8_step
  PMonSound8_zp PMonSound8_mw PMonSound8_rz PMonSound8_tz.

Definition RZ (c : config) (s : state) (k : trk) : Prop :=
  RR8 c s k /\ MW (k_reqs k) s /\ ZP (NE k) s /\ TZ k.

Lemma RZ_init c : RZ c (init c) (trk_init c).
Proof.
  split; [apply RR8_init|]. split; [|split].
  - split; [reflexivity|]. intros r x y H. destruct r; discriminate H.
  - intros t x H. unfold get_p in H. cbn in H. destruct t; discriminate H.
  - intros t r el x H. discriminate H.
Qed.

Lemma ZP_mono (N N' : Prop) s : (N -> N') -> ZP N s -> ZP N' s.
Proof. intros HN H t x G. destruct (H t x G) as [A B]. split; eauto. Qed.

(** the tracker's task table only names known requests *)
Lemma task_req_lt n k s :
  Inv5 n (tview5 k) s None ->
  forall t r el, assoc t (k_task k) = Some (r, el) -> r < n.
Proof.
  intros (_ & _ & _ & _ & _ & _ & H7 & _ & _ & H10) t r el Ha.
  apply assoc_In in Ha. destruct (H7 _ _ _ Ha) as [Hid _]. exact (H10 _ _ _ Hid).
Qed.

(** a started worker that raises at once has been noted by the tracker *)
Lemma start_raise_noted c s k t x :
  RR45 c s k -> MW (k_reqs k) s -> TZ k -> WFx s ->
  get_p s t = Some x -> p_pc x = PUStart -> w_first (p_w x) = WRaise -> NE k.
Proof.
  intros (_ & HI & [HL HM] & _ & _) [_ HW] HT X Hx Hpc Hw. pose proof (x_wf _ X) as W.
  pose proof HI as (_ & H2 & _ & _ & _ & H6 & H7 & H8 & _ & _).
  unfold tview5, v_live, v_task in H2, H6, H7, H8. cbn [fst snd] in H2, H6, H7, H8.
  assert (Hl : In t (k_live k)).
  { apply H2. unfold cls_at5, cls_rec5. rewrite Hx. simpl. rewrite Hpc. reflexivity. }
  destruct (H8 t Hl) as (r & el & Hin).
  destruct (H7 _ _ _ Hin) as [Hid _]. unfold id_at, id_rec in Hid. rewrite Hx in Hid.
  simpl in Hid. injection Hid as Er Eel.
  pose proof (In_assoc t _ _ H6 Hin) as Ha.
  destruct (IR_req _ (wfr _ W) t x Hx) as (y & Hy & Hm). rewrite Er in Hy.
  assert (Hlt : r < length (k_reqs k)) by (rewrite HL; eapply get_m_len; eauto).
  destruct (nth_error (k_reqs k) r) as [xr|] eqn:Hxr; [|apply nth_error_None in Hxr; lia].
  destruct (HM _ _ _ Hxr Hy) as (Ek & _ & _ & Ee & _).
  pose proof (HW _ _ _ Hxr Hy) as Ew.
  apply (HT t r el xr Ha Hxr).
  assert (E : wof xr el = p_w x); [|rewrite E; exact Hw].
  destruct Hm as (_ & _ & _ & _ & Hkind). unfold wof. rewrite Ek, Ee, Ew.
  destruct (m_kind y).
  - destruct Hkind as (E & _). symmetry. exact E.
  - destruct Hkind as (e & He & _ & E). rewrite <- Eel, He. symmetry. exact E.
  - destruct Hkind as (E & _). symmetry. exact E.
Qed.

Lemma final_of_user exc mc u st : final_of exc mc = OExc (EUser u st) -> exc = Some (EUser u st).
Proof.
  unfold final_of. destruct exc as [e|]; [|destruct mc; discriminate].
  destruct e; try discriminate; intros H; injection H as H; congruence.
Qed.

Lemma ptasks_step_drv s d : ptasks (step s (LRun (HT (TD d)))) = ptasks s.
Proof.
  unfold step. destruct (negb (enabled _ _)); [reflexivity|]. cbn [run_handle].
  rewrite run_d_ptasks. reflexivity.
Qed.

(** gather_and_close() does not end abnormally unless the tracker has seen a user exception *)
Lemma ret_case_false s k l :
  WFx s -> WFx (step s l) -> taint_self (step s l) = false -> ZP (NE k) s ->
  ret_case s k l -> False.
Proof.
  intros X X' Hts HZ (Hk0 & d & x & oc & -> & Hx & Hg & Hev & Hoc).
  pose proof (x_wf _ X) as W. pose proof (x_wf _ X') as W'.
  assert (Hin : In (EvDriverDone d oc) (evs (step s (LRun (HT (TD d)))))) by (rewrite Hev; left; reflexivity).
  destruct (step_driver_done s _ d oc W (x_p _ X) Hin) as (_ & x0 & x' & Hx0 & Hx' & Hf & Hkd).
  destruct (x_d _ X') as (HP' & HD' & _).
  destruct (dfin (HD' d x' Hx') oc Hf) as [->|(_ & e & Ho & t & y & Hy & Hsrc)]; [congruence|].
  pose proof (C12_of_WF _ W' (x_p _ X') (x_d _ X')) as C12.
  assert (Hu : exists st, p_final y = Some (OExc (EUser t st))).
  { destruct Hsrc as [Hfy|[_ Hfy]];
      destruct (c12_task_outcome _ C12 Hts t y _ Hy Hfy) as (_ & [E|(st & E & _)]);
      try discriminate. exists st. rewrite Hfy, E. reflexivity. }
  destruct Hu as (st & Hfy).
  destruct (HP' t y Hy) as (_ & _ & P3). destruct (P3 _ Hfy) as [mc Emc].
  symmetry in Emc. apply final_of_user in Emc.
  unfold get_p in Hy. rewrite ptasks_step_drv in Hy.
  destruct (HZ t y Hy) as [_ B]. apply (B t st Emc). exact Hk0.
Qed.

Lemma mon_step_soundZ c s k l :
  RZ c s k -> clean (step s l) -> taint_iter (step s l) = false -> taint_self (step s l) = false ->
  let o := obs_of (step s l) l (enabled (set_res (set_evs s []) RNone) l) in
  fp 8 (snd (mon_step c k o)) = [] /\ RZ c (step s l) (fst (mon_step c k o)).
Proof.
  intros (R8 & HMW & HZ & HT) Hc Hti Hts o.
  pose proof R8 as [R45 _]. pose proof R45 as ((tr0 & Hs) & HI & _).
  destruct (mon_step_sound8 c s k l R8 Hc Hti) as [Hcl R8']. cbv zeta in Hcl, R8'. fold o in Hcl, R8'.
  assert (Hcfg : cfg s = c) by (rewrite Hs; apply cfg_run).
  assert (Hrun : step s l = run c (tr0 ++ [l])) by (rewrite run_snoc, Hs; reflexivity).
  assert (Hc0 : clean s) by (eapply clean_step_inv'; eauto).
  assert (X : WFx s) by (rewrite Hs; apply WFx_run; rewrite <- Hs; exact Hc0).
  assert (X' : WFx (step s l)) by (rewrite Hrun; apply WFx_run; rewrite <- Hrun; exact Hc).
  destruct (mon_step_raised c k o) as (Xk & F2 & F3 & _). cbv zeta in *.
  split.
  - destruct (fp 8 (snd (mon_step c k o))) as [|cl r]; [reflexivity|exfalso].
    destruct (Hcl cl (or_introl eq_refl)) as [_ Hret].
    exact (ret_case_false s k l X X' Hts HZ Hret).
  - split; [exact R8'|]. split; [|split].
    + destruct (mon_step_45 c k o) as (kk & _ & Hr1 & Hrk & _ & Hr' & _). cbv zeta in *.
      rewrite Hr', Hrk, Hr1. apply MW_events. unfold o. apply MW_label; auto.
    + apply ZP_step.
      * eapply ZP_mono; [|exact HZ]. apply ext_NE. exact Xk.
      * intros t x _ Hx Hpc Hw. eapply ext_NE; [exact Xk|].
        eapply start_raise_noted; eauto.
      * intros t Hl En. apply (F2 En t Hl).
      * intros Hr. apply F3. exact Hr.
    + apply TZ_step; [exact HT|]. apply (task_req_lt _ k s HI).
Qed.

Lemma mon_run_sound8 c : forall tr s k i,
  RZ c s k -> clean (fold_left step tr s) -> taint_iter (fold_left step tr s) = false ->
  taint_self (fold_left step tr s) = false ->
  mon_run c 8 k i (observe_from s tr) = None.
Proof.
  induction tr as [|l tr IH]; intros s k i HR Hc Hti Hts; simpl; auto.
  simpl in Hc, Hti, Hts.
  assert (Hc1 : clean (step s l)) by (eapply clean_fold_inv; eauto).
  assert (Hti1 : taint_iter (step s l) = false)
    by (eapply (taint_fold_inv taint_iter taint_iter_step_inv); eauto).
  assert (Hts1 : taint_self (step s l) = false)
    by (eapply (taint_fold_inv taint_self taint_self_step_inv'); eauto).
  destruct (mon_step_soundZ c s k l HR Hc1 Hti1 Hts1) as [Hf HR'].
  cbv zeta in Hf, HR'.
  destruct (mon_step c k _) as [k' cs]. simpl in Hf, HR'. unfold fp in Hf. rewrite Hf.
  apply IH; auto.
Qed.

Theorem mon_C08_sound : forall c tr,
  clean (run c tr) -> taint_iter (run c tr) = false -> taint_self (run c tr) = false ->
  PMon.ok_C08 c (PObs.observe c tr) = true.
Proof.
  intros c tr Hc Hti Hts. unfold ok_C08, ok_prop, observe.
  rewrite (mon_run_sound8 c tr (init c) (trk_init c) 0); auto.
  apply RZ_init.
Qed.

Print Assumptions mon_C08_sound.
