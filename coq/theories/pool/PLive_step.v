(** Eventual completion — the key lemma: every enabled cooperative label strictly decreases the
    measure [mu2 = mu + 2 * psi], and preserves the ghost taint flags, the number of drivers and
    cleanliness.  Of the invariant only the clauses of [I5] about the current task are used (as
    for [step_decr]). *)
From TP Require Import PInv.
From TP Require Export PLive_def PLive_psi_m.

Unset Implicit Arguments.

(** ** every cooperative step preserves the taints, the number of drivers and cleanliness *)
Lemma coop_step_frame s l :
  I5 s -> enabled s l = true -> coop l = true ->
  frt (step s l) = frt s /\ frv (step s l) = frv s.
Proof.
  intros W Hen Hc. destruct l as [h| |o].
  - split; [|exact (proj1 (step_decr_D s (LRun h) W Hen eq_refl))].
    unfold step. set (s1 := set_res (set_evs s []) RNone).
    assert (E1 : enabled s1 (LRun h) = true) by exact Hen.
    rewrite E1. cbn [negb].
    assert (F2 : frt (unsched s1 h) = frt s) by reflexivity.
    destruct h as [[t|m|d]|d c]; cbn [run_handle].
    + rewrite frt_run_p. exact F2.
    + rewrite frt_run_m. exact F2.
    + rewrite (frd_frt _ _ (frd_run_d _ d)). exact F2.
    + rewrite (frd_frt _ _ (frd_run_g _ d c)). exact F2.
  - split; [|exact (proj1 (step_decr_D s LGo W Hen eq_refl))].
    unfold step. set (s1 := set_res (set_evs s []) RNone).
    assert (E1 : enabled s1 LGo = true) by exact Hen.
    rewrite E1. cbn [negb].
    change (ctl s1) with (ctl s).
    destruct (ctl s) as [|[t|m|d]]; try reflexivity.
    + rewrite frt_continue_p. reflexivity.
    + rewrite frt_continue_m. reflexivity.
  - unfold step. set (s1 := set_res (set_evs s []) RNone).
    assert (E1 : enabled s1 (LOp o) = true) by exact Hen.
    rewrite E1. cbn [negb].
    destruct o; try discriminate.
    + split; [rewrite frt_do_finish|rewrite frv_do_finish]; reflexivity.
    + split; [rewrite frt_do_release|rewrite frv_do_release]; reflexivity.
Qed.

Lemma frt_taints s s' :
  frt s' = frt s ->
  taint_size s' = taint_size s /\ taint_iter s' = taint_iter s /\ taint_self s' = taint_self s.
Proof. unfold frt. intros H. injection H. auto. Qed.

Lemma coop_step_clean s l :
  I5 s -> enabled s l = true -> coop l = true -> clean s -> clean (step s l).
Proof.
  intros W Hen Hc Hcl. destruct (coop_step_frame s l W Hen Hc) as [_ F].
  unfold clean. rewrite (frv_tu _ _ F). exact Hcl.
Qed.

(** ** internal moves never increase [psi] *)
Lemma psi_step_internal s l :
  enabled s l = true -> internal l = true -> psi (step s l) <= psi s.
Proof.
  intros Hen Hint. unfold step.
  set (s1 := set_res (set_evs s []) RNone).
  assert (E1 : enabled s1 l = true) by (destruct l; exact Hen).
  rewrite E1. cbn [negb].
  assert (M1 : psi s1 = psi s) by reflexivity.
  destruct l as [h| |o]; [| |discriminate].
  - assert (M2 : psi (unsched s1 h) = psi s) by reflexivity.
    destruct h as [[t|m|d]|d c]; cbn [run_handle].
    + pose proof (psi_run_p (unsched s1 (HT (TP t))) t). lia.
    + pose proof (psi_run_m (unsched s1 (HT (TM m))) m). lia.
    + rewrite (frd_psi _ _ (frd_run_d _ d)). lia.
    + rewrite (frd_psi _ _ (frd_run_g _ d c)). lia.
  - change (ctl s1) with (ctl s).
    destruct (ctl s) as [|[t|m|d]]; try lia.
    + pose proof (psi_continue_p s1 t). lia.
    + pose proof (psi_continue_m s1 m). lia.
Qed.

(** ** opening a gate: one more ready handle, one unit less in [psi] *)
Lemma gate_finish D s t h :
  enabled s (LOp (OpFinish t h)) = true ->
  muD D (step s (LOp (OpFinish t h))) <= muD D s + 1 /\
  psi (step s (LOp (OpFinish t h))) + 1 = psi s.
Proof.
  intros Hen. unfold step.
  set (s1 := set_res (set_evs s []) RNone).
  assert (E1 : enabled s1 (LOp (OpFinish t h)) = true) by exact Hen.
  rewrite E1. cbn [negb].
  assert (M1 : muD D s1 = muD D s) by reflexivity.
  assert (Q1 : psi s1 = psi s) by reflexivity.
  unfold do_op. cbn in Hen. change (get_p s1 t) with (get_p s t).
  destruct (get_p s t) as [x|] eqn:G; [|discriminate].
  assert (G1 : get_p s1 t = Some x) by exact G.
  destruct (p_pc x) eqn:Epc; try discriminate.
  set (x' := set_p_fin (set_p_fw x (Some FOk)) h).
  split.
  - pose proof (mu_sched D (put_p s1 t x') (HT (TP t))) as H1.
    pose proof (mu_put_p D s1 t x' G1) as H2.
    assert (H3 : phi_p D x' = phi_p D x) by reflexivity. lia.
  - rewrite psi_sched.
    pose proof (psi_put_p s1 t x' G1) as H2.
    assert (H3 : psi_p x' = 0 + psi_pc (p_pc x)) by reflexivity.
    assert (H4 : psi_p x = 1 + psi_pc (p_pc x)).
    { unfold psi_p, pend. rewrite Hen. reflexivity. }
    lia.
Qed.

Lemma gate_release D s t :
  enabled s (LOp (OpReleaseCb t)) = true ->
  muD D (step s (LOp (OpReleaseCb t))) <= muD D s + 1 /\
  psi (step s (LOp (OpReleaseCb t))) + 1 = psi s.
Proof.
  intros Hen. unfold step.
  set (s1 := set_res (set_evs s []) RNone).
  assert (E1 : enabled s1 (LOp (OpReleaseCb t)) = true) by exact Hen.
  rewrite E1. cbn [negb].
  assert (M1 : muD D s1 = muD D s) by reflexivity.
  assert (Q1 : psi s1 = psi s) by reflexivity.
  unfold do_op. cbn in Hen. change (get_p s1 t) with (get_p s t).
  destruct (get_p s t) as [x|] eqn:G; [|discriminate].
  assert (G1 : get_p s1 t = Some x) by exact G.
  set (x' := set_p_fw x (Some FOk)).
  assert (Hp : fut_pending (p_fw x) = true) by (destruct (p_pc x); try discriminate; exact Hen).
  split.
  - pose proof (mu_sched D (put_p s1 t x') (HT (TP t))) as H1.
    pose proof (mu_put_p D s1 t x' G1) as H2.
    assert (H3 : phi_p D x' = phi_p D x) by reflexivity. lia.
  - rewrite psi_sched.
    pose proof (psi_put_p s1 t x' G1) as H2.
    assert (H3 : psi_p x' = 0 + psi_pc (p_pc x)) by reflexivity.
    assert (H4 : psi_p x = 1 + psi_pc (p_pc x)).
    { unfold psi_p, pend. rewrite Hp. reflexivity. }
    lia.
Qed.

(** ** The key lemma *)
Lemma coop_decr s l :
  I5 s -> enabled s l = true -> coop l = true -> mu2 (step s l) < mu2 s.
Proof.
  intros W Hen Hc. destruct (coop_step_frame s l W Hen Hc) as [_ F].
  unfold mu2, mu. rewrite (frv_Dn _ _ F).
  destruct l as [h| |o].
  - pose proof (proj2 (step_decr_D s (LRun h) W Hen eq_refl)).
    pose proof (psi_step_internal s (LRun h) Hen eq_refl). lia.
  - pose proof (proj2 (step_decr_D s LGo W Hen eq_refl)).
    pose proof (psi_step_internal s LGo Hen eq_refl). lia.
  - destruct o; try discriminate.
    + destruct (gate_finish (Dn s) s tid h Hen). lia.
    + destruct (gate_release (Dn s) s tid Hen). lia.
Qed.
