(** Monitor soundness, C05 — the model side, spawners: the number of EvPull events of a map
    request so far ([r_pulls] in the tracker) versus the consumer's record. *)
From TP Require Import PMon PInv_R_base PStep_C_ev PStep_B_mr.
From TP Require Import PInv_Q_spawn.

Definition is_pull (m : nat) (e : event) : bool :=
  match e with EvPull r _ => Nat.eqb r m | _ => false end.

Definition npulls (m : nat) (es : list event) : nat := count (is_pull m) es.

(** the EvPull events of request [m] in [es] carry the numbers p, p+1, ... *)
Fixpoint pseq (p m : nat) (es : list event) : Prop :=
  match es with
  | [] => True
  | e :: t =>
      match e with
      | EvPull r n => if Nat.eqb r m then n = p /\ pseq (S p) m t else pseq p m t
      | _ => pseq p m t
      end
  end.

Lemma npulls_app m a b : npulls m (a ++ b) = npulls m a + npulls m b.
Proof. unfold npulls. apply count_app. Qed.

Lemma pseq_app p m a b : pseq p m (a ++ b) <-> pseq p m a /\ pseq (p + npulls m a) m b.
Proof.
  revert p. induction a as [|e a IH]; intros p; simpl.
  - rewrite Nat.add_0_r. tauto.
  - unfold npulls in *. simpl. destruct e; simpl; try (rewrite IH; rewrite ?Nat.add_0_r; tauto).
    destruct (Nat.eqb req m); simpl.
    + rewrite IH. replace (S p + count (is_pull m) a) with (p + S (count (is_pull m) a)) by lia. tauto.
    + rewrite IH. tauto.
Qed.

(** validity of a pulls count [p] for a consumer record *)
Definition PRv (p : nat) (y : mtask) : Prop :=
  match m_pc y with
  | MAtIter | MWaitMap | MWaitPool => p = S (m_idx y)
  | MNotStarted | MLoopHead => p = m_idx y
  | MDone => m_idx y <= p <= S (m_idx y) /\ (m_final y = Some OResult -> p = S (m_idx y))
  end.

Definition waiting_pc (pc : mpc) : Prop := pc = MAtIter \/ pc = MWaitMap \/ pc = MWaitPool.

Lemma PRv_waiting p y : waiting_pc (m_pc y) -> PRv p y -> p = S (m_idx y).
Proof. unfold PRv. intros [H|[H|H]]; rewrite H; auto. Qed.

(** outcome of the run of consumer [m] started with [p] pulls and no event yet: either no pull
    and a record for which [p] is still valid, or exactly one pull, numbered [p], and the
    consumer is at its iterator's user point with index [p] *)
Definition OUT (p m : nat) (s' : state) (x' : mtask) : Prop :=
  (evs s' = [] /\ PRv p x') \/
  (evs s' = [EvPull m p] /\ m_pc x' = MAtIter /\ m_idx x' = p).

Definition PB (p m : nat) (s' : state) : Prop :=
  forall x', get_m s' m = Some x' -> is_map x' = true -> OUT p m s' x'.

Lemma get_m_upd_self s s' m x' y :
  mtasks s' = upd (mtasks s) m x' -> get_m s' m = Some y -> y = x'.
Proof.
  intros E H. unfold get_m in H. rewrite E, nth_error_upd, Nat.eqb_refl in H.
  destruct (Nat.ltb m (length (mtasks s))); congruence.
Qed.

Lemma B_finish p m s x e :
  evs s = [] -> PRv p x -> (m_pc x = MNotStarted \/ m_pc x = MLoopHead -> e <> None) ->
  m_pc x <> MDone -> PB p m (finish_m s m x e).
Proof.
  intros Hs Hv He Hnd y Hy _. destruct (finish_m_fields s m x e) as [Em _].
  rewrite (get_m_upd_self _ _ _ _ _ Em Hy). left. rewrite ev_finish_m. split; [exact Hs|].
  unfold PRv in *. cbn [m_pc fin_x set_m_final set_m_pc set_m_mc set_m_fw m_idx m_final].
  assert (Hne : forall e', final_of (Some e') (m_mc x) <> OResult)
    by (intros e'; destruct e'; discriminate).
  destruct (m_pc x) eqn:Hpc.
  - split; [lia|]. intros Hf. exfalso. destruct e as [e'|]; [|apply He; auto].
    inversion Hf as [Hf']. eapply Hne; eauto.
  - split; [lia|]. intros Hf. exfalso. destruct e as [e'|]; [|apply He; auto].
    inversion Hf as [Hf']. eapply Hne; eauto.
  - split; [lia|auto].
  - split; [lia|auto].
  - split; [lia|auto].
  - congruence.
Qed.

Lemma B_suspend p m s x pc :
  evs s = [] -> PRv p x -> waiting_pc (m_pc x) -> pc = MWaitMap \/ pc = MWaitPool ->
  PB p m (suspend_m s m x pc).
Proof.
  intros Hs Hv Hw Hpc y Hy _. destruct (suspend_m_fields s m x pc) as [Em _].
  rewrite (get_m_upd_self _ _ _ _ _ Em Hy). left. rewrite ev_suspend_m. split; [exact Hs|].
  apply PRv_waiting in Hv; auto.
  unfold PRv, susp_x. destruct (m_mc x); cbn; destruct Hpc as [-> | ->]; exact Hv.
Qed.

Lemma evs_to_iter s m x :
  get_m s m = Some x -> evs (to_iter s m) = evs s ++ [EvPull m (m_idx x)].
Proof. intros H. unfold to_iter. rewrite H. reflexivity. Qed.

Lemma B_to_iter p m s x :
  get_m s m = Some x -> evs s = [] -> p = m_idx x -> PB p m (to_iter s m).
Proof.
  intros Hx Hs Hp y Hy _. destruct (to_iter_fields Hx) as [Em _].
  rewrite (get_m_upd_self _ _ _ _ _ Em Hy). right. rewrite (evs_to_iter _ _ _ Hx), Hs. subst p.
  split; [reflexivity|]. split; reflexivity.
Qed.

Lemma B_register_next p m s x :
  evs s = [] -> PRv p x -> waiting_pc (m_pc x) -> is_map x = true -> m < length (mtasks s) ->
  PB p m (spawn_next (register s m x) m).
Proof.
  intros Hs Hv Hw Hk Hlt.
  destruct (register_fields s m x) as (_ & R2 & _).
  assert (Hx' : get_m (register s m x) m = Some (reg_x x)).
  { unfold get_m. rewrite R2. apply nth_error_upd_eq. exact Hlt. }
  unfold spawn_next. rewrite Hx'.
  assert (Hkind : exists st, m_kind (reg_x x) = MMap st).
  { unfold is_map in Hk. cbn. destruct (m_kind x); try discriminate. eauto. }
  destruct Hkind as [st ->].
  eapply B_to_iter; [exact Hx'| |].
  - rewrite ev_register. exact Hs.
  - apply PRv_waiting in Hv; auto.
Qed.

Lemma B_start_then_next p m s x :
  evs s = [] -> PRv p x -> m_pc x = MAtIter \/ m_pc x = MWaitMap -> is_map x = true ->
  m < length (mtasks s) -> PB p m (start_then_next s m x).
Proof.
  intros Hs Hv Hpc Hk Hlt.
  assert (Hw : waiting_pc (m_pc x)) by (unfold waiting_pc; tauto).
  unfold start_then_next, try_start. destruct (closed s).
  - apply B_finish; auto.
    + intros _. discriminate.
    + destruct Hpc; congruence.
  - destruct (sem_locked s).
    + apply B_suspend; auto.
    + apply B_register_next; auto.
Qed.

Lemma PB_same p m s x :
  get_m s m = Some x -> evs s = [] -> PRv p x -> PB p m s.
Proof. intros Hx He Hv y Hy _. left. split; auto. congruence. Qed.

Lemma get_m_lt s m x : get_m s m = Some x -> m < length (mtasks s).
Proof. unfold get_m. intros H. apply nth_error_Some. congruence. Qed.

Lemma B_continue_m p m s x :
  get_m s m = Some x -> is_map x = true -> evs s = [] -> PRv p x -> PB p m (continue_m s m).
Proof.
  intros Hx Hk He Hv. pose proof (get_m_lt _ _ _ Hx) as Hlt.
  unfold continue_m. rewrite Hx.
  destruct (m_pc x) eqn:Hpc; try solve [eapply PB_same; eauto].
  destruct (nth_error (m_els x) (m_idx x)) as [e|].
  - destruct (e_bad e).
    + set (x' := set_m_idx x (S (m_idx x))).
      assert (Hx' : get_m (put_m s m x') m = Some x').
      { unfold get_m, put_m. cbn. apply nth_error_upd_eq. exact Hlt. }
      eapply B_to_iter; [exact Hx'|exact He|].
      unfold PRv in Hv. rewrite Hpc in Hv. cbn. exact Hv.
    + destruct (m_mapval x) as [|v].
      * apply B_suspend; auto. unfold waiting_pc; auto.
      * apply B_start_then_next; auto.
  - apply B_finish; auto; [|congruence].
    intros [E|E]; congruence.
Qed.

From TP Require Import PInv_Q_runm.

Lemma len_wake_next s : length (mtasks (wake_next s)) = length (mtasks s).
Proof.
  unfold wake_next. destruct (first_pending _ _); auto. destruct (get_m s n); auto.
  rewrite sched_mtasks. unfold put_m. cbn. apply upd_length.
Qed.

Lemma B_run_m p m s x0 :
  get_m s m = Some x0 -> is_map x0 = true -> evs s = [] -> PRv p x0 -> PB p m (run_m s m).
Proof.
  intros Hx Hk He Hv. pose proof (get_m_lt _ _ _ Hx) as Hlt.
  rewrite (run_m_eq Hx). cbv zeta. set (x := clr x0).
  assert (Hvx : PRv p x) by exact Hv.
  assert (Hkx : is_map x = true) by exact Hk.
  destruct (m_pc x0) eqn:Hpc; try solve [eapply PB_same; eauto].
  - (* MNotStarted *)
    destruct (task_input (m_mc x0) (m_fw x0)).
    + set (x1 := set_m_pc x MLoopHead).
      assert (Hx1 : get_m (put_m s m x1) m = Some x1).
      { unfold get_m, put_m. cbn. apply nth_error_upd_eq. exact Hlt. }
      unfold spawn_next. rewrite Hx1.
      assert (Hkind : exists st, m_kind x1 = MMap st).
      { unfold is_map in Hk. cbn. destruct (m_kind x0); try discriminate. eauto. }
      destruct Hkind as [st ->].
      eapply B_to_iter; [exact Hx1|exact He|].
      unfold PRv in Hv. rewrite Hpc in Hv. cbn. exact Hv.
    + apply B_finish; [exact He|exact Hvx|intros _; discriminate|change (m_pc x) with (m_pc x0); congruence].
    + apply B_finish; [exact He|exact Hvx|intros _; discriminate|change (m_pc x) with (m_pc x0); congruence].
  - (* MWaitMap *)
    assert (Hfin : forall x2, m_pc x2 = MWaitMap -> m_idx x2 = m_idx x0 ->
              PB p m (finish_m s m x2 None)).
    { intros x2 E1 E2. apply B_finish; auto; [| |congruence].
      - unfold PRv in *. rewrite E1, E2. rewrite Hpc in Hv. exact Hv.
      - intros [E|E]; congruence. }
    destruct (task_input (m_mc x0) (m_fw x0)).
    + apply B_start_then_next; auto.
    + destruct (match m_fw x0 with Some FCancelled => true | _ => false end); apply Hfin; auto.
    + destruct (match m_fw x0 with Some FCancelled => true | _ => false end); apply Hfin; auto.
  - (* MWaitPool *)
    set (s1 := put_m (set_sem_waiters s (remove1 m (sem_waiters s))) m x).
    assert (He1 : evs s1 = []) by exact He.
    assert (Hl1 : m < length (mtasks s1)) by (unfold s1, put_m; cbn; rewrite upd_length; exact Hlt).
    assert (Hw : waiting_pc (m_pc x)) by (right; right; exact Hpc).
    destruct (task_input (m_mc x0) (m_fw x0)).
    + apply B_register_next; auto.
      * destruct (ninf_pos (sem_value s1)); auto. rewrite ev_wake_next. exact He1.
      * destruct (ninf_pos (sem_value s1)); auto. rewrite len_wake_next. exact Hl1.
    + apply B_finish.
      * destruct (match m_fw x0 with Some FCancelled => true | _ => false end); auto.
        rewrite ev_sem_release. exact He1.
      * destruct (m_holds x); exact Hvx.
      * intros [E|E]; destruct (m_holds x); cbn in E; congruence.
      * destruct (m_holds x); cbn; congruence.
    + apply B_finish.
      * destruct (match m_fw x0 with Some FCancelled => true | _ => false end); auto.
        rewrite ev_sem_release. exact He1.
      * destruct (m_holds x); exact Hvx.
      * intros [E|E]; destruct (m_holds x); cbn in E; congruence.
      * destruct (m_holds x); cbn; congruence.
Qed.

(** consequences of [OUT] in the form used by the tracker lemmas *)
Lemma OUT_seq p m s' x' :
  OUT p m s' x' -> pseq p m (evs s') /\ PRv (p + npulls m (evs s')) x'.
Proof.
  intros [[E Hv]|(E & Hpc & Hi)]; rewrite E; unfold npulls; simpl.
  - rewrite Nat.add_0_r. auto.
  - rewrite Nat.eqb_refl. simpl. split; auto. unfold PRv. rewrite Hpc. lia.
Qed.
